"""C01 - Storage log replays to the last-writer-wins state.

spec/HydFile.tla (strict design + named deviations) checked exhaustively by TLC (every history of puts/deletes
over 2 keys x 2 values with every placement of block flushes, syncs, close/reopen), bound to the real
v2.FileWriter/FileReader and to the real chronicler by trace validation (binding A):
  * seeded random histories (key classes up to 65535/65536/70000 bytes, binary/empty keys, payloads 0 bytes..MBs,
    block sizes 64 B..1 MiB, session boundaries everywhere): every API call with its result and every
    LoadIndex / chronicler Load result is a trace line validated by TLC against Trace_HydFile;
  * every history of <= 2 (quick) / <= 4 (thorough) writes over a 2-key alphabet with every placement of
    nothing / sync / close+reopen, on the code side (small-scope exhaustive);
  * blocks of more than 65535 entries (16-bit entry count).
A history rejected by the strict spec is re-validated with the as-built spec (one open deviation at a time).
"""
import json, os, random
import vlib
import hydcommon as hc

FAMS = [(hc.FID_OF[d], [d]) for d in ["KeyLen16", "EmptyKey", "BlockCount16"]]


def open_devs(ctx):
    return hc.families_of(ctx, FAMS)


def validate_batch(ctx, binary, cfgs, name, kind, counters):
    """Runs the driver once per config (distinct id bases), concatenates the traces, classifies every history."""
    tf = os.path.join(ctx.work, name + "-all.ndjson")
    hists, cfg_of = [], {}
    with open(tf, "w") as out:
        for i, cfg in enumerate(cfgs):
            cfg = dict(cfg)
            cfg.setdefault("idbase", i * 10000000)
            t1, h1, _ = hc.run_driver(ctx, binary, cfg, "%s-%d" % (name, i))
            out.write(open(t1).read())
            os.remove(t1)
            for h in h1:
                cfg_of[h["id"]] = cfg
            hists += h1
    res, blocks, st = hc.classify(ctx, tf, open_devs(ctx), name)
    n = hc.report(ctx, res, blocks, hists, name, kind, cfg_of)
    ctx.cov["traces_validated_against_impl"] += st["histories"]
    ctx.extra["trace_lines"] = ctx.extra.get("trace_lines", 0) + st["lines"]
    for k in n:
        counters[k] = counters.get(k, 0) + n[k]
    for h in hists:
        steps = h["steps"]
        nontrivial = any(s["ev"] == "put" and s.get("op") == "del" for s in steps) and \
            sum(1 for s in steps if s["ev"] == "open") >= 2
        ctx.count_case([h["level"], h["block"], h["named"], h["keys"], h["payloads"], steps], nontrivial=nontrivial)
    os.remove(tf)
    return hists, blocks, res


def run(ctx):
    thorough = ctx.tier == "thorough"
    rng = random.Random(ctx.seed)
    ctx.assumptions += [
        "snappy compression round-trips (C24's contract); payload equality is judged on a SHA-1 of the bytes",
        "the chronicler level is driven with one record per Write call; records carry non-empty byte-array contents (typed zero values belong to C05)",
        "file operations of one call are modelled as internal steps; the exhaustive model chooses block flushes freely instead of computing them from byte sizes",
    ]
    binary = ctx.go_build("hydfile")
    counters = {}

    if ctx.replay:
        rp = json.load(open(ctx.replay))["replay"]
        cfg = dict(rp.get("config") or {})
        cfg["replay"] = rp["history"]
        cfg["mode"] = "plain"
        cfg["idbase"] = 0
        validate_batch(ctx, binary, [cfg], "replay", "replayed history", counters)
        ctx.cov["rule"] = "replay of one recorded history"
        ctx.sample(dict(kind="replay", counters=counters))
        # the exhaustive run still provides the state counts of the evidence
        r = ctx.tlc_expect_ok("MC_HydFile", cfg_text=hc.mc_cfg(2, 3), workers=8, deadlock=False, name="mc-strict-small", timeout=3600)
        return

    # 1. the strict design satisfies the property (exhaustive, every flush placement)
    mw, mcalls = (4, 4) if thorough else (3, 4)
    r = ctx.tlc("MC_HydFile", cfg_text=hc.mc_cfg(mw, mcalls), workers=16, deadlock=False, name="mc-strict",
                timeout=7200, coverage=False)
    if not r.ok:
        raise vlib.Inconclusive("strict HydFile spec does not satisfy its own properties: %s %s\n%s" % (r.violated, r.error, r.out[-2000:]))
    ctx.extra["mc_strict"] = r.summary()
    r = ctx.tlc("MC_HydFile", cfg_text=hc.mc_cfg(3, 3, badkeys=True, cntlimit=2), workers=16, deadlock=False,
                name="mc-strict-badkey-cnt2", timeout=7200, coverage=thorough)
    if not r.ok:
        raise vlib.Inconclusive("strict HydFile spec (unencodable key, entry-count limit 2) violated: %s %s\n%s" % (r.violated, r.error, r.out[-2000:]))
    if thorough and r.coverage_zero:
        ctx.extra["coverage_zero"] = r.coverage_zero[:12]
    # non-vacuity: each C01 deviation violates an invariant at model level
    wit = {}
    for dev, kw in (("KeyLen16", dict(badkeys=True)), ("BlockCount16", dict(cntlimit=2))):
        rw = ctx.tlc("MC_HydFile", cfg_text=hc.mc_cfg(3, 3, dev=[dev], **kw), workers=4, deadlock=False,
                     name="mc-asbuilt-" + dev, count_states=False, timeout=3600)
        if rw.ok or not rw.violated:
            raise vlib.Inconclusive("as-built HydFile spec with %s satisfies every invariant: vacuous (%s)" % (dev, rw.error))
        wit[dev] = rw.violated
    ctx.extra["asbuilt_witness_violates"] = wit

    # 2. binding A on the real FileWriter/FileReader and the real chronicler: random histories, every history
    #    of few writes over 2 keys (small-scope exhaustive on the code side), blocks of > 65535 entries
    groups = 3 if thorough else 1
    keep0 = None
    for g in range(groups):
        cfgs = [dict(seed=ctx.seed * 1000003 + 10 * g + b, mode="plain", level="both", count=120 if thorough else 100,
                     maxops=40 if thorough else 24, bad=30, big=thorough and b == 0) for b in range(2 if thorough else 1)]
        if g == 0:
            cfgs.append(dict(seed=ctx.seed, mode="small", level="both", maxops=3 if thorough else 2))
            # the same with the engine's reserved names ("__swamp_meta__", "__swamp_metadata__") and with keys that
            # are prefixes of each other as ordinary record keys
            cfgs.append(dict(seed=ctx.seed, mode="small", level="both", maxops=2, keyset=1))
            cfgs.append(dict(seed=ctx.seed, mode="small", level="both", maxops=2, keyset=2))
            cfgs.append(dict(seed=ctx.seed, mode="bulk"))
        if g == 1:   # long chronicler sessions: more than 100 entries, the inline compaction rewrites the file
            cfgs.append(dict(seed=ctx.seed + 77, mode="plain", level="ch", count=8, maxops=400, bad=0))
        hists, blocks, res = validate_batch(ctx, binary, cfgs, "hist-%d" % g, "history", counters)
        if g == 0:
            hid = hists[0]["id"]
            ctx.sample(dict(kind="recorded history (first lines)", history=dict(level=hists[0]["level"], block=hists[0]["block"],
                            keys=hists[0]["keys"], payloads=hists[0]["payloads"]),
                            lines=[json.loads(x) for x in blocks[hid][:7]]))
            keep0 = (hists, blocks)
            bulk = [h["id"] for h in hists if h["block"] == 1 << 20 and any(s.get("rep", 0) == 65534 for s in h["steps"])]
            if bulk:
                ctx.sample(dict(kind="65536 entries in one 1 MiB block", lines=[json.loads(x) for x in blocks[bulk[0]][3:7]],
                                verdict=str(sorted(res[("h", bulk[0])] or ["UNEXPLAINED"]) if res[("h", bulk[0])] != "strict" else "strict")))
    ctx.extra["small_scope_max_writes"] = 3 if thorough else 2
    if thorough:
        # every history of 4 writes (first write fixed up to key/value symmetry), FileWriter level, in 4 partitions
        cfgs = [dict(seed=ctx.seed, mode="small", level="fw", minops=4, maxops=4, reduced=True, part=p, parts=4, idbase=0)
                for p in range(4)]
        validate_batch(ctx, binary, cfgs, "small4", "small-scope history", counters)
        ctx.extra["small_scope_max_writes"] = 4

    ctx.extra["units"] = counters

    # 5. binding self-test: a corrupted observation and a dropped write must be rejected
    if thorough:
        hists, blocks = keep0
        hists = [h for h in hists if h["id"] < 10000000]
        good = [h["id"] for h in hists if all(k.split(":")[0] not in ("over", "over1", "overz", "empty") for k in h["keys"])]
        picked = None
        for hid in good:
            lines = blocks[hid]
            loads = [i for i, x in enumerate(lines) if '"ev":"load"' in x and any(v != 0 for v in json.loads(x)["m"])]
            puts = [i for i, x in enumerate(lines) if '"ev":"put"' in x and '"op":"del"' not in x]
            if loads and puts:
                picked = (hid, loads[-1], puts)
                break
        if picked is None:
            raise vlib.Inconclusive("binding self-test: no suitable history")
        hid, li, puts = picked
        lines = list(blocks[hid])
        e = json.loads(lines[li])
        idx = max(i for i, v in enumerate(e["m"]) if v != 0)
        e["m"][idx] += 1
        bad = {hid: lines[:li] + [json.dumps(e) + "\n"] + lines[li + 1:]}
        p1 = os.path.join(ctx.work, "selftest-corrupt.ndjson")
        hc.write_blocks(p1, bad)
        _, acc = hc.validate(ctx, p1, (), "selftest-corrupt")
        ctx.extra["selftest_corrupt_rejected"] = ("h", hid) not in acc
        # drop the last put that is still visible in the final load
        final = json.loads(lines[li])["m"]
        cand = [i for i in puts if i < li and final[json.loads(lines[i])["k"] - 1] == json.loads(lines[i])["v"]]
        ok2 = True
        if cand:
            di = cand[-1]
            p2 = os.path.join(ctx.work, "selftest-drop.ndjson")
            hc.write_blocks(p2, {hid: lines[:di] + lines[di + 1:]})
            _, acc2 = hc.validate(ctx, p2, (), "selftest-drop")
            ok2 = ("h", hid) not in acc2
            ctx.extra["selftest_dropped_event_rejected"] = ok2
        if ("h", hid) in acc or not ok2:
            raise vlib.Inconclusive("binding self-test failed: a corrupted trace was accepted")

    ctx.cov["rule"] = ("cases = recorded histories of the real FileWriter/FileReader and chronicler validated line by line by TLC "
                       "against Trace_HydFile; non-trivial = history with >= 1 delete and >= 2 open sessions, distinct by input")
    ctx.cov["exhaustive"] = True
