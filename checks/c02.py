"""C02 - Crash at any point never loses durable data or the swamp.

spec/HydFile.tla with Crash(tear): TLC checks the strict design exhaustively (every cut between two file
operations and every torn operation: torn file header / swamp name at creation, torn block header, torn block
payload, torn in-place header rewrite; second crash after recovery) for NoTornFailure, FlushBoundary (recovered
state = some flush boundary at or after the last completed sync), DurableReadable and Consistent after recovery.

Binding (B -> A): the verif FileOp hook records the real writer's operation log (kind, offset, bytes) for seeded
histories on the real v2.FileWriter and on the real chronicler.  EVERY cut of that log is materialised: each
operation boundary, and for each write every byte prefix (all offsets up to `maxall` bytes, a boundary-aware sample
above).  Each image is loaded with the real FileReader / chronicler Load; for the boundaries and three offsets per
torn write the recovery script (reopen, two writes, sync, load, delete, close, load) runs on the real code.  The
observations are attached to the trace line of the interrupted call and TLC validates every cut as a branch of the
history: call, n FileSteps, Crash(tear), observed load = Load(disk'), then the recovery lines.
"""
import concurrent.futures, json, os
import vlib
import hydcommon as hc

FAMS = [(hc.FID_OF[d], [d]) for d in ["TornTailFails", "AppendAfterTorn", "TornCreate"]]


def open_devs(ctx):
    return hc.families_of(ctx, FAMS)


def run(ctx):
    thorough = ctx.tier == "thorough"
    ctx.assumptions += [
        "crash model of the property: the file holds a prefix of the engine's own operation log plus a byte prefix of the write in flight; a completed fsync makes everything before it durable; no reordering of unsynced writes",
        "the recovery script runs for every operation boundary, every byte length of a torn block header and the first / middle / last materialised offset of every other torn write; all other offsets are loaded only",
        "as built, a load behind appended garbage takes arbitrary bytes for a block header and allocates up to 4 GiB: when the harness sees such a header it runs the real load in a child process limited to 1.5 GiB of address space and counts its out-of-memory death as a failed load",
        "compaction itself is not modelled (C03 decides its crash atomicity): cuts inside a compaction must show the unchanged logical state; they are taken as log prefixes and as power-loss images (per file only the bytes present at its last fsync; create/rename/remove in log order)",
    ]
    binary = ctx.go_build("hydfile")
    counters = {}

    if ctx.replay:
        rp = json.load(open(ctx.replay))["replay"]
        ctx.tlc_expect_ok("MC_HydFile", cfg_text=hc.mc_cfg(2, 3, maxcrash=1), workers=8, deadlock=False, name="mc-strict-small", timeout=3600)
        cfgs = [dict(seed=1, mode="crash", level="both", maxall=rp.get("config", {}).get("maxall", 16), replay=rp["history"], idbase=0)]
    else:
        # 1. the strict design satisfies the property for every cut (exhaustive)
        mw, mc, mcr = (4, 4, 1) if thorough else (3, 4, 1)
        r = ctx.tlc("MC_HydFile", cfg_text=hc.mc_cfg(mw, mc, maxcrash=mcr), workers=16, deadlock=False, name="mc-strict-crash",
                    timeout=10800, coverage=False)
        if not r.ok:
            raise vlib.Inconclusive("strict HydFile spec violates %s under crashes: %s\n%s" % (r.violated, r.error, r.out[-2000:]))
        ctx.extra["mc_strict_crash"] = r.summary()
        r = ctx.tlc("MC_HydFile", cfg_text=hc.mc_cfg(3 if thorough else 2, 4 if thorough else 3, maxcrash=2, named=False), workers=16, deadlock=False,
                    name="mc-strict-2crashes", timeout=10800, coverage=thorough)
        if not r.ok:
            raise vlib.Inconclusive("strict HydFile spec violates %s with two crashes: %s\n%s" % (r.violated, r.error, r.out[-2000:]))
        if thorough and r.coverage_zero:
            ctx.extra["coverage_zero"] = r.coverage_zero[:12]
        wit = {}
        for dev, kw in (("TornTailFails", dict(maxcrash=1)), ("AppendAfterTorn", dict(maxcrash=1)), ("TornCreate", dict(maxcrash=1))):
            rw = ctx.tlc("MC_HydFile", cfg_text=hc.mc_cfg(2, 4, dev=[dev], **kw), workers=4, deadlock=False,
                         name="mc-asbuilt-" + dev, count_states=False, timeout=3600)
            if rw.ok or not rw.violated:
                raise vlib.Inconclusive("as-built HydFile spec with %s satisfies every invariant: vacuous (%s)" % (dev, rw.error))
            wit[dev] = rw.violated
        ctx.extra["asbuilt_witness_violates"] = wit
        nproc = 6 if thorough else 3
        cfgs = [dict(seed=ctx.seed * 7919 + i, mode="crash", level="fw" if i % 2 == 0 else "ch", count=(4 if thorough else 1),
                     maxops=(14 if thorough else 7), bad=0, maxall=(4096 if thorough and i < 2 else 64 if thorough else 6),
                     idbase=i * 1000) for i in range(nproc)]

    if not ctx.replay:
        # the compaction path: a chronicler history that reaches the inline compaction; cuts inside the compaction
        # (temporary file, rename) as log prefixes AND as power loss (unsynced bytes of every file dropped)
        cfgs.append(dict(seed=ctx.seed, mode="crash", compact=True, count=1, maxall=6, idbase=900))

    # 2. every cut of the real operation log, materialised, loaded, recovered: several driver processes in parallel
    def one(i_cfg):
        i, cfg = i_cfg
        return hc.run_driver(ctx, binary, cfg, "crash-%d" % i, timeout=14400)
    with concurrent.futures.ThreadPoolExecutor(max_workers=len(cfgs)) as ex:
        outs = list(ex.map(one, enumerate(cfgs)))
    tf = os.path.join(ctx.work, "crash-all.ndjson")
    hists, stats = [], {}
    with open(tf, "w") as out:
        for t1, h1, st in outs:
            out.write(open(t1).read())
            os.remove(t1)
            hists += h1
            for k, v in st.items():
                stats[k] = stats.get(k, 0) + v
    ctx.extra["driver"] = stats
    res, blocks, st = hc.classify(ctx, tf, open_devs(ctx), "crash")
    n = hc.report(ctx, res, blocks, hists, "crash", "crash cut", dict(mode="crash", maxall=16))
    ctx.extra["units"] = n
    ctx.extra["trace"] = st
    ctx.cov["traces_validated_against_impl"] += st["cuts"] + st["histories"]
    byclass = {}
    for u, v in res.items():
        if u[0] != "c":
            continue
        cut = json.loads(blocks[u[1]][u[2]])["cuts"][u[3] - 1]
        key = "%s/%s" % (cut["op"], cut["tear"])
        verdict = v if v == "strict" else ("+".join(sorted(v)) if v else "UNEXPLAINED")
        byclass.setdefault(key, {}).setdefault(verdict, 0)
        byclass[key][verdict] += 1
        ctx.count_case([u[1], u[2], cut["op"], cut["idx"], cut["tear"], cut["lerr"], cut["lm"]], nontrivial=cut["tear"] == "part" or cut["op"] in ("pay", "hdr", "shdr", "chdr"))
        ctx.cov["evaluations"] += cut["n"] - 1
        if cut["tear"] == "part" and cut["op"] == "pay" and len(ctx.cov["samples"]) < 2:
            ctx.sample(dict(kind="crash cut inside a block payload (real code)", history=u[1], cut={k: cut[k] for k in ("op", "idx", "tear", "n", "lerr", "lm")},
                            recovery=[(x["ev"], x.get("res", x.get("err")), x.get("m", "")) for x in cut["rec"]], verdict=verdict))
    ctx.extra["cuts_by_class"] = byclass
    if not st["cuts"]:
        raise vlib.Inconclusive("no crash cut was produced")

    # 3. binding self-test (thorough): a cut whose observed load is altered must be rejected
    if thorough and not ctx.replay:
        pick = None
        for u, v in res.items():
            if u[0] == "c" and v == "strict":
                e = json.loads(blocks[u[1]][u[2]])
                c = e["cuts"][u[3] - 1]
                if any(c["lm"]):
                    pick = (u, e)
                    break
        if pick:
            u, e = pick
            c = e["cuts"][u[3] - 1]
            i = max(k for k, x in enumerate(c["lm"]) if x)
            c["lm"][i] = 0
            e["cuts"] = [c]
            lines = list(blocks[u[1]])
            lines[u[2]] = json.dumps(e) + "\n"
            p = os.path.join(ctx.work, "selftest.ndjson")
            hc.write_blocks(p, {u[1]: lines})
            _, acc = hc.validate(ctx, p, (), "selftest-corrupt-cut")
            rejected = ("c", u[1], u[2], 1) not in hc.accepted_units({u[1]: lines}, acc)
            ctx.extra["selftest_corrupt_cut_rejected"] = rejected
            if not rejected:
                raise vlib.Inconclusive("binding self-test failed: a cut with a lost durable record was accepted")
    ctx.cov["rule"] = ("cases = crash cuts of the real writer's operation log (operation boundary or distinct outcome of a torn write), each loaded "
                       "and recovered on the real code and validated by TLC as a branch Crash(tear) of the recorded history; evaluations add the "
                       "byte offsets merged into one case; non-trivial = torn write or cut inside a flush")
    ctx.cov["exhaustive"] = True
