"""C03 - Compaction never changes the stored state.

spec/Compaction.tla + TLC (exhaustive: every history of <= 3 writes over 2 keys, 45 leftover temp files, six
entry points, every step, every crash point incl. power failure; a crash's leftovers are the next run's stale
temp file) + binding to the real code:
  (B) scenarios drawn from the model's own universe (Gen_Compaction) are concretised as real files (histories
      repeated until they cross the thresholds, real leftover .compact files incl. torn ones) and run through
      EVERY real entry point (chronicler Write/Close/Load/ForceCompaction, Compactor API, CompactFromIndex, the
      hydraidectl compact path); from the FileOp operation log every crash cut is materialised as an image and
      loaded by the real reader and the real chronicler, and compacted again by the command-line path;
  (A) the whole thing is written as a trace and validated by TLC against the spec (Trace_Compaction): every
      observed LoadIndex result must equal the spec's Load(main), and the C03 invariants must hold at each line.
A scenario the strict spec rejects but the as-built spec (Dev = StaleTempAppend) accepts is the known finding.
"""
import json, math, os, random, shutil, threading
import vlib

DEV = "StaleTempAppend"
FID = "D_C03_StaleTempAppend"

EPS = '{"inline", "close", "load", "forced", "cli", "api"}'


def mc_cfg(appends, runs, dev, invs, eps=EPS):
    return """SPECIFICATION Spec
CONSTANTS
  Keys = {1, 2}
  EntryPoints = %s
  NoCleanup = {"cli", "api"}
  Dev = %s
  MaxAppends = %d
  MaxRuns = %d
  StaleTemps <- MCStaleTemps
CONSTRAINT Bounded
VIEW view
INVARIANTS %s
""" % (eps, '{"%s"}' % dev if dev else "{}", appends, runs, invs)


ALLINV = "CompactionPreserves CrashAtomic IntactDuringRun TempOnlyLive RenameOnlyDurable"
NAMES = ["", "a/b/c", "verif/compaction/árvíztűrő-測試-" + "n" * 40]

# committed witnesses of the known finding (always replayed)
WITNESSES = [
    dict(ep="cli", via="swamp", hist=[[1, 1], [1, 0], [2, 2]], stale=dict(kind="whole", ents=[[1, 1]]), note="deleted key comes back"),
    dict(ep="cli", via="swamp", hist=[[1, 1], [1, 2]], stale=dict(kind="whole", ents=[[1, 1]]), note="old value of a live key (masked)"),
    dict(ep="cli", via="swamp", hist=[[1, 1], [2, 2], [2, 0]], stale=dict(kind="torn", ents=[[1, 1]], tear="payload"), note="torn leftover: swamp destroyed"),
    dict(ep="api", via="compact", hist=[[1, 1], [2, 1], [1, 0]], stale=dict(kind="whole", ents=[[1, 2], [2, 2]]), note="public Compactor API"),
    dict(ep="cli", via="pool", hist=[[1, 2], [1, 0]], stale=dict(kind="whole", ents=[[1, 2]]), note="worker pool of hydraidectl compact"),
]


def make_scenarios(ctx, uni, rng, n, thorough):
    scs = []

    def finish(sc, follow, cuts):
        L = len(sc["hist"])
        if sc["ep"] == "forced":
            sc["rep"] = rng.randint(2, max(2, 90 // L))           # stays below the 100-entry inline minimum
        else:
            sc["rep"] = int(math.ceil(104.0 / L)) + rng.randint(0, 12)
        sc.setdefault("block", rng.choice([64, 512, 512, 4096, 4096, 4096, 16384, 16384]))
        sc.setdefault("pad", rng.choice([0, 0, 40, 400, 1500]))
        sc.setdefault("threshold", rng.choice([0.05, 0.2, 0.3, 0.3, 0.5]))
        sc.setdefault("name", rng.choice(NAMES))
        sc.setdefault("config", rng.random() < 0.4)
        sc["cuts"] = cuts
        sc["follow"] = follow
        # I/O errors / short writes injected at single temp-file operations (the runs on files at rest can be repeated)
        sc["faults"] = (6 if thorough else 4) if sc["ep"] in ("cli", "api", "load") and len(scs) % 2 == 0 else 0
        sc["seed"] = rng.randint(1, 2 ** 31)
        sc["id"] = len(scs) + 1
        scs.append(sc)

    for w in WITNESSES:
        sc = dict(ep=w["ep"], via=w["via"], hist=w["hist"], stale=dict(w["stale"]), threshold=0.2, name="a/b/c", block=4096, pad=40, note=w["note"])
        finish(sc, 0, 6 if not thorough else -1)
    vias = dict(cli=["swamp", "swamp", "pool"], api=["compact", "force", "ifneeded", "dir"], load=["chron", "chron", "fromindex", "v2file"],
                inline=[""], close=[""], forced=[""])
    eps = sorted(uni["eps"])
    for i in range(n):
        ep = eps[i % len(eps)] if i < 4 * len(eps) else rng.choice(eps)
        hist = [list(e) for e in rng.choice(uni["hists"])]
        st = rng.choice(uni["stales"]) if rng.random() < 0.85 else dict(ex=False, hdr=0, ents=[])
        # the model's two keys / two values become arbitrary real keys and values
        kmap = dict(zip([1, 2], rng.sample(range(1, 15), 2)))
        vmap = {0: 0, 1: rng.randint(1, 40), 2: rng.randint(41, 80)}
        hist = [[kmap[k], vmap[v]] for k, v in hist]
        # wide variants: more live keys, so that the temp file has several blocks
        if rng.random() < 0.4:
            extra = [k for k in range(1, 15) if k not in kmap.values()]
            rng.shuffle(extra)
            for k in extra[:rng.randint(1, 6)]:
                hist.insert(rng.randint(0, len(hist)), [k, rng.randint(81, 99)])
        ents = [[kmap[e[0]], vmap[e[1]]] for e in st["ents"] if e[0] != 0]
        torn = [e[1] for e in st["ents"] if e[0] == 0]
        if not st["ex"]:
            stale = dict(kind="none")
        elif st["hdr"] == 0:
            stale = dict(kind=rng.choice(["zero", "short", "garbage"]))
        elif st["hdr"] == 1:
            stale = dict(kind="hdronly")
        elif torn:
            stale = dict(kind="torn", ents=ents, tear="blockhdr" if torn[0] == 1 else "payload")
        else:
            stale = dict(kind="whole", ents=ents)
        sc = dict(ep=ep, via=rng.choice(vias[ep]), hist=hist, stale=stale)
        if ep == "forced":
            sc["threshold"] = 0.3
        follow = rng.choice([25, 50]) if i % 4 == 3 else 0
        cuts = (rng.choice([-1, 24]) if thorough else rng.choice([6, 10]))
        if ep in ("inline",) and cuts < 0:
            cuts = 24
        finish(sc, follow, cuts)
    return scs


def validate(ctx, tfile, dev, name):
    ok, r = ctx.validate_trace("Trace_Compaction", "Trace_Compaction", tfile, dev=dev, name=name, timeout=5000, heap="6g")
    if not ok:
        raise vlib.Inconclusive("trace validation run %s did not complete: %s %s" % (name, r.violated, (r.error or "")[:500]))
    acc = set()
    for ln in r.printed:
        try:
            o = json.loads(ln) if isinstance(ln, str) else ln
            if isinstance(o, dict) and "ok" in o:
                acc.add(o["ok"])
        except Exception:
            pass
    return acc


def split_trace(path):
    """scenario id -> list of lines"""
    out, cur = {}, []
    for ln in open(path):
        cur.append(ln)
        if '"ev":"done"' in ln:
            out[json.loads(ln)["id"]] = cur
            cur = []
    return out


def run(ctx):
    thorough = ctx.tier == "thorough"
    rng = random.Random(ctx.seed * 1000003 + 3)
    ctx.assumptions += [
        "crash model: a prefix of the compactor's own operation log (FileOp hook) plus a byte prefix of the write in flight; process death keeps everything written, power failure keeps what was fsynced (rename is atomic and durable)",
        "appends between compactions are modelled as durable (the writer is C01/C02's subject)",
        "values are identified by the string content of the stored treasure; keys and values are interned to small integers for TLC",
    ]
    binary = ctx.go_build("compaction")

    # 1. the strict design satisfies the property, exhaustively
    # (Gen_Compaction = MC_Compaction + an ASSUME that prints the scenario universe: one JVM run does both)
    r = ctx.tlc("Gen_Compaction", cfg_text=mc_cfg(3 if thorough else 2, 2, None, ALLINV, eps=EPS if thorough else '{"inline", "load", "cli"}'),
                name="mc-strict", deadlock=False,
                coverage=thorough, timeout=3000, workers=8)
    if not r.ok:
        raise vlib.Inconclusive("strict Compaction spec does not satisfy its own properties: %s %s" % (r.violated, (r.error or "")[:800]))
    ctx.extra["mc_strict"] = r.summary()
    if thorough and r.coverage_zero:
        ctx.extra["coverage_zero"] = r.coverage_zero[:10]
    # non-vacuity: with the deviation switched on TLC must find the resurrection
    r2 = ctx.tlc("MC_Compaction", cfg_text=mc_cfg(2, 1, DEV, "CompactionPreserves CrashAtomic", eps='{"load", "cli"}'),
                 name="mc-asbuilt-witness", deadlock=False, count_states=False, timeout=1500)
    if r2.ok or r2.violated not in ("CompactionPreserves", "CrashAtomic"):
        raise vlib.Inconclusive("as-built Compaction spec (StaleTempAppend) does not violate CompactionPreserves: %s %s" % (r2.violated, (r2.error or "")[:400]))
    ctx.extra["asbuilt_witness_violates"] = r2.violated
    ctx.extra["asbuilt_witness_uses_OpenAppend"] = "OpenAppend" in r2.out

    # 2. scenario universe from the model
    rg = r
    uni = None
    for ln in rg.printed:
        o = json.loads(ln) if isinstance(ln, str) else ln
        if isinstance(o, dict) and "hists" in o:
            uni = o
    if not rg.ok or uni is None:
        raise vlib.Inconclusive("scenario universe export failed: %s" % (rg.error or rg.violated))
    ctx.extra["universe"] = dict(histories=len(uni["hists"]), stale_temp_files=len(uni["stales"]), entry_points=len(uni["eps"]))

    if ctx.replay:
        rp = json.load(open(ctx.replay))["replay"]
        scs = [rp["scenario"]]
        scs[0]["id"] = 1
    else:
        scs = make_scenarios(ctx, uni, rng, 260 if thorough else 30, thorough)
    nchunks = min(4 if thorough else 2, len(scs))
    chunks = [scs[i::nchunks] for i in range(nchunks)]
    byid = {s["id"]: s for s in scs}

    results, strict_ok, asbuilt_ok, lines_total = {}, set(), set(), [0]
    errs = []

    def work(ci):
        try:
            wd = os.path.join(ctx.work, "chunk-%d" % ci)
            os.makedirs(wd, exist_ok=True)
            sf, tf, rf = [os.path.join(wd, x) for x in ("scenarios.json", "trace.ndjson", "results.ndjson")]
            json.dump(chunks[ci], open(sf, "w"))
            ctx.run_driver(binary, ["run", sf, tf, rf], timeout=3000, env={"VERIF_WORK": wd})
            for ln in open(rf):
                o = json.loads(ln)
                results[o["id"]] = o
        except BaseException as ex:
            errs.append(ex)

    ths = [threading.Thread(target=work, args=(i,)) for i in range(nchunks)]
    for t in ths:
        t.start()
    for t in ths:
        t.join()
    for ex in errs:
        raise ex
    # one trace file (scenario ids are global), one JVM per validation
    alltrace = os.path.join(ctx.work, "trace-all.ndjson")
    with open(alltrace, "w") as out:
        for ci in range(nchunks):
            for ln in open(os.path.join(ctx.work, "chunk-%d" % ci, "trace.ndjson")):
                out.write(ln)
                lines_total[0] += 1
    strict_ok.update(validate(ctx, alltrace, "", "trace-strict"))
    if len(strict_ok) < len(scs):
        asbuilt_ok.update(validate(ctx, alltrace, DEV, "trace-asbuilt"))
    if set(results) != set(byid):
        raise vlib.Inconclusive("driver returned results for %d of %d scenarios" % (len(results), len(byid)))

    images = follows = faults = 0
    nknown = nharm = 0
    for sid, sc in sorted(byid.items()):
        res = results[sid]
        if res.get("notes"):
            raise vlib.Inconclusive("driver problem in scenario %d: %s" % (sid, res["notes"]))
        images += res["images"]
        follows += res["follows"]
        faults += res.get("faults", 0)
        key = [sc["ep"], sc["via"], sc["stale"].get("kind"), sc["hist"], sc["stale"].get("ents")]
        ctx.count_case(key, nontrivial=(sc["stale"].get("kind") != "none" or res["images"] > 0))
        ctx.cov["traces_validated_against_impl"] += 1
        if sid in strict_ok:
            continue
        harm = res.get("harm") or []
        what = "compaction via %s/%s with leftover temp file %s on history %s x%d: trace rejected by the strict spec" % (
            sc["ep"], sc["via"], json.dumps(sc["stale"]), json.dumps(sc["hist"]), sc["rep"])
        if harm:
            what += "; observed: " + harm[0]
        if sid in asbuilt_ok:
            nknown += 1
            nharm += 1 if harm else 0
            if ctx.deviation(FID, what, dict(kind="scenario", scenario=sc, harm=harm[:5])) == "known" and harm and \
                    "observed" not in ctx.known_seen.get(FID, ""):
                ctx.known_seen[FID] = what
        else:
            ctx.deviation(None, what + " and not explained by " + DEV, dict(kind="scenario", scenario=sc, harm=harm[:5]))
    ctx.cov["evaluations"] += images + follows + faults
    ctx.extra.update(scenarios=len(scs), crash_images=images, followup_cli_compactions=follows, fault_injected_runs=faults, trace_lines=lines_total[0],
                     scenarios_accepted_by_strict=len(strict_ok), scenarios_known_finding=nknown,
                     known_finding_scenarios_with_visible_damage=nharm)
    ctx.sample(dict(kind="scenario", scenario={k: v for k, v in scs[0].items()}))
    ctx.sample(dict(kind="scenario", scenario={k: v for k, v in scs[-1].items()}))

    # 3. binding self-test: a falsified observation / a dropped step must be rejected
    if thorough and not ctx.replay and strict_ok:
        for ci in range(1):
            parts = split_trace(alltrace)
            cand = [sid for sid in parts if sid in strict_ok and any('"ev":"write"' in l for l in parts[sid])
                    and any('"ev":"end"' in l and '"after":[[' in l for l in parts[sid])]
            if not cand:
                continue
            sid = cand[0]
            lines = parts[sid]
            bad1, done = [], False
            for l in lines:
                if not done and '"ev":"end"' in l and '"after":[[' in l:
                    e = json.loads(l)
                    e["after"][0][1] += 1
                    l = json.dumps(e, separators=(",", ":")) + "\n"
                    done = True
                bad1.append(l)
            wi = [i for i, l in enumerate(lines) if '"ev":"write"' in l][0]
            bad2 = lines[:wi] + lines[wi + 1:]
            for tag, bad in (("falsified", bad1), ("dropped", bad2)):
                p = os.path.join(ctx.work, "selftest-%s.ndjson" % tag)
                open(p, "w").write("".join(bad))
                acc = validate(ctx, p, "", "selftest-" + tag)
                ctx.extra["selftest_%s_rejected" % tag] = sid not in acc
                if sid in acc:
                    raise vlib.Inconclusive("binding self-test failed: %s trace of scenario %d was accepted" % (tag, sid))
            break
    for ci in range(nchunks):
        shutil.rmtree(os.path.join(ctx.work, "chunk-%d" % ci, "compaction-files"), ignore_errors=True)
    ctx.cov["rule"] = ("cases = scenarios (entry point x concrete history x leftover temp file) run on the real code and validated by TLC, "
                       "evaluations additionally count crash images and follow-up runs; non-trivial = a leftover temp file is present or "
                       "crash images were cut; distinct by (entry point, path, leftover kind, history, leftover entries)")
    ctx.cov["exhaustive"] = True
