"""C04 - Corrupt storage files are detected, never misread or crash the server.

spec/Corrupt.tla: a damage taxonomy over storage files (<= 3 blocks, both format versions, with/without name;
one or two damages at every position class: header fields, name, every block header field, payload, consistent
re-forging of a block around a malformed entry stream, cuts at every boundary class, appended bytes, garbage,
duplicated / swapped blocks) and a design-level reader Read(case) that yields the set of outcome classes
(err / full / subset) the property allows. TLC checks the whole taxonomy exhaustively for ReadSound,
IntactReadsFull, PayloadCrcAlwaysErr and ReadBounded, and exports every abstract case with its allowed set
(Gen_Corrupt, binding C). harness/cmd/corrupt concretises every case at several seeded byte positions / bit flips /
forged values of real files, plus pure random byte strings, and presents them to NewFileReader, LoadIndex,
ScanBlockHeaders, ReadSwampName, CalculateFragmentation and a chronicler Load in child processes under recover,
a watchdog and an allocation budget. Observed class outside the allowed set => VIOLATION; allocation out of
proportion is the known finding D_C04_ForgedSizeAlloc only where the as-built spec (Cost) says the reader parses
a block header out of damaged or misaligned bytes.
Level: model checking over the taxonomy; the bytes are sampled.
"""
import json, os, random
import vlib

DEV = "ForgedSizeAlloc"
FID = "D_C04_ForgedSizeAlloc"
INV = "INVARIANTS ReadSound IntactReadsFull PayloadCrcAlwaysErr ReadBounded"


def cfg(maxblocks, dev, extra):
    return """SPECIFICATION Spec
CONSTANTS
  MaxBlocks = %d
  Dev = %s
%s
CHECK_DEADLOCK FALSE
""" % (maxblocks, '{"%s"}' % dev if dev else "{}", extra)


def key(c):
    return json.dumps(c, sort_keys=True)


def run(ctx):
    thorough = ctx.tier == "thorough"
    rng = random.Random(ctx.seed * 104729 + 4)
    ctx.assumptions += [
        "exhaustive over the abstract damage taxonomy only; the concrete bytes of every abstract case are a seeded sample (C04 cannot be exhaustive over bytes)",
        "a consistently re-checksummed block with well-formed but different records is a valid file for other data and is not in the taxonomy; re-forged blocks always carry a malformed entry stream",
        "allocation budget per call: 64 x file size + 8 MiB, measured as the growth of runtime.MemStats.TotalAlloc in the child process",
    ]
    binary = ctx.go_build("corrupt")
    nb = 3 if thorough else 2

    # 1. exhaustive over the taxonomy: the design-level reader satisfies the property; the same run exports every case
    #    with the outcome classes the spec allows (Gen_Corrupt = Corrupt + the export constraint; -workers 1)
    r = ctx.tlc("Gen_Corrupt", cfg_text=cfg(nb, None, INV + "\nCONSTRAINT ExportCase"), name="mc-strict", coverage=thorough,
                timeout=4000, workers=1)
    if not r.ok:
        raise vlib.Inconclusive("strict Corrupt spec violates its own properties: %s %s" % (r.violated, (r.error or "")[:500]))
    ctx.extra["mc_strict"] = r.summary()
    if thorough and r.coverage_zero:
        ctx.extra["coverage_zero"] = r.coverage_zero[:10]
    # ... and the as-built reader (allocates the forged size first) violates ReadBounded
    r2 = ctx.tlc("MC_Corrupt", cfg_text=cfg(1, DEV, INV), name="mc-asbuilt-witness", count_states=False)
    if r2.ok or r2.violated != "ReadBounded":
        raise vlib.Inconclusive("as-built Corrupt spec does not violate ReadBounded: %s %s" % (r2.violated, (r2.error or "")[:300]))
    ctx.extra["asbuilt_witness_violates"] = r2.violated
    rg = r
    exported = []
    for ln in rg.printed:
        try:
            o = json.loads(ln) if isinstance(ln, str) else ln
        except Exception:
            continue
        if isinstance(o, dict) and "allowed" in o:
            exported.append(o)
    if len(exported) < 100:
        raise vlib.Inconclusive("only %d cases exported" % len(exported))
    ctx.extra["abstract_cases_in_taxonomy"] = len(exported)
    singles = [o for o in exported if len(o["c"]["ds"]) <= 1]
    pairs = {}
    for o in exported:
        if len(o["c"]["ds"]) == 2:
            k = key(dict(s=o["c"]["s"], ds=sorted(o["c"]["ds"], key=key)))       # (unordered pairs)
            pairs.setdefault(k, o)
    pairs = list(pairs.values())
    rng.shuffle(pairs)
    npairs = 1500 if thorough else 70
    chosen = []
    for o in singles:
        d = o["c"]["ds"]
        v = 6 if thorough else 2
        if d and d[0]["w"] == "reforge" and d[0]["v"] == "cutstream":
            v = 40 if thorough else 14      # the field boundaries of the block's records, the last record first
        elif d and d[0]["w"] == "csize" and d[0]["v"] == "big":
            v = 6 if thorough else 2        # (each of these makes the reader allocate gigabytes)
        elif d and d[0]["w"] == "payload" and d[0]["v"] == "literal":
            v = 10 if thorough else 4
        elif d and d[0]["w"] in ("csize", "namelen", "count", "payload", "appendlong"):
            v = 8 if thorough else 3
        chosen.append((o, v))
    # always run: a checksum field set to a special value together with a payload flip that only the checksum can
    # detect, on the same block (a reader that is lenient about "no checksum" would return different records)
    must, rest = [], []
    for o in pairs:
        ds = o["c"]["ds"]
        ws = sorted((d["w"], d["v"]) for d in ds)
        if ds[0]["b"] == ds[1]["b"] and ws[0][0] == "crc" and ws[0][1] in ("zero", "ones") and ws[1] == ("payload", "literal"):
            must.append(o)
        else:
            rest.append(o)
    for o in must:
        chosen.append((o, 3 if thorough else 2))
    ctx.extra["special_crc_x_decodable_payload_cases"] = len(must)
    for o in rest[:npairs]:
        chosen.append((o, 1))
    # pure random byte strings, judged as the taxonomy cases they are instances of
    by = {key(o["c"]): o for o in exported}
    s0 = dict(n=0, ver=3, named=False)
    raw_as = {1: dict(s=s0, ds=[dict(w="garbage", b=0, v="any")]),
              2: dict(s=s0, ds=[dict(w="namelen", b=0, v="any"), dict(w="appendlong", b=0, v="any")]),
              3: dict(s=s0, ds=[dict(w="version", b=0, v="other"), dict(w="appendlong", b=0, v="any")])}
    cases, meta = [], {}
    if ctx.replay:
        rp = json.load(open(ctx.replay))["replay"]
        cases = [rp["case"]]
        meta[rp["case"]["id"]] = rp["expected"]
        seed_env = {"VERIF_SEED": str(rp["seed"])}
    else:
        seed_env = None
        for o, v in chosen:
            cid = len(cases) + 1
            cases.append(dict(id=cid, s=o["c"]["s"], ds=o["c"]["ds"], variants=v, raw=0))
            meta[cid] = dict(allowed=o["allowed"], huge=o["huge"])
        for rawkind, n in ((1, 150 if thorough else 15), (2, 150 if thorough else 20), (3, 150 if thorough else 15)):
            o = by.get(key(raw_as[rawkind])) or by.get(key(dict(s=raw_as[rawkind]["s"], ds=list(reversed(raw_as[rawkind]["ds"])))))
            if o is None:
                raise vlib.Inconclusive("taxonomy case for random byte strings of kind %d not found" % rawkind)
            allowed = set(o["allowed"])
            if rawkind == 3:
                allowed |= {"err", "full", "subset"}   # "HYDR" + random: the version is 2 or 3 once in 32768 tries
            cid = len(cases) + 1
            cases.append(dict(id=cid, s=s0, ds=[], variants=n, raw=rawkind))
            meta[cid] = dict(allowed=sorted(allowed), huge=True if rawkind > 1 else o["huge"])
    cf, rf, sf = [os.path.join(ctx.work, x) for x in ("cases.json", "results.ndjson", "summary.json")]
    json.dump(cases, open(cf, "w"))
    ctx.run_driver(binary, ["run", cf, rf, sf], timeout=6000, env=seed_env)
    summary = json.load(open(sf))
    byid = {c["id"]: c for c in cases}
    n = nhuge = nviol = 0
    classes = {}
    for ln in open(rf):
        o = json.loads(ln)
        n += 1
        c = byid[o["case"]]
        exp = meta[o["case"]]
        ob = o["obs"]
        cls = ob["class"]
        classes[cls] = classes.get(cls, 0) + 1
        allowed = set(exp["allowed"])
        if c["raw"] == 0 and not ob.get("changed", True):
            allowed = {"full"}
        desc = "shape %s damages %s variant %d" % (json.dumps(c["s"]), json.dumps(c["ds"]), o["variant"]) if c["raw"] == 0 else \
            "random byte string kind %d variant %d" % (c["raw"], o["variant"])
        ctx.count_case([c["s"], c["ds"], c["raw"], o["variant"]], nontrivial=ob.get("changed", True))
        replay = dict(kind="case", case=dict(c, variants=o["variant"] + 1), expected=exp, seed=ctx.seed, observed=ob)
        if cls in ("died", "hung"):
            # a reader that is killed for lack of memory, or makes no progress for 45 seconds, on a file where it may
            # allocate a forged size is the known finding; an unexplained hang is a time-out, hence inconclusive
            if exp["huge"]:
                ctx.deviation(FID, "%s: the reading process %s (spec allows %s)" % (desc, cls, sorted(allowed)), replay)
            elif cls == "died":
                nviol += 1
                ctx.deviation(None, "%s: the reading process died (spec allows %s)" % (desc, sorted(allowed)), replay)
            else:
                raise vlib.Inconclusive("%s: the reading process made no progress for 45 seconds" % desc)
            continue
        if cls not in allowed:
            nviol += 1
            if nviol <= 6:
                ctx.deviation(None, "%s: outcome '%s' (%s), the spec allows only %s" % (desc, cls, ob.get("detail", ""), sorted(allowed)), replay)
            continue
        if ob.get("huge"):
            nhuge += 1
            what = "%s: %s allocated %d bytes for a %d-byte file" % (desc, ob.get("max_api"), ob.get("max_alloc", 0), ob.get("file_len", 0))
            ctx.deviation(FID if exp["huge"] else None, what, replay)
    ctx.cov["traces_validated_against_impl"] += n
    ctx.extra.update(abstract_cases_run=len(cases), concrete_cases=n, outcome_classes=classes, huge_allocations=nhuge,
                     worker_deaths=summary["worker_deaths"], outside_allowed=nviol)
    for c in cases[:2] + cases[len(singles):len(singles) + 2] + cases[-1:]:
        ctx.sample(dict(kind="abstract case", case=c, expected=meta[c["id"]]))

    # 3. binding self-test: a wrong expectation must be noticed, and a killed worker must surface as an outcome
    if thorough and not ctx.replay:
        probe = [dict(id=1, s=dict(n=1, ver=3, named=True), ds=[dict(w="payload", b=1, v="any")], variants=3, raw=0),
                 dict(id=2, s=dict(n=2, ver=3, named=True), ds=[], variants=1, raw=0)]
        pf, prf, psf = [os.path.join(ctx.work, x) for x in ("probe.json", "probe-results.ndjson", "probe-summary.json")]
        json.dump(probe, open(pf, "w"))
        ctx.run_driver(binary, ["run", pf, prf, psf], timeout=1200, env={"VERIF_ISOLATE_DIE_AT": "3"})
        got = [json.loads(l)["obs"]["class"] for l in open(prf)]
        ctx.extra["selftest_classes"] = got
        if got != ["err", "err", "err", "died"]:
            raise vlib.Inconclusive("binding self-test failed: expected err,err,err,died, got %s" % got)
    ctx.cov["rule"] = ("cases = abstract taxonomy cases exported by TLC (all single damages, a seeded sample of the pairs) concretised at seeded byte "
                       "positions/values of real files, plus random byte strings; each is read by six real entry points in a child process; "
                       "non-trivial = the bytes really differ from the intact file; distinct by (shape, damages, variant)")
    ctx.cov["exhaustive"] = True
