"""C05 - Close and reload preserve every record exactly.

spec/SwampKV.tla: CloseReload must be the identity on the records (existence, type tag, value, created/updated/
expiry metadata, zero-like values of all 14 content types included); TLC checks this on the "reload" family
(every content type with a zero-like and a non-zero value, metadata, increments, uint32 sets, deletes, then
CloseReload and every read).  Binding A: histories on persistent swamps with a 1 s idle timeout (immediate-write
and write-behind); the eviction is OBSERVED (the swamp leaves hydra.ListActiveSwamps), a second group uses a
graceful stop + restart of the whole hydra; Get / GetAll / GetByIndex(expiry) responses before and after are
logged and validated line by line by TLC against Trace_SwampKV.
"""
import json, os, random
import vlib, kvlib

READS = [dict(op="Get", keys=["k1", "k2", "k3"]), dict(op="GetAll"), dict(op="GetByIndex", idx="exp", ord="asc")]


def wrap(prefix, how):
    return prefix + READS + [dict(op="CloseReload", how=how)] + READS + [dict(op="U32Size", k="k1")]


def run(ctx):
    thorough = ctx.tier == "thorough"
    rng = random.Random(ctx.seed)
    ctx.assumptions += [
        "eviction is observed through hydra.ListActiveSwamps (polling that does not touch the swamp); graceful stop is Zeus.StopHydra + StartHydra on the same data directory",
        "values are abstracted for TLC (small integers, interned strings/bytes/user ids, timestamp ranks); an empty uint32 set and 'no value' are the same thing on the wire, so the empty set is observed through Uint32SliceSize",
        "structural patches (PatchTreasures) are not part of SwampKV; their persistence is exercised by C13's module",
    ]
    binary = ctx.go_build("swampkv")
    devs = kvlib.open_devs(ctx)
    mine = [d for d in devs if kvlib.DEVS[d][1] == "C05"]
    ctx.extra["open_deviations"] = devs

    # 1. design
    kvlib.check_design(ctx, [("reload", 3 if thorough else 2), ("resurrect", 8 if thorough else 7)], workers=2,
                       coverage_family="reload" if thorough else None)
    kvlib.check_witnesses(ctx, mine, workers=2)
    if thorough:
        kvlib.check_bookkeeping(ctx, devs, [("reload", 2)], workers=1)

    # 2. histories on the real code
    alph = kvlib.export_alphabets(ctx)
    writes = [q for q in alph["reload"]["reqs"] if q["op"] not in ("Get", "GetAll", "GetByIndex", "CloseReload")]
    ctx.extra["write_alphabet"] = len(writes)
    run_ = kvlib.Runner(ctx, binary, devs, "C05")
    idle, stop = [], []
    rp = kvlib.replay_history(ctx)
    if rp:
        (stop if any(s.get("how") == "stop" for s in rp["steps"]) else idle).append(run_.add(rp["steps"], rp["mode"], "replay"))
    else:
        pairs = [[a, b] for a in writes for b in writes]
        triples_n = 3000 if thorough else 0
        for mode in ("pi", "pj"):
            for q in writes:
                idle.append(run_.add(wrap([q], "idle"), mode, "all=1"))
            sel = pairs if thorough else rng.sample(pairs, 350)
            for p in sel:
                idle.append(run_.add(wrap(list(p), "idle"), mode, "all=2" if thorough else "sample=2"))
            for _ in range(triples_n):
                idle.append(run_.add(wrap([rng.choice(writes) for _ in range(3)], "idle"), mode, "sample=3"))
            # long mixed histories (the C06 generator) with reloads in between
            for i in range(12 if thorough else 3):
                g = kvlib.LongGen(random.Random(rng.random()))
                steps = []
                for chunk in range(4 if thorough else 3):
                    steps += g.history(40) + READS + [dict(op="CloseReload", how="idle")] + READS
                    g.sets = {k: v for k, v in g.sets.items() if isinstance(v, set)}
                idle.append(run_.add(steps, mode, "long-%d" % i))
            # delete / re-create / delete around flushes (family "resurrect"): the witness of
            # D_C05_DeleteRecreateResurrects and sampled histories over that alphabet, reads after every reload
            res = alph["resurrect"]["reqs"]
            rget = [q for q in res if q["op"] == "Get"][0]
            wit = [q for q in res if q["op"] == "Set"]
            dele = [q for q in res if q["op"] == "Delete"][0]
            rel = [q for q in res if q["op"] == "CloseReload"][0]
            k1set = [q for q in wit if q["items"][0]["k"] == "k1"][0]
            idle.append(run_.add(wit + [rel, dele, k1set, dele, rel, rget, dict(op="GetAll")], mode, "resurrect-witness"))
            for _ in range(1200 if thorough else 120):
                steps = [rng.choice(res) for _ in range(rng.choice([6, 7, 8, 9]))]
                idle.append(run_.add(steps + [rel, rget, dict(op="GetAll")], mode, "resurrect-sample"))
            # graceful stop + restart instead of idle eviction (sequential: it closes every swamp of the process)
            for q in rng.sample(writes, len(writes) if thorough else 10):
                stop.append(run_.add(wrap([q, rng.choice(writes)], "stop"), mode, "stop"))
    ctx.extra["histories_planned"] = len(idle) + len(stop)
    rng.shuffle(idle)
    nb = 8 if thorough else 3
    if idle:
        run_.driver_env = {"SWAMPKV_PAR": "64"}
        run_.run_batches(kvlib.chunk(idle, nb), driver_workers=nb, tlc_workers=4)
    if stop:
        run_.driver_env = {}
        run_.run_batches(kvlib.chunk(stop, 4 if thorough else 2), driver_workers=4, tlc_workers=4)
    run_.run_retries()
    ctx.extra.update(run_.stats)
    ctx.extra["deviation_use_count"] = run_.used_count
    if idle:
        ctx.sample(dict(kind="history (idle eviction)", mode=idle[0]["mode"], steps=idle[0]["steps"][:2] + ["...reads, CloseReload, reads"]))
    if stop:
        ctx.sample(dict(kind="history (graceful stop)", mode=stop[0]["mode"], steps=stop[0]["steps"][:2] + ["...reads, CloseReload, reads"]))
    ctx.cov["rule"] = ("cases = histories on persistent swamps (immediate-write and write-behind) = write prefix + reads + observed close "
                       "(idle eviction or graceful stop) + reads, validated line by line by TLC; all prefixes of length 1%s over the %d "
                       "write requests of the reload family (13 scalar types x {zero-like, non-zero}, uint32 sets, void, metadata, increments, "
                       "deletes); non-trivial = every case (each contains a reload), distinct by (mode, request sequence)" % (
                           " and 2, sampled 3" if thorough else ", sampled 2", len(writes)))
    ctx.cov["exhaustive"] = True
