"""C06 - Single-client API behaves like a simple key-value model.

spec/SwampKV.tla (one action per RPC with its full response, swamp existence, auto-destroy, typed increments,
uint32 sets, `Returns`)  +  TLC exhaustive over the request families of MC_SwampKV  +  binding A:
ALL histories up to a length over the family alphabets (exported from the TLA+ module) and long seeded mixed
histories are run on the real Gateway (wire form) on in-memory, immediate-write and write-behind swamps; every
request + full response is one ndjson line that TLC validates against Trace_SwampKV (TraceReset concatenation,
invariants after every line).  A call that never returns is an observation (goroutine parked on a lock for good).
"""
import json, os, random
import vlib, kvlib

FAMILIES = ["set", "del", "inc", "u32", "mixed"]
MODES = ["mem", "p0", "pw"]


def run(ctx):
    thorough = ctx.tier == "thorough"
    rng = random.Random(ctx.seed)
    ctx.assumptions += [
        "values are abstracted for TLC: small integers, interned strings/bytes/user ids, timestamps as ranks in a fixed table; an empty uint32 set and 'no value' are the same thing on the wire",
        "a call is 'never returning' when its goroutine stays parked on a lock/condition with no other request in flight (stack signature recorded); a call that neither returns nor parks within 120 s is retried once on a fresh swamp; if it runs away again it is recorded as not returning",
        "one swamp per history; requests carry one swamp each; malformed requests, index reads and events belong to C26/C07/C19",
    ]
    binary = ctx.go_build("swampkv")
    devs = kvlib.open_devs(ctx)
    mine = [d for d in devs if kvlib.DEVS[d][1] == "C06"]
    ctx.extra["open_deviations"] = devs

    # 1. the design: strict spec satisfies every property on every family; each open deviation is caught
    if thorough:
        kvlib.check_design(ctx, [(f, 6) for f in FAMILIES], workers=5, coverage_family="mixed")
        kvlib.check_witnesses(ctx, mine, workers=5)
        kvlib.check_bookkeeping(ctx, devs, [(f, 3) for f in FAMILIES], workers=5)
    else:
        # one TLC run over the five families (the family is chosen in the initial state), two witnesses per run
        kvlib.check_design(ctx, [("c06", 4)], workers=1)
        pick = [mine[(ctx.seed + i) % len(mine)] for i in range(min(2, len(mine)))] if mine else []
        kvlib.check_witnesses(ctx, sorted(set(pick)), workers=2)

    # 2. histories on the real code
    alph = kvlib.export_alphabets(ctx)
    run_ = kvlib.Runner(ctx, binary, devs, "C06")
    hs = []
    rp = kvlib.replay_history(ctx)
    if rp:
        hs.append(run_.add(rp["steps"], rp["mode"], "replay"))
    else:
        for fam in FAMILIES:
            full, core = alph[fam]["reqs"], alph[fam]["core"]
            for mode in MODES:
                # ALL histories: full alphabet up to 2 (thorough 3), core alphabet up to 3 (thorough 4)
                seen = set()
                for a, n in ((full, 3 if thorough else 2), (core, 4 if thorough else 3)):
                    for h in kvlib.all_histories(a, n):
                        k = json.dumps(h, sort_keys=True)
                        if k in seen:
                            continue
                        seen.add(k)
                        hs.append(run_.add(h, mode, "all<=%d/%s" % (n, fam)))
        nlong = 40 if thorough else 6
        for mode in MODES:
            for i in range(nlong):
                g = kvlib.LongGen(random.Random(rng.random()))
                hs.append(run_.add(g.history(200), mode, "long-%d" % i))
    ctx.extra["histories_planned"] = len(hs)
    nb = 12 if thorough else 4
    # long histories first in each batch is not needed; spread evenly
    rng.shuffle(hs)
    run_.run_batches(kvlib.chunk(hs, nb), driver_workers=6, tlc_workers=6)
    ctx.extra.update(run_.stats)
    ctx.extra["deviation_use_count"] = run_.used_count
    if hs:
        h = hs[0]
        ctx.sample(dict(kind="history run on the real Gateway", mode=h["mode"], label=h["label"], steps=h["steps"][:4]))

    # 3. binding self-test (thorough): a corrupted response / a dropped call must be noticed
    if thorough and not rp:
        selftest(ctx, binary, devs, alph)

    ctx.cov["rule"] = ("cases = histories run on the real Gateway and validated line by line by TLC: all histories up to length "
                       "%d over each family alphabet and up to %d over its core, on 3 swamp modes, plus long mixed histories of 200 calls; "
                       "non-trivial = at least 2 calls, distinct by (mode, request sequence)" % ((3, 4) if thorough else (2, 3)))
    ctx.cov["exhaustive"] = True


def selftest(ctx, binary, devs, alph):
    """corrupt one logged response field / drop one call line of a clean history: TLC must flag that history."""
    r = kvlib.Runner(ctx, binary, devs, "C06")
    steps = [q for q in alph["del"]["core"] if q["op"] == "Set"][:1] + [dict(op="Count"), dict(op="GetAll"),
            dict(op="Delete", keys=["k1"]), dict(op="Count")]
    h = r.add(steps, "mem", "selftest")
    inp = os.path.join(ctx.work, "in-selftest.json")
    outp = os.path.join(ctx.work, "trace-selftest.ndjson")
    json.dump(dict(tag="st", histories=[dict(id=h["id"], mode="mem", steps=steps)]), open(inp, "w"))
    ctx.run_driver(binary, ["run", inp, outp], timeout=600, env={"VERIF_WORK": os.path.join(ctx.work, "data-st")})
    lines = open(outp).read().splitlines()

    def verdict(ls, name):
        p = os.path.join(ctx.work, "trace-%s.ndjson" % name)
        open(p, "w").write("\n".join(ls) + "\n")
        t = ctx.tlc("Trace_SwampKV", cfg_text=kvlib.trace_cfg(devs), workers=1, deadlock=False, dfs=True, env={"TRACE_FILE": p},
                    name=name, count_states=False, timeout=1200)
        if t.error:
            raise vlib.Inconclusive("self-test validation failed: %s" % t.error)
        bad = False
        for x in t.printed:
            d = json.loads(x) if isinstance(x, str) else x
            if isinstance(d, dict) and d.get("h") == h["id"] and "used" in d:
                bad = bad or d["bad"]
        return bad
    if verdict(lines, "selftest-clean"):
        raise vlib.Inconclusive("binding self-test: the clean history is rejected")
    idx = [i for i, l in enumerate(lines) if '"op":"Count"' in l]
    d = json.loads(lines[idx[0]])
    d["n"] = d["n"] + 1
    corrupted = lines[:idx[0]] + [json.dumps(d)] + lines[idx[0] + 1:]
    ok1 = verdict(corrupted, "selftest-corrupt")
    di = [i for i, l in enumerate(lines) if '"op":"Delete"' in l][0]
    ok2 = verdict(lines[:di] + lines[di + 1:], "selftest-drop")
    ctx.extra["selftest_corrupt_rejected"] = ok1
    ctx.extra["selftest_dropped_call_rejected"] = ok2
    if not (ok1 and ok2):
        raise vlib.Inconclusive("binding self-test failed: corrupted=%s dropped=%s" % (ok1, ok2))
