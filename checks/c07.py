"""C07 - Ordered index reads return the correctly sorted, ranged page.

spec/IndexRead.tla: (1) the property as a predicate Correct(store, request, response) - no sort computed, ties in
any order, a tie at a page boundary admits any choice; (2) the index machinery of the swamp (lazily built, incrementally
maintained slices + the binary-search/offset/limit read) whose answers TLC checks against (1) for every history and
every request at small scope.  Binding (A): seeded gateway histories (Set / Delete / GetByIndex / GetByIndexStream in
wire form through the in-process gRPC server) are recorded one ndjson line per request+response and judged line by
line by TLC (Trace_IndexRead): first against the strict spec, and a history that fails it against the as-built spec of
each named deviation.  Only a history that the as-built spec explains exactly is a KNOWN-FINDING.
"""
import json, os, random
import vlib

F_STALE = "D_C07_StaleAfterUpdate"
F_INT64 = "D_C07_ValueIndexInt64Resort"
DEV_OF = {F_STALE: "StaleAfterUpdate", F_INT64: "ValueIndexInt64Resort"}

VTYPES = ["int8", "int16", "int32", "int64", "uint8", "uint16", "uint32", "uint64", "float32", "float64", "string"]
ALLVT = VTYPES + ["msgpack"]      # msgpack: ByteArray {"n": v} - the only type PatchTreasures / PatchExpiredTreasures accept
KINDS = ["key", "created", "updated", "expire", "value"]
TIMEKINDS = ("created", "updated", "expire")
NKEYS, NT, NV = 6, 8, 5        # palettes of the driver: key ids 1..6, time ranks 1..8 (7, 8 lie in the future), value ranks 1..5
EXPIRED = range(1, 7)          # time ranks that are in the past: such an expireAt makes the record "expired"


def kinds_for(vt):
    return [k for k in KINDS if not (k == "value" and vt == "msgpack")]


def mc_cfg(kinds, dev, dom, vts, maxfrom=3, maxlimit=3, maxt=3, inv="TypeOK ReadsCorrect SlicesSorted"):
    s = lambda xs: "{" + ", ".join(('"%s"' % x) if isinstance(x, str) else str(x) for x in xs) + "}"
    return """SPECIFICATION Spec
CONSTANTS
  Keys = {1, 2, 3}
  Kinds = %s
  Dev = %s
  CVals = %s
  UVals = %s
  EVals = %s
  VVals = %s
  VTs = %s
  MaxFrom = %d
  MaxLimit = %d
  MaxT = %d
INVARIANTS %s
""" % (s(kinds), s(dev), s(dom.get("c", [1])), s(dom.get("u", [1])), s(dom.get("e", [0])), s(dom.get("v", [1])),
       s(vts), maxfrom, maxlimit, maxt, inv)


# ----------------------------------------------------------------------------------------------- scripts
def Q(kind, ord_, frm=0, limit=0, hf=0, ft=0, ht=0, tt=0, via="unary"):
    return dict(op="read", via=via, kind=kind, ord=ord_, **{"from": frm}, limit=limit, hf=hf, ft=ft, ht=ht, tt=tt)


def S(k, c=0, u=0, e=0, v=1):
    return dict(op="set", k=k, c=c, u=u, e=e, v=v)


def D(k):
    return dict(op="del", k=k)


def both(q):
    a = dict(q); a["via"] = "unary"
    b = dict(q); b["via"] = "stream"
    return [a, b]


def every_index(vt, rng=None):
    """a full read of every index type in BOTH orders (the ASC and the DESC index are separate objects)"""
    qs = []
    for i, kind in enumerate(kinds_for(vt)):
        for j, ord_ in enumerate(("asc", "desc")):
            via = rng.choice(["unary", "stream"]) if rng else ("unary" if (i + j) % 2 == 0 else "stream")
            qs.append(Q(kind, ord_, via=via))
    return qs


def witnesses():
    """Minimal histories of the known deviations (the TLC counterexamples of the as-built spec) and of write paths
    that must leave every index intact."""
    hs = []
    allq = lambda kind: both(Q(kind, "asc")) + both(Q(kind, "desc"))
    # an update moves the sort value of a built update-time / creation-time / value index
    hs.append(("int64", 1, [S(1, 1, 1, 0, 1), S(2, 2, 2, 0, 2)] + allq("updated") + [S(1, 0, 3, 0, 1)] + allq("updated")))
    hs.append(("int64", 0, [S(1, 1, 1, 0, 1), S(2, 2, 2, 0, 2)] + allq("created") + [S(1, 3, 0, 0, 1)] + allq("created")))
    hs.append(("int64", 1, [S(1, 1, 1, 0, 1), S(2, 2, 2, 0, 2)] + allq("value") + [S(1, 0, 0, 0, 3)] + allq("value")))
    # TLC's witness: a record that gets its first updatedAt after the index was built never joins it
    hs.append(("string", 1, [S(3, 1, 0, 0, 1)] + allq("updated") + [S(3, 0, 1, 0, 1)] + allq("updated")))
    # an insert into a built value index of any type but int64 stays unsorted
    for vt in VTYPES:
        hs.append((vt, 0, [S(1, 1, 1, 0, 2), S(2, 2, 2, 0, 3)] + allq("value") + [S(3, 3, 3, 0, 1)] + allq("value")))
    # write paths other than Set/Delete against built indexes: patch-expired (applied, rejected, sliding the expiry),
    # shift-expired, patch with expiry slide / clear, shift by keys, typed increment
    base = [S(1, 1, 1, 2, 1), S(2, 2, 2, 4, 2), S(3, 3, 3, 6, 3), S(4, 4, 4, 7, 4)]
    for mem, vt, mid in [
            (0, "msgpack", [dict(op="patchexp", n=0, mode="reject", v=5, e=0)]),
            (1, "msgpack", [dict(op="patchexp", n=0, mode="ok", v=5, e=0)]),
            (0, "msgpack", [dict(op="patchexp", n=1, mode="slide", v=0, e=8)]),
            (1, "int32", [dict(op="patchexp", n=0, mode="ok", v=5, e=0)]),
            (0, "msgpack", [dict(op="patch", k=2, v=5, e=8), dict(op="patch", k=3, v=1, e=-1)]),
            (1, "uint16", [dict(op="shiftexp", n=1)]),
            (0, "float32", [dict(op="shiftkeys", ks=[2, 4])]),
            (1, "int8", [dict(op="inc", k=3)]),
            (0, "float64", [dict(op="inc", k=3)])]:
        ops = list(base) + every_index(vt)
        for w in mid:
            ops += [w] + every_index(vt)
        hs.append((vt, mem, ops))
    return hs


def rand_query(rng, kind, n):
    ord_ = rng.choice(["asc", "desc"])
    frm = rng.choice([0, 0, 0, 1, 1, 2, 3, n, n + 1])
    limit = rng.choice([0, 0, 1, 1, 2, 3, n, n + 2])
    hf = ft = ht = tt = 0
    if rng.random() < (0.65 if kind in TIMEKINDS else 0.1):
        mode = rng.choice(["from", "to", "both", "both"])
        if mode in ("from", "both"):
            hf, ft = 1, rng.randint(0, NT)
        if mode in ("to", "both"):
            ht, tt = 1, rng.randint(0, NT)
    return Q(kind, ord_, frm, limit, hf, ft, ht, tt, via=rng.choice(["unary", "stream"]))


def sweep(kind, n, times):
    qs = []
    bounds = [(0, 0)] + [(1, t) for t in times]
    for ord_ in ("asc", "desc"):
        for frm in sorted({0, 1, 2, n}):
            for limit in sorted({0, 1, n}):
                for (hf, ft) in (bounds if kind in TIMEKINDS else [(0, 0)]):
                    for (ht, tt) in (bounds if kind in TIMEKINDS else [(0, 0)]):
                        qs.append(Q(kind, ord_, frm, limit, hf, ft, ht, tt))
    return qs


def rand_history(rng, kind, vt, nwrites, reads_per_write, sweep_times=None):
    """A history that keeps hitting the indexes (of `kind` above all) after they were first built, through every
    write path that touches them.  `present` is the generator's own picture of the swamp, only used to pick
    sensible requests (the reference content is what the driver reads back)."""
    ops, present = [], {}
    attr = {"created": "c", "updated": "u", "expire": "e", "value": "v"}.get(kind)
    patchable = vt == "msgpack"
    incable = vt not in ("string", "msgpack")

    def fresh_rec():
        z = lambda hi: 0 if rng.random() < 0.2 else rng.randint(1, hi)
        return dict(c=z(6), u=z(6), e=z(NT), v=rng.randint(1, NV))

    def reads():
        n = len(present)
        qs = every_index(vt, rng)
        qs += [rand_query(rng, kind, n) for _ in range(reads_per_write)]
        if rng.random() < 0.3:
            qs.append(rand_query(rng, rng.choice(kinds_for(vt)), n))
        return qs

    def expired():
        return sorted(k for k in present if present[k]["e"] in EXPIRED)

    for _ in range(rng.randint(2, 4)):
        k = rng.choice([x for x in range(1, NKEYS + 1) if x not in present])
        present[k] = fresh_rec()
        ops.append(S(k, **present[k]))
    if rng.random() < 0.85:
        ops += reads()                                    # first build happens early
    for i in range(nwrites):
        absent = [x for x in range(1, NKEYS + 1) if x not in present]
        exp = expired()
        safe = len(present) - len(exp) >= 1               # never empty the swamp (an empty swamp does not exist)
        choices = []
        if absent and len(present) < 5:
            choices += ["ins"] * 3
        choices += ["upd"] * 4
        if len(present) >= 2:
            choices += ["del"] * 2
        if len(present) >= 3:
            choices += ["shiftkeys"]
        if exp and safe:
            choices += ["shiftexp"] * 2
        if exp:
            choices += ["patchexp"] * 3
        choices += ["patch"] * (2 if patchable else 1)
        if incable and any(r["v"] == 3 for r in present.values()):
            choices += ["inc"] * 2
        what = rng.choice(choices)
        if what == "ins":
            k = rng.choice(absent)
            present[k] = fresh_rec()
            ops.append(S(k, **present[k]))
        elif what == "upd":
            k = rng.choice(sorted(present))
            old = present[k]
            req = dict(c=0, u=0, e=0, v=old["v"])
            fields = [f for f in ("c", "u", "e", "v") if rng.random() < 0.3]
            if attr and rng.random() < 0.75 and attr not in fields:
                fields.append(attr)
            for f in fields:
                req[f] = rng.randint(1, NV if f == "v" else (NT if f == "e" else 6))
            ops.append(S(k, **req))
            for f in ("c", "u", "e"):
                if req[f]:
                    old[f] = req[f]
            old["v"] = req["v"]
        elif what == "del":
            k = rng.choice(sorted(present))
            del present[k]
            ops.append(D(k))
        elif what == "shiftkeys":
            ks = rng.sample(sorted(present), rng.randint(1, len(present) - 1))
            if rng.random() < 0.3 and absent:
                ks.append(rng.choice(absent))                # a key that is not there is ignored
            for k in ks:
                present.pop(k, None)
            ops.append(dict(op="shiftkeys", ks=ks))
        elif what == "shiftexp":
            es = sorted(present[k]["e"] for k in exp)
            n = 0
            if len(es) >= 2 and es[0] != es[1] and rng.random() < 0.5:
                n = 1                                        # only the record that expired first
                k0 = [k for k in exp if present[k]["e"] == es[0]][0]
                del present[k0]
            else:
                for k in exp:
                    del present[k]
            ops.append(dict(op="shiftexp", n=n))
        elif what == "patchexp":
            mode = rng.choice(["ok", "reject", "slide"])
            v, e = rng.randint(1, NV), rng.choice([1, 3, 5, 7, 8])
            ops.append(dict(op="patchexp", n=0, mode=mode, v=v, e=e))
            if patchable:                                    # typed values are rejected (TYPE_MISMATCH): nothing changes
                for k in exp:
                    if mode == "ok":
                        present[k]["v"] = v
                    elif mode == "slide":
                        present[k]["e"] = e
        elif what == "patch":
            k = rng.choice(sorted(present) + (absent[:1] if rng.random() < 0.2 else []))
            v, e = rng.randint(1, NV), rng.choice([0, 0, -1, 2, 6, 7])
            if e == -1 and k in present and len(present) - len([x for x in exp if x != k]) < 1:
                e = 0
            ops.append(dict(op="patch", k=k, v=v, e=e))
            if patchable and k in present:
                present[k]["v"] = v
                if e > 0:
                    present[k]["e"] = e
                elif e < 0:
                    present[k]["e"] = 0
        else:
            k = rng.choice(sorted(k for k in present if present[k]["v"] == 3))
            present[k]["v"] = 4
            ops.append(dict(op="inc", k=k))
        ops += reads()
        if sweep_times is not None and i in (nwrites // 3, nwrites - 1):
            sw = sweep(kind, len(present), sweep_times)
            for q in sw:
                q["via"] = rng.choice(["unary", "stream"])
            ops += sw
    return ops


def gen_scripts(rng, thorough):
    hs = witnesses()
    combos = [(k, None) for k in ("key", "created", "updated", "expire")] + [("value", vt) for vt in VTYPES] + \
             [("expire", "msgpack"), ("updated", "msgpack")]
    rounds = 6 if thorough else 2
    for rnd in range(rounds):
        for kind, vt in combos:
            v = vt or rng.choice(ALLVT)
            st = None
            if rnd == 0 and (thorough or kind in ("updated", "expire")) and vt is None:
                st = list(range(0, NT + 1)) if thorough else [2, 4, 7]
            hs.append((v, rng.randint(0, 1), rand_history(rng, kind, v, rng.randint(5, 10) if thorough else rng.randint(4, 7),
                                                         3 if thorough else 2, st)))
    script, index = [], {}
    for h, (vt, mem, ops) in enumerate(hs, start=1):
        lines = [dict(op="reset", h=h, vt=vt, mem=mem)] + ops
        index[h] = (len(script), len(script) + len(lines))
        script += lines
    return script, index


# ----------------------------------------------------------------------------------------------- check
def write_nd(path, rows):
    with open(path, "w") as f:
        for r in rows:
            f.write(json.dumps(r) + "\n")


def judge(ctx, tracefile, dev, name):
    """One TLC run over the trace; returns the set of failed history numbers and the failed lines."""
    ok, r = ctx.validate_trace("Trace_IndexRead", "Trace_IndexRead", tracefile, dev=dev, name=name, dfs=False, timeout=2400)
    if not ok:
        raise vlib.Inconclusive("trace run %s did not consume every line: %s\n%s" % (name, r.violated, r.out[-1500:]))
    fails = []
    for p in r.printed:
        try:
            o = json.loads(p) if isinstance(p, str) else p
        except Exception:
            continue
        if isinstance(o, dict) and "fail" in o:
            fails.append(o)
    return fails, r


def run(ctx):
    thorough = ctx.tier == "thorough"
    rng = random.Random(ctx.seed * 1000003 + (7 if thorough else 3))
    ctx.assumptions += [
        "a swamp holds values of one type and a value index is read with the matching index type (SDK: 'The index type must match the actual data type of the stored value')",
        "FromTime/ToTime restrict the time indexes only (proto: 'optional fields for time-based index filtering'); for key and value indexes they are ignored",
        "the reference content of the swamp is what Get returns after every Set; the swamp is never emptied (an empty swamp does not exist) and stays open for the whole history",
        "timestamps, values and keys are mapped to dense ranks by fixed palettes of the driver (order and equality preserved)",
    ]
    binary = ctx.go_build("indexread")
    W = 4

    # 1. the design: the repaired index machinery answers every request correctly, exhaustively at small scope
    dom3 = [0, 1, 2]
    mcs = [("updated", dict(u=dom3), ["int64"]), ("value", dict(v=dom3), ["int64", "other"])]
    if thorough:
        mcs += [("expire", dict(e=dom3), ["int64"]), ("created", dict(c=dom3), ["int64"]), ("key", dict(), ["int64"])]
    for kind, dom, vts in mcs:
        r = ctx.tlc("MC_IndexRead", cfg_text=mc_cfg([kind], [], dom, vts, maxfrom=4 if thorough else 3, maxlimit=4 if thorough else 3),
                    name="mc-strict-" + kind, workers=W, timeout=2400, coverage=(thorough and kind == "updated"))
        if not r.ok:
            raise vlib.Inconclusive("strict IndexRead design violates its own property (%s): %s %s" % (kind, r.violated, r.error))
        ctx.extra["mc_" + kind] = r.summary()
        if thorough and kind == "updated" and r.coverage_zero:
            ctx.extra["coverage_zero"] = r.coverage_zero[:10]
    if thorough:
        r = ctx.tlc("MC_IndexRead", cfg_text=mc_cfg(["updated", "expire"], [], dict(u=[1, 2], e=[0, 1]), ["int64"], 2, 2, 2),
                    name="mc-strict-two-kinds", workers=W, timeout=2400)
        if not r.ok:
            raise vlib.Inconclusive("strict IndexRead design (two kinds) fails: %s %s" % (r.violated, r.error))
        ctx.extra["mc_two_kinds"] = r.summary()
    # non-vacuity: each deviation makes the design violate the property; the int64 deviation is inert for int64 swamps
    for nm, kinds, dev, dom, vts, must_fail in [
            ("stale", ["updated"], ["StaleAfterUpdate"], dict(u=dom3), ["int64"], True),
            ("int64resort", ["value"], ["ValueIndexInt64Resort"], dict(v=dom3), ["other"], True),
            ("int64resort-int64", ["value"], ["ValueIndexInt64Resort"], dict(v=dom3), ["int64"], False)][:3 if thorough else 2]:
        r = ctx.tlc("MC_IndexRead", cfg_text=mc_cfg(kinds, dev, dom, vts), name="mc-asbuilt-" + nm, workers=W, timeout=2400,
                    count_states=False)
        if must_fail and (r.ok or r.violated not in ("ReadsCorrect", "SlicesSorted")):
            raise vlib.Inconclusive("as-built IndexRead (%s) does not violate the property: vacuous (%s %s)" % (nm, r.violated, r.error))
        if not must_fail and not r.ok:
            raise vlib.Inconclusive("as-built IndexRead (%s) should satisfy the property: %s %s" % (nm, r.violated, r.error))
        ctx.extra["mc_asbuilt_" + nm] = r.violated or "holds"

    # 2. histories on the real gateway
    if ctx.replay:
        rp = json.load(open(ctx.replay))["replay"]
        script = rp["script"]
        index = {}
        for i, o in enumerate(script):
            if o["op"] == "reset":
                index[o["h"]] = [i, len(script)]
        hs = sorted(index)
        for a, b in zip(hs, hs[1:]):
            index[a][1] = index[b][0]
    else:
        script, index = gen_scripts(rng, thorough)
    sf = os.path.join(ctx.work, "script.ndjson")
    tf = os.path.join(ctx.work, "trace.ndjson")
    write_nd(sf, script)
    try:
        ctx.run_driver(binary, ["run", sf, tf], timeout=3000)
    except vlib.Inconclusive as ex:
        msg = str(ex)
        if "panic:" in msg or "fatal error:" in msg:
            # the server (in the driver process) died while serving a history: an observation, not a tool failure
            done = sum(1 for _ in open(tf)) if os.path.exists(tf) else 0
            ctx.deviation(None, "the server process died while serving the histories (after %d of %d requests): %s" % (
                done, len(script), msg[-600:].replace("\n", " | ")), dict(kind="crash", script=script[:done + 3]))
            return
        raise
    lines = [json.loads(x) for x in open(tf)]
    if len(lines) != len(script):
        raise vlib.Inconclusive("driver wrote %d lines for %d requests" % (len(lines), len(script)))
    for i, ln in enumerate(lines):
        if ln["ev"] == "write" and ln.get("err"):
            ctx.deviation(None, "write request %d (%s) failed: %s" % (i + 1, json.dumps(script[i]), ln["err"]),
                          dict(kind="write-error", script=script[max(0, i - 30):i + 1]))
            return
    nreads = sum(1 for x in lines if x["ev"] == "read")
    ctx.extra["histories"] = len(index)
    ctx.extra["trace_lines"] = len(lines)
    ctx.extra["reads"] = nreads
    ctx.extra["reads_stream"] = sum(1 for x in lines if x["ev"] == "read" and x["via"] == "stream")

    # 3. strict judgement of every line
    fails, r0 = judge(ctx, tf, "", "trace-strict")
    ctx.cov["evaluations"] += len(lines)
    failed = {}
    for f in fails:
        failed.setdefault(f["h"], []).append(f["fail"])
    ctx.extra["strict_failed_histories"] = len(failed)
    ctx.extra["strict_failed_reads"] = len(fails)

    def sub_trace(hs, name):
        rows, origin = [], []
        for h in sorted(hs):
            a, b = index[h]
            rows += lines[a:b]
            origin += list(range(a, b))
        p = os.path.join(ctx.work, name + ".ndjson")
        write_nd(p, rows)
        return p, origin

    # 4. a history that fails the strict spec must be explained exactly by the as-built spec of a named deviation
    explained = {}
    unexplained_at = {}
    rest = set(failed)
    for devs in ([F_STALE], [F_INT64], [F_STALE, F_INT64]):
        if not rest:
            break
        p, origin = sub_trace(rest, "failed-" + "-".join(DEV_OF[d] for d in devs))
        fl, _ = judge(ctx, p, "+".join(DEV_OF[d] for d in devs), "trace-asbuilt-" + "-".join(DEV_OF[d] for d in devs))
        ctx.cov["evaluations"] += len(origin)
        still = {f["h"] for f in fl}
        for f in fl:
            unexplained_at[f["h"]] = origin[f["fail"] - 1]       # index into `lines` of the read no deviation explains
        for h in rest - still:
            explained[h] = devs
        rest = still

    def hist_obj(h):
        a, b = index[h]
        return dict(kind="history", h=h, script=script[a:b], trace=lines[a:b], failed_lines=[x - a for x in failed[h]])

    def describe(h, ln):
        return "history %d (value type %s): %s read %s returned keys %s, which is not a correct page of the store" % (
            h, lines[index[h][0]]["vt"], ln["via"], json.dumps(ln["q"], sort_keys=True), [x["k"] for x in ln["r"]] if not ln["err"] else ln["err"])

    for h in sorted(failed):
        if h in explained:
            for d in explained[h]:
                ctx.deviation(d, describe(h, lines[failed[h][0] - 1]), hist_obj(h))
        else:
            ln = lines[unexplained_at[h]] if h in unexplained_at else lines[failed[h][0] - 1]
            ctx.deviation(None, describe(h, ln) + " and no named deviation explains it", hist_obj(h))

    # 5. accounting
    for h in index:
        a, b = index[h]
        seen_read, maint = set(), False
        for o in script[a:b]:
            if o["op"] == "read":
                seen_read.add(o["kind"])
            elif o["op"] != "reset" and seen_read:
                maint = True
        ctx.count_case([script[a]["vt"]] + [[o.get(k) for k in ("op", "k", "c", "u", "e", "v", "n", "mode", "ks", "kind", "ord", "from", "limit", "hf", "ft", "ht", "tt")]
                                            for o in script[a + 1:b]], nontrivial=maint)
        ctx.cov["evaluations"] -= 1
    ctx.cov["traces_validated_against_impl"] += len(index)
    ok_h = [h for h in index if h not in failed]
    if ok_h:
        a, b = index[ok_h[len(ok_h) // 2]]
        ctx.sample(dict(kind="history accepted by the strict spec (first lines)", lines=lines[a:a + 6]))
    if failed:
        h = sorted(failed)[0]
        a, b = index[h]
        ctx.sample(dict(kind="history rejected by the strict spec", explained_by=explained.get(h), lines=lines[a:b][:12]))

    # 6. binding self-test: a corrupted response / a dropped write must be noticed
    if thorough and ok_h and not ctx.replay:
        cands = []
        for h in ok_h:
            a, b = index[h]
            for i in range(a, b):
                if lines[i]["ev"] == "read" and len(lines[i]["r"]) >= 2 and lines[i]["q"]["kind"] != "value":
                    x, y = lines[i]["r"][0], lines[i]["r"][1]
                    fld = {"key": "k", "created": "c", "updated": "u", "expire": "e"}[lines[i]["q"]["kind"]]
                    if x[fld] != y[fld]:
                        cands.append((h, i))
        if not cands:
            raise vlib.Inconclusive("binding self-test: no accepted read with two distinct sort values to corrupt")
        cands.sort(key=lambda hi: (index[hi[0]][1] - index[hi[0]][0], hi))     # the shortest history keeps the self-test cheap
        h, i = cands[0]
        a, b = index[h]
        rows = [json.loads(json.dumps(x)) for x in lines[a:b]]
        rows[i - a]["r"][0], rows[i - a]["r"][1] = rows[i - a]["r"][1], rows[i - a]["r"][0]
        p = os.path.join(ctx.work, "selftest-swap.ndjson")
        write_nd(p, rows)
        fl, _ = judge(ctx, p, "", "selftest-swap")
        ctx.extra["selftest_swapped_response_rejected"] = bool(fl)
        if not fl:
            raise vlib.Inconclusive("binding self-test failed: a response with two records swapped was accepted")
        rows = [json.loads(json.dumps(x)) for x in lines[a:b]]
        rows[i - a]["r"] = rows[i - a]["r"][1:]
        p = os.path.join(ctx.work, "selftest-drop.ndjson")
        write_nd(p, rows)
        fl, _ = judge(ctx, p, "", "selftest-drop")
        ctx.extra["selftest_short_response_rejected"] = bool(fl)
        if not fl:
            raise vlib.Inconclusive("binding self-test failed: a response with a missing record was accepted")
    ctx.cov["rule"] = ("case = one gateway history (Set/Delete/GetByIndex/GetByIndexStream through the in-process gRPC server) judged line by "
                       "line by TLC; non-trivial = the history writes (insert/update/delete) after an index was first built; distinct by script")
    ctx.cov["exhaustive"] = False
