"""C08 - Accelerated and full-scan query routes agree.

spec/Filter.tla is a specification-as-oracle of GetByIndexStream: documents over an abstract value domain,
valuecanon's equality, the path syntax ([*], #len), the per-record evaluator with labels, the bucket planner
and both execution routes; Answer(contents, q) is the legacy (scan) semantics the bucket route must reproduce.

  1. MC_Filter (TLC, exhaustive over a small case space): with the deviations off the planner + bucket
     execution of the design give exactly Answer (RoutesAgree); with any single named deviation on the
     invariant must fail (non-vacuity).
  2. Binding C: TLC evaluates Gen_Filter and prints cases (documents, mutations before and after the first
     bucket build, queries) with, per query and round, the set of answers the strict specification allows
     (one per order of ties) and the answers of the as-built specification (deviations = the OPEN findings of
     findings/C08.json) with an irreducible set of deviations explaining them.  harness/cmd/filter runs each
     query on the real gateway (in-process gRPC) as given (bucket route when the planner says so) and wrapped so
     that PlanFilter must bypass (scan route), and compares both streams with the allowed answers; it also
     compares PlanFilter's decision with the specification's planner.
       strict answer                     -> held
       as-built answer (open deviations)  -> KNOWN-FINDING
       anything else                      -> VIOLATION
"""
import json, os, threading, concurrent.futures as cf
import vlib

PFX = "D_C08_"


def compact_val(v):
    k = v["k"]
    if k in ("int", "uint", "int16"):
        return "%s(%d)" % (k, v["n"])
    if k in ("float", "float32"):
        return "%s(%s)" % (k, v["n"] / 10)
    if k == "bool":
        return "true" if v["n"] else "false"
    if k == "string":
        return repr(v["s"])
    if k == "time":
        return "time(%ds)" % v["n"]
    if k in ("nil", "missing"):
        return k
    if k == "array":
        return "[" + ", ".join(compact_val(e) for e in v["e"]) + "]"
    if k == "map":
        return "{" + ", ".join(e["f"] + ":" + compact_val(e) for e in v["e"] if e["k"] != "missing") + "}"
    return k


def compact_path(p):
    return ".".join(s["n"] + "[*]" if s["t"] == "w" else "#len" if s["t"] == "len" else s["n"] for s in p)


def compact_leg(l):
    s = compact_path(l["p"]) + " " + l["op"] + " " + ("[" + ", ".join(compact_val(x) for x in l["in"]) + "]" if l["in"] else compact_val(l["cv"]))
    return s + (" @" + l["label"] if l["label"] else "")


def compact_group(g):
    return g["logic"] + "(" + ", ".join([compact_leg(l) for l in g["legs"]] + [compact_group(s) for s in g["subs"]]) + ")"


def compact_doc(d):
    return "%s[%s a=%s b=%s created=%d updated=%d expires=%d]" % (d["key"], d["bk"], compact_val(d["a"]), compact_val(d["b"]), d["c"], d["u"], d["e"])


def compact_case(c, qi=None):
    out = dict(kind=c["kind"], docs=[compact_doc(d) for d in c["docs"]],
               before_first_query=[m["op"] + " " + compact_doc(m["d"]) for m in c["pre"]],
               after_first_round=[m["op"] + " " + compact_doc(m["d"]) for m in c["post"]])
    qs = c["queries"] if qi is None else [c["queries"][qi]]
    out["queries"] = []
    for q in qs:
        qq = q["q"]
        out["queries"].append(dict(filter=compact_group(qq["f"]), index=qq["idx"], desc=qq["desc"], From=qq["from"], Limit=qq["limit"],
                                   MaxResults=qq["max"], FromTime=qq["ft"], ToTime=qq["tt"], ExcludeKeys=qq["excl"],
                                   planner=q["r1"]["mode"], allowed_round1=q["r1"]["strict"], allowed_round2=q["r2"]["strict"]))
    return out


def mc_cfg(dev, size):
    return """SPECIFICATION Spec
CONSTANTS
  Dev = {%s}
  Size = "%s"
INVARIANT RoutesAgreeInv
CHECK_DEADLOCK FALSE
""" % ('"%s"' % dev if dev else "", size)


def run(ctx):
    thorough = ctx.tier == "thorough"
    ctx.assumptions += [
        "value domain: small ints, uints, floats x.0/x.5 (exact in float32 and float64), bools, short strings, msgpack times, nil, missing, arrays and maps one level deep; magnitudes beyond 2^53, NaN and nested [*] are not generated",
        "an update mutation replaces the content only (metadata timestamps stay), so the stale time-index ordering after a timestamp update (property C07) does not interfere",
        "the scan route is forced by wrapping the filter in an OR (or AND of AND) whose only member is the filter; the driver asserts with gateway.PlanFilter that the wrapped form is planned as Bypass",
        "ordering operators (NOT_EQUAL, <, <=, >, >=, IS_EMPTY) are specified as the shared evaluator computes them; the property only fixes Equal/IN",
    ]
    open_ids = sorted(ctx.open_findings())
    known = [i[len(PFX):] for i in open_ids if i.startswith(PFX)]
    if os.environ.get("C08_DEVS") is not None:      # experiments only (verifying a proposed fix in a private copy)
        known = [d for d in os.environ["C08_DEVS"].split(",") if d]
    devenv = {"C08_DEV_" + d: "1" for d in known}
    ctx.extra["known_deviations"] = known
    binary = ctx.go_build("filter")
    workers = max(2, min(8, (os.cpu_count() or 4) // 2))

    # ---------------------------------------------------------------- 1. the design, exhaustively
    # experiments only (mutation testing): reuse generated cases / skip the model-level part
    cases_dir = os.environ.get("C08_CASES_DIR")
    if not ctx.replay and os.environ.get("C08_SKIP_MC") != "1":
        r = ctx.tlc("MC_Filter", cfg_text=mc_cfg(None, "full" if thorough else "small"), name="mc-strict", timeout=14400,
                    coverage=False, deadlock=False)
        if not r.ok:
            raise vlib.Inconclusive("strict Filter spec violates RoutesAgree or failed: %s %s" % (r.violated, (r.error or "")[:600]))
        ctx.extra["mc_strict"] = r.summary()
        # non-vacuity: every named deviation breaks the invariant at model level
        devs_to_try = sorted(ALL_DEVS) if thorough else ["PageAfterFilter", "FloatTruncScan"]

        def witness(d):
            return d, ctx.tlc("MC_Filter", cfg_text=mc_cfg(d, "small"), name="mc-dev-" + d,
                              timeout=14400, count_states=False, deadlock=False, workers=2)
        with cf.ThreadPoolExecutor(max_workers=workers) as ex:
            res = list(ex.map(witness, devs_to_try))
        vac = [d for d, r2 in res if r2.violated != "RoutesAgreeInv"]
        ctx.extra["asbuilt_model_violates"] = [d for d, r2 in res if r2.violated == "RoutesAgreeInv"]
        if vac:
            raise vlib.Inconclusive("deviation(s) %s do not violate RoutesAgree at model level (vacuous or TLC error: %s)" % (
                vac, [(d, r2.error) for d, r2 in res if d in vac][:2]))

    # ---------------------------------------------------------------- 2. cases from TLC, run on the real gateway
    jobs = []   # (name, env, seed)
    if ctx.replay:
        rp = json.load(open(ctx.replay))["replay"]
        cf_ = os.path.join(ctx.work, "replay-cases.ndjson")
        with open(cf_, "w") as f:
            f.write(json.dumps(rp["case"]) + "\n")
        jobs.append(("replay", None, cf_))
    else:
        jobs.append(("witness", dict(C08_MODE="witness"), None))
        nshards = 6
        pair_shards = range(nshards) if thorough else [ctx.seed % nshards]
        for k in pair_shards:
            jobs.append(("pairs-%d" % k, dict(C08_MODE="pairs", C08_SHARDS=nshards, C08_SHARD=k), None))
        nrand, per = (8, 6000) if thorough else (4, 150)
        for k in range(nrand):
            jobs.append(("random-%d" % k, dict(C08_MODE="random", C08_N=per, C08_Q=6, C08_BASE=k * per), None))

    lock = threading.Lock()
    totals = {}
    reports = []
    witness_seen = {}

    def do_job(j):
        name, env, casefile = j
        keep = casefile is not None
        if casefile is None and cases_dir and os.path.exists(os.path.join(cases_dir, "cases-%s-%s-%d.ndjson" % (ctx.tier, name, ctx.seed))):
            casefile, keep = os.path.join(cases_dir, "cases-%s-%s-%d.ndjson" % (ctx.tier, name, ctx.seed)), True
        if casefile is None:
            e = dict(devenv)
            e.update(env)
            seed = ctx.seed * 1000 + sum(ord(ch) for ch in name)
            r = ctx.tlc("Gen_Filter", cfg_text="", workers=1, env=e, extra=("-seed", str(seed)), name="gen-" + name,
                        count_states=False, timeout=14400, heap="3g")
            if not r.ok:
                raise vlib.Inconclusive("case generation %s failed: %s %s" % (name, r.violated, (r.error or r.out[-1500:])[:1500]))
            casefile = os.path.join(ctx.work, "cases-%s.ndjson" % name)
            if cases_dir:
                os.makedirs(cases_dir, exist_ok=True)
                casefile, keep = os.path.join(cases_dir, "cases-%s-%s-%d.ndjson" % (ctx.tier, name, ctx.seed)), True
            with open(casefile, "w") as f:
                for line in r.printed:
                    if isinstance(line, str) and line.startswith("{"):
                        f.write(line + "\n")
            r.printed = []
            r.out = ""
            try:
                os.remove(os.path.join(ctx.work, "tlc-gen-%s.out" % name))
            except OSError:
                pass
        outfile = os.path.join(ctx.work, "result-%s.ndjson" % name)
        p = ctx.run([binary, "run", casefile, outfile], timeout=14400, env={"VERIF_SEED": str(ctx.seed)})
        reps, summary, last, aborted = [], None, None, False
        if os.path.exists(outfile):
            with open(outfile) as f:
                for line in f:
                    try:
                        o = json.loads(line)
                    except ValueError:
                        continue        # torn last line of a dead driver
                    if o["type"] == "summary":
                        summary = o["stats"]
                    elif o["type"] == "begin":
                        last = o["case"]
                    elif o["type"] == "aborted":
                        aborted = True
                    else:
                        o["job"] = name
                        reps.append(o)
        if p.returncode != 0:
            tail = (p.stdout[-1500:] + p.stderr[-6000:])
            crashed = any(sig in p.stderr for sig in ("fatal error:", "panic:", "SIGSEGV", "SIGBUS", "unexpected signal")) and last is not None
            if not crashed:
                raise vlib.Inconclusive("driver filter run %s exited %d:\n%s" % (name, p.returncode, tail[-3000:]))
            # the process running the real gateway died inside the code under test: an observation, not an infrastructure problem
            crashcase = None
            with open(casefile) as f:
                for i, line in enumerate(f):
                    if i == last:
                        crashcase = json.loads(line)
            first = [l for l in p.stderr.splitlines() if l.startswith(("fatal error:", "panic:"))][:1]
            reps.append(dict(type="mismatch", job=name, case=last, query=0, round=1, route="bucket", **{"class": "unexplained"},
                             detail="the gateway process died (%s) while running this case: %s" % (first, p.stderr[-1200:]),
                             observed=None, other_route=None, case_json=crashcase))
        elif summary is None and not aborted:
            raise vlib.Inconclusive("driver wrote no summary for %s" % name)
        if summary is None:
            summary = {}
        sample = None
        with open(casefile) as f:
            for i, line in enumerate(f):
                if i == 3 or (i == 0 and name == "witness"):
                    sample = json.loads(line)
        if not keep:
            os.remove(casefile)
        with lock:
            for k, v in summary.items():
                if isinstance(v, dict):
                    d = totals.setdefault(k, {})
                    for kk, vv in v.items():
                        d[kk] = d.get(kk, 0) + vv
                else:
                    totals[k] = totals.get(k, 0) + v
            reports.extend(reps)
            if sample is not None and name.startswith(("random-0", "pairs", "witness")):
                ctx.sample(compact_case(sample, 0))
        return name

    with cf.ThreadPoolExecutor(max_workers=workers) as ex:
        futs = [ex.submit(do_job, j) for j in jobs]
        errs = []
        for fu in futs:
            try:
                fu.result()
            except vlib.Inconclusive as e:
                errs.append(e)
    if errs and not reports:
        raise errs[0]

    # ---------------------------------------------------------------- 3. classify
    nshown = {}
    reports.sort(key=lambda o: o["job"] != "witness")      # the minimal witnesses first: they become the KNOWN-FINDING text
    for o in reports:
        case = o.get("case_json")
        qi = o.get("query", 0)
        where = "job %s case %d query %d round %d route %s" % (o["job"], o["case"], qi, o["round"], o.get("route", ""))
        if o["class"] == "spec":
            raise vlib.Inconclusive("specification error: the strict model's routes disagree (%s)" % where)
        if o["class"] == "dev":
            if o["job"] == "witness" and case:
                witness_seen.setdefault(case["kind"], set()).update(o["devs"])
            for d in o["devs"]:
                fid = PFX + d
                n = nshown.get(fid, 0)
                nshown[fid] = n + 1
                what = "%s: %s route returns %s" % (where, o["route"], json.dumps(o["observed"]))
                if case:
                    allowed = case["queries"][qi]["r%d" % o["round"]]["strict"]
                    what += " where the strict specification allows %s, on %s" % (json.dumps(allowed)[:300], json.dumps(compact_case(case, qi))[:900])
                ctx.deviation(fid, what, dict(kind="case", case=case, query=qi, round=o["round"], route=o["route"], observed=o["observed"]) if case else None)
            continue
        # unexplained answer or planner disagreement (a broken tree produces thousands: keep the first ones)
        nshown["_viol"] = nshown.get("_viol", 0) + 1
        if nshown["_viol"] > 20:
            continue
        what = "%s: %s; %s route observed %s (other route %s)" % (where, o.get("detail", ""), o.get("route", ""), json.dumps(o.get("observed")), json.dumps(o.get("other_route")))
        if case:
            what += " on " + json.dumps(compact_case(case, qi))[:1200]
        ctx.deviation(None, what, dict(kind="case", case=case, query=qi, round=o["round"], route=o.get("route"), observed=o.get("observed")))
    ctx.extra["violating_reports"] = nshown.get("_viol", 0)
    if errs:
        raise errs[0]

    # ---------------------------------------------------------------- 4. evidence
    t = totals
    runs = t.get("Runs", 0)
    ctx.cov["traces_validated_against_impl"] = t.get("Cases", 0)
    ctx.cov["evaluations"] = runs
    ctx.cov["distinct_nontrivial"] = t.get("DistinctNontrivial", 0)
    ctx.cov["rule"] = ("case = documents + mutations + queries generated by TLC (Gen_Filter) with the allowed answers computed by Filter.tla; "
                       "evaluation = one query run on the real gateway through one route in one round; non-trivial = the planner routed the "
                       "as-given form through the bucket and the strict answer is not empty, distinct by (contents, query) hash within a shard")
    ctx.cov["exhaustive"] = bool(thorough)
    routed = t.get("RoutedBucket", 0)
    ctx.extra["cases"] = t.get("Cases", 0)
    ctx.extra["queries_x_rounds"] = t.get("Queries", 0)
    ctx.extra["bucket_route_fraction"] = round(routed / max(1, t.get("Queries", 0)), 4)
    ctx.extra["bucket_route_runs"] = routed
    ctx.extra["bucket_route_confirmed_by_bucket_count"] = t.get("RoutedObserved", 0)
    ctx.extra["bucket_builds_observed"] = t.get("BucketBuilds", 0)
    ctx.extra["planner_mode_counts"] = t.get("ModeCount", {})
    ctx.extra["planner_mismatches"] = t.get("PlanMismatch", 0)
    ctx.extra["routes_observed_to_differ"] = t.get("RoutesDiffer", 0)
    ctx.extra["answers_strict"] = dict(scan=t.get("ScanOK", 0), bucket=t.get("BucketOK", 0))
    ctx.extra["answers_explained_by_open_deviation"] = dict(scan=t.get("ScanDev", 0), bucket=t.get("BucketDev", 0))
    ctx.extra["answers_unexplained"] = t.get("Unexplained", 0)
    ctx.extra["deviation_counts"] = t.get("DevCount", {})
    ctx.extra["nonempty_answers"] = t.get("NonEmpty", 0)
    ctx.extra["labelled_answers"] = t.get("Labelled", 0)
    ctx.extra["expectations_with_ties"] = t.get("TieCases", 0)
    ctx.extra["cases_with_second_round"] = t.get("Round2", 0)
    ctx.extra["mutations_applied"] = t.get("Mutations", 0)
    ctx.extra["case_kinds"] = t.get("KindCount", {})
    if not ctx.replay:
        ctx.extra["witness_reproduced"] = {k: sorted(v) for k, v in witness_seen.items()}
        missing = [d for d in known if d not in witness_seen or d not in witness_seen[d]]
        ctx.extra["open_findings_not_reproduced_by_witness"] = missing
        if runs == 0 or routed == 0:
            raise vlib.Inconclusive("no query was routed through the bucket: the check is vacuous")


ALL_DEVS = ["FloatTruncScan", "TimeFieldScan", "WildcardCmpKinds", "PageAfterFilter", "WildcardLenPlanned",
            "IndexedLegLabelDropped", "TimeWindowOnKeyIndex", "ZeroTimeOnTimeIndex", "RawBodyIndexed"]
