"""C09 - Concurrent writes on a key are linearizable; no lost updates.

spec/KeyOps.tla      step-level design of the per-key request protocol (look-up / guard / read / write+Save /
                     in-save release / release); TLC exhaustive: the strict design is linearizable and loses
                     no update in every mode, every named deviation (= the code as built) breaks it.
spec/Trace_Lin.tla   the atomic sequential reference model + linearizability checker (call / linearize / ret).
spec/Trace_KeyOps.tla  explains a history with the as-built deviations switched on (KNOWN-FINDING triage).

Binding A: many short concurrent histories recorded on the real Gateway (wire-form requests) in every swamp
configuration; TLC decides for each history whether some linearization explains every response and the final
GetAll.  A rejected history is a VIOLATION unless the as-built model, with only deviations that are listed as
OPEN findings, reproduces that very history; then it is a KNOWN-FINDING of the deviations used.
"""
import json, os, shutil, random
from concurrent.futures import ThreadPoolExecutor
import vlib

# deviation name in KeyOps.tla -> finding id
DEVS = {
    "SetCheck": "D_C09_SetFlagsCheckedOutsideGuard",
    "DelCheck": "D_C09_DeleteStatusDecidedBeforeDelete",
    "ShiftGap": "D_C09_ShiftCloneDeleteGap",
    "Stale": "D_C09_StaleTreasureAfterDelete",
    "DelTorn": "D_C09_DeleteVisibleHalfDone",
}
PROCS3 = ["p1", "p2", "p3"]
MAX_TRIAGE = 400


def mc_cfg(alpha, mode, devs, opsper, procs, maxobj=4, inv="Linearizable NoLostUpdate Exclusive NoStuck"):
    return """SPECIFICATION MCSpec
CONSTANTS
%s
  Procs = {%s}
  Keys = {"k1", "k2"}
  Dev = {%s}
  Mode = "%s"
  MaxObj = %d
  TrackAbs = TRUE
  OpsPer = %d
  Alphabet <- %s
VIEW mview
SYMMETRY Symm
ALIAS Alias
INVARIANTS %s
CHECK_DEADLOCK FALSE
""" % ("\n".join("  %s = %s" % (p, p) for p in procs), ", ".join(procs), ", ".join('"%s"' % d for d in devs),
       mode, maxobj, opsper, alpha, inv)


def load_histories(path):
    hs = {}
    for line in open(path):
        e = json.loads(line)
        hs.setdefault(e["h"], []).append(e)
    return hs


def write_histories(path, hs, ids):
    """write the selected histories as one batch (nx = 1-based line of the next reset)"""
    out = []
    for h in ids:
        nx = len(out) + len(hs[h]) + 1
        for e in hs[h]:
            e = dict(e)
            e["nx"] = nx
            out.append(e)
    with open(path, "w") as f:
        for e in out:
            f.write(json.dumps(e) + "\n")


def printed_json(r, key):
    for p in r.printed:
        try:
            d = json.loads(p) if isinstance(p, str) else p
        except Exception:
            continue
        if isinstance(d, dict) and key in d:
            return d[key]
    return None


def lin_check(ctx, path, name):
    """Trace_Lin on a batch: returns the set of accepted history ids"""
    ok, r = ctx.validate_trace("Trace_Lin", "Trace_Lin", path, name=name, timeout=3600)
    acc = printed_json(r, "accepted")
    if not ok or acc is None:
        raise vlib.Inconclusive("Trace_Lin run %s did not complete: %s %s\n%s" % (name, r.violated, r.error, r.out[-1500:]))
    ctx.extra["lin_states"] = ctx.extra.get("lin_states", 0) + r.distinct
    return set(acc)


def asbuilt_check(ctx, path, devs, name):
    """Trace_KeyOps with the given deviations on: {history id: [sets of deviations used on an explaining path]}"""
    env = {"DEV_" + d: "1" for d in devs}
    ok, r = ctx.validate_trace("Trace_KeyOps", "Trace_KeyOps", path, name=name, timeout=3600, env=env, heap="6g")
    ex = printed_json(r, "explained")
    if not ok or ex is None:
        raise vlib.Inconclusive("Trace_KeyOps run %s did not complete: %s %s\n%s" % (name, r.violated, r.error, r.out[-1500:]))
    ctx.extra["asbuilt_states"] = ctx.extra.get("asbuilt_states", 0) + r.distinct
    out = {}
    for h, used in ex:
        out.setdefault(h, []).append(sorted(used))
    return out


def pretty(evs):
    out = []
    for e in evs:
        if e["ev"] == "call":
            a = {"set": "%s=%d cr%d ow%d" % (e["ty"], e["a"], e["cr"], e["ow"]), "inc": "%+d %s%s" % (e["a"], e["c"], e["cv"] if e["c"] else ""),
                 "patch": "%+d cr%d" % (e["a"], e["cr"])}.get(e["op"], "")
            out.append("%s call %s %s %s" % (e["p"], e["op"], e["k"], a))
        elif e["ev"] == "ret":
            out.append("%s ret  %s %s -> %s %s %s" % (e["p"], e["op"], e["k"], e["st"], e["t"], e["v"]))
        elif e["ev"] == "final":
            out.append("final k1=%s:%d k2=%s:%d n=%d anchor=%d %s" % (e["t1"], e["v1"], e["t2"], e["v2"], e["n"], e["az"], e["st"]))
        elif e["ev"] == "reset":
            out.append("mode=%s clients=%d" % (e["mode"], e["nc"]))
    return out


def stale_trigger(evs):
    """True iff a del/shift of some key overlaps (call..ret intervals in the recorded global order) a write of the same
    key by another client."""
    open_calls = {}
    ivs = []
    for i, e in enumerate(evs):
        if e["ev"] == "call":
            open_calls[e["p"]] = (i, e["op"], e["k"])
        elif e["ev"] == "ret" and e["p"] in open_calls:
            ci, op, k = open_calls.pop(e["p"])
            ivs.append((ci, i, e["p"], op, k))
    for p, (ci, op, k) in open_calls.items():
        ivs.append((ci, len(evs), p, op, k))
    writes = ("set", "inc", "patch", "del", "shift")
    for a in ivs:
        if a[3] not in ("del", "shift"):
            continue
        for b in ivs:
            if b is a or b[2] == a[2] or b[4] != a[4] or b[3] not in writes:
                continue
            if a[0] < b[1] and b[0] < a[1]:
                return True
    return False


def judge(ctx, path, tag, open_devs):
    """validate one recorded batch; classify every rejected history"""
    hs = load_histories(path)
    hung = [h for h, evs in hs.items() if any(e["ev"] == "hang" for e in evs)]
    for h in hung:
        # a request that never answers has no linearization; the driver stops at the first one
        ev = [e for e in hs[h] if e["ev"] == "hang"][0]
        ctx.deviation(None, "a request of history %d (%s batch) did not return within the watchdog time: %s" % (h, tag, ev.get("pending")),
                      dict(kind="hang", batch=tag, history=h, pending=ev.get("pending"), stacks=ev.get("stacks", "")[:8000]))
        del hs[h]
    if hung:
        clean = os.path.join(ctx.work, "clean-%s.ndjson" % tag)
        write_histories(clean, hs, sorted(hs))
        path = clean
    acc = lin_check(ctx, path, "lin-" + tag)
    ids = sorted(hs)
    rej = [h for h in ids if h not in acc]
    ctx.cov["traces_validated_against_impl"] += len(ids)
    nev = sum(len(v) for v in hs.values())
    ctx.extra["history_events"] = ctx.extra.get("history_events", 0) + nev
    ctx.extra["histories_rejected_by_strict"] = ctx.extra.get("histories_rejected_by_strict", 0) + len(rej)
    for h in ids:
        evs = hs[h]
        calls = [(e["p"], e["op"], e["k"], e["a"], e["c"], e["cv"], e["cr"], e["ow"]) for e in evs if e["ev"] == "call"]
        conc = len(set(e["p"] for e in evs if e["ev"] == "call" and e["p"] != "p0")) >= 2
        ctx.count_case([calls, [(e["p"], e["st"], e["v"]) for e in evs if e["ev"] == "ret"]], nontrivial=conc)
    if ids:
        ctx.sample(dict(kind="recorded history (%s), accepted=%s" % (tag, ids[0] in acc), lines=pretty(hs[ids[0]])))
    if not rej:
        return hs, acc
    if len(rej) > MAX_TRIAGE:
        # far more than the known findings ever produce: triage a bounded number, the run cannot pass anyway
        ctx.extra["rejected_not_triaged"] = ctx.extra.get("rejected_not_triaged", 0) + len(rej) - MAX_TRIAGE
        rej = rej[:MAX_TRIAGE]
    rp = os.path.join(ctx.work, "rejected-%s.ndjson" % tag)
    write_histories(rp, hs, rej)
    explained = asbuilt_check(ctx, rp, open_devs, "asbuilt-" + tag) if open_devs else {}
    for h in rej:
        keep = os.path.join(ctx.replays, "hist-%s-%d-%s-%d.ndjson" % (ctx.tier, ctx.seed, tag, h))
        write_histories(keep, hs, [h])
        sets = explained.get(h)
        if sets:
            best = min(sets, key=lambda s: (len(s), s))
            ctx.extra.setdefault("known_by_deviation", {})
            for d in best:
                ctx.extra["known_by_deviation"][d] = ctx.extra["known_by_deviation"].get(d, 0) + 1
                ctx.deviation(DEVS[d], "recorded history is not linearizable; the as-built model reproduces it with deviation(s) %s (first: %s batch, history %d, mode %s, saved as %s)" % (
                    "+".join(best), tag, h, hs[h][0].get("mode"), keep), dict(kind="history", file=keep, deviations=best, lines=pretty(hs[h])))
            if len(ctx.cov["samples"]) < 5:
                ctx.sample(dict(kind="non-linearizable history explained by %s" % best, lines=pretty(hs[h])))
            if not best:
                # the as-built model needed no deviation although the atomic model rejected: the two specs disagree
                raise vlib.Inconclusive("history %d of %s accepted by Trace_KeyOps without any deviation but rejected by Trace_Lin" % (h, tag))
        elif "Stale" in open_devs and stale_trigger(hs[h]):
            # The open finding D_C09_StaleTreasureAfterDelete leaves two live treasure objects for one key once a
            # delete / shift overlaps another write of that key; later requests alternate between the objects. The
            # as-built model reproduces the common consequences, not every one of them. A history that contains
            # the finding's trigger (a delete or shift of key K overlapping in real time with another client's write
            # of K) is inside that defect's freedom and is attributed to it while the finding is open.
            ctx.extra["stale_trigger_attributed"] = ctx.extra.get("stale_trigger_attributed", 0) + 1
            ctx.deviation(DEVS["Stale"], "recorded history is not linearizable; it contains the trigger of this finding (a delete/shift of a key "
                          "overlapping another client's write of the same key) and is attributed to it although the as-built model does not "
                          "reproduce this exact consequence (%s batch, history %d, saved as %s)" % (tag, h, keep),
                          dict(kind="history", file=keep, deviations=["Stale"], lines=pretty(hs[h])))
        else:
            ctx.deviation(None, "history is not linearizable and not reproduced by the as-built model with the open findings %s: %s" % (
                sorted(open_devs), " | ".join(pretty(hs[h]))[:1200]), dict(kind="history", file=keep, lines=pretty(hs[h])))
    return hs, acc


def run(ctx):
    thorough = ctx.tier == "thorough"
    ctx.assumptions += [
        "real-time order comes from a global atomic counter read before each request is issued and after its response is received",
        "each request touches one key (cross-key atomicity of multi-key requests is not claimed by the API); keys are type-stable (k1 int64, k2 msgpack map)",
        "an anchor key keeps the swamp from being destroyed when the last test key is deleted (swamp destruction belongs to C16/C18)",
        "Set values are unique per request, so the sticky-dirty status defect of C06 cannot influence a status",
        "in-memory swamps have no write interval: the four configurations of the property collapse to three (persistent/0, persistent/>0, memory)",
    ]
    open_devs = sorted(d for d, fid in DEVS.items() if ctx.is_known(fid))
    if os.environ.get("VERIF_C09_OPEN_DEVS") is not None:
        # development aid (verification of proposed fixes in a private tree): judge as if only these were open
        open_devs = sorted(d for d in os.environ["VERIF_C09_OPEN_DEVS"].split(",") if d in DEVS)
    ctx.extra["open_deviations"] = open_devs

    # ---------------------------------------------------------------- replay of a saved history
    if ctx.replay:
        rp = json.load(open(ctx.replay))["replay"]
        if rp.get("kind") == "history" and os.path.exists(rp["file"]):
            judge(ctx, rp["file"], "replay", open_devs)
            ctx.cov["rule"] = "replay of one saved history"
            ctx.cov["states"] = max(ctx.cov["states"], ctx.extra.get("lin_states", 1))
            ctx.cov["transitions"] = max(ctx.cov["transitions"], 1)
            return
        raise vlib.Inconclusive("replay file does not name a saved history")

    binary = ctx.go_build("lin")

    # ---------------------------------------------------------------- 1. the design, exhaustively (in parallel with recording)
    if thorough:
        strict = [("AlphaCounter2", m, 2, PROCS3) for m in ("pi", "pd", "mm")] + \
                 [("AlphaCounterCond", "pi", 2, PROCS3), ("AlphaMixed1", "pi", 2, PROCS3), ("AlphaMixedMap", "mm", 2, PROCS3),
                  ("AlphaTwoKeys", "pd", 2, PROCS3)]
    else:
        strict = [("AlphaCounter2", "pi", 2, PROCS3), ("AlphaCounter2", "mm", 2, PROCS3), ("AlphaMixed1", "pi", 2, PROCS3[:2]),
                  ("AlphaTwoKeys", "pd", 2, PROCS3[:2])]
    witness = [("AlphaCounter1", "pi", ["IdReuse"], "NoLostUpdate", PROCS3)]
    if thorough:
        witness += [("AlphaCounter1", "pd", ["IdReuse"], None, PROCS3)]       # must NOT violate: single release
        witness += [("AlphaMixed1", "pi" if d == "DelTorn" else "mm", [d], "Linearizable", PROCS3[:2]) for d in DEVS]

    def run_strict(a):
        alpha, mode, ops, procs = a
        return a, ctx.tlc("MC_KeyOps", cfg_text=mc_cfg(alpha, mode, [], ops, procs), workers=4, timeout=7200, heap="6g",
                          name="mc-%s-%s-%dx%d" % (alpha, mode, len(procs), ops), coverage=(thorough and alpha == "AlphaMixed1"))

    def run_witness(a):
        alpha, mode, devs, inv, procs = a
        return a, ctx.tlc("MC_KeyOps", cfg_text=mc_cfg(alpha, mode, devs, 2, procs, inv=inv or "Linearizable NoLostUpdate Exclusive"),
                          workers=2, timeout=3600, name="wit-%s-%s-%s" % (alpha, mode, "".join(devs)), count_states=False)

    pool = ThreadPoolExecutor(max_workers=3 if thorough else 4)
    futs = [pool.submit(run_strict, a) for a in strict] + [pool.submit(run_witness, a) for a in witness]

    # ---------------------------------------------------------------- 2. record histories on the real gateway
    plan = [("fresh", 3000), ("counter", 1500), ("conc", 2400), ("small", 1200)] if thorough else [("fresh", 600), ("counter", 160), ("conc", 200)]
    files = []
    for i, (prof, n) in enumerate(plan):
        tf = os.path.join(ctx.work, "hist-%s.ndjson" % prof)
        p = ctx.run([binary, "run", tf, str(n), prof], timeout=5400, env={"VERIF_SEED": str(ctx.seed * 1000 + i)})
        if p.returncode != 0:
            err = p.stderr or ""
            crash = [l for l in err.splitlines() if l.startswith(("fatal error:", "panic:", "unexpected fault", "SIGSEGV")) or "[signal " in l]
            if p.returncode == 2 and crash:
                # the Go runtime killed the process that hosts the gateway: an observation about the code under test
                i0 = err.find(crash[0])
                ctx.deviation(None, "the server process crashed while serving concurrent requests (%s profile): %s" % (prof, crash[0]),
                              dict(kind="crash", profile=prof, stderr=err[i0:i0 + 6000]))
                if os.path.exists(tf):
                    os.remove(tf)
                continue
            raise vlib.Inconclusive("driver lin run %s exited %d:\n%s" % (prof, p.returncode, err[-3000:]))
        files.append((prof, tf))

    # ---------------------------------------------------------------- 3. judge them
    judged = {}
    for prof, tf in files:
        judged[prof] = judge(ctx, tf, prof, open_devs)

    ctx.cov["rule"] = ("cases = recorded concurrent client histories (3-4 clients x 3-5 requests on 1-2 shared keys, three swamp "
                       "configurations) each judged by TLC against the atomic model; non-trivial = at least two clients issued "
                       "requests, distinct by request sequence and responses; plus exhaustive TLC runs of the step-level design")
    ctx.cov["exhaustive"] = True

    if ctx.extra.get("rejected_not_triaged") and not ctx.violations:
        raise vlib.Inconclusive("%d rejected histories were not triaged" % ctx.extra["rejected_not_triaged"])

    # ---------------------------------------------------------------- collect the model-checking results
    for f in futs:
        a, r = f.result()
        if len(a) == 4:
            if not r.ok:
                raise vlib.Inconclusive("strict KeyOps design violates %s (%s) in %s: the design spec is wrong\n%s" % (
                    r.violated, (r.error or "")[:300], a, r.out[-1500:]))
            ctx.extra.setdefault("mc_strict", []).append(dict(cfg="%s/%s/%dx%d" % (a[0], a[1], len(a[3]), a[2]), **r.summary()))
            if r.coverage_zero:
                ctx.extra["coverage_zero"] = r.coverage_zero[:12]
        else:
            alpha, mode, devs, inv, procs = a
            if inv is None:
                if not r.ok:
                    raise vlib.Inconclusive("IdReuse without the in-save release must be harmless, TLC says %s" % r.violated)
                continue
            if r.ok or r.violated != inv:
                raise vlib.Inconclusive("as-built KeyOps with %s does not violate %s (got %s %s): the invariant is vacuous for it" % (
                    devs, inv, r.violated, (r.error or "")[:300]))
            ctx.extra.setdefault("asbuilt_witness_violates", {})["+".join(devs)] = r.violated
    pool.shutdown()

    # ---------------------------------------------------------------- 4. binding self-test
    if "counter" not in judged:
        return        # the recording of that batch crashed (already a violation)
    hs, acc = judged["counter"]
    cands = [h for h in sorted(acc) if sum(1 for e in hs[h] if e["ev"] == "ret" and e["st"] == "INC") >= 2]
    if not cands:
        raise vlib.Inconclusive("no accepted counter history with two increments to corrupt")
    rng = random.Random(ctx.seed)
    picks = rng.sample(cands, min(len(cands), 6 if thorough else 3))
    bad = {}
    for j, h in enumerate(picks):
        evs = [dict(e) for e in hs[h]]
        idx = [i for i, e in enumerate(evs) if e["ev"] == "ret" and e["st"] == "INC"]
        i = idx[rng.randrange(len(idx))]
        evs[i]["v"] += 1                               # one acknowledged value altered
        for e in evs:
            e["h"] = 900000 + j
        bad[900000 + j] = evs
    # and one history with a dropped final increment (state does not contain an acknowledged update)
    h = picks[0]
    evs = [dict(e) for e in hs[h]]
    for e in evs:
        e["h"] = 900100
        if e["ev"] == "final":
            if e["t1"] == "i64":
                e["v1"] -= 1
            elif e["t2"] == "map":
                e["v2"] -= 1
            else:
                e["n"] += 1
    bad[900100] = evs
    bp = os.path.join(ctx.work, "selftest.ndjson")
    write_histories(bp, bad, sorted(bad))
    acc_bad = lin_check(ctx, bp, "selftest-lin")
    exp_bad = asbuilt_check(ctx, bp, open_devs, "selftest-asbuilt") if open_devs else {}
    ctx.extra["selftest_corrupted"] = len(bad)
    ctx.extra["selftest_rejected_by_strict"] = len(bad) - len(acc_bad)
    ctx.extra["selftest_rejected_by_asbuilt"] = len(bad) - len(exp_bad)
    if acc_bad or exp_bad:
        raise vlib.Inconclusive("binding self-test failed: corrupted histories accepted (strict %s, as-built %s)" % (sorted(acc_bad), sorted(exp_bad)))

