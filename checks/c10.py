"""C10 - Concurrent use never crashes the server or races on memory.

spec/Access.tla   the lock-discipline model: shared locations, every API path as steps with the lock set held,
                  transcribed from beacon.go / swamp.go / treasure.go / gateway.go.  TLC explores every pair of API
                  paths: the strict discipline is RaceFree and gives CommittedRead; the code as built (named
                  deviations) yields the PREDICTED RACING PAIRS of code sites; everything else that conflicts is a
                  PROTECTED pair.
Binding           harness/cmd/racemix (built with -race) runs exactly the path pairs TLC ranks (racy first, then the
                  rest, then random larger mixes), each mix in a CHILD process; race-detector reports and Go fatal
                  errors are mapped to code-site pairs by stack function names; a versioned-write driver checks
                  CommittedRead on real reads.
Verdict           an observed race / crash that the as-built model does not predict is a VIOLATION; one it predicts
                  under deviation d is a KNOWN-FINDING of d's open finding; predicted pairs that were not observed are
                  coverage gaps (evidence only).  The memory observation is the race detector's, not TLC's: the claim
                  level is "exploration".
"""
import json, os, random, re, itertools
from concurrent.futures import ThreadPoolExecutor
import vlib

DEVS = {
    "CloneOrder": "D_C10_CloneWaitsForGuardsUnderBeaconLock",
    "MapEscape": "D_C10_GetAllMapEscape",
    "ColdBuild": "D_C10_ColdIndexBuildMapEscape",
    "SetterNoLock": "D_C10_SetterNoLock",
    "Fieldwise": "D_C10_TornRecordRead",
}
ALL_PATHS = ["get", "getbykeys", "count", "exists", "getall", "idx_cold_key", "idx_cold_time", "idx_warm", "bucket_cold", "bucket_warm",
             "set_upd", "set_new", "inc", "inc_u32", "inc_f64", "u32_push", "u32_del", "u32_read", "patch", "del", "shift", "filewriter"]
# model path -> driver paths that exercise it
DRIVER = {
    "get": ["get"], "getbykeys": ["getbykeys"], "count": ["count"], "exists": ["exists"], "getall": ["getall"],
    "idx_cold_key": ["idx_key", "idx_val", "stream"], "idx_cold_time": ["idx_ctime", "idx_utime", "idx_exp"],
    "idx_warm": ["idx_key", "idx_ctime", "idx_exp"], "bucket_cold": ["fstream_cold"], "bucket_warm": ["fstream"],
    "set_upd": ["set_upd"], "set_new": ["set_new"], "inc": ["inc"], "patch": ["patch"], "del": ["del"], "shift": ["shift"],
    "inc_u32": ["inc_u32"], "inc_f64": ["inc_f64"], "u32_push": ["u32_push"], "u32_del": ["u32_del"], "u32_read": ["u32_read"],
    "filewriter": [],   # implicit: persistent modes
}
WRITERS = ["set_new", "set_upd", "inc", "inc_u32", "inc_f64", "u32_push", "u32_del", "patch", "del", "shift"]
# every API path that writes the CONTENT of an existing record, and the read paths that return record content: each
# content writer is always run against each of them on the same keys (predicted protected or not)
CONTENT_WRITERS = ["set_upd", "inc", "inc_u32", "inc_f64", "u32_push", "u32_del", "patch"]
CONTENT_READERS = ["get", "getall", "getbykeys", "idx_key", "stream", "u32_read"]
READERS = ["get", "getall", "getbykeys", "count", "exists", "idx_key", "idx_ctime", "idx_utime", "idx_exp", "idx_val", "stream", "fstream", "fstream_cold", "u32_read"]
# read paths that build a derived structure from the key map on first use: always run against every inserting / removing writer
LAZY_BUILDERS = ["idx_key", "idx_val", "idx_ctime", "idx_utime", "idx_exp", "stream", "fstream_cold"]
SKIP = ("runtime.", "sync.", "sync/atomic.", "maps.", "internal/", "sort.", "slices.", "strings.", "bytes.", "reflect.", "fmt.", "time.", "iter.")
MAPLOCS = {"keymap", "idx", "wbuf"}


def cfg(procs, devs, paths, inv=""):
    return """SPECIFICATION MCSpec
CONSTANTS
  p1 = p1
  p2 = p2
  p3 = p3
  Procs = {%s}
  Dev = {%s}
  PathNames = {%s}
  Persistent = TRUE
CONSTRAINT Collect
SYMMETRY Symm
%s
POSTCONDITION Report
CHECK_DEADLOCK FALSE
""" % (", ".join(procs), ", ".join('"%s"' % d for d in devs), ", ".join('"%s"' % p for p in paths), ("INVARIANTS " + inv) if inv else "")


def norm(fn):
    fn = fn.split("/")[-1]
    fn = re.sub(r"\(\*?(\w+)\)\.", "", fn)          # treasure.(*treasure).X -> treasure.X
    fn = fn.replace("gateway.Gateway.", "gateway.")
    fn = re.sub(r"(\.func\d+)+(\.\d+)*$", "", fn)    # closures belong to their function
    fn = re.sub(r"-fm$", "", fn)
    fn = re.sub(r"\[.*$", "", fn)                    # generic instantiation
    if fn.startswith("beacon.SortBy"):
        fn = "beacon.SortBy"
    return fn


def site(fns):
    """the code site of a stack: its innermost function that belongs to the repository under test ("@" mark);
    stacks without one (driver / library only) fall back to the innermost non-runtime function"""
    for f in fns:
        if f.startswith("@"):
            return norm(f[1:])
    for f in fns:
        if f.startswith(SKIP):
            continue
        return norm(f)
    return norm(fns[0]) if fns else "?"


def pair_key(a, b):
    return tuple(sorted([a, b]))


def printed(r, key):
    for p in r.printed:
        try:
            d = json.loads(p) if isinstance(p, str) else p
        except Exception:
            continue
        if isinstance(d, dict) and key in d:
            return d
    return None


def run(ctx):
    thorough = ctx.tier == "thorough"
    rng = random.Random(ctx.seed)
    ctx.level = "exploration"
    ctx.assumptions += [
        "memory accesses are observed by the Go race detector (happens-before based): a race is reported only if the conflicting accesses actually executed unordered in that run; absence of a report is not a proof",
        "a race report is attributed to the innermost non-runtime function of each of its two stacks; sort comparators are attributed to beacon.SortBy",
        "the lock-set tables of spec/Access.tla were transcribed by hand from the pinned sources; TLC checks the discipline, not the transcription - the transcription is checked by the binding (every observed race must be a predicted one)",
        "one treasure, one index beacon and the key map stand for all instances (worst case: both processes work on the same record and index)",
    ]
    open_devs = sorted(d for d, fid in DEVS.items() if ctx.is_known(fid))
    if os.environ.get("VERIF_C10_OPEN_DEVS") is not None:
        # development aid (verification of proposed fixes in a private tree): judge as if only these were open
        open_devs = sorted(d for d in os.environ["VERIF_C10_OPEN_DEVS"].split(",") if d in DEVS)
    ctx.extra["open_deviations"] = open_devs
    listed = {}
    for fid, f in ctx.open_findings().items():
        for pr in f.get("site_pairs", []):
            listed[pair_key((pr[0][0], pr[0][1]), (pr[1][0], pr[1][1]))] = fid

    # ------------------------------------------------------------------ 1. the discipline model (TLC), in parallel
    two, three = ["p1", "p2"], ["p1", "p2", "p3"]
    jobs = {
        "strict": (two, [], ALL_PATHS, "RaceFree CommittedRead NoDeadlock"),
        "asbuilt": (two, sorted(DEVS), ALL_PATHS, ""),
        "cr-strict3": (three, [], ["set_upd", "get"], "RaceFree CommittedRead NoDeadlock"),
        "cr-asbuilt3": (three, ["Fieldwise"], ["set_upd", "get"], "CommittedRead"),
    }
    for d in DEVS:
        # (the strict record-snapshot lock rv also orders setters and getters, so the per-deviation attribution
        # of races is computed with the Fieldwise deviation on)
        jobs["only-" + d] = (two, sorted(set([d, "Fieldwise"])), ALL_PATHS, "")
    if thorough:
        jobs["strict3"] = (three, [], ["getall", "set_new", "set_upd", "del", "idx_cold_key", "bucket_cold"], "RaceFree CommittedRead NoDeadlock")

    def tl(name):
        procs, devs, paths, inv = jobs[name]
        return name, ctx.tlc("MC_Access", cfg_text=cfg(procs, devs, paths, inv), workers=1, timeout=5400, name="acc-" + name,
                             count_states=name in ("strict", "asbuilt", "strict3", "cr-strict3"), coverage=(thorough and name == "asbuilt"))

    pool = ThreadPoolExecutor(max_workers=5)
    futs = [pool.submit(tl, n) for n in jobs]

    binary = ctx.go_build("racemix", race=True)

    res = {}
    for f in futs:
        n, r = f.result()
        res[n] = r
    pool.shutdown()
    for n in ("strict", "cr-strict3", "strict3"):
        if n in res and not res[n].ok:
            raise vlib.Inconclusive("the strict lock discipline violates %s in run %s: the spec is wrong\n%s" % (res[n].violated, n, res[n].out[-1500:]))
    if res["cr-asbuilt3"].ok or res["cr-asbuilt3"].violated != "CommittedRead":
        raise vlib.Inconclusive("as-built record access (Fieldwise) does not violate CommittedRead: the invariant is vacuous")

    def pairs_of(r, what):
        d = printed(r, "racing")
        if d is None:
            raise vlib.Inconclusive("TLC run %s printed no result\n%s" % (what, r.out[-1500:]))
        out = {}
        for x in d["racing"]:
            k = pair_key((x["fa"], x["aa"]), (x["fb"], x["ab"]))
            e = out.setdefault(k, dict(locs=set(), paths=set()))
            e["locs"] |= set(x["locs"])
            e["paths"].add(tuple(sorted([x["pa"], x["pb"]])))
        conf = set(pair_key((c[0], c[1]), (c[2], c[3])) for c in d["conflicting"])
        return out, conf

    if not res["asbuilt"].ok:
        raise vlib.Inconclusive("as-built Access run failed: %s %s" % (res["asbuilt"].violated, res["asbuilt"].error))
    predicted, conflicting = pairs_of(res["asbuilt"], "asbuilt")
    if not predicted:
        raise vlib.Inconclusive("the as-built model predicts no race: vacuous")
    by_dev = {}
    for d in DEVS:
        pd_, _ = pairs_of(res["only-" + d], "only-" + d)
        by_dev[d] = set(pd_)
        if d not in ("Fieldwise", "CloneOrder") and not pd_:
            raise vlib.Inconclusive("deviation %s alone predicts no race: it is not a deviation" % d)
    protected = conflicting - set(predicted)
    # predicted deadlocks: sets of (function that is waiting for a lock) of the as-built model; the strict model has none
    dl = printed(res["asbuilt"], "racing").get("deadlocks", [])
    pred_dead = set(frozenset(b["fn"] for b in st) for st in dl)
    dl_clone = printed(res["only-CloneOrder"], "racing").get("deadlocks", [])
    if not dl_clone or set(frozenset(b["fn"] for b in st) for st in dl_clone) != pred_dead:
        raise vlib.Inconclusive("the predicted deadlocks are not exactly those of the CloneOrder deviation: %s vs %s" % (sorted(map(sorted, pred_dead)), len(dl_clone)))
    ctx.extra["predicted_deadlocks"] = sorted(sorted(x) for x in pred_dead)
    ctx.extra["predicted_racing_pairs"] = len(predicted)
    ctx.extra["predicted_pairs"] = [[list(k[0]), list(k[1]), sorted(e["locs"]), [d for d in DEVS if k in by_dev[d]]] for k, e in sorted(predicted.items())]
    ctx.extra["protected_pairs"] = len(protected)
    ctx.extra["model"] = dict(strict=res["strict"].summary(), asbuilt=res["asbuilt"].summary())
    if thorough and res["asbuilt"].coverage_zero:
        ctx.extra["coverage_zero"] = res["asbuilt"].coverage_zero[:10]
    # The only map crash the as-built discipline can produce is the iterator's "concurrent map iteration and map write":
    # its predicted sites are the READ sides of the racing pairs on a map location (all map writes are locked).
    sites_on_maps = {}
    for k, e in predicted.items():
        if e["locs"] & MAPLOCS:
            for s in k:
                if s[1] == "R":
                    sites_on_maps.setdefault(s[0], set()).add(k)

    def devs_of(k):
        ds = [d for d in DEVS if k in by_dev[d]]
        return ds or sorted(DEVS)

    # Publication races.  The model orders the initialisation of fresh memory (treasure.New: location alloc; the bytes of a
    # new body: location body) with its readers only through the publication edges pub / cpub, which are missing exactly
    # where a deviation leaks an unsynchronised pointer.  WHICH function then touches the memory first is not a property of
    # the lock discipline (any code that handles the leaked pointer can be the reader), so for these initialiser sites the
    # reader side is a wildcard: such a race is attributed to the deviations that predict races with that initialiser.
    initialisers = {}
    for k, e in predicted.items():
        if e["locs"] & {"alloc", "body"}:
            w = [s_ for s_ in k if s_[1] == "W"]
            if len(w) == 1:
                initialisers.setdefault(w[0][0], set()).update(devs_of(k))
    ctx.extra["initialiser_sites"] = {k: sorted(v) for k, v in initialisers.items()}

    # ------------------------------------------------------------------ 2. the op mixes TLC ranks
    racy_path_pairs = set()
    for e in predicted.values():
        racy_path_pairs |= e["paths"]
    mixes, seen = [], set()

    def add(paths, mode, iters, swamps=3):
        key = (tuple(sorted(paths)), mode)
        if key in seen:
            return
        seen.add(key)
        mixes.append(dict(id=len(mixes), paths=list(paths), iters=iters, swamps=swamps, mode=mode, seed=ctx.seed))

    iters = 160 if thorough else 90
    # (a) every pair of model paths predicted racy, concretised to driver paths
    for pa, pb in sorted(racy_path_pairs):
        for da in DRIVER[pa]:
            for db in DRIVER[pb]:
                if da in WRITERS or db in WRITERS:
                    add((da, db), "mm", iters)
    # (a') every lazily-built derived structure against the writers that change the key map (predicted protected or not)
    # These get more exposure than the other pairs: the window is one walk over the key map per build, so the mixes run
    # longer, with two writers and two builders as well, and - for structures that are built once per swamp - on more swamps.
    for r_ in LAZY_BUILDERS:
        sw_ = 2 if r_ == "fstream_cold" else 8
        for w in ("set_new", "del", "shift"):
            add((w, r_), "mm", min(260, iters * 3), swamps=sw_)
            add((w, w, r_, r_), "mm", min(180, iters * 2), swamps=sw_)
    # (a'') every writer of record content against every reader of record content
    for w in CONTENT_WRITERS:
        for r_ in CONTENT_READERS:
            add((w, r_), "mm", iters)
    # (b) persistent modes for the paths whose steps differ there (BodySetForDeletion, file writer)
    for w in ("del", "shift", "set_upd", "inc"):
        for r_ in ("getall", "get", "idx_key", "idx_exp"):
            add((w, r_), "pd", iters)
    for w, r_ in (("del", "getall"), ("inc", "get"), ("set_new", "getall")):
        add((w, r_), "pi", max(40, iters // 2))
    # (c) the remaining pairs of API paths (predicted protected): all in thorough, a seeded sample in quick
    rest = [(a, b) for a, b in itertools.combinations_with_replacement(WRITERS + READERS, 2)
            if (a in WRITERS or b in WRITERS) and (tuple(sorted((a, b))), "mm") not in seen]
    if not thorough:
        rest = rng.sample(rest, min(len(rest), 14))
    for a, b in rest:
        add((a, b), "mm", iters)
    # (d) random larger mixes
    for _ in range(24 if thorough else 6):
        ps = rng.sample(WRITERS, 2) + rng.sample(READERS, 2)
        add(tuple(ps), rng.choice(["mm", "mm", "pd"]), iters)
    if ctx.replay:
        rp = json.load(open(ctx.replay))["replay"]
        if rp.get("mix"):
            mixes = [dict(rp["mix"], id=0)]
    ctx.extra["mixes"] = len(mixes)
    plan = os.path.join(ctx.work, "plan.json")
    json.dump(mixes, open(plan, "w"))
    out = os.path.join(ctx.work, "results.ndjson")
    ctx.run_driver(binary, ["run", plan, out], timeout=3 * 3600, env={"RACEMIX_PAR": "6"})
    recs = [json.loads(l) for l in open(out)]
    by_mix = {m["id"]: m for m in mixes}

    # ------------------------------------------------------------------ 3. classify the observations
    observed, new_pairs, unpredicted = {}, set(), {}
    nrace = 0
    infra = []
    for e in recs:
        k = e["kind"]
        mix = by_mix.get(e.get("mix"), {})
        if k == "race":
            nrace += 1
            a, b = e["a"], e["b"]
            sa, sb = (site(a["fns"]), a["acc"][0].upper()), (site(b["fns"]), b["acc"][0].upper())
            if sa[0].startswith("main.") and sb[0].startswith("main."):
                infra.append("race inside the driver itself: %s / %s" % (sa, sb))
                continue
            key = pair_key(sa, sb)
            o = observed.setdefault(key, dict(n=0, mixes=set(), raw=e["raw"], mix=mix))
            o["n"] += 1
            o["mixes"].add(tuple(e.get("paths", [])))
        elif k == "fatal":
            s = site(e.get("fns", []))
            msg = e.get("msg", "")
            cands = sites_on_maps.get(s, set()) if "concurrent map iteration and map write" in msg else set()
            ds = sorted(set(d for kk in cands for d in devs_of(kk)))
            fid = next((DEVS[d] for d in ds if d in open_devs), None)
            ctx.extra["fatal_errors"] = ctx.extra.get("fatal_errors", 0) + 1
            ctx.deviation(fid, "the server process died with '%s' in %s while running %s%s" % (
                msg, s, e.get("paths"), "" if fid else " - not a crash the as-built discipline model predicts"),
                dict(kind="fatal", mix=mix, raw=e.get("raw", "")[:4000]))
        elif k == "panic":
            ctx.deviation(None, "a request panicked (%s) in %s while running %s" % (e.get("msg"), site(e.get("fns", [])), e.get("paths")),
                          dict(kind="panic", mix=mix, raw=e.get("raw", "")[:4000]))
        elif k == "hang":
            # a deadlock: is it one the as-built model predicts?  Every function the model says is waiting must be found in the
            # stack of a different parked goroutine of the real process
            gs = [g for g in e.get("goroutines", []) if not g["state"].startswith(("running", "runnable"))]
            stacks = [set(norm(f[1:]) for f in g["fns"] if f.startswith("@")) for g in gs]
            match = None
            for cyc in sorted(pred_dead, key=lambda c: sorted(c)):
                used, ok = set(), True
                for fn in sorted(cyc):
                    j = next((i for i, st in enumerate(stacks) if i not in used and fn in st), None)
                    if j is None:
                        ok = False
                        break
                    used.add(j)
                if ok:
                    match = sorted(cyc)
                    break
            fid = DEVS["CloneOrder"] if (match and "CloneOrder" in open_devs) else None
            ctx.extra["deadlocks_observed"] = ctx.extra.get("deadlocks_observed", 0) + 1
            ctx.count_case(["deadlock", match], nontrivial=True)
            ctx.deviation(fid, "requests of mix %s deadlocked (no completion for 90 s, every request goroutine parked)%s" % (
                e.get("paths"), (": the lock-order cycle the as-built model predicts, waiting in %s" % match) if match else
                " - not a deadlock the lock-discipline model predicts"),
                dict(kind="hang", mix=mix, goroutines=gs[:40], raw=e.get("raw", "")[:6000]))
        elif k == "infra":
            infra.append("%s %s" % (e.get("paths"), e.get("msg")))
    done_mixes = [e for e in recs if e["kind"] == "summary"]
    ctx.extra["race_reports"] = nrace
    ctx.extra["mixes_run"] = len(done_mixes)

    for key, o in sorted(observed.items()):
        ctx.count_case(["race", key], nontrivial=True)
        if key in predicted:
            ds = devs_of(key)
            fid = next((DEVS[d] for d in ds if d in open_devs), None)
            if key not in listed:
                new_pairs.add(key)
            what = "data race between %s (%s) and %s (%s) on %s: predicted by the as-built lock-discipline model under %s" % (
                key[0][0], key[0][1], key[1][0], key[1][1], sorted(predicted[key]["locs"]), "+".join(ds))
            ctx.deviation(fid, what, dict(kind="race", pair=key, mix=o["mix"], raw=o["raw"]))
        elif any(s_[1] == "W" and s_[0] in initialisers for s_ in key) and any(s_[1] == "R" for s_ in key):
            wsite = next(s_[0] for s_ in key if s_[1] == "W" and s_[0] in initialisers)
            ds = sorted(initialisers[wsite])
            fid = next((DEVS[d] for d in ds if d in open_devs), None)
            new_pairs.add(key)
            ctx.extra.setdefault("publication_races_with_unlisted_reader", []).append([list(key[0]), list(key[1])])
            ctx.deviation(fid, "data race between the initialisation in %s and a read in %s: a pointer published without synchronisation (%s) reached a reader the model does not list" % (
                wsite, next(s_[0] for s_ in key if s_[1] == "R"), "+".join(ds)), dict(kind="race", pair=key, mix=o["mix"], raw=o["raw"]))
        else:
            unpredicted[key] = o
            why = "the strict AND the as-built model say these two sites are protected" if key in protected else "the model has no conflicting access for these two sites"
            ctx.deviation(None, "data race between %s (%s) and %s (%s) observed in mix %s, not predicted by the lock-discipline model (%s)" % (
                key[0][0], key[0][1], key[1][0], key[1][1], sorted(o["mixes"])[:2], why), dict(kind="race", pair=key, mix=o["mix"], raw=o["raw"]))
    gaps = sorted(k for k in predicted if k not in observed)
    ctx.extra["observed_site_pairs"] = [[list(k[0]), list(k[1]), o["n"]] for k, o in sorted(observed.items())]
    ctx.extra["coverage_gaps_predicted_not_observed"] = [[list(k[0]), list(k[1])] for k in gaps]
    ctx.extra["observed_pairs_not_yet_listed_in_findings"] = [[list(k[0]), list(k[1])] for k in sorted(new_pairs)]
    for k, o in list(sorted(observed.items()))[:3]:
        ctx.sample(dict(kind="race report", pair=[list(k[0]), list(k[1])], count=o["n"], mixes=sorted(o["mixes"])[:3], report=o["raw"][:1200]))

    # ------------------------------------------------------------------ 4. CommittedRead on real reads
    vres = []
    for mode, it in (("mm", 4000 if thorough else 1500), ("pd", 1500 if thorough else 600)):
        vf = os.path.join(ctx.work, "versioned-%s.json" % mode)
        ctx.run_driver(binary, ["versioned", vf, str(it), "3", mode], timeout=3600,
                       env={"GORACE": "halt_on_error=0 exitcode=0 log_path=" + os.path.join(ctx.work, "vrace-" + mode)})
        v = json.load(open(vf))
        vres.append(v)
        ctx.count_case(["versioned", mode], nontrivial=True)
        ctx.cov["evaluations"] += v["reads"]
        if v["panics"]:
            ctx.deviation(None, "%d reads panicked in the versioned-write run (%s)" % (v["panics"], mode), dict(kind="versioned", result=v))
        if v["torn"]:
            fid = DEVS["Fieldwise"] if "Fieldwise" in open_devs else None
            ctx.deviation(fid, "%d of %d reads returned a record whose value and updated-by/updated-at belong to different Set requests (e.g. %s)" % (
                v["torn"], v["reads"], v["samples"][:2]), dict(kind="versioned", result=v))
    ctx.extra["versioned"] = vres
    ctx.sample(dict(kind="versioned-write run", result=vres[0]))
    for f in os.listdir(ctx.work):
        if f.startswith("vrace-"):
            os.remove(os.path.join(ctx.work, f))

    # ------------------------------------------------------------------ self-test of the mapping (thorough)
    # an observed pair with one site renamed must come out as "not predicted"
    k0 = next(iter(sorted(observed)), None)
    if k0 is not None:
        fake = pair_key((k0[0][0] + "X", k0[0][1]), k0[1])
        ctx.extra["selftest_renamed_site_is_unpredicted"] = fake not in predicted
        if fake in predicted:
            raise vlib.Inconclusive("binding self-test failed: a renamed site is still predicted")

    ctx.cov["traces_validated_against_impl"] = len(done_mixes)
    ctx.cov["rule"] = ("cases = op mixes run against the race-instrumented server in child processes (every pair of API paths TLC predicts racy, "
                       "a seeded sample / all of the remaining pairs, random 4-path mixes) + versioned-write runs; evaluations = mixes + reads checked; "
                       "non-trivial distinct = distinct code-site pairs reported by the race detector + versioned runs")
    ctx.cov["evaluations"] += len(done_mixes)
    ctx.cov["exhaustive"] = False
    if infra and not ctx.violations:
        raise vlib.Inconclusive("driver problems: %s" % "; ".join(infra[:4]))
