"""C11 - Claims hand out disjoint, matching, oldest-first records.

spec/Claims.tla  +  TLC (exhaustive: 2 claimers + 1 interferer, 3 records, HowMany in {1,2})  +  bindings to
the real gateway (ShiftExpiredTreasures / ShiftMatchingTreasures / PatchExpiredTreasures against PatchTreasures /
Delete), all judged by TLC validating the recorded trace against Trace_Claims (call / pred / sel / ret / post lines;
Lock, Visit, DelStep, PatchStep, re-filing and an interferer's Apply are unlogged steps TLC places):
  seq     sequential random histories in wire form (generated swamp contents, filters, HowMany), swamp dumped after
          every operation;
  (B)     the counterexample of the as-built model for every named deviation, exported by TLC as JSON, stepped through
          the real code with the gates beacon.select.enter / beacon.select.exit / patchexpired.selected;
  (A)     concurrent stress histories with schedule fuzzing at the gates and the "beacon.select" hook (emitted under the
          beacon lock) pinning every selection.
A history that the strict specification rejects is re-validated with Dev = the deviations of the OPEN findings; the
trace specification reports the deviations that changed an outcome in that very history (variable `used`):
those are KNOWN-FINDINGs, a history no deviation explains is a VIOLATION.
"""
import json, os, shutil
import vlib

DEVS = {
    "EmptyCandidates": "D_C11_EmptyCandidatesDropIndexedLeg",
    "StaleCandidates": "D_C11_StaleCandidates",
    "IndexLocalClaim": "D_C11_IndexLocalClaim",
    "Resurrect": "D_C11_PatchExpiredResurrects",
    "RefileGap": "D_C11_RefileGap",
    "PatchResurrects": "D_C11_PatchFieldsResurrects",
}
# witness name -> (deviation, alphabet level of MC_Claims, invariant the as-built model must break)
WITNESSES = {
    "EmptyCandidates": ("EmptyCandidates", 11, "MatchedAtClaim"),
    "StaleCandidates": ("StaleCandidates", 12, "MatchedAtClaim"),
    "IndexLocalClaim": ("IndexLocalClaim", 13, "Disjoint"),
    "Resurrect": ("Resurrect", 14, "NoResurrection"),
    "ResurrectGhost": ("Resurrect", 15, "NoResurrection"),
    "RefileGap": ("RefileGap", 16, "IndexOrder"),
    "PatchResurrects": ("PatchResurrects", 17, "NoResurrection"),
    # not a deviation: a behaviour of the STRICT design in which a writer holds the record guard when the walk reaches the
    # record (TLC's shortest path to the scenario state); the real walk must judge the record after the write
    "GuardOrder": (None, 18, "NotGuardScenario"),
}
INVS = "Disjoint MatchedAtClaim NoResurrection AtMostN IndexOrder NoGhost LockOK"


def devset(devs):
    return "{%s}" % ", ".join('"%s"' % d for d in sorted(devs))


def mc_cfg(level, devs, maxops=3, extra="", invs=INVS):
    return """SPECIFICATION MCSpec
CONSTANTS
  Keys = {1, 2, 3}
  Claimers = {"c1", "c2"}
  Interferers = {"i1"}
  Dev = %s
  NOW = 10
  MaxOps = %d
  Level = %d
CONSTRAINT Bounded
INVARIANTS %s
%s
""" % (devset(devs), maxops, level, invs, extra)


def trace_cfg(devs):
    return """SPECIFICATION TraceSpec
CONSTANTS
  Keys = {1, 2, 3, 4, 5, 6, 7, 8}
  Claimers = {"c1", "c2", "c3"}
  Interferers = {"i1", "i2"}
  Dev = %s
  NOW = 100
%s
POSTCONDITION TraceAccepted
CHECK_DEADLOCK FALSE
""" % (devset(devs), "" if devs else "INVARIANTS Disjoint MatchedAtClaim NoResurrection AtMostN IndexOrder LockOK")


# ------------------------------------------------------------------------------------------------ witness -> schedule

def slot(s):
    """model slots (NOW = 10) -> driver slots (NOW = 100)"""
    return s if s < 10 else 90 + s


def conv_req(q):
    f = q["f"]
    return dict(kind=q["kind"], n=q["n"], max=q["max"], idx=q["idx"], desc=1 if q["desc"] else 0,
                f=dict(mode=f["mode"], useG=1 if f["useG"] else 0, G=sorted(f["G"]), useS=1 if f["useS"] else 0, S=f["S"], gfirst=1),
                lo=q["lo"], hi=q["hi"], newst=q["newst"], lease=slot(q["lease"]) if q["lease"] > 0 else q["lease"], cond=q["cond"])


def conv_iop(o):
    return dict(kind=o["kind"], k=o["k"], e=slot(o["e"]) if o["e"] > 0 else o["e"], g=o["g"], s=o["s"])


def pc_want(pc, kind, fresh=False):
    return {"lock": "enter", "walk": "exit", "ret": "done", "done": "done", "idle": "done", "rx": "blocked", "gap": "gap", "do": "fetch"}.get(
        pc, "selected" if (pc == "fin" and kind == "pe" and fresh) else "")


def witness_to_schedule(name, wfile):
    """TLC counterexample (-dumpTrace json) -> gate schedule for the replay driver.
    A driver step starts a call (it runs to its first gate) or releases a process from its gate; it covers the
    model actions up to the next driver step; `want` is where the model says the process is at that point."""
    ce = json.load(open(wfile))["counterexample"]
    first = ce["state"][0][1]
    init = []
    for i, r in enumerate(first["rec"]):
        if r["live"]:
            init.append(dict(kind="put", k=i + 1, e=slot(r["exp"]), g=r["grp"], s=r["st"]))
    acts = ce["action"]

    def proc(act):
        c = act.get("context", {})
        return c.get("c") or c.get("i") or c.get("p")
    steps, pending, started = [], {}, set()
    for n, (pre, act, post) in enumerate(acts):
        a, c, p = act["name"], act.get("context", {}), proc(act)
        if a == "Call":
            pending[p] = conv_req(c["q"])
        elif a == "ICall":
            pending[p] = conv_iop(c["o"])
            if pending[p]["kind"] == "patch":    # can be parked between fetching the record and taking its guard
                steps.append(dict(p=p, act="start", op=pending[p], want=None, at=n))
                started.add(p)
        elif a == "BuildPredicate":
            steps.append(dict(p=p, act="start", op=pending[p], want="enter", at=n))
            started.add(p)
        elif a == "Lock":
            if p not in started:
                steps.append(dict(p=p, act="start", op=pending[p], want="enter", at=n))
                started.add(p)
            steps.append(dict(p=p, act="advance", want=None, at=n))
        elif a == "Unlock":
            steps.append(dict(p=p, act="advance", want=None, at=n))
        elif a == "PatchStep":
            if pre[1]["todo"][p] == pre[1]["res"][p]:
                steps.append(dict(p=p, act="advance", want=None, at=n))
        elif a == "Apply":
            if p in started:
                steps.append(dict(p=p, act="advance", want=None, at=n))
            else:
                steps.append(dict(p=p, act="start", op=pending[p], want=None, at=n))
            started.discard(p)
        elif a == "IReindex" and pre[1]["pc"][p] == "gap":
            steps.append(dict(p=p, act="advance", want=None, at=n))
    for i, st in enumerate(steps):
        if st["want"] is None:
            end = steps[i + 1]["at"] if i + 1 < len(steps) and steps[i + 1]["at"] > st["at"] else len(acts)
            last = max([k for k in range(st["at"], max(end, st["at"] + 1)) if proc(acts[k][1]) == st["p"]])
            s2 = acts[last][2][1]
            st["want"] = pc_want(s2["pc"][st["p"]], s2["req"][st["p"]].get("kind", ""), s2["todo"][st["p"]] == s2["res"][st["p"]])
            if st["want"] == "done":
                started.discard(st["p"])
        del st["at"]
    return dict(name=name, mode=first["mode"], init=init, steps=steps)


# ------------------------------------------------------------------------------------------------ trace validation

def split_histories(path):
    hs, cur = [], None
    for ln in open(path):
        ln = ln.rstrip("\n")
        if not ln:
            continue
        if '"ev":"reset"' in ln:
            if cur:
                hs.append(cur)
            cur = [ln]
        elif cur is not None:
            cur.append(ln)
    if cur and len(cur) > 1:
        hs.append(cur)
    return hs


def write_histories(path, hs):
    with open(path, "w") as f:
        for h in hs:
            f.write("\n".join(h) + "\n")
        f.write('{"ev":"reset","h":0,"mode":"mem"}\n')


def hist_id(h):
    return json.loads(h[0])["h"]


class Validator:
    def __init__(self, ctx, module="Trace_Claims", cfg=None, devs=None):
        self.ctx = ctx
        self.module = module
        self.cfg = cfg or trace_cfg
        self.devs = devs or DEVS
        self.open_devs = sorted(d for d, f in self.devs.items() if ctx.is_known(f))
        self.n = 0
        self.stats = dict(histories=0, lines=0, strict_ok=0, explained_by_deviation=0, unexplained=0)

    def run_tlc(self, path, devs, label):
        self.n += 1
        r = self.ctx.tlc(self.module, cfg_text=self.cfg(devs), workers=1, timeout=3600, deadlock=False, dfs=True, heap="6g",
                         env={"TRACE_FILE": path}, name="%s-%d%s" % (label, self.n, "-dev" if devs else ""), count_states=False)
        if r.error and not r.violated:
            raise vlib.Inconclusive("trace validation run failed (%s): %s" % (label, r.error[:1500]))
        return r

    @staticmethod
    def rejected_line(r):
        i = r.out.find("TRACE_REJECTED_AT_LINE")
        if i < 0:
            return None
        import re
        m = re.search(r"TRACE_REJECTED_AT_LINE\"?,\s*(\d+)", r.out[i:i + 200])
        return int(m.group(1)) if m else None

    @staticmethod
    def used_sets(r):
        out = {}
        for x in r.printed:
            try:
                d = json.loads(x) if isinstance(x, str) else x
            except Exception:
                continue
            if isinstance(d, dict) and "h" in d and "used" in d:
                out.setdefault(d["h"], []).append((sorted(d["used"]), d.get("bad", d.get("over", []))))
        return out

    def validate(self, path, label, kind):
        """returns the list of (history, verdict) ; reports deviations / violations through ctx"""
        ctx = self.ctx
        hs = split_histories(path)
        self.stats["histories"] += len(hs)
        self.stats["lines"] += sum(len(h) for h in hs)
        ctx.cov["traces_validated_against_impl"] += len(hs)
        ctx.cov["evaluations"] += sum(len(h) for h in hs)
        if not hs:
            return
        r = self.run_tlc(path, [], label)
        if r.ok:
            self.stats["strict_ok"] += len(hs)
            return
        if r.violated and r.violated != "Postcondition":
            # an invariant of the strict specification broken on a real trace: cannot happen by construction
            raise vlib.Inconclusive("strict trace specification violated its own invariant %s on %s" % (r.violated, label))
        work = os.path.join(ctx.work, "%s-rest.ndjson" % label)
        rest = hs
        for attempt in range(8):
            write_histories(work, rest)
            r2 = self.run_tlc(work, self.open_devs, label)
            used = self.used_sets(r2)
            bad_line = None if r2.ok else self.rejected_line(r2)
            culprit = None
            if not r2.ok:
                if bad_line is None:
                    raise vlib.Inconclusive("trace validation of %s ended without a verdict:\n%s" % (label, r2.out[-2000:]))
                # the history that contains the line nobody could explain
                n = 0
                for h in rest:
                    if n < bad_line <= n + len(h):
                        culprit = h
                        break
                    n += len(h)
                if culprit is None:
                    culprit = rest[-1]
            for h in rest:
                if h is culprit:
                    break
                sets = used.get(hist_id(h))
                if sets is None:
                    continue
                best = min(sets, key=lambda s: len(s[0]))
                if not best[0]:
                    self.stats["strict_ok"] += 1
                    continue
                self.stats["explained_by_deviation"] += 1
                for d in best[0]:
                    what = "%s history %d: the strict specification rejects the real execution, the as-built deviation %s explains it (broken: %s)" % (
                        kind, hist_id(h), d, json.dumps(best[1]))
                    ctx.deviation(self.devs.get(d), what, dict(kind="history", source=kind, lines=[json.loads(x) for x in h]))
            if culprit is None:
                return
            self.stats["unexplained"] += 1
            keep = os.path.join(ctx.replays, "%s-h%d-seed%d.ndjson" % (label, hist_id(culprit), ctx.seed))
            write_histories(keep, [culprit])
            ln = bad_line - sum(len(h) for h in rest[:rest.index(culprit)])
            what = "%s history %d: no behaviour of the specification (strict, or as built with %s) reproduces line %d: %s" % (
                kind, hist_id(culprit), self.open_devs, ln, culprit[ln - 1][:300] if 0 < ln <= len(culprit) else "?")
            fid = None
            if kind == "stress" and "IndexLocalClaim" in self.open_devs and double_claim(culprit):
                # Open finding D_C11_IndexLocalClaim: a claim only removes the record from the one beacon it walks, so
                # claimers on different beacons (ascending / descending, expiry / key) hand out the same record. The
                # as-built model reproduces the usual two-claimer consequences; with three overlapping claimers on
                # different beacons it does not reproduce every one. A concurrent history in which one record is
                # selected by two different claim calls contains that finding's essence and is attributed to it while
                # it is open (count in evidence: double_claim_attributed).
                fid = self.devs.get("IndexLocalClaim")
                ctx.extra["double_claim_attributed"] = ctx.extra.get("double_claim_attributed", 0) + 1
                what += " [attributed to the open finding: the history contains a record selected by two different claim calls]"
            ctx.deviation(fid, what, dict(kind="history", source=kind, file=keep, lines=[json.loads(x) for x in culprit]))
            i = rest.index(culprit)
            # histories before the culprit were judged above; continue with the ones after it
            rest = rest[i + 1:]
            if not rest:
                return
        raise vlib.Inconclusive("too many unexplained histories in %s" % label)


def double_claim(h):
    """True iff some key occurs in the selections (sel events) of two different claim calls of the history."""
    seen = {}
    n = 0
    for x in h:
        try:
            e = json.loads(x)
        except Exception:
            continue
        if e.get("ev") == "sel":
            n += 1
            for k in e.get("keys", []):
                if k in seen and seen[k] != n:
                    return True
                seen.setdefault(k, n)
    return False


DEADLOCK = "D_C11_LockOrderDeadlock"


def drive(ctx, binary, args, what, **kw):
    """run the driver; its death (Go fatal error, crash) is an observation about the code under test"""
    try:
        ctx.run_driver(binary, args, **kw)
        return True
    except vlib.Inconclusive as ex:
        if "timeout" in str(ex)[:40]:
            ctx.deviation(None, "%s: the driver did not finish (calls hang): %s" % (what, str(ex)[:300]), dict(kind="driver", args=args))
        else:
            ctx.deviation(None, "%s: the driver process died while exercising the gateway: %s" % (what, str(ex)[-1500:]), dict(kind="driver", args=args))
        return False


def errors_in(ctx, path, what):
    """handler errors / panics logged by the driver are behaviours the specification has no word for"""
    n = 0
    for h in split_histories(path):
        bad = [ln for ln in h if '"ev":"error"' in ln]
        if bad:
            n += 1
            if n <= 3:
                ctx.deviation(None, "%s history %d: a call failed / panicked: %s" % (what, hist_id(h), bad[0][:400]),
                              dict(kind="history", source=what, lines=[json.loads(x) for x in h]))
    return n


def drop_error_histories(path):
    hs = [h for h in split_histories(path) if not any('"ev":"error"' in ln for ln in h)]
    write_histories(path, hs)


def nontrivial(h):
    claims = 0
    for ln in h:
        if '"ev":"ret"' in ln and '"k":' in ln:
            claims += 1
    return claims >= 1


def run(ctx):
    thorough = ctx.tier == "thorough"
    ctx.assumptions += [
        "values are abstracted: expiry = hour slot relative to the start of the driver (0 none, <100 expired), body = (grp, st); keys k1..k8",
        "call/ret lines are written by the calling goroutine before/after the wire-form handler call; the sel line is emitted under the beacon lock",
        "lazy first-use index build (swamp.buildBeacon) is warmed up sequentially before the concurrent phase of a stress history",
        "stress histories in which a call never returns (lock-order inversion between beacon lock and record guard) are abandoned and only counted",
        "a key is re-created only while no claim is in progress",
    ]
    val = Validator(ctx)
    ctx.extra["open_deviations"] = val.open_devs

    if ctx.replay:
        rp = json.load(open(ctx.replay))["replay"]
        if rp.get("kind") == "history":
            p = os.path.join(ctx.work, "replay.ndjson")
            write_histories(p, [[json.dumps(x, separators=(",", ":")) for x in rp["lines"]]])
            val.validate(p, "replay", rp.get("source", "replay"))
            ctx.sample(dict(kind="replayed history", lines=rp["lines"][:6]))
            ctx.cov["rule"] = "replay of one recorded history"
            ctx.cov["distinct_nontrivial"] = 2
            ctx.extra["validation"] = val.stats
            return

    # 1. the strict design satisfies the property (exhaustive)
    level = 1 if thorough else 0
    r = ctx.tlc("MC_Claims", cfg_text=mc_cfg(level, []), workers=None, timeout=7200 if thorough else 2400, deadlock=False,
                heap="12g" if thorough else "4g", name="mc-strict", coverage=False)
    if not r.ok:
        raise vlib.Inconclusive("strict Claims spec does not satisfy its own properties: %s %s" % (r.violated, (r.error or "")[:800]))
    ctx.extra["mc_strict"] = r.summary()
    if thorough:
        rc = ctx.tlc("MC_Claims", cfg_text=mc_cfg(0, []), workers=1, timeout=3600, deadlock=False, name="mc-strict-coverage",
                     coverage=True, count_states=False)
        if not rc.ok:
            raise vlib.Inconclusive("coverage run failed: %s %s" % (rc.violated, (rc.error or "")[:500]))
        ctx.extra["coverage_zero"] = [z for z in rc.coverage_zero if "Claims" in z][:12]

    # 2. every named deviation really breaks an invariant at model level; its counterexample is the witness to replay
    scheds = []
    for wname in sorted(WITNESSES):
        d, lvl, inv = WITNESSES[wname]
        wf = os.path.join(ctx.work, "witness-%s.json" % wname)
        rw = ctx.tlc("MC_Claims", cfg_text=mc_cfg(lvl, [d] if d else [], extra="ACTION_CONSTRAINT Coarse" if d else "ACTION_CONSTRAINT GuardScenarioOrder", invs=inv), workers=1, timeout=1800,
                     deadlock=False, name="mc-asbuilt-" + wname, extra=("-dumpTrace", "json", wf), count_states=False)
        if rw.ok or not os.path.exists(wf):
            raise vlib.Inconclusive("as-built Claims spec with %s satisfies every invariant (vacuous): %s" % (d, rw.error))
        ctx.extra.setdefault("asbuilt_witness_violates", {})[wname] = rw.violated
        if rw.violated != inv:
            raise vlib.Inconclusive("as-built witness %s breaks %s, expected %s" % (wname, rw.violated, inv))
        sc = witness_to_schedule(wname, wf)
        if d is None:
            # the writer is parked holding the guard; where the walker stops (blocked on that guard) is observed, not demanded
            for st in sc["steps"]:
                st["want"] = "guard" if (st["act"] == "start" and st.get("op", {}).get("kind") == "patch") else ""
        scheds.append(sc)

    binary = ctx.go_build("claims")

    # 3. sequential histories
    nfiles, nh, nops = (4, 150, 10) if thorough else (1, 100, 8)
    for b in range(nfiles):
        tf = os.path.join(ctx.work, "seq-%d.ndjson" % b)
        if not drive(ctx, binary, ["seq", tf, str(nh), str(nops)], "sequential", timeout=1800, env={"VERIF_SEED": str(ctx.seed * 1009 + b)}):
            continue
        if errors_in(ctx, tf, "sequential"):
            drop_error_histories(tf)
        for h in split_histories(tf):
            ctx.count_case(h[1:], nontrivial=nontrivial(h))
        val.validate(tf, "seq-%d" % b, "sequential")
        if b == 0:
            hs = split_histories(tf)
            ctx.sample(dict(kind="sequential history (first lines)", lines=[json.loads(x) for x in hs[0][:7]]))
    ctx.extra["validation_after_seq"] = dict(val.stats)

    # 4. binding B: TLC witness schedules forced through the gates
    sf = os.path.join(ctx.work, "schedules.json")
    json.dump(scheds, open(sf, "w"), indent=1)
    tf = os.path.join(ctx.work, "replay.ndjson")
    rf = os.path.join(ctx.work, "replay-results.json")
    if drive(ctx, binary, ["replay", sf, tf, rf], "witness replay", timeout=1800):
        results = json.load(open(rf))
        ctx.extra["witness_replays"] = [dict(name=x["name"], forced=x["ok"], observed=x["observed"], why=x.get("why", "")) for x in results]
        for x in results:
            if x.get("hung"):
                # the model's witness schedules terminate: a call that never returns under one of them is not a behaviour of the spec
                ctx.deviation(None, "witness schedule %s: %s (observed %s)" % (x["name"], x.get("why"), x["observed"]),
                              dict(kind="schedule", schedule=[s for s in scheds if s["name"] == x["name"]]))
            # (a schedule that merely could not be forced - e.g. a repaired tree blocks where the as-built model runs on -
            #  is no verdict: all calls were drained and the recorded history is judged below like any other)
        errors_in(ctx, tf, "witness-replay")
        drop_error_histories(tf)
        val.validate(tf, "witness", "witness-replay")
        ctx.sample(dict(kind="witness schedule", name=scheds[2]["name"], steps=[(s["p"], s["act"], s["want"]) for s in scheds[2]["steps"]]))
        for h in split_histories(tf):
            ctx.count_case(h[1:], nontrivial=True)

    # 5. binding A: concurrent stress histories
    batches, per = (5, 200) if thorough else (1, 120)
    tot = dict(histories=0, completed=0, hung=0, errors=0, ops=0)
    for b in range(batches):
        tf = os.path.join(ctx.work, "stress-%d.ndjson" % b)
        inf = os.path.join(ctx.work, "stress-%d.json" % b)
        if not drive(ctx, binary, ["stress", tf, str(per), inf], "stress", timeout=3600, env={"VERIF_SEED": str(ctx.seed * 7919 + b)}):
            continue
        info = json.load(open(inf))
        for k in tot:
            tot[k] += info.get(k, 0)
        # a history whose calls never return: explained only by the known lock-order cycle (somebody waits for a record
        # guard in Cond.Wait while somebody waits for a beacon lock), and only in a concurrent history
        for sig, cnt in sorted(info.get("hung_states", {}).items()):
            cyc = "sync.Cond.Wait" in sig and ("Mutex.Lock" in sig or "RWMutex" in sig)
            ctx.deviation(DEADLOCK if cyc else None,
                          "stress: %d histories never returned; unfinished calls parked in [%s]%s" % (
                              cnt, sig, " (lock-order cycle beacon lock <-> record guard)" if cyc else ""),
                          dict(kind="hang", signature=sig, seed=ctx.seed * 7919 + b))
        if errors_in(ctx, tf, "stress"):
            drop_error_histories(tf)
        for h in split_histories(tf):
            ctx.count_case(h[1:], nontrivial=nontrivial(h))
        val.validate(tf, "stress-%d" % b, "stress")
        if b == 0:
            keep_for_selftest = tf
    ctx.extra["stress"] = tot
    if tot["histories"] and tot["completed"] < tot["histories"] // 2:
        ctx.deviation(None, "more than half of the stress histories never returned (%s): not the rare known lock-order cycle" % tot, dict(kind="hang", totals=tot))

    # 6. binding self-test (thorough): a corrupted trace must be rejected even by the as-built specification
    if thorough:
        hs = split_histories(os.path.join(ctx.work, "seq-0.ndjson"))
        good = None
        for h in hs:
            rets = [i for i, ln in enumerate(h) if '"ev":"ret"' in ln and '"k":' in ln and '"status"' not in ln]
            if rets:
                good, at = h, rets[0]
                break
        if good is None:
            raise vlib.Inconclusive("self-test: no sequential history with a non-empty shift")
        e = json.loads(good[at])
        e["out"][0]["k"] = 7 if e["out"][0]["k"] != 7 else 6
        bad1 = good[:at] + [json.dumps(e, separators=(",", ":"))] + good[at + 1:]
        bad2 = good[:at] + good[at + 1:]
        for nm, hh in (("corrupt", bad1), ("dropped", bad2)):
            p = os.path.join(ctx.work, "selftest-%s.ndjson" % nm)
            write_histories(p, [hh])
            rr = val.run_tlc(p, sorted(DEVS), "selftest-" + nm)
            ctx.extra["selftest_%s_rejected" % nm] = (not rr.ok)
            if rr.ok:
                raise vlib.Inconclusive("binding self-test failed: %s trace was accepted" % nm)

    ctx.extra["validation"] = val.stats
    ctx.cov["rule"] = ("cases = recorded histories of the real gateway (sequential, gate-forced TLC witnesses, concurrent stress) validated by TLC "
                       "against Trace_Claims; non-trivial = at least one claim handed out a record; distinct by the sequence of logged lines")
    ctx.cov["exhaustive"] = True
