"""C12 - Cap-bearing operations never push the match count above the cap.

spec/Cap.tla  +  TLC (exhaustive: 3 concurrent cap-bearing batches, 3 records, Max in {1,2}: CapOK, FourCell)  +
bindings to the real gateway (PatchTreasures / PatchExpiredTreasures / ShiftMatchingTreasures, all carrying the same
Cap), judged by TLC validating the recorded trace against Trace_Cap: every hook line (cap.batch / beacon.cap = count
under capMu, cap.cell = four-cell decision with the budget left, beacon.select, patchexpired.patched) is a step of
the specification, the swamp is dumped at every quiescent point, Count <= Max and FourCell are evaluated in every state.
  seq     sequential random histories;
  (B)     the counterexample of the as-built model for every deviation, forced with the gate cap.precount.done
          (between the pre-count and LockCapMu);
  (A)     concurrent stress: 2-3 processes issue cap-bearing batches of all three kinds concurrently.
"""
import json, os
import vlib
import c11 as base

DEVS = {"CountThenLock": "D_C12_CountThenLock", "CountOverIndex": "D_C12_CountOverIndexOnly"}
WITNESSES = {"CountThenLock": ("CountThenLock", 11), "CountOverIndex": ("CountOverIndex", 12)}


def mc_cfg(level, devs, mx, nprocs=3, extra=""):
    return """SPECIFICATION MCSpec
CONSTANTS
  Keys = {1, 2, 3, 4}
  Procs = {%s}
  Max = %d
  Dev = %s
  Level = %d
INVARIANTS CapOK FourCell MuOK
%s
""" % (", ".join('"b%d"' % i for i in range(1, nprocs + 1)), mx, base.devset(devs), level, extra)


def trace_cfg_for(mx):
    def f(devs):
        return """SPECIFICATION TraceSpec
CONSTANTS
  Keys = {1, 2, 3, 4, 5, 6, 7, 8}
  Procs = {"b1", "b2", "b3"}
  Max = %d
  Dev = %s
%s
POSTCONDITION TraceAccepted
CHECK_DEADLOCK FALSE
""" % (mx, base.devset(devs), "" if devs else "INVARIANTS CapOK FourCell MuOK")
    return f


def witness_to_schedule(name, wfile, mx):
    ce = json.load(open(wfile))["counterexample"]
    first = ce["state"][0][1]
    init = []
    for i, r in enumerate(first["rec"]):
        if r["live"]:
            init.append(dict(kind="put", k=i + 1, st="c" if r["m"] else "p",
                             exp="none" if not r["e"] else ("past" if r["x"] else "future"), n=0, patches=[], create=0, seedm=0))
    steps, pending, started = [], {}, set()
    for pre, act, post in ce["action"]:
        a, c = act["name"], act.get("context", {})
        p = c.get("p")
        if a == "Call":
            q = c["q"]
            pending[p] = dict(kind=q["kind"], n=q["n"], patches=[list(x) for x in q["patches"]], k=0, st="", exp="",
                              create=1 if q.get("create") else 0, seedm=1 if q.get("seedm") else 0)
        elif a == "PreCount":
            steps.append(dict(p=p, act="start", op=pending[p], want="counted"))
            started.add(p)
        elif a == "Begin":
            # whoever takes capMu runs to the end of its call (Coarse)
            if p in started:
                steps.append(dict(p=p, act="advance", want="done"))
            else:
                steps.append(dict(p=p, act="start", op=pending[p], want="done"))
                started.add(p)
    return dict(name=name, max=mx, init=init, steps=steps)


def nontrivial(h):
    return sum(1 for ln in h if '"ev":"cell"' in ln or '"ev":"patched"' in ln or ('"ev":"sel"' in ln and '"keys":[]' not in ln)) >= 1


def run(ctx):
    thorough = ctx.tier == "thorough"
    ctx.assumptions += [
        "Cap.Filter = (body field st == c) on every operation of a history; a record is abstracted to (matches, expired, has an expiry)",
        "every hook of a cap-bearing flow fires under capMu, so the order of the lines is the order of the steps",
        "records are seeded without a cap while nothing else runs; the expiration index is built before the first cap-bearing call",
    ]
    vals = {mx: base.Validator(ctx, module="Trace_Cap", cfg=trace_cfg_for(mx), devs=DEVS) for mx in (1, 2)}
    ctx.extra["open_deviations"] = vals[1].open_devs

    if ctx.replay:
        rp = json.load(open(ctx.replay))["replay"]
        if rp.get("kind") == "history":
            p = os.path.join(ctx.work, "replay.ndjson")
            lines = [json.dumps(x, separators=(",", ":")) for x in rp["lines"]]
            with open(p, "w") as f:
                f.write("\n".join(lines) + "\n" + '{"ev":"reset","h":0,"max":1}\n')
            mx = rp["lines"][0].get("max", 1)
            vals[mx].validate(p, "replay", rp.get("source", "replay"))
            ctx.sample(dict(kind="replayed history", lines=rp["lines"][:6]))
            ctx.cov["rule"] = "replay of one recorded history"
            ctx.cov["distinct_nontrivial"] = 2
            return

    # 1. strict design: exhaustive
    for mx in (1, 2):
        r = ctx.tlc("MC_Cap", cfg_text=mc_cfg(0, [], mx, 3), workers=None, timeout=3600, deadlock=False, name="mc-strict-max%d" % mx,
                    coverage=False)
        if not r.ok:
            raise vlib.Inconclusive("strict Cap spec does not satisfy its own properties (Max=%d): %s %s" % (mx, r.violated, (r.error or "")[:600]))
        ctx.extra["mc_strict_max%d" % mx] = r.summary()
    if thorough:
        rc = ctx.tlc("MC_Cap", cfg_text=mc_cfg(0, [], 1, 2), workers=1, timeout=3600, deadlock=False, name="mc-strict-coverage", coverage=True,
                     count_states=False)
        if not rc.ok:
            raise vlib.Inconclusive("coverage run failed: %s" % rc.violated)
        ctx.extra["coverage_zero"] = [z for z in rc.coverage_zero if "Cap" in z][:12]

    # 2. as-built: each deviation breaks CapOK; the counterexample is the witness schedule
    scheds = []
    for wname in sorted(WITNESSES):
        d, lvl = WITNESSES[wname]
        wf = os.path.join(ctx.work, "witness-%s.json" % wname)
        rw = ctx.tlc("MC_Cap", cfg_text=mc_cfg(lvl, [d], 1, 2, extra="ACTION_CONSTRAINT Coarse"), workers=1, timeout=1800, deadlock=False,
                     name="mc-asbuilt-" + wname, extra=("-dumpTrace", "json", wf), count_states=False)
        if rw.ok or rw.violated != "CapOK" or not os.path.exists(wf):
            raise vlib.Inconclusive("as-built Cap spec with %s does not break CapOK (vacuous?): %s %s" % (d, rw.violated, rw.error))
        ctx.extra.setdefault("asbuilt_witness_violates", {})[wname] = rw.violated
        scheds.append(witness_to_schedule(wname, wf, 1))

    binary = ctx.go_build("cap")

    def split(path):
        return base.split_histories(path)

    # 3. sequential
    nh, nops = (200, 8) if thorough else (60, 6)
    for mx in (1, 2):
        tf = os.path.join(ctx.work, "seq-max%d.ndjson" % mx)
        if not base.drive(ctx, binary, ["seq", tf, str(nh), str(nops)], "sequential", timeout=1800,
                          env={"VERIF_SEED": str(ctx.seed * 1009 + mx), "VERIF_MAX": str(mx)}):
            continue
        if base.errors_in(ctx, tf, "sequential"):
            base.drop_error_histories(tf)
        for h in split(tf):
            ctx.count_case(h[1:], nontrivial=nontrivial(h))
        vals[mx].validate(tf, "seq-max%d" % mx, "sequential")
        if mx == 1:
            ctx.sample(dict(kind="sequential history (first lines)", lines=[json.loads(x) for x in split(tf)[0][:12]]))

    # 4. binding B
    sf = os.path.join(ctx.work, "schedules.json")
    json.dump(scheds, open(sf, "w"), indent=1)
    tf = os.path.join(ctx.work, "replay.ndjson")
    rf = os.path.join(ctx.work, "replay-results.json")
    if base.drive(ctx, binary, ["replay", sf, tf, rf], "witness replay", timeout=1800, env={"VERIF_MAX": "1"}):
        results = json.load(open(rf))
        ctx.extra["witness_replays"] = [dict(name=x["name"], forced=x["ok"], observed=x["observed"], why=x.get("why", "")) for x in results]
        for x in results:
            # a schedule that merely could not be forced (a repaired tree blocks where the as-built model runs on) is no
            # verdict: the calls were drained and the recorded history is judged below
            if x.get("hung"):
                ctx.deviation(None, "witness schedule %s did not terminate on the real code: %s (observed %s)" % (
                    x["name"], x.get("why"), x["observed"]), dict(kind="schedule", schedule=[s for s in scheds if s["name"] == x["name"]]))
        base.errors_in(ctx, tf, "witness-replay")
        base.drop_error_histories(tf)
        vals[1].validate(tf, "witness", "witness-replay")
        ctx.sample(dict(kind="witness schedule", name=scheds[0]["name"], steps=[(s["p"], s["act"], s["want"]) for s in scheds[0]["steps"]]))
        for h in split(tf):
            ctx.count_case(h[1:], nontrivial=True)

    # 5. binding A: stress
    batches, per = (3, 250) if thorough else (1, 120)
    tot = dict(histories=0, completed=0, hung=0, errors=0, ops=0)
    for b in range(batches):
        for mx in (1, 2):
            tf = os.path.join(ctx.work, "stress-%d-max%d.ndjson" % (b, mx))
            inf = os.path.join(ctx.work, "stress-%d-max%d.json" % (b, mx))
            if not base.drive(ctx, binary, ["stress", tf, str(per), inf], "stress", timeout=3600,
                              env={"VERIF_SEED": str(ctx.seed * 7919 + b * 2 + mx), "VERIF_MAX": str(mx)}):
                continue
            info = json.load(open(inf))
            for k in tot:
                tot[k] += info.get(k, 0)
            for sig, cnt in sorted(info.get("hung_states", {}).items()):
                # cap-bearing flows serialise on capMu: a call that never returns is no behaviour of the specification
                ctx.deviation(None, "stress: %d histories never returned; unfinished calls parked in [%s]" % (cnt, sig),
                              dict(kind="hang", signature=sig, seed=ctx.seed * 7919 + b * 2 + mx))
            if base.errors_in(ctx, tf, "stress"):
                base.drop_error_histories(tf)
            for h in split(tf):
                ctx.count_case(h[1:], nontrivial=nontrivial(h))
            vals[mx].validate(tf, "stress-%d-max%d" % (b, mx), "stress")
    ctx.extra["stress"] = tot

    # 6. self-test (thorough)
    if thorough:
        hs = split(os.path.join(ctx.work, "seq-max1.ndjson"))
        good = None
        for h in hs:
            cells = [i for i, ln in enumerate(h) if '"ev":"cell"' in ln and '"ok":1' in ln]
            if cells:
                good, at = h, cells[0]
                break
        if good is None:
            raise vlib.Inconclusive("self-test: no history with an accepted cell")
        e = json.loads(good[at])
        e["left"] = e["left"] + 1
        for nm, hh in (("corrupt", good[:at] + [json.dumps(e, separators=(",", ":"))] + good[at + 1:]), ("dropped", good[:at] + good[at + 1:])):
            p = os.path.join(ctx.work, "selftest-%s.ndjson" % nm)
            with open(p, "w") as f:
                f.write("\n".join(hh) + "\n" + '{"ev":"reset","h":0,"max":1}\n')
            rr = vals[1].run_tlc(p, sorted(DEVS), "selftest-" + nm)
            ctx.extra["selftest_%s_rejected" % nm] = (not rr.ok)
            if rr.ok:
                raise vlib.Inconclusive("binding self-test failed: %s trace was accepted" % nm)

    ctx.extra["validation"] = {mx: vals[mx].stats for mx in vals}
    ctx.cov["rule"] = ("cases = recorded histories of cap-bearing gateway calls (sequential, gate-forced TLC witnesses, concurrent stress) validated by "
                       "TLC against Trace_Cap; non-trivial = at least one four-cell decision, patched or shifted record; distinct by logged lines")
    ctx.cov["exhaustive"] = True
