"""C13 - Structural patch matches its documented semantics.

spec/Patch.tla is the documented semantics of the msgpack patch primitive as a pure function
ApplyS(S, body, ops, cond) over abstract msgpack documents (S = switches: named deviations = genuine defects,
and readings = points the documentation leaves open).

  1. TLC model-checks the patch step machine (MC_Patch) over the enumerated case space: the strict
     specification satisfies every C13 property; with a deviation switched on TLC finds the violation.
  2. Binding C: TLC (Gen_Patch) evaluates ApplyS over the case space and prints, per case, every outcome the
     specification has together with the switches it needs.  harness/cmd/patch concretises each case into
     msgpack bytes, runs the real msgpackpatch.ApplyWithCondition / Apply (and, for a part of the cases,
     PatchTreasures through a real Gateway), walks the result with an independent structural walker and
     reports which outcome the code produced.
  3. Verdict per case: an outcome that needs no deviation => held; only outcomes that need deviations =>
     KNOWN-FINDING while every one of them is an open finding, else VIOLATION; no outcome => VIOLATION.
"""
import json, os, shutil, concurrent.futures as cf
import vlib

DEV2FID = {
    "NaNEqual": "D_C13_NaNEqual",
    "MalformedValueSpliced": "D_C13_MalformedValueSpliced",
    "OpaqueSplice": "D_C13_OpaqueSplice",
    "RemoveValSkipsContainers": "D_C13_RemoveValSkipsContainers",
    "AppendMarkerNoop": "D_C13_AppendMarkerNoop",
    "NonMapSeedAccepted": "D_C13_NonMapSeedAccepted",      # swamp level (spec/PatchSwamp.tla)
}
# the invariant each deviation must break at model level, and a selection of cases where it does
DEV_WITNESS = {
    "NaNEqual": "InvNaNUnordered",
    "MalformedValueSpliced": "InvSuccessWellFormed",
    "OpaqueSplice": "InvSequential",
    "RemoveValSkipsContainers": "InvRemoveValRemoves",
    "AppendMarkerNoop": "InvMarkerOnlyAppend",
}
INVS = ("InvAgreesWithApply InvSuccessWellFormed InvFailureLeavesBody InvNaNUnordered InvIncKeepsCode "
        "InvUntouched InvSequential InvRemoveValRemoves InvMarkerOnlyAppend")

# per tier: generation (shards, per-mille rate per family), model checking (shards, rates), gateway level (families)
PLAN = {
    "quick": dict(gen=(2, {"F0": 1000, "F1": 200, "F2": 1000, "F3": 300, "F4": 200, "F5": 500, "F6": 10, "F7": 150}),
                  mc=(1, {"F0": 1000, "F1": 50, "F2": 300, "F3": 100, "F4": 50, "F5": 200, "F6": 2, "F7": 30}),
                  rig_rates={"F0": 1000, "F2": 1000, "F5": 1000, "F1": 60, "F6": 2, "F7": 50}, swamp_rate=120),
    "thorough": dict(gen=(8, {"F0": 1000, "F1": 1000, "F2": 1000, "F3": 1000, "F4": 1000, "F5": 1000, "F6": 500, "F7": 1000}),
                     mc=(4, {"F0": 1000, "F1": 1000, "F2": 1000, "F3": 1000, "F4": 1000, "F5": 1000, "F6": 60, "F7": 1000}),
                     rig_rates={"F0": 1000, "F1": 1000, "F2": 1000, "F3": 1000, "F4": 1000, "F5": 1000, "F6": 30, "F7": 300}, swamp_rate=1000),
}


def mc_cfg(devs, invs=INVS):
    return "SPECIFICATION Spec\nCONSTANTS\n  Dev = {%s}\nINVARIANTS %s\nCHECK_DEADLOCK FALSE\n" % (
        ", ".join('"%s"' % d for d in devs), invs)


def gen_env(ctx, rates, shard=0, nshards=1, one=None):
    e = {"GEN_SHARD": str(shard), "GEN_NSHARDS": str(nshards), "GEN_SEED": str(ctx.seed)}
    for fam, rate in rates.items():
        e["GEN_RATE_" + fam] = str(rate)
    if one:
        e.update({"GEN_FAM": one[0], "GEN_B": str(one[1]), "GEN_I": str(one[2]), "GEN_J": str(one[3])})
    return e


def run_gen(ctx, name, rates, shard, nshards, one=None):
    r = ctx.tlc("Gen_Patch", cfg="Gen_Patch", workers=1, env=gen_env(ctx, rates, shard, nshards, one), name=name,
                count_states=False, timeout=5400, heap="3g")
    if not r.ok:
        raise vlib.Inconclusive("case generation %s failed: %s %s" % (name, r.violated, (r.error or "")[:1500]))
    by_fam = {}
    for l in r.printed:
        if l.startswith('{"f":"'):
            by_fam[l[6:8]] = by_fam.get(l[6:8], 0) + 1
    r.printed = []  # the driver reads the raw TLC output file; do not keep the lines in memory
    return os.path.join(ctx.work, "tlc-%s.out" % name), by_fam


def run_gen_swamp(ctx, rate, props, one=None):
    """Swamp-level family S1 (spec/PatchSwamp.tla); with props TLC also evaluates the swamp-level properties over
    the whole case space (strict: hold; deviation NonMapSeedAccepted: violated)."""
    env = gen_env(ctx, {"S1": rate}, 0, 1, one)
    if props:
        env["GEN_SWAMP_PROPS"] = "1"
    r = ctx.tlc("Gen_PatchSwamp", cfg="Gen_Patch", workers=1, env=env, name="gen-swamp", count_states=False, timeout=5400, heap="3g")
    if not r.ok:
        raise vlib.Inconclusive("swamp-level generation / properties failed: %s %s" % (r.violated, (r.error or "")[:1500]))
    n = sum(1 for l in r.printed if l.startswith('{"f":"S1"'))
    r.printed = []
    return os.path.join(ctx.work, "tlc-gen-swamp.out"), n


def best_explanation(matched, deviations):
    """Among the outcomes the real code matched, the one needing the fewest deviations."""
    best = None
    for sw in matched:
        devs = sorted(s for s in sw if s in deviations)
        if best is None or len(devs) < len(best):
            best = devs
    return best


def classify(ctx, results_path, level, stats):
    """Read a driver report: every line is a case whose observation is not a strict outcome."""
    summary = None
    n_unexpl = 0
    for line in open(results_path):
        d = json.loads(line)
        if d.get("summary"):
            summary = d
            continue
        c = d["case"]
        ident = dict(kind="case", level=d["level"], fam=d["f"], b=d["b"], i=d["i"], j=d["j"], style=d["style"],
                     body_hex=d["body_hex"], ops=d["ops_concrete"], cond=d.get("cond_concrete", ""),
                     observed=dict(cls=d["class"], out=d["out"], err=d.get("err", ""), note=d.get("note", "")),
                     spec_outcomes=d.get("expected") or [dict(switches=o["s"], st=o["st"], e=o["e"]) for o in c["out"]])
        devs = best_explanation(d["matched"], DEV2FID) if d["matched"] else None
        what_case = "%s body=%s ops=%s%s -> %s %s" % (
            d["level"], d["body_hex"], "; ".join(d["ops_concrete"]), (" if " + d["cond_concrete"]) if d.get("cond_concrete") else "",
            d["class"], d["out"] or d.get("err", ""))
        if devs:
            strict_sts = set(o["st"] for o in c["out"] if not any(x in DEV2FID for x in o["s"]))
            obs_st = d["class"] if d["class"] in ("ok", "cnm") else "fail"
            strong = obs_st not in strict_sts          # e.g. documented: success, observed: failure (not just another error class)
            if d["level"] == "swamp":
                strong = d["class"] in ("CREATED", "PATCHED")
            for dev in devs:
                stats["dev_cases"][dev] = stats["dev_cases"].get(dev, 0) + 1
                fid = DEV2FID[dev]
                if ctx.is_known(fid):
                    if fid not in ctx.known_seen or (strong and not stats["strong"].get(fid)):
                        ctx.known_seen.pop(fid, None)
                        stats["strong"][fid] = strong
                    ctx.deviation(fid, "real code follows deviation %s, e.g. %s" % (dev, what_case), ident)
                else:
                    stats["unknown_dev"] += 1
                    if stats["unknown_dev"] <= 12:
                        ctx.deviation(fid, "real code follows deviation %s (not an open finding): %s" % (dev, what_case), ident)
        else:
            n_unexpl += 1
            stats["unexplained"] += 1
            if stats["unexplained"] <= 12:
                spec = "; ".join(d.get("expected") or [])
                ctx.deviation(None, "no outcome of the specification matches the real code: %s %s; specification: %s" % (
                    what_case, d.get("note", ""), spec), ident)
    if summary is None:
        raise vlib.Inconclusive("driver report %s has no summary line" % results_path)
    return summary


def run(ctx):
    thorough = ctx.tier == "thorough"
    ctx.assumptions += [
        "map keys are strings and unique inside one map (V1 of the primitive supports nothing else)",
        "floats are halves, NaN and infinities (exactly representable); float rounding of INC is outside the model",
        "integer boundaries are modelled symbolically per code (min, max, max+1 wrap); deltas are small",
        "the error class of a failing op may be any class that applies to that op (value error or path error); the documentation fixes no precedence",
        "the order of newly created map keys is 'appended last' as the package comments say",
    ]
    binary = ctx.go_build("patch")
    stats = dict(dev_cases={}, unknown_dev=0, unexplained=0, strong={})
    pool = cf.ThreadPoolExecutor(max_workers=8 if thorough else 4)

    # ---- replay of one recorded case ---------------------------------------------------------------
    if ctx.replay:
        rp = json.load(open(ctx.replay))["replay"]
        if rp.get("kind") != "case":
            raise vlib.Inconclusive("replay file is not a C13 case")
        if rp.get("level") == "swamp":
            path, n = run_gen_swamp(ctx, 0, False, one=("S1", 1, rp["i"], 1))
        else:
            path, by_fam = run_gen(ctx, "gen-replay", {}, 0, 1, one=(rp["fam"], rp["b"], rp["i"], rp["j"]))
            n = sum(by_fam.values())
        if n != 1:
            raise vlib.Inconclusive("replay: generator produced %d cases for %s" % (n, rp))
        res = os.path.join(ctx.work, "replay.ndjson")
        ctx.run_driver(binary, [{"rig": "rig", "swamp": "swamp"}.get(rp.get("level"), "run"), res, path], timeout=600)
        s = classify(ctx, res, rp.get("level", "func"), stats)
        ctx.cov["evaluations"] += s["evaluations"]
        ctx.cov["traces_validated_against_impl"] += s["evaluations"]
        ctx.count_case(["replay", rp["fam"], rp["b"], rp["i"], rp["j"]], True)
        ctx.count_case(["replay-2", rp["fam"], rp["b"], rp["i"], rp["j"]], True)
        ctx.sample(dict(kind="replayed case", case=rp))
        ctx.cov["rule"] = "replay of one recorded case"
        return

    plan = PLAN[ctx.tier]
    # ---- 1. the specification satisfies its own properties (TLC, strict), and the deviations break them
    futs = []
    mc_shards, mc_rates = plan["mc"]
    for sh in range(mc_shards):
        futs.append(pool.submit(ctx.tlc, "MC_Patch", cfg_text=mc_cfg([]), env=gen_env(ctx, mc_rates, sh, mc_shards),
                                name="mc-strict-%d" % sh, deadlock=False, timeout=5400, workers=4))
    wit = []
    if thorough:
        for dev, inv in DEV_WITNESS.items():
            wit.append((dev, {inv}, pool.submit(ctx.tlc, "MC_Patch", cfg_text=mc_cfg([dev], inv), env=gen_env(ctx, {"F0": 1000}),
                                                name="mc-asbuilt-" + dev, deadlock=False, timeout=5400, workers=1, count_states=False)))
    else:
        wit.append(("all", set(DEV_WITNESS.values()),
                    pool.submit(ctx.tlc, "MC_Patch", cfg_text=mc_cfg(list(DEV_WITNESS)), env=gen_env(ctx, {"F0": 1000}),
                                name="mc-asbuilt-all", deadlock=False, timeout=5400, workers=1, count_states=False)))
    # ---- 2. generation (TLC evaluates the oracle)
    swamp_gen = pool.submit(run_gen_swamp, ctx, plan["swamp_rate"], thorough)
    gens = []
    gen_shards, gen_rates = plan["gen"]
    for sh in range(gen_shards):
        gens.append(pool.submit(run_gen, ctx, "gen-%d" % sh, gen_rates, sh, gen_shards))

    for f in futs:
        r = f.result()
        if not r.ok:
            raise vlib.Inconclusive("strict Patch spec does not satisfy its own properties: %s %s" % (r.violated, (r.error or "")[:1500]))
    ctx.extra["mc_strict"] = [t for t in ctx.tlc_runs if t["name"].startswith("mc-strict")]
    for dev, invs, f in wit:
        r = f.result()
        if r.ok or r.violated not in invs:
            raise vlib.Inconclusive("as-built Patch spec with %s should violate %s but TLC says: ok=%s violated=%s %s" % (
                dev, sorted(invs), r.ok, r.violated, (r.error or "")[:800]))
        ctx.extra.setdefault("asbuilt_witness_violates", {})[dev] = r.violated

    files, by_fam = [], {}
    for f in gens:
        path, bf = f.result()
        files.append(path)
        for k, v in bf.items():
            by_fam[k] = by_fam.get(k, 0) + v
    total_generated = sum(by_fam.values())
    if total_generated == 0:
        raise vlib.Inconclusive("no cases generated")
    ctx.extra["generated_cases"] = by_fam

    # ---- 3. binding C at function level
    res = os.path.join(ctx.work, "func.ndjson")
    ctx.run_driver(binary, ["run", res] + files, timeout=5400)
    s = classify(ctx, res, "func", stats)
    if s["cases"] != total_generated:
        raise vlib.Inconclusive("driver saw %d cases, TLC generated %d" % (s["cases"], total_generated))
    ctx.cov["evaluations"] += s["evaluations"]
    ctx.cov["traces_validated_against_impl"] += s["evaluations"]
    ctx.cov["distinct_nontrivial"] = s["distinct_nontrivial"]
    for smp in s["samples"][:4]:
        ctx.sample(smp)
    ctx.extra["func_level"] = {k: s[k] for k in ("cases", "evaluations", "strict", "unmatched", "skipped_styles", "nontrivial_cases",
                                                 "leaf_spans_compared", "readings_used", "by_family", "by_class", "reports")}

    # ---- 4. the same cases through PatchTreasures on a real Gateway (status mapping, stored body)
    res = os.path.join(ctx.work, "rig.ndjson")
    ctx.run_driver(binary, ["rig", res] + files, timeout=5400,
                   env={"PATCH_RIG_RATES": ",".join("%s=%d" % kv for kv in plan["rig_rates"].items())})
    s2 = classify(ctx, res, "rig", stats)
    ctx.cov["evaluations"] += s2["evaluations"]
    ctx.cov["traces_validated_against_impl"] += s2["evaluations"]
    for smp in s2["samples"][:2]:
        ctx.sample(smp)
    ctx.extra["gateway_level"] = {k: s2[k] for k in ("cases", "evaluations", "strict", "unmatched", "by_family", "by_class", "reports")}
    # ---- 4b. swamp level: key state x CreateIfNotExist x seed x ops x condition x metadata (spec/PatchSwamp.tla)
    spath, sn = swamp_gen.result()
    res = os.path.join(ctx.work, "swamp.ndjson")
    ctx.run_driver(binary, ["swamp", res, spath], timeout=5400)
    s3 = classify(ctx, res, "swamp", stats)
    if s3["cases"] != sn:
        raise vlib.Inconclusive("swamp driver saw %d cases, TLC generated %d" % (s3["cases"], sn))
    ctx.cov["evaluations"] += s3["evaluations"]
    ctx.cov["traces_validated_against_impl"] += s3["evaluations"]
    for smp in s3["samples"][:1]:
        ctx.sample(smp)
    ctx.extra["swamp_level"] = {k: s3[k] for k in ("cases", "strict", "unmatched", "by_class", "reports")}
    if thorough:
        ctx.extra["swamp_properties"] = "FailureLeavesKey and StoredIsMap hold on all cases of the strict spec; NonMapSeedAccepted violates StoredIsMap"
    files_all = files + [spath]
    ctx.extra["deviation_cases"] = stats["dev_cases"]
    ctx.extra["unexplained_cases"] = stats["unexplained"]

    # ---- 5. binding self-test: with damaged expectations the comparison must reject what it accepted
    if thorough:
        res = os.path.join(ctx.work, "selftest.ndjson")
        ctx.run_driver(binary, ["run", res] + files[:1], timeout=3600, env={"PATCH_SELFTEST": "corrupt", "PATCH_MAXREPORTS": "0"})
        st = None
        for line in open(res):
            if '"summary":1' in line:
                st = json.loads(line)
        if st is None:
            raise vlib.Inconclusive("binding self-test: the driver wrote no summary")
        ok_evals = st["by_class"].get("ok", 0)
        ctx.extra["selftest_corrupt_expectations"] = dict(ok_evaluations=ok_evals, rejected=st["unmatched"])
        if ok_evals == 0 or st["unmatched"] < ok_evals:
            raise vlib.Inconclusive("binding self-test failed: %d successful evaluations, only %d rejected after corrupting the expected documents" % (
                ok_evals, st["unmatched"]))
        os.remove(res)

    for p in files_all:
        try:
            os.remove(p)
        except OSError:
            pass
    ctx.cov["rule"] = ("cases = (body, op list, condition) enumerated by spec/PatchCases.tla (families F1-F6: every single op over all path "
                       "shapes and values incl. malformed ones; every leaf code x INC deltas / REMOVE_VAL values / comparator x threshold; "
                       "op pairs), expected outcomes computed by TLC from spec/Patch.tla, each case run on the real code in two "
                       "container-header styles; non-trivial = the strict specification says the patch succeeds and changes the body; "
                       "distinct by (body, ops, condition). thorough: families F0-F5, F7 and the swamp-level family S1 are enumerated "
                       "completely, the op-pair family F6 (650 754 cases) at 50 %; quick: F0 completely, the others sampled by seed")
    # the pair family is sampled in both tiers, so the finite case space is not enumerated completely
    ctx.cov["exhaustive"] = False
