"""C14 - Business lock: exclusive, FIFO, TTL-released, deadlock-free.

spec/Lock.tla (per-key queues, ready channels, TTL watchdog, cancellation, Unlock with own / stale / foreign-key /
never-issued ids)  +  TLC exhaustive (safety, step properties, deadlock, liveness NoStuckWaiter under weak
fairness of the select and of the TTL)  +  binding to app/core/hydra/lock/lock.go and the gateway handlers:

  (B) one shortest path per transition of the strict state graphs (3 callers x 1 key, 2 callers x 2 keys, and
      4 callers x 1 key with one Lock call each: cancellation of a waiter that has two more behind it) stepped through
      the real lock (TTL watchdogs and cancelled callers held at verifhook gates, parked callers observed from
      goroutine wait states), a point-of-rest line after every step;
  (A) free-running seeded stress (TTLs, cancellations before / during the wait, duplicate / stale / foreign-key /
      never-issued unlocks) and Lock/Unlock through the gRPC gateway (TTL floor, detached context);
  every log is the sequence of verif hook events emitted under q.mu (enq / rem with the queue after the change,
  grant) and is validated by TLC against Trace_Lock: each line must be the corresponding spec action reproducing
  the logged queue, all invariants and step properties evaluated on every step.
"""
import json, os, random
from concurrent.futures import ThreadPoolExecutor
import vlib
import lockcommon as lc

LIVE = "PROPERTIES GrantFifo ForeignUnlockHarmless ReleasedOnlyByOwnerOrTtl NoStuckWaiter\n"


def run(ctx):
    thorough = ctx.tier == "thorough"
    rng = random.Random(ctx.seed)
    ctx.assumptions += [
        "the lock id is the only capability: a caller can pass its own id, a stale id, the id of a live grant on another key or an id never issued; "
        "the id of a caller that is still waiting is known to nobody",
        "TTLs are untimed: the watchdog of a grant may fire at any time after the grant (the harness holds it at a gate until the schedule says so)",
        "a caller counts as parked when two consecutive goroutine dumps show it in `select` while no managed goroutine is running",
    ]
    binary = ctx.go_build("lock")
    ex = ThreadPoolExecutor(max_workers=6)

    # 1. exhaustive check of the strict design
    mc = []
    mc.append(("mc-2p2k", ex.submit(ctx.tlc, "MC_Lock", cfg_text=lc.mc_cfg(2, 2, 2, None, lc.INV + LIVE), name="mc-2p2k", workers=2, timeout=6000)))
    mc.append(("mc-3p1k", ex.submit(ctx.tlc, "MC_Lock", cfg_text=lc.mc_cfg(3, 1, 2, None, lc.INV + LIVE), name="mc-3p1k", workers=4, timeout=6000,
                                    coverage=thorough)))
    if thorough:
        mc.append(("mc-3p2k", ex.submit(ctx.tlc, "MC_Lock", cfg_text=lc.mc_cfg(3, 2, 2, None, lc.INV + LIVE), name="mc-3p2k", workers=8, timeout=12000,
                                        heap="8g")))
        mc.append(("mc-4p1k-b1", ex.submit(ctx.tlc, "MC_Lock", cfg_text=lc.mc_cfg(4, 1, 1, None, lc.INV + LIVE), name="mc-4p1k-b1", workers=2, timeout=6000)))
    # non-vacuity: deliberately broken variants must be caught by the property they target
    nv = [("T_NoWake", "PROPERTIES NoStuckWaiter\n", False), ("T_StaleRemovesHead", "INVARIANT MutualExclusion\n", True)]
    if thorough:
        nv += [("T_NoWake", "INVARIANT HeadToldToGo\n", True), ("T_StaleRemovesHead", "PROPERTIES ForeignUnlockHarmless\n", True),
               ("T_StaleRemovesHead", "PROPERTIES ReleasedOnlyByOwnerOrTtl\n", True)]
    nvf = [(d, p, ex.submit(ctx.tlc, "MC_Lock", cfg_text=lc.mc_cfg(2, 1, 3, d, p), name="nonvac-%s-%d" % (d, i), workers=1, timeout=3000,
                            count_states=False, deadlock=dl)) for i, (d, p, dl) in enumerate(nv)]
    # state graphs for replay
    gspecs = [("g3p1k", 3, 1, 2, 4), ("g2p2k", 2, 2, 2, 4), ("g4p1k", 4, 1, 1, 4)]
    gf = [(n, ex.submit(lc.export_tests, ctx, a, b, c, d, "edges-" + n)) for n, a, b, c, d in gspecs]

    for name, f in mc:
        r = f.result()
        if not r.ok:
            raise vlib.Inconclusive("strict Lock spec (%s) does not satisfy its own properties: %s %s" % (name, r.violated, (r.error or "")[:400]))
        ctx.extra[name.replace("-", "_")] = r.summary()
        if name == "mc-3p1k" and thorough and r.coverage_zero:
            ctx.extra["coverage_zero"] = r.coverage_zero[:12]
    for d, p, f in nvf:
        r = f.result()
        if r.ok or (r.error and not r.violated and "violated" not in (r.error or "")):
            raise vlib.Inconclusive("non-vacuity: broken variant %s is not caught by %s (ok=%s %s)" % (d, p.strip(), r.ok, (r.error or "")[:300]))
        ctx.extra.setdefault("nonvacuity", []).append("%s violates %s" % (d, r.violated or p.split()[1]))

    # 2. binding B: TLC paths on the real lock
    b = lc.LockBatch(ctx, "lock", binary)
    if ctx.replay:
        rp = json.load(open(ctx.replay))["replay"]
        if rp.get("kind") == "lock-path":
            b.replay("replay", [rp["steps"]])
            judge(ctx, b)
            ctx.cov["rule"] = "replay of one recorded path"
            return
        if rp.get("kind") == "lock-trace":
            b.lines = rp["lines"]
            b.runs = [dict(kind="replay", first_line=1, info={})]
            with open(b.trace, "w") as f:
                f.write("\n".join(b.lines) + "\n")
            judge(ctx, b)
            ctx.cov["rule"] = "re-validation of one recorded trace"
            return
    per = dict(g3p1k=1500 if thorough else 180, g2p2k=1500 if thorough else 120, g4p1k=1500 if thorough else 150)
    tests_by_kind = {}
    for n, f in gf:
        tests, info = f.result()
        ctx.extra["graph_" + n] = info
        if not tests:
            raise vlib.Inconclusive("no replayable paths exported for " + n)
        if n == "g4p1k":
            # paths in which a waiter with at least two more behind it leaves the queue come first
            deep = [t for t in tests if _mid_cancel(t)]
            ctx.extra["paths_mid_queue_cancel"] = len(deep)
            pick = rng.sample(deep, min(len(deep), per[n] // 2))
            rest = [t for t in tests if t not in pick] if len(tests) < 20000 else tests
            pick += rng.sample(rest, min(len(rest), per[n] - len(pick)))
        else:
            pick = rng.sample(tests, min(len(tests), per[n]))
        tests_by_kind[n] = pick
        b.replay(n, pick)
        for t in pick:
            ctx.count_case([[s["act"]["a"], s["act"]["p"], s["act"]["k"], s["act"]["id"]] for s in t], nontrivial=len(t) >= 3)
    ctx.sample(dict(kind="replayed TLC path", steps=[[s["act"]["a"], s["act"]["p"], s["act"]["k"], s["act"]["id"]] for s in tests_by_kind["g4p1k"][0]]))

    # 3. binding A: free-running stress and the gateway
    for k in range(3 if thorough else 1):
        b.stress("stress", 150 if thorough else 40, 4 + (k % 2), 2, 12 if thorough else 10, ctx.seed * 7919 + k)
    b.stress("stress-1key", 100 if thorough else 25, 5, 1, 8, ctx.seed * 104729 + 7)
    b.gateway("gateway", 4, 5 if thorough else 3, ctx.seed)
    judge(ctx, b)
    ctx.extra["driver_wall_s"] = round(b.driver_wall, 1)
    gl = [json.loads(x) for i, r_ in enumerate(b.runs) if r_["kind"] == "gateway" for x in b.run_lines(i)]
    ttls = [x["ttl_ms"] for x in gl if x.get("ev") == "grant"]
    ctx.extra["gateway_grants"] = len(ttls)
    ctx.extra["gateway_min_ttl_ms"] = min(ttls) if ttls else None
    ctx.sample(dict(kind="recorded trace (gateway, first lines)", lines=gl[:8]))

    # 4. binding self-test (thorough): corrupted / truncated logs must be rejected
    if thorough:
        i0 = next(i for i, r_ in enumerate(b.runs) if r_["kind"] == "stress")
        lines = []
        for i in range(i0, min(i0 + 5, len(b.runs))):
            lines += b.run_lines(i)
        idx = [i for i, l in enumerate(lines[:-2]) if '"ev":"remend"' in l and '"found":1' in l and '"ev":"reset"' not in lines[i + 1]]
        i = idx[len(idx) // 2]
        e = json.loads(lines[i])
        e["ids"] = list(reversed(e["ids"])) if len(e["ids"]) > 1 else e["ids"] + [e["id"]]
        for nm, mod in (("corrupt", lines[:i] + [json.dumps(e)] + lines[i + 1:]), ("dropped", lines[:i] + lines[i + 1:])):
            ok, done, r = b.validate(6, 3, None, False, "selftest-" + nm, lines=mod)
            ctx.extra["selftest_%s_rejected" % nm] = not ok
            if ok:
                raise vlib.Inconclusive("binding self-test failed: %s log was accepted" % nm)
    ctx.cov["rule"] = ("cases = TLC paths (one shortest path per transition of the strict Lock state graphs: 3 callers x 1 key, 2 callers x 2 keys, "
                       "4 callers x 1 key; seeded sample) stepped through the real lock, plus free-running stress runs and gateway runs; every log "
                       "validated by TLC against Trace_Lock; non-trivial = path of >= 3 actions, distinct by action sequence")
    ctx.cov["exhaustive"] = True


def _mid_cancel(t):
    """Some Abort on the path removes an entry that is not the head and has at least two more entries behind it."""
    prev = []
    for s in t:
        if s["act"]["a"] == "Abort" and s["act"]["id"] in prev:
            i = prev.index(s["act"]["id"])
            if i >= 1 and len(prev) - 1 - i >= 2:
                return True
        prev = s["to"]["queue"]["k1"]
    return False


def judge(ctx, b):
    verdict, detail = b.classify(12, 3, [("strict", None, False)])
    cnt = {}
    for i, run_ in enumerate(b.runs):
        c = cnt.setdefault(run_["kind"], dict(strict=0, rejected=0, unvalidated=0, ret_diff=0))
        v = verdict[i]
        lines = b.run_lines(i)
        if v is None:
            c["unvalidated"] += 1
            continue
        c[v] += 1
        ctx.cov["traces_validated_against_impl"] += 1
        ctx.cov["evaluations"] += len(lines)
        info = run_["info"]
        if v == "rejected":
            d = detail.get(i, {})
            what = ("trace of the real lock (%s) is not a behaviour of spec/Lock.tla%s; last lines: %s" % (
                run_["kind"], (": %s violated" % d["violated"]) if d.get("violated") else " (no spec step explains a line)",
                [l[:160] for l in lines[-4:]]))
            ctx.deviation(None, what, dict(kind="lock-trace", source=run_["kind"], lines=lines, acts=info.get("acts")))
        if info.get("ret_diff"):
            c["ret_diff"] += 1
            ctx.deviation(None, "return values of the real lock differ from the spec on a TLC path: %s" % info["ret_diff"][:3],
                          dict(kind="lock-path", steps=[dict(act=a) for a in info.get("acts", [])]))
    ctx.extra["verdicts"] = cnt
    un = sum(c["unvalidated"] for c in cnt.values())
    if un:
        ctx.extra["unvalidated_runs"] = un
    return cnt
