"""C15 - Record guard gives exclusive, arrival-ordered access.

spec/Guard.tla  +  TLC (exhaustive, strict design)  +  two bindings to guard.go:
  (B) one shortest path per transition of the strict state graph replayed on the real guard with the
      projected state (queue, ids, holder / parked processes) compared after every step;
  (A) traces of concurrent random use recorded by the verif hooks under the guard's mutex and validated
      by TLC against Trace_Guard (all invariants evaluated at every line).
A disagreement that the as-built deviation "IdReuse" explains is a known finding only while it is listed
as open in known_findings.json.
"""
import json, os, random, shutil
import vlib, edges

DEV = "IdReuse"
FID = "D_C15_IdReuse"


def mc_cfg(maxops, dev, extra=""):
    return """SPECIFICATION Spec
CONSTANTS
  p1 = p1
  p2 = p2
  p3 = p3
  Procs = {p1, p2, p3}
  MaxOps = %d
  Dev = %s
CONSTRAINT Bounded
VIEW view
%s
""" % (maxops, "{%s}" % (('"%s"' % dev) if dev else ""), extra)


INV = "INVARIANTS TypeOK Exclusive HolderIsHead QueueInArrivalOrder HeadCanProceed\nPROPERTIES GrantFifo\n"


def explain_with_dev(ctx, tracefile, name):
    ok, r = ctx.validate_trace("Trace_Guard", "Trace_Guard_asbuilt", tracefile, dev=DEV, name=name)
    return ok


def run(ctx):
    thorough = ctx.tier == "thorough"
    rng = random.Random(ctx.seed)
    ctx.assumptions += [
        "the id is the only capability of the guard API: releasing with the live holder's own number is not modelled as a foreign release",
        "goroutine wait states are read from runtime.Stack; a waiter counts as parked when seen in sync.Cond.Wait twice",
    ]
    binary = ctx.go_build("guard")

    # 1. the strict design satisfies the property (exhaustive)
    r = ctx.tlc("MC_Guard", cfg_text=mc_cfg(10 if thorough else 7, None, INV), name="mc-strict", coverage=thorough)
    if not r.ok:
        raise vlib.Inconclusive("strict Guard spec does not satisfy its own properties: %s %s" % (r.violated, r.error))
    ctx.extra["mc_strict"] = r.summary()
    # the deviation really is a deviation at model level (non-vacuity of the invariants)
    r2 = ctx.tlc("MC_Guard", cfg_text=mc_cfg(6, DEV, INV), name="mc-asbuilt-witness", count_states=False)
    if r2.ok:
        raise vlib.Inconclusive("as-built Guard spec (IdReuse) satisfies every invariant: the invariants are vacuous")
    ctx.extra["asbuilt_witness_violates"] = r2.violated

    # 2. binding B: replay one path per transition of the strict state graph on the real guard
    re_ = ctx.tlc("MC_Guard", cfg_text=mc_cfg(7 if thorough else 5, None, "ACTION_CONSTRAINT ExportEdge"), workers=1,
                  name="edges", count_states=False, timeout=1200)
    if not re_.ok:
        raise vlib.Inconclusive("edge export failed: %s %s" % (re_.violated, re_.error))
    tests, nedges, nstates = edges.build_tests(re_.printed, max_tests=None)
    if not tests:
        raise vlib.Inconclusive("no edges exported")
    if ctx.replay:
        rp = json.load(open(ctx.replay))["replay"]
        if rp.get("kind") == "edge-test":
            tests = [rp["steps"]]
    tf = os.path.join(ctx.work, "tests.json")
    json.dump(tests, open(tf, "w"))
    rf = os.path.join(ctx.work, "results.ndjson")
    ctx.run_driver(binary, ["replay", tf, rf], timeout=1800)
    results = [json.loads(l) for l in open(rf)]
    if len(results) != len(tests):
        raise vlib.Inconclusive("replay driver returned %d results for %d tests" % (len(results), len(tests)))
    ctx.extra["edges"] = nedges
    ctx.extra["graph_states"] = nstates
    ctx.extra["replayed_paths"] = len(tests)
    nfail = 0
    for res in results:
        t = tests[res["test"]]
        acts = [[s["act"]["a"], s["act"]["p"], s["act"]["id"]] for s in t]
        ctx.count_case(acts, nontrivial=len(t) >= 2)
        if res["ok"]:
            continue
        if res.get("infra"):
            raise vlib.Inconclusive("replay scheduler problem on test %d: %s" % (res["test"], res.get("why")))
        nfail += 1
        if nfail > 5:
            continue
        # a real divergence from the strict spec; is it a behaviour of the as-built spec?
        evs = [dict(ev=e["ev"].split(".")[1], p=e.get("p", ""), id=e["id"], queue=e["queue"] or [],
                    res=0) for e in (res.get("events") or [])]
        fid = None
        if evs:
            # recompute res for rel lines from queue shrinkage
            prev = []
            for e in evs:
                if e["ev"] == "rel":
                    e["res"] = 1 if len(e["queue"]) < len(prev) else 0
                prev = e["queue"]
            tfile = os.path.join(ctx.work, "fail-%d.ndjson" % res["test"])
            with open(tfile, "w") as f:
                for e in evs:
                    f.write(json.dumps(e) + "\n")
            if explain_with_dev(ctx, tfile, "explain-%d" % res["test"]):
                fid = FID
        what = "real guard diverges from the strict spec at step %d of %s: %s (expected %s, observed %s)" % (
            res.get("step", 0), acts, res.get("why"), res.get("expected"), res.get("observed"))
        ctx.deviation(fid, what, dict(kind="edge-test", steps=t, result=res))
    ctx.cov["traces_validated_against_impl"] += len(tests)
    ctx.sample(dict(kind="replayed path", steps=[s["act"] for s in tests[min(len(tests) - 1, 40)]]))

    # 3. binding A: traces of concurrent use validated against the spec
    runs, procs, ops = (600, 4, 14) if thorough else (150, 3, 10)
    batches = 8 if thorough else 3
    for b in range(batches):
        tfile = os.path.join(ctx.work, "stress-%d.ndjson" % b)
        ctx.run_driver(binary, ["stress", tfile, str(runs), str(procs + (b % 2)), str(ops)], timeout=900,
                       env={"VERIF_SEED": str(ctx.seed * 7919 + b)})
        lines = open(tfile).read().splitlines()
        nruns = sum(1 for l in lines if '"reset"' in l)
        ok, r = ctx.validate_trace("Trace_Guard", "Trace_Guard", tfile, name="stress-%d" % b)
        ctx.cov["traces_validated_against_impl"] += nruns
        ctx.cov["evaluations"] += len(lines)
        contended = sum(1 for l in lines if '"grant"' in l)
        ctx.extra.setdefault("stress_events", 0)
        ctx.extra["stress_events"] += len(lines)
        ctx.extra.setdefault("stress_grants", 0)
        ctx.extra["stress_grants"] += contended
        if b == 0:
            ctx.sample(dict(kind="recorded trace (first lines)", lines=[json.loads(x) for x in lines[:8]]))
        if ok:
            continue
        keep = os.path.join(ctx.replays, "stress-%d-%d.ndjson" % (ctx.seed, b))
        shutil.copy(tfile, keep)
        fid = FID if explain_with_dev(ctx, tfile, "stress-%d-dev" % b) else None
        m = [x for x in r.printed if "TRACE_REJECTED" in str(x)]
        what = "recorded trace of the real guard rejected by the strict spec (%s%s)" % (
            ("invariant %s violated" % r.violated) if r.violated and r.violated != "Postcondition" else "no spec step explains a line",
            "; " + r.out[r.out.find("TRACE_REJECTED"):][:300].replace("\n", " ") if "TRACE_REJECTED" in r.out else "")
        ctx.deviation(fid, what, dict(kind="trace", file=keep))

    # 4. binding self-test (thorough): a corrupted trace must be rejected
    if thorough:
        tfile = os.path.join(ctx.work, "stress-0.ndjson")
        lines = open(tfile).read().splitlines()
        idx = [i for i, l in enumerate(lines) if '"rel"' in l and '"res":1' in l]
        if idx:
            i = idx[len(idx) // 2]
            e = json.loads(lines[i]); e["res"] = 0
            bad = os.path.join(ctx.work, "corrupt.ndjson")
            open(bad, "w").write("\n".join(lines[:i] + [json.dumps(e)] + lines[i + 1:]) + "\n")
            ok, _ = ctx.validate_trace("Trace_Guard", "Trace_Guard", bad, name="selftest-corrupt")
            ctx.extra["selftest_corrupt_rejected"] = (not ok)
            if ok:
                raise vlib.Inconclusive("binding self-test failed: corrupted trace was accepted")
            drop = os.path.join(ctx.work, "dropped.ndjson")
            open(drop, "w").write("\n".join(lines[:i] + lines[i + 1:]) + "\n")
            ok, _ = ctx.validate_trace("Trace_Guard", "Trace_Guard", drop, name="selftest-drop")
            ctx.extra["selftest_dropped_event_rejected"] = (not ok)
            if ok:
                raise vlib.Inconclusive("binding self-test failed: trace with a dropped event was accepted")
        if r.coverage_zero:
            ctx.extra["coverage_zero"] = r.coverage_zero[:10]
    ctx.cov["rule"] = ("cases = one shortest path per transition of the strict Guard state graph (3 callers) replayed on the real guard; "
                       "non-trivial = path of >= 2 API calls, distinct by action sequence; plus recorded concurrent traces")
    ctx.cov["exhaustive"] = True
