"""C16 - Acknowledged writes survive eviction, auto-destroy and shutdown.

spec/Lifecycle.tla (swamp instances, hydra map, write-behind list, file; requests, idle-close listener, write
ticker, auto-destroy, Destroy, graceful stop)  +  TLC exhaustive  +  two bindings to the real Gateway/Hydra/swamp:
  (B) complete behaviours of the as-built specification (shortest witnesses of every open deviation found by TLC,
      plus seeded simulation samples) are forced step by step on the real code with the verif gates of swamp.go;
      the real control flow, the projected state after every step and the reloaded state must be what the
      specification predicts; the acknowledged-operation log + reloaded state is judged by TLC (Trace_Lifecycle);
  (A) churn stress on one real Hydra (idle timeout 1 s, last-record deletes, re-summon, graceful stop): the
      acknowledged-operation log vs the reloaded state is validated by TLC against AckDurable; a condemned round
      is a KNOWN-FINDING only if TLC finds a behaviour of the as-built specification (deviations of the OPEN
      findings only) with exactly that history and final state.
"""
import json, os, random, shutil, time
from concurrent.futures import ThreadPoolExecutor
import vlib

FID = {
    "AutoDrop": "D_C16_AutoDestroyDropsInsert",
    "Stale": "D_C16_IdleCloseStaleCheck",
    "Swap": "D_C16_WriterSwapLosesRecreate",
    "Gap": "D_C16_SummonVigilGap",
    "Resurrect": "D_C16_WriterResurrectsDeleted",
    "StaleDestroy": "D_C16_StaleDestroyRemovesSuccessor",
    "StopTick": "D_C16_StopCloseOvertakesWriteTick",
}
# (deviations that must make the difference, menu, initial keys, stop) - smallest model in which TLC finds the witness
WITNESSES = [
    (("AutoDrop",), "MenuDelSet2", ("k1",), False),
    (("Gap",), "MenuDelSet2", ("k1",), False),
    (("Swap",), "MenuDelSet1", ("k1", "k2"), False),
    (("Resurrect",), "MenuSetDelK2", ("k1",), False),
    (("StaleDestroy",), "MenuDelSet2", ("k1",), False),
    (("Gap", "Stale"), "MenuSetK1", ("k1",), False),
    (("StopTick",), "MenuDelSet1", ("k1", "k2"), True),
]
MENUS = ("MenuSetDel", "MenuShift", "MenuDestroy")
INITS = (("k1",), ("k1", "k2"), ())


def tset(xs):
    return "{" + ", ".join('"%s"' % x for x in xs) + "}"


def cfg(spec, dev, menu, init, stop, body, want=None):
    return """SPECIFICATION %s
CONSTANTS
  Reqs = {"r1", "r2"}
  Keys = {"k1", "k2"}
  Dev = %s
  InitKeys = %s
  Menu <- %s
  MaxInst = 2
  WithStop = %s
  WithTicks = TRUE
%s%s
""" % (spec, tset(sorted(dev)), tset(init), menu, "TRUE" if stop else "FALSE",
       ("  WantUsed = %s\n" % tset(sorted(want))) if want is not None else "", body)


def open_devs(ctx):
    fixed = set(x for x in os.environ.get("VERIF_C16_ASSUME_FIXED", "").split(",") if x)
    of = ctx.open_findings()
    return set(d for d, f in FID.items() if f in of and d not in fixed)


def parse_printed(r, key):
    out = []
    for p in r.printed:
        try:
            o = json.loads(p) if isinstance(p, str) else p
        except Exception:
            continue
        if isinstance(o, dict) and key in o:
            out.append(o)
    return out


def acts(s):
    return [[h["a"], h["p"], h["i"]] + ([h["o"]["op"], h["o"]["k"]] if h["a"] == "RSummon" else []) for h in s["hist"]]


def refused(v):
    # "rejected" (gRPC error) and "noswamp" (SwampDoesNotExist / empty reply) both mean: not executed, nothing acknowledged
    return "refused" if v in ("rejected", "noswamp") else v


def trace_lines(result):
    reset = dict(ev="reset", r="", op="", k="", v="", res="", file={})
    return [reset] + list(result.get("events") or [])


def judge_traces(ctx, name, rounds):
    """rounds: list of lists of event dicts (each starting with a reset). Returns {round index: bad record}."""
    path = os.path.join(ctx.work, name + ".ndjson")
    first = {}
    n = 0
    with open(path, "w") as f:
        for i, evs in enumerate(rounds):
            for e in evs:
                n += 1
                first[n] = i
                f.write(json.dumps(e) + "\n")
    ok, r = ctx.validate_trace("Trace_Lifecycle", "Trace_Lifecycle_report", path, name="judge-" + name, timeout=1800)
    if not ok:
        raise vlib.Inconclusive("trace %s is not a well-formed history (rejected by Trace_Lifecycle): %s" % (
            name, r.out[r.out.find("TRACE_REJECTED"):][:400] if "TRACE_REJECTED" in r.out else (r.violated or r.error)))
    bad = {}
    for o in parse_printed(r, "bad"):
        b = o["bad"]
        bad[first[b["line"]]] = b
    ctx.cov["evaluations"] += n
    return bad, path


def explain(ctx, cache, dev, evs, bad):
    """Is this condemned round a behaviour of the as-built specification? Returns the set of deviations used, or None."""
    calls = [e for e in evs if e["ev"] in ("call", "ret") and e["r"] in ("r1", "r2")]
    if len([e for e in calls if e["ev"] == "call"]) != 2 or len(calls) != 4:
        return None
    seeds = tuple(sorted(e["k"] for e in evs if e["ev"] == "call" and e["r"].startswith("s")))
    op = {e["r"]: (e["op"], e["k"]) for e in calls if e["ev"] == "call"}
    res = {e["r"]: e["res"] for e in calls if e["ev"] == "ret"}
    seq = [("c:" if e["ev"] == "call" else "r:") + e["r"] for e in calls]
    order = "r1r2" if seq.index("r:r1") < seq.index("c:r2") else ("r2r1" if seq.index("r:r2") < seq.index("c:r1") else "conc")
    stop = any("stop=true" in str(e.get("plan", "")) for e in evs)
    f = bad["file"]
    if f.get("k3", "absent") != "absent":
        return None
    fmap = lambda v: "v0" if v == "v0" else v
    sig = (seeds, op["r1"], op["r2"], res["r1"], res["r2"], order, stop, f["k1"], f["k2"], tuple(sorted(dev)))
    if sig in cache:
        return cache[sig]
    env = dict(EXP_OP1=op["r1"][0], EXP_K1=op["r1"][1], EXP_OP2=op["r2"][0], EXP_K2=op["r2"][1],
               EXP_RES1="ok" if res["r1"] == "ok" else "noeffect", EXP_RES2="ok" if res["r2"] == "ok" else "noeffect", EXP_F1=fmap(f["k1"]), EXP_F2=fmap(f["k2"]), EXP_ORD=order)
    text = cfg("ESpec", dev, "ExpMenu", seeds, stop, "VIEW view\nINVARIANTS NoExplanation")
    r = ctx.tlc("Explain_Lifecycle", cfg_text=text, deadlock=False, workers=1, env=env, timeout=1800,
                name="explain-%d" % len(cache), count_states=False)
    if r.error:
        raise vlib.Inconclusive("explanation query failed: %s" % r.error[:800])
    used = None
    if r.violated == "NoExplanation":
        ex = parse_printed(r, "explained")
        used = set(ex[0]["used"]) if ex else set()
    cache[sig] = used
    return used


def run(ctx):
    thorough = ctx.tier == "thorough"
    rng = random.Random(ctx.seed)
    ctx.assumptions += [
        "server stop is modelled as in server.Stop: MarkShuttingDown, in-flight calls drained by grpcServer.GracefulStop, then hydra.GracefulStop -> Close of every open swamp",
        "timing assumption of the design kept in the strict spec: a request reaches BeginVigil within closeAfterIdle+1s of IsClosing() (time does not pass for a request standing between the two)",
        "one action per gate-to-gate segment of swamp.go; CreateTreasure+Save+guard release+CeaseVigil+reply is one action (no gate can be held while the record guard is held); key-level races of two writers belong to C09",
        "V2 chronicler (append-only .hyd), write-behind swamps (writeInterval 1 s, closeAfterIdle 1 s); goroutine wait states are read from runtime.Stack",
    ]
    dev = open_devs(ctx)
    ctx.extra["open_deviations"] = sorted(dev)
    binary = ctx.go_build("lifecycle")
    pool = ThreadPoolExecutor(max_workers=8)

    if ctx.replay:
        rp = json.load(open(ctx.replay))["replay"]
        if rp.get("kind") == "trace":
            # a recorded stress round: judge the history again, look it up in the as-built spec again
            lines = [json.loads(l) for l in open(rp["file"]) if l.strip()]
            b, _ = judge_traces(ctx, "replay-trace", [lines])
            ctx.cov["rule"] = "replay of one recorded stress round"
            for j, rec in b.items():
                used = explain(ctx, {}, dev, lines, rec)
                what = "stress round %s: read back %s, acknowledged history allows %s" % (lines[0].get("plan"), rec["file"], rec["allowed"])
                if used is None:
                    ctx.deviation(None, what + " - no behaviour of the as-built specification has this history and final state", rp)
                else:
                    for d in (used or {"?"}):
                        ctx.deviation(FID.get(d), what + " (as-built behaviour found by TLC, deviation %s)" % d, rp)
            ctx.sample(dict(kind="replayed stress round", lines=lines[:8]))
            ctx.cov["traces_validated_against_impl"] += 1
            return

    # ------------------------------------------------------------------ 1. exhaustive TLC
    if ctx.replay:
        strict_cfgs, attr_cfgs = [("MenuDelSet2", ("k1",), False)], []       # a replay re-runs one schedule: spec sanity only
    elif thorough:
        strict_cfgs = [(m, i, s) for m in MENUS for i in INITS for s in (False, True)] + [("MenuFull", ("k1",), False)]
        attr_cfgs = [(m, i, s) for m in MENUS for i in INITS[:2] for s in (False, True)]
    else:
        strict_cfgs = [("MenuSetDel", ("k1",), False), ("MenuShift", ("k1", "k2"), False), ("MenuDelSet1", ("k1", "k2"), True)]
        attr_cfgs = [("MenuSetDel", ("k1",), False), ("MenuDelSet1", ("k1", "k2"), True)]
    cover_done = []

    def mc(kind, m, i, s):
        d, inv = (set(), "AckDurable") if kind == "strict" else (dev, "Attributed")
        cov = thorough and kind == "strict" and (m, i, s) == ("MenuSetDel", ("k1",), True)
        r = ctx.tlc("MC_Lifecycle", cfg_text=cfg("Spec", d, m, i, s, "VIEW view\nINVARIANTS TypeOK " + inv), deadlock=False,
                    workers=4, timeout=3000, heap="6g", name="mc-%s-%s-%s-%s" % (kind, m, "".join(i) or "none", "stop" if s else "nostop"),
                    coverage=cov)
        if cov:
            cover_done.append(r)
        return kind, (m, i, s), r
    futs = [pool.submit(mc, "strict", *c) for c in strict_cfgs] + [pool.submit(mc, "asbuilt", *c) for c in attr_cfgs]

    # ------------------------------------------------------------------ 2. witnesses of the open deviations
    def wit(w):
        need, m, i, s = w
        r = ctx.tlc("Sim_Lifecycle", cfg_text=cfg("MCSpec", dev, m, i, s, "VIEW view\nINVARIANTS NoWitness", want=need),
                    deadlock=False, workers=1, timeout=3000, name="witness-" + "+".join(need), count_states=False)
        return w, r
    wfuts = [pool.submit(wit, w) for w in WITNESSES if set(w[0]) <= dev and not ctx.replay]

    # disabled-action probes: states in which the spec does not allow SummonSwamp / the vigil drain to go on
    PROBES = {"summon": ("NoProbeSummon", dict(kind="summon", r="r2", op=dict(op="set", k="k2"))),
              "drain": ("NoProbeDrain", dict(kind="drain", r="r1", op=dict(op="", k="")))}

    def probe(kind):
        inv, rec = PROBES[kind]
        r = ctx.tlc("Sim_Lifecycle", cfg_text=cfg("MCSpec", dev, "MenuDelSet2", ("k1",), False, "VIEW view\nINVARIANTS " + inv, want=()),
                    deadlock=False, workers=1, timeout=3000, name="probe-" + kind, count_states=False)
        return kind, rec, r
    pfuts = [pool.submit(probe, k) for k in sorted(PROBES) if not ctx.replay]

    # ------------------------------------------------------------------ 3. sampled complete behaviours of the as-built spec
    sim_cfgs = [("MenuSetDel", ("k1",), False), ("MenuShift", ("k1", "k2"), False), ("MenuDestroy", ("k1",), False),
                ("MenuSetDel", ("k1", "k2"), True), ("MenuFull", (), False), ("MenuFull", ("k1",), True)]
    nsim = 400 if thorough else 60

    def sim(j, c):
        m, i, s = c
        r = ctx.tlc("Sim_Lifecycle", cfg_text=cfg("MCSpec", dev, m, i, s, "INVARIANTS ExportTerminal", want=()),
                    deadlock=False, workers=1, simulate=nsim, depth=80, timeout=3000, name="sim-%d" % j, count_states=False)
        return c, r
    sfuts = [pool.submit(sim, j, c) for j, c in enumerate(sim_cfgs if thorough else sim_cfgs[:4]) if not ctx.replay]

    for f in futs:
        kind, c, r = f.result()
        if not r.ok:
            if kind == "strict":
                raise vlib.Inconclusive("strict Lifecycle spec violates %s in config %s: %s" % (r.violated, c, (r.error or "")[:500]))
            raise vlib.Inconclusive("as-built Lifecycle spec loses an acknowledged write without a named deviation (%s) in config %s: %s" % (
                r.violated, c, (r.error or "")[:500]))
    ctx.extra["mc_configs"] = dict(strict=len(strict_cfgs), asbuilt_attributed=len(attr_cfgs))
    if cover_done and cover_done[0].coverage_zero:
        ctx.extra["coverage_zero"] = cover_done[0].coverage_zero[:12]

    schedules = []
    wit_ids = {}
    for f in wfuts:
        (need, m, i, s), r = f.result()
        ss = parse_printed(r, "hist")
        if r.violated != "NoWitness" or not ss:
            raise vlib.Inconclusive("as-built spec has no behaviour in which exactly %s loses an acknowledged write (vacuous deviation?): %s %s" % (
                list(need), r.violated, (r.error or "")[:300]))
        sc = ss[0]
        sc["id"] = "witness:" + "+".join(need)
        wit_ids[sc["id"]] = need
        schedules.append(sc)
    ctx.extra["asbuilt_witnesses"] = sorted(wit_ids)
    for f in pfuts:
        kind, rec, r = f.result()
        ss = parse_printed(r, "hist")
        if not r.violated or not ss:
            raise vlib.Inconclusive("no probe state for %s found by TLC: %s %s" % (kind, r.violated, (r.error or "")[:300]))
        sc = ss[0]
        sc["id"] = "probe:" + kind
        sc["probe"] = rec
        schedules.append(sc)
    seen = set(json.dumps(acts(s)) for s in schedules)
    sims = []
    for f in sfuts:
        c, r = f.result()
        if r.error or r.violated:
            raise vlib.Inconclusive("simulation of the as-built spec failed: %s %s" % (r.violated, (r.error or "")[:500]))
        for sc in parse_printed(r, "hist"):
            key = json.dumps(acts(sc))
            if key in seen or len(sc["hist"]) < 4:
                continue
            seen.add(key)
            sims.append(sc)
    rng.shuffle(sims)
    # prefer behaviours with a lifecycle event in them; keep a bounded number
    sims.sort(key=lambda s: -len(set(h["a"] for h in s["hist"])))
    keep = 160 if thorough else 24
    sims = sims[:keep * 3]
    rng.shuffle(sims)
    for j, sc in enumerate(sims[:keep]):
        sc["id"] = "sim:%d" % j
        schedules.append(sc)
    if ctx.replay:
        rp = json.load(open(ctx.replay))["replay"]
        if rp.get("kind") == "schedule":
            schedules = [rp["schedule"]]

    # ------------------------------------------------------------------ 4. binding B: force the behaviours on the real code
    sf = os.path.join(ctx.work, "schedules.json")
    json.dump(schedules, open(sf, "w"))
    rf = os.path.join(ctx.work, "results.ndjson")
    denv = {"VERIF_C16_FRESHCHECK": "0" if "Stale" in dev else "1"}
    ctx.run_driver(binary, ["replaymany", sf, rf, "8" if thorough else "6"], timeout=5400, env=denv)
    results = [json.loads(l) for l in open(rf)]
    if len(results) != len(schedules):
        raise vlib.Inconclusive("replay driver returned %d results for %d schedules" % (len(results), len(schedules)))
    judged = [i for i, r in enumerate(results) if r.get("observed") is not None and not r.get("infra")]
    bad, _ = judge_traces(ctx, "replay", [trace_lines(results[i]) for i in judged])
    bad = {judged[j]: b for j, b in bad.items()}
    infra, notes = [], []
    reproduced = set()
    cache = {}
    for i, (sc, r) in enumerate(zip(schedules, results)):
        a = acts(sc)
        ctx.count_case(a, nontrivial=len(set(x[0] for x in a) & {"CFlag", "RDFlag", "FDelete", "LCheck", "SClose"}) > 0)
        if r.get("infra"):
            infra.append("%s: %s" % (sc["id"], r["infra"]))
            continue
        lost = i in bad
        rep = dict(kind="schedule", schedule=sc, result={k: v for k, v in r.items() if k != "log"}, condemned=bad.get(i))
        real_res = {e["r"]: e["res"] for e in r["events"] if e["ev"] == "ret" and e["r"].startswith("r")}
        problem = None
        if sc.get("probe"):
            # the schedule ends in a state where the probed step is disabled; after the probe everything runs freely,
            # so there is no predicted final state: TLC judges the history, a loss must be an as-built behaviour
            if r.get("mismatch") and str(r["mismatch"]).startswith("probe:"):
                # the code took a step the specification forbids in this state (summon of a closing swamp / Destroy
                # without draining the vigils): the mechanisms C16 rests on; a violation whether or not this run lost data
                ctx.deviation(None, "schedule %s: %s%s" % (sc["id"], r["mismatch"],
                              ("; acknowledged write lost: read back %s, allowed %s" % (bad[i]["file"], bad[i]["allowed"])) if lost else ""), rep)
                continue
            elif r.get("mismatch"):
                problem = "step %s: %s" % (r.get("at_step"), r["mismatch"])
            elif lost:
                used = explain(ctx, cache, dev, trace_lines(r), bad[i])
                if used is None:
                    ctx.deviation(None, "probe schedule %s: acknowledged write lost and no as-built behaviour has this history: read back %s, allowed %s" % (
                        sc["id"], bad[i]["file"], bad[i]["allowed"]), rep)
                else:
                    for d in (used or {"?"}):
                        ctx.deviation(FID.get(d), "probe schedule %s, free run after the probe: read back %s, history allows %s (as-built behaviour found by TLC, deviation %s)" % (
                            sc["id"], bad[i]["file"], bad[i]["allowed"], d), rep)
                continue
            else:
                continue
        elif r.get("mismatch"):
            problem = "step %s: %s" % (r.get("at_step"), r["mismatch"])
        elif r["observed"] != {k: v for k, v in sc["file"].items()}:
            problem = "reloaded state %s differs from the state the as-built spec predicts %s" % (r["observed"], sc["file"])
        elif any(refused(real_res.get(q)) != refused(v) for q, v in sc["res"].items() if v != "none"):
            problem = "replies %s differ from the replies the as-built spec predicts %s" % (real_res, sc["res"])
        if problem:
            if lost:
                ctx.deviation(None, "schedule %s: the real code leaves the as-built specification (%s) and an acknowledged write is lost: read back %s, allowed %s" % (
                    sc["id"], problem, bad[i]["file"], bad[i]["allowed"]), rep)
            else:
                notes.append("schedule %s (%s): %s" % (sc["id"], a, problem))
            continue
        if lost != (not sc["durable"]):
            notes.append("schedule %s: TLC's verdict on the recorded history (%s) differs from the model's (%s)" % (sc["id"], lost, not sc["durable"]))
            continue
        if lost:
            for d in sc["used"]:
                ctx.deviation(FID.get(d) if d in dev else None,
                              "acknowledged write lost on the real code in schedule %s (deviation %s): read back %s, history allows %s" % (
                                  a, d, bad[i]["file"], bad[i]["allowed"]), rep)
            if sc["id"] in wit_ids:
                reproduced.add(sc["id"])
    ctx.cov["traces_validated_against_impl"] += len(results) - len(infra)
    ctx.extra["replayed_schedules"] = len(results)
    ctx.extra["replayed_losing_schedules"] = len([i for i in bad])
    ctx.extra["witnesses_reproduced_on_real_code"] = sorted(reproduced)
    ctx.extra["replay_wall_ms_max"] = max([r.get("wall_ms", 0) for r in results] or [0])
    for sc in schedules[:2]:
        ctx.sample(dict(kind="replayed schedule", id=sc["id"], steps=acts(sc), predicted_file=sc["file"], used=sc["used"]))

    # ------------------------------------------------------------------ 5. binding A: churn stress, history judged by TLC
    if not ctx.replay:
        batches = [("stress-%d" % b, False, b) for b in range(3 if thorough else 1)] + [("stop-%d" % b, True, 100 + b) for b in range(3 if thorough else 1)]

        def do_stress(b):
            name, stop, salt = b
            tfile = os.path.join(ctx.work, name + ".ndjson")
            rounds, swamps = ((8, 24) if thorough else (3, 16)) if not stop else (1, 24 if thorough else 12)
            ctx.run_driver(binary, ["stress", tfile, str(rounds), str(swamps)], timeout=3000,
                           env={"VERIF_SEED": str(ctx.seed * 7919 + salt), "VERIF_STRESS_STOP": "1" if stop else "0"})
            return name, tfile
        for name, tfile in pool.map(do_stress, batches):
            if os.path.exists(tfile + ".infra"):
                infra.append("%s: %s" % (name, open(tfile + ".infra").read()[:600]))
            lines = [json.loads(l) for l in open(tfile)]
            rounds = []
            for e in lines:
                if e["ev"] == "reset":
                    rounds.append([])
                rounds[-1].append(e)
            rounds = [r for r in rounds if r and r[-1]["ev"] == "reload"]
            if not rounds:
                infra.append("%s: no complete round" % name)
                continue
            sbad, path = judge_traces(ctx, name, rounds)
            ctx.cov["traces_validated_against_impl"] += len(rounds)
            ctx.extra["stress_rounds"] = ctx.extra.get("stress_rounds", 0) + len(rounds)
            ctx.extra["stress_condemned_rounds"] = ctx.extra.get("stress_condemned_rounds", 0) + len(sbad)
            for e in rounds:
                ctx.count_case([x for x in e if x["ev"] != "reset"], nontrivial=True)
            if name == "stress-0":
                ctx.sample(dict(kind="stress round (recorded history + reload)", lines=rounds[0]))
            for j, b in sorted(sbad.items()):
                used = explain(ctx, cache, dev, rounds[j], b)
                keepf = os.path.join(ctx.replays, "%s-%d-round%d.ndjson" % (name, ctx.seed, j))
                open(keepf, "w").write("\n".join(json.dumps(x) for x in rounds[j]) + "\n")
                what = "stress round %s: read back %s, acknowledged history allows %s" % (rounds[j][0].get("plan"), b["file"], b["allowed"])
                if used is None:
                    ctx.deviation(None, what + " - no behaviour of the as-built specification has this history and final state", dict(kind="trace", file=keepf))
                else:
                    for d in (used or {"?"}):
                        ctx.deviation(FID.get(d), what + " (as-built behaviour found by TLC, deviation %s)" % d, dict(kind="trace", file=keepf))
        ctx.extra["explain_queries"] = len(cache)

    # ------------------------------------------------------------------ 6. self-tests of the binding (thorough)
    if thorough and not ctx.replay:
        good = [i for i in judged if i not in bad and not results[i].get("mismatch")]
        if good:
            evs = trace_lines(results[good[0]])
            c = json.loads(json.dumps(evs))
            tgt = [e for e in c if e["ev"] == "reload"][0]
            tgt["file"]["k1"] = "r9x"   # a value nobody wrote
            b2, _ = judge_traces(ctx, "selftest-corrupt", [c])
            ctx.extra["selftest_corrupt_reload_condemned"] = bool(b2)
            if not b2:
                raise vlib.Inconclusive("binding self-test failed: corrupted reload accepted")
            d = [e for e in evs if not (e["ev"] == "call" and e["r"] == "r1")]
            try:
                judge_traces(ctx, "selftest-drop", [d])
                dropped_rejected = False
            except vlib.Inconclusive:
                dropped_rejected = True
            ctx.extra["selftest_dropped_call_rejected"] = dropped_rejected
            if not dropped_rejected:
                raise vlib.Inconclusive("binding self-test failed: history with a dropped call line accepted")
        # replay self-test: a schedule with one wrong expectation must be reported by the driver
        if schedules and schedules[0]["id"].startswith("witness:"):
            w = json.loads(json.dumps(schedules[0]))
            w["id"] = "selftest"
            k = max(j for j, h in enumerate(w["hist"]) if h["a"].startswith("R") and h["st"]["pc"][h["p"]] != "done")
            w["hist"][k]["st"]["pc"][w["hist"][k]["p"]] = "d_drain" if w["hist"][k]["st"]["pc"][w["hist"][k]["p"]] != "d_drain" else "adcheck"
            json.dump([w], open(sf, "w"))
            ctx.run_driver(binary, ["replaymany", sf, rf, "1"], timeout=1800)
            rr = json.loads(open(rf).readline())
            ctx.extra["selftest_wrong_expectation_detected"] = bool(rr.get("mismatch"))
            if not rr.get("mismatch"):
                raise vlib.Inconclusive("replay self-test failed: wrong expectation not detected")

    ctx.cov["rule"] = ("cases = complete behaviours of the as-built Lifecycle spec (TLC witnesses of every open deviation + simulation "
                       "samples) forced on the real Gateway/Hydra/swamp, and stress rounds (2 concurrent calls + idle close/stop + reload); "
                       "non-trivial = contains a Close, Destroy, writer collect/delete, listener check or stop step; distinct by action sequence / history")
    ctx.cov["exhaustive"] = True
    if notes:
        ctx.extra["unexplained_flow_differences"] = notes[:10]
    missing = [w for w in wit_ids if w not in reproduced and not any(w in x for x in infra)]
    if ctx.violations:
        return
    if infra:
        raise vlib.Inconclusive("harness problems (time-outs), no verdict: " + " | ".join(infra)[:1500])
    if notes:
        raise vlib.Inconclusive("the as-built Lifecycle specification does not describe the code (no acknowledged write was lost): " + " | ".join(notes)[:1500])
    if missing and not ctx.replay:
        raise vlib.Inconclusive("open finding(s) no longer reproduce on the real code: %s (mark fixed in findings/C16.json?)" % missing)
