"""C17 - Lifecycle waits always terminate.

spec/Vigil.tla (explicit model of sync.Cond's notify list)  +  TLC (exhaustive: safety, deadlock = stuck wait,
liveness WaitTerminates under weak fairness)  +  binding to app/core/hydra/swamp/vigil/vigil.go:

  every operation / waiter of the REAL vigil is a goroutine stepped by the driver harness/cmd/vigil through the
  verifhook.Yield gates (between the decrement and the Broadcast; between the emptiness check and cond.Wait).
  Schedules come from TLC: (1) shortest paths to every stuck state of the as-built state graph (the lost
  wake-up witnesses), (2) one shortest path per transition of the strict and of the as-built state graph,
  (3) seeded random gate schedules, (4) three schedules on real swamps with swamp.Destroy() as the waiter.  After every command the driver waits for a point of rest (goroutine wait
  states: gate / sync.Cond.Wait / mutex) and logs the observation; the log is validated by TLC against
  Trace_Vigil (unlogged internal steps are searched).  A run that only the deviation "LostWakeup" explains is
  the known finding D_C17_LostWakeup; a run no spec explains, or a stuck wait that the deviation does not
  explain, is a violation.

Summon waits (the requests that wait for one another or for a closing swamp inside Hydra.SummonSwamp): spec/Summon.tla
models the waiter mutex, cond.Wait, context cancellation of waiting summoners and the wait for a closing swamp; TLC
checks deadlock / NoStuck / SummonTerminates; gate schedules (cancelled contexts in the alphabet) are run on the real
Hydra by harness/cmd/summon and validated against Trace_Summon.  A summoner that is still inside SummonSwamp at the
final point of rest (blocked in sync.Mutex.Lock / sync.Cond.Wait / WaitForGracefulClose although the spec says it
can proceed or has returned) is a C17 violation.  (One-live-instance verdicts of the same runs belong to C18.)
"""
import json, os, random, shutil
from concurrent.futures import ThreadPoolExecutor
import vlib, edges
import summoncommon as sc

DEV = "LostWakeup"
FID = "D_C17_LostWakeup"
COMMANDS = ("Begin", "CStart", "CFinish", "WStart", "WRelease")
INV = "INVARIANTS TypeOK CounterExact MutexOK NoStuck ParkedOnList ParkedNotNotified\n"
LIVE = "PROPERTIES ReturnedOnZero WaitTerminates\n"


def sset(names):
    return "{%s}" % ", ".join('"%s"' % n for n in names)


def mc_cfg(ops, waiters, rounds, dev, extra):
    return """SPECIFICATION Spec
CONSTANTS
  Ops = %s
  Waiters = %s
  MaxRounds = %d
  Dev = %s
%s
""" % (sset(ops), sset(waiters), rounds, sset([dev] if dev else []), extra)


def project(path):
    """TLC path -> the commands the harness gives (internal steps are taken by the goroutines themselves)."""
    return [dict(a=s["act"]["a"], p=s["act"]["p"]) for s in path if s["act"]["a"] in COMMANDS]


def dedupe(cmdlists):
    seen, out = set(), []
    for c in cmdlists:
        k = json.dumps(c)
        if c and k not in seen:
            seen.add(k)
            out.append(c)
    return out


def stuck_witnesses(printed):
    """Shortest path from the initial state to every stuck state of the exported graph."""
    lines = [json.loads(x) for x in printed if x.startswith("{")]
    stuck_keys = set(edges.key(e["to"]) for e in lines if e.get("stuck"))
    # edges.build_tests gives, for every edge, a shortest path to its source followed by the edge; keep, for every
    # stuck target, the shortest such path
    tests, _, _ = edges.build_tests(lines)
    best = {}
    for t in tests:
        k = edges.key(t[-1]["to"])
        if k in stuck_keys and (k not in best or len(t) < len(best[k])):
            best[k] = t
    return sorted(best.values(), key=len)


class Batch:
    """Several driver runs (many schedules each) concatenated into one log + its validation."""

    def __init__(self, ctx, name, binary):
        self.ctx, self.name, self.binary = ctx, name, binary
        self.trace = os.path.join(ctx.work, name + ".ndjson")
        self.results = []
        self.lines = []
        self.parts = 0
        self.driver_wall = 0.0

    def _part(self, kind, args, n, env=None):
        import time
        k = self.parts
        self.parts += 1
        tr = os.path.join(self.ctx.work, "%s.part%d.ndjson" % (self.name, k))
        rf = os.path.join(self.ctx.work, "%s.part%d.results.ndjson" % (self.name, k))
        t0 = time.time()
        self.ctx.run_driver(self.binary, [a.replace("@TRACE", tr).replace("@RES", rf) for a in args], timeout=3000, env=env)
        self.driver_wall += time.time() - t0
        results = [json.loads(l) for l in open(rf)]
        for r in results:
            if r.get("infra"):
                raise vlib.Inconclusive("vigil driver could not observe a point of rest (%s, test %d): %s" % (kind, r["test"], r["infra"]))
        if len(results) != n:
            raise vlib.Inconclusive("vigil driver returned %d results for %d schedules (%s)" % (len(results), n, kind))
        base = len(self.lines)
        for r in results:
            r["first_line"] += base
            r["kind"] = kind
        self.lines += open(tr).read().splitlines()
        self.results += results
        os.remove(tr)
        with open(self.trace, "w") as f:
            f.write("\n".join(self.lines) + "\n")
        return results

    def run_tests(self, kind, tests):
        tf = os.path.join(self.ctx.work, "%s.%s.tests.json" % (self.name, kind))
        json.dump(tests, open(tf, "w"))
        return self._part(kind, ["run", tf, "@TRACE", "@RES"], len(tests))

    def run_random(self, kind, runs, nops, nw, steps, seed):
        return self._part(kind, ["random", "@TRACE", "@RES", str(runs), str(nops), str(nw), str(steps)], runs, env={"VERIF_SEED": str(seed)})

    def run_destroy(self):
        """The same gates one level up: swamp.Destroy() of real swamps (own process, one rig)."""
        return self._part("swamp-destroy", ["destroy", "@TRACE", "@RES"], 3)

    def run_lines(self, i):
        a = self.results[i]["first_line"] - 1
        b = self.results[i + 1]["first_line"] - 1 if i + 1 < len(self.results) else len(self.lines)
        return self.lines[a:b]

    def validate(self):
        """Returns per run: 'strict' | 'dev' | 'rejected' | None (not reached)."""
        ctx = self.ctx
        n = len(self.results)
        verdict = [None] * n
        offset = 0          # first run of the file currently being validated
        path = self.trace
        for attempt in range(6):
            r = ctx.tlc("Trace_Vigil", cfg_text=TRACE_CFG, workers=1, dfs=True, deadlock=False,
                        env={"TRACE_FILE": path, "TRACE_DEV": DEV}, name="%s-dev%d" % (self.name, attempt), count_states=False, timeout=3000)
            if r.error or r.violated:
                raise vlib.Inconclusive("trace validation failed to run (%s): %s %s\n%s" % (self.name, r.violated, r.error, r.out[-2000:]))
            used = {}
            accepted = False
            for x in r.printed:
                if not x.startswith("{"):
                    continue
                d = json.loads(x)
                if "accepted" in d:
                    accepted = True
                elif "run" in d:
                    used.setdefault(d["run"], []).append(d["used"])
            for k, us in used.items():
                verdict[offset + k] = "strict" if any(len(u) == 0 for u in us) else "dev"
            if accepted:
                break
            bad = (max(used) + 1) if used else 0
            verdict[offset + bad] = "rejected"
            offset += bad + 1
            if offset >= n or attempt == 5:
                break
            # keep checking the runs after the rejected one
            path = os.path.join(ctx.work, "%s-rest%d.ndjson" % (self.name, attempt))
            with open(path, "w") as f:
                f.write("\n".join(self.lines[self.results[offset]["first_line"] - 1:]) + "\n")
        if all(v == "strict" for v in verdict):
            # everything is a behaviour of the strict design: evaluate its invariants on every state of the explanation
            r = ctx.tlc("Trace_Vigil", cfg_text=TRACE_CFG + "INVARIANT TraceInv\n", workers=1, dfs=True, deadlock=False,
                        env={"TRACE_FILE": self.trace, "TRACE_DEV": ""}, name=self.name + "-strict", count_states=False, timeout=3000)
            if r.error or r.violated or not any('"accepted"' in x for x in r.printed):
                raise vlib.Inconclusive("strict re-validation disagrees with the first pass (%s): %s %s" % (self.name, r.violated, r.error))
        return verdict


TRACE_CFG = """SPECIFICATION TraceSpec
CONSTANTS
  Ops = {"o1","o2","o3"}
  Waiters = {"w1","w2","w3"}
  MaxRounds = 0
  Dev <- TraceDev
CHECK_DEADLOCK FALSE
"""


def judge(ctx, batch):
    """Classify every run of a batch. Returns counters per kind."""
    verdict = batch.validate()
    out = {}
    for i, res in enumerate(batch.results):
        v = verdict[i]
        cnt = out.setdefault(res["kind"], dict(strict=0, dev=0, rejected=0, unvalidated=0, stuck=0))
        cmds = res["cmds"]
        sched = [c["a"] + ":" + c["p"] for c in cmds[:res["executed"]]]
        ctx.count_case([[c["a"], c["p"]] for c in cmds], nontrivial=len(cmds) >= 3)
        if v is None:
            cnt["unvalidated"] += 1
            continue
        cnt[v] += 1
        ctx.cov["traces_validated_against_impl"] += 1
        replay = dict(kind="schedule", source=res["kind"], cmds=cmds[:res["executed"]], lines=[json.loads(x) for x in batch.run_lines(i)])
        stuck = res["stuck"] or res["leaked"] > 0
        if stuck:
            cnt["stuck"] += 1
        if v == "rejected":
            ctx.deviation(None, "the real vigil did something no behaviour of spec/Vigil.tla explains (not even with the known deviation) "
                                "in schedule %s (+drain): observed %s" % (sched, [json.loads(x)["obs"] for x in batch.run_lines(i)][-4:]), replay)
        elif v == "dev":
            if stuck:
                where = "a real swamp: swamp.Destroy()" if res["kind"] == "swamp-destroy" else "the real vigil: the waiter"
                ctx.deviation(FID, "lost wake-up reproduced on %s is parked in sync.Cond.Wait forever after %s although every operation has finished "
                                   "(HasActiveVigils()=false) and nobody is running: %s" % (where, sched, res.get("stuck_obs")), replay)
            else:
                ctx.deviation(FID, "CeaseVigil decrements/broadcasts without the waiters' mutex (observed between a waiter's check and its cond.Wait) in schedule %s" % sched, replay)
        elif stuck:
            # cannot happen if the spec is right (the strict spec has no stuck state); never hide a stuck wait
            ctx.deviation(None, "a wait of the real vigil is stuck although the strict spec explains the observations: %s" % res.get("stuck_obs"), replay)
    un = sum(c["unvalidated"] for c in out.values())
    if un:
        ctx.extra["unvalidated_runs"] = ctx.extra.get("unvalidated_runs", 0) + un
    return out


def judge_summon(ctx, b):
    """Termination of the summon waits. Everything else about these runs (instances, map) is C18's."""
    verdict, detail = b.classify()
    out = dict(strict=0, asbuilt=0, rejected=0, unvalidated=0, skipped=0, stuck=0)
    for i, res in enumerate(b.results):
        cmds = res["cmds"]
        ctx.count_case([[x["a"], x["p"], x["x"]] for x in cmds], nontrivial=len(cmds) >= 4)
        if res.get("skip"):
            out["skipped"] += 1
            continue
        v = verdict[i]
        if v is None:
            out["unvalidated"] += 1
            continue
        out[v] += 1
        ctx.cov["traces_validated_against_impl"] += 1
        if not res["stuck"]:
            continue
        out["stuck"] += 1
        sched = [x["a"] + ":" + (x["p"] or str(x["x"])) for x in cmds[:res["executed"]]]
        blocked = {p: o for p, o in (res.get("stuck_obs") or {}).items() if o not in ("idle", "done")}
        ctx.deviation(None, "a SummonSwamp call never returns: after %s (and after everything in flight was allowed to finish) the real Hydra is at rest with %s "
                            "(mutexwait = blocked in sync.Mutex.Lock on the waiter mutex, parked = sync.Cond.Wait, waitclose = WaitForGracefulClose); the spec "
                            "(verdict of the log: %s) lets every summoner return" % (sched, blocked, v),
                      dict(kind="summon-schedule", cmds=cmds[:res["executed"]], lines=[json.loads(x) for x in b.run_lines(i)]))
    if out["skipped"] > max(3, len(b.results) // 10):
        raise vlib.Inconclusive("%d of %d summon runs hit the 30 s WaitForGracefulClose bound (machine too slow)" % (out["skipped"], len(b.results)))
    return out


def run(ctx):
    thorough = ctx.tier == "thorough"
    rng = random.Random(ctx.seed)
    ctx.assumptions += [
        "sync.Cond is modelled as the Go runtime implements it (notifyListAdd under the mutex, Unlock, notifyListWait; Broadcast sets notify := wait)",
        "a goroutine counts as parked / blocked when two consecutive goroutine dumps show it in sync.Cond.Wait / sync.Mutex.Lock while no managed goroutine is running",
        "fairness: an operation in flight eventually calls CeaseVigil and every runnable goroutine eventually runs; nobody is obliged to begin a new operation",
    ]
    binary = ctx.go_build("vigil")

    ops2, w2, w3 = ["o1", "o2"], ["w1", "w2"], ["w1", "w2", "w3"]
    ex = ThreadPoolExecutor(max_workers=6)
    # 1. exhaustive: strict design holds; as-built design has the stuck state; state graphs for replay
    f_strict = ex.submit(ctx.tlc, "MC_Vigil", cfg_text=mc_cfg(ops2, w2, 2 if thorough else 1, None, INV + LIVE), name="mc-strict",
                         coverage=thorough, timeout=3000, workers=4)
    f_strict2 = ex.submit(ctx.tlc, "MC_Vigil", cfg_text=mc_cfg(ops2, w3 if thorough else w2, 2, None, INV + "PROPERTIES ReturnedOnZero\n"),
                          name="mc-strict-safety", timeout=3000, workers=4)
    f_es = ex.submit(ctx.tlc, "MC_Vigil", cfg_text=mc_cfg(ops2, w2, 1, None, "ACTION_CONSTRAINT ExportEdge\n"), workers=1, deadlock=False,
                     name="edges-strict", count_states=False, timeout=3000)
    f_ea = ex.submit(ctx.tlc, "MC_Vigil", cfg_text=mc_cfg(ops2, w2, 1, DEV, "ACTION_CONSTRAINT ExportEdge OnlyDev\n"), workers=1, deadlock=False,
                     name="edges-asbuilt", count_states=False, timeout=3000)
    # summon waits
    sbin = ctx.go_build("summon")
    smc = (2, 2, 2, 3) if thorough else (2, 1, 2, 2)      # (C18's quick tier checks 2 summoners x 2 calls with liveness as well)
    f_sm = ex.submit(ctx.tlc, "MC_Summon", cfg_text=sc.mc_cfg(*smc, None, "INVARIANTS TypeOK NoStuck ParkedHasOwner ParkedConsistent\nPROPERTIES SummonTerminates\n"),
                     name="mc-summon", workers=4, timeout=6000)
    f_se = ex.submit(sc.export_schedules, ctx, 3, 1, 1, 3, "edges-summon-3s")
    f_se2 = ex.submit(sc.export_schedules, ctx, 2, 1, 2, 2, "edges-summon-2s-close") if thorough else None
    f_asb = f_asb_live = None
    if thorough:
        f_asb = ex.submit(ctx.tlc, "MC_Vigil", cfg_text=mc_cfg(ops2, w2, 2, DEV, INV + LIVE), name="mc-asbuilt-witness", count_states=False,
                          timeout=3000, workers=2)
        f_asb_live = ex.submit(ctx.tlc, "MC_Vigil", cfg_text=mc_cfg(["o1"], ["w1"], 1, DEV, LIVE), name="mc-asbuilt-liveness", count_states=False,
                               deadlock=False, timeout=3000, workers=2)
    r = f_strict.result()
    if not r.ok:
        raise vlib.Inconclusive("strict Vigil spec does not satisfy its own properties: %s %s" % (r.violated, r.error))
    ctx.extra["mc_strict"] = r.summary()
    if thorough and r.coverage_zero:
        ctx.extra["coverage_zero"] = r.coverage_zero[:10]
    r = f_strict2.result()
    if not r.ok:
        raise vlib.Inconclusive("strict Vigil spec (safety, larger) fails: %s %s" % (r.violated, r.error))
    ctx.extra["mc_strict_safety"] = r.summary()
    if thorough:
        r = f_asb.result()
        if r.ok or r.violated not in ("NoStuck", "Deadlock"):
            raise vlib.Inconclusive("as-built Vigil spec should violate NoStuck (non-vacuity), got ok=%s violated=%s %s" % (r.ok, r.violated, r.error))
        ctx.extra["asbuilt_violates"] = r.violated
        r = f_asb_live.result()
        live_violated = (r.violated and "WaitTerminates" in str(r.violated)) or "Temporal property WaitTerminates was violated" in r.out \
            or "Temporal properties were violated" in r.out
        if r.ok or not live_violated:
            raise vlib.Inconclusive("as-built Vigil spec should violate WaitTerminates (non-vacuity of the liveness property), got ok=%s %s %s" % (r.ok, r.violated, r.error))
        ctx.extra["asbuilt_liveness_violates"] = "WaitTerminates"
    res_es, res_ea = f_es.result(), f_ea.result()
    for rr in (res_es, res_ea):
        if not rr.ok:
            raise vlib.Inconclusive("edge export failed: %s %s" % (rr.violated, rr.error))

    # 2. schedules from TLC
    wit = dedupe([project(p) for p in stuck_witnesses(res_ea.printed)])
    if not wit:
        # non-vacuity of NoStuck: the as-built state graph must contain stuck states
        raise vlib.Inconclusive("no stuck state in the exported as-built graph")
    if any(e.get("stuck") for e in (json.loads(x) for x in res_es.printed if x.startswith("{"))):
        raise vlib.Inconclusive("the strict state graph contains a stuck state")
    def real_edges(res):
        # (the AtRest stutter of the spec shows up as a self-loop labelled with the previous action: not a transition)
        return [e for e in (json.loads(x) for x in res.printed if x.startswith("{")) if edges.key(e["from"]) != edges.key(e["to"])]
    ts, ne_s, ns_s = edges.build_tests(real_edges(res_es))
    ta, ne_a, ns_a = edges.build_tests(real_edges(res_ea))
    ctx.extra.update(strict_graph=dict(edges=ne_s, states=ns_s), asbuilt_graph=dict(edges=ne_a, states=ns_a), stuck_states_asbuilt=len(wit))
    cs, ca = dedupe([project(p) for p in ts]), dedupe([project(p) for p in ta])
    ctx.extra.update(strict_schedules=len(cs), asbuilt_schedules=len(ca))
    if not thorough:
        cs = rng.sample(cs, min(len(cs), 120))
        ca = rng.sample(ca, min(len(ca), 120))
        wit_run = wit[:10]
    else:
        wit_run = wit

    b = Batch(ctx, "schedules", binary)
    if ctx.replay:
        rp = json.load(open(ctx.replay))["replay"]
        if rp.get("kind") == "summon-schedule":
            sb = sc.SummonBatch(ctx, "summon", sbin)
            sb.run_tests("replay", [rp["cmds"]])
            ctx.extra["summon_verdicts"] = judge_summon(ctx, sb)
            ctx.cov["rule"] = "replay of one recorded summon schedule"
            return
        if rp.get("kind") == "schedule":
            b.run_tests("replay", [rp["cmds"]])
            ctx.extra["verdicts"] = judge(ctx, b)
            ctx.cov["rule"] = "replay of one recorded schedule"
            return

    # 3. the witnesses, one path per transition of the strict / as-built state graphs, and seeded random gate
    #    schedules (3 operations, 3 waiters), all on the real vigil; one log, validated by TLC
    b.run_tests("witness", wit_run)
    b.run_destroy()
    b.run_tests("edges-strict", cs)
    b.run_tests("edges-asbuilt", ca)
    for k in range(4 if thorough else 1):
        b.run_random("random", 400 if thorough else 100, 3 if k % 2 == 0 else 2, 3, 18 if thorough else 14, ctx.seed * 7919 + k)
    verd = judge(ctx, b)
    ctx.extra["verdicts"] = verd
    ctx.extra["driver_wall_s"] = round(b.driver_wall, 1)
    ctx.extra["witness_schedules"] = len(wit_run)
    ctx.extra["witness_reproduced_stuck"] = verd["witness"]["stuck"]
    ctx.extra["swamp_destroy_stuck"] = verd["swamp-destroy"]["stuck"]
    ctx.cov["evaluations"] += len(b.lines)
    ctx.sample(dict(kind="lost wake-up witness (TLC, as-built spec) and what the real vigil did",
                    cmds=[c["a"] + ":" + c["p"] for c in wit_run[0]], observed=[json.loads(x)["obs"] for x in b.run_lines(0)][1:len(wit_run[0]) + 1],
                    stuck=b.results[0]["stuck"]))
    for kind in ("edges-strict", "edges-asbuilt", "random"):
        rs = [r_ for r_ in b.results if r_["kind"] == kind]
        ctx.sample(dict(kind="schedule run on the real vigil (%s)" % kind, cmds=[c_["a"] + ":" + c_["p"] for c_ in rs[len(rs) // 2]["cmds"]]))

    # 3b. summon waits on the real Hydra
    r = f_sm.result()
    if not r.ok:
        raise vlib.Inconclusive("strict Summon spec does not satisfy NoStuck / SummonTerminates: %s %s" % (r.violated, (r.error or "")[:300]))
    ctx.extra["mc_summon"] = r.summary()
    se, si = f_se.result()
    se2, si2 = f_se2.result() if f_se2 else ([], {})
    ctx.extra["summon_graphs"] = dict(three_summoners=si, two_summoners_with_close=si2)
    # schedules in which somebody's context is cancelled first (they exercise the exits of the wait loop), then the rest
    canc = [t for t in se if any(c["a"] == "Cancel" for c in t)]
    pick = rng.sample(canc, min(len(canc), 1200 if thorough else 160)) + rng.sample(se, min(len(se), 800 if thorough else 80)) \
        + rng.sample(se2, min(len(se2), 600 if thorough else 80))
    sb = sc.SummonBatch(ctx, "summon", sbin)
    sb.run_tests("summon-edges", pick)
    sb.run_random("summon-random", 200 if thorough else 50, 3, 20, ctx.seed * 104729 + 11)
    ctx.extra["summon_verdicts"] = judge_summon(ctx, sb)
    ctx.extra["summon_driver_wall_s"] = round(sb.driver_wall, 1)
    ctx.cov["evaluations"] += len(sb.lines)
    rs = [r_ for r_ in sb.results if any(c["a"] == "Cancel" for c in r_["cmds"])]
    if rs:
        ctx.sample(dict(kind="summon schedule with a cancelled context run on the real Hydra", cmds=[c["a"] + ":" + (c["p"] or str(c["x"])) for c in rs[len(rs) // 2]["cmds"]],
                        stuck=rs[len(rs) // 2]["stuck"]))

    # 4. binding self-test (thorough): a corrupted / truncated log must be rejected
    if thorough:
        lines = b.lines[:b.results[len(wit_run)]["first_line"] - 1]
        # a CFinish line in the middle of a run (the last line of a run can be dropped unnoticed: the log just ends earlier)
        idx = [i for i, l in enumerate(lines[:-1]) if '"CFinish"' in l and '"ev":"cmd"' in lines[i + 1]]
        i = idx[len(idx) // 2]
        e = json.loads(lines[i])
        e["has"] = 1 - e["has"]
        for nm, mod in (("corrupt", lines[:i] + [json.dumps(e)] + lines[i + 1:]), ("dropped", lines[:i] + lines[i + 1:])):
            bad = os.path.join(ctx.work, "selftest-%s.ndjson" % nm)
            open(bad, "w").write("\n".join(mod) + "\n")
            r = ctx.tlc("Trace_Vigil", cfg_text=TRACE_CFG, workers=1, dfs=True, deadlock=False, env={"TRACE_FILE": bad, "TRACE_DEV": DEV},
                        name="selftest-" + nm, count_states=False, timeout=3000)
            acc = any('"accepted"' in x for x in r.printed)
            ctx.extra["selftest_%s_rejected" % nm] = not acc
            if acc or r.error:
                raise vlib.Inconclusive("binding self-test failed: %s log was accepted (%s)" % (nm, r.error))

    ctx.cov["rule"] = ("cases = gate schedules executed on the real vigil and validated by TLC against Trace_Vigil: shortest paths to every stuck state of the "
                       "as-built graph, one shortest path per transition of the strict and as-built state graphs (2 ops x 2 waiters), seeded random schedules "
                       "(3 ops x 3 waiters); non-trivial = >= 3 commands, distinct by command sequence")
    ctx.cov["exhaustive"] = True
