"""C18 - At most one live in-memory instance per swamp.

spec/Summon.tla (the per-name waiter of Hydra.SummonSwamp: mutex, condition variable, ready flag, count, the
summoningSwamps and swamps maps, context cancellation of waiting summoners, swamp close begin / end / callback)
+ TLC exhaustive (OneLive, MapIsLive, ServedByCurrent, OneInBody, SlotNotDropped, NoStuck, deadlock, liveness
SummonTerminates) + binding to app/core/hydra/hydra.go on a REAL Hydra (in-process rig, in-memory swamps):

  every SummonSwamp call and every swamp.Close() is a goroutine stepped through the verifhook gates
  hydra.summon.{loaded,slot,got,create} and swamp.close.flagged by harness/cmd/summon.
  Schedules: the TLC counterexample of the as-built spec (slot drop => two live instances), one shortest path per
  transition of the strict state graphs (3 summoners without closes, 2 summoners with closes; cancelled contexts
  included), seeded random gate schedules.  After every command the driver waits for a point of rest (gate /
  sync.Cond.Wait / sync.Mutex.Lock / WaitForGracefulClose / returned) and logs the observation together with the
  instance stored in the swamps map and the set of live instances (hydra.swamp.new / hydra.swamp.deleted events,
  Close() returns); TLC validates the log against Trace_Summon (internal steps searched).
"""
import json, os, random
from concurrent.futures import ThreadPoolExecutor
import vlib
import summoncommon as sc

FID = "D_C18_SlotDrop"
LIVE = "PROPERTIES ServedByCurrent SummonTerminates\n"
SAFE = "PROPERTIES ServedByCurrent\n"


def run(ctx):
    thorough = ctx.tier == "thorough"
    rng = random.Random(ctx.seed)
    ctx.assumptions += [
        "one swamp name; swamps are in-memory (no chronicler); an instance is live from createNewSwamp until its Close() has returned",
        "a close that has begun finishes (fairness); the 30 s bound of WaitForGracefulClose is not modelled (runs in which it expires under load are discarded)",
        "goroutine wait states are read from runtime.Stack; a summoner counts as parked / blocked when two consecutive dumps show it so while no managed goroutine runs",
    ]
    binary = ctx.go_build("summon")
    ex = ThreadPoolExecutor(max_workers=6)
    f_a = ex.submit(ctx.tlc, "MC_Summon", cfg_text=sc.mc_cfg(2, 2, 2, 3, None, sc.INV + LIVE), name="mc-2s2c", workers=4, timeout=6000, coverage=thorough)
    f_b = ex.submit(ctx.tlc, "MC_Summon", cfg_text=sc.mc_cfg(3, 1, 2, 2, None, sc.INV + (LIVE if thorough else SAFE)), name="mc-3s1c", workers=4, timeout=12000, heap="8g")
    f_w = ex.submit(ctx.tlc, "MC_Summon", cfg_text=sc.mc_cfg(3, 1, 2, 2, sc.DEV, "INVARIANT OneLive\n"), name="mc-asbuilt-witness", workers=1, timeout=6000,
                    count_states=False)
    f_e1 = ex.submit(sc.export_schedules, ctx, 3, 1, 1, 3, "edges-3s-noclose")
    f_e2 = ex.submit(sc.export_schedules, ctx, 2, 1, 2, 2, "edges-2s-close")
    for nm, f in (("mc_2s2c", f_a), ("mc_3s1c", f_b)):
        r = f.result()
        if not r.ok:
            raise vlib.Inconclusive("strict Summon spec (%s) does not satisfy its own properties: %s %s" % (nm, r.violated, (r.error or "")[:400]))
        ctx.extra[nm] = r.summary()
        if nm == "mc_2s2c" and thorough and r.coverage_zero:
            ctx.extra["coverage_zero"] = r.coverage_zero[:12]
    r = f_w.result()
    if r.ok or r.violated != "OneLive":
        raise vlib.Inconclusive("as-built Summon spec (SlotDrop) should violate OneLive, got ok=%s violated=%s %s" % (r.ok, r.violated, (r.error or "")[:300]))
    witness = sc.counterexample_commands(r)
    if len(witness) < 6:
        raise vlib.Inconclusive("could not read the TLC counterexample of the as-built spec")
    ctx.extra["asbuilt_violates"] = "OneLive"
    ctx.extra["witness_commands"] = [c["a"] + ":" + (c["p"] or str(c["x"])) for c in witness]

    b = sc.SummonBatch(ctx, "summon", binary)
    if ctx.replay:
        rp = json.load(open(ctx.replay))["replay"]
        if rp.get("kind") == "summon-schedule":
            b.run_tests("replay", [rp["cmds"]])
            ctx.extra["verdicts"] = judge(ctx, b)
            ctx.cov["rule"] = "replay of one recorded schedule"
            return
    e1, i1 = f_e1.result()
    e2, i2 = f_e2.result()
    ctx.extra.update(graph_3s_noclose=i1, graph_2s_close=i2)
    n1, n2 = (2500, 1290) if thorough else (260, 120)
    p1 = rng.sample(e1, min(len(e1), n1))
    p2 = rng.sample(e2, min(len(e2), n2))
    b.run_tests("edges-3s-noclose", p1)
    b.run_tests("edges-2s-close", p2)
    for k in range(3 if thorough else 1):
        b.run_random("random", 300 if thorough else 80, 3 + (k % 2), 24 if thorough else 20, ctx.seed * 7919 + k)
    b.run_tests("witness", [witness])      # last: the strict pass of the validation covers everything before it in one go
    wi = len(b.results) - 1
    verd = judge(ctx, b)
    ctx.extra["verdicts"] = verd
    ctx.extra["driver_wall_s"] = round(b.driver_wall, 1)
    w0 = b.results[wi]
    ctx.extra["witness_max_live_instances"] = w0["max_live"]
    ctx.sample(dict(kind="TLC counterexample of the as-built spec replayed on the real Hydra", cmds=ctx.extra["witness_commands"],
                    live_instances_at_rest=[json.loads(x)["live"] for x in b.run_lines(wi)][1:], returned=json.loads(b.run_lines(wi)[-1])["rets"]))
    for kind in ("edges-3s-noclose", "edges-2s-close", "random"):
        rs = [r_ for r_ in b.results if r_["kind"] == kind]
        ctx.sample(dict(kind="schedule run on the real Hydra (%s)" % kind, cmds=[c["a"] + ":" + (c["p"] or str(c["x"])) for c in rs[len(rs) // 2]["cmds"]]))

    if thorough:
        # binding self-test: a forged observation / a dropped command must be rejected by both variants
        lines = b.lines[b.results[0]["first_line"] - 1:b.results[12]["first_line"] - 1]
        idx = [i for i, l in enumerate(lines[:-1]) if '"a":"GoCreate"' in l and '"ev":"cmd"' in lines[i + 1]]
        i = idx[len(idx) // 2]
        e = json.loads(lines[i])
        e["live"] = []
        for nm, mod in (("corrupt", lines[:i] + [json.dumps(e)] + lines[i + 1:]), ("dropped", lines[:i] + lines[i + 1:])):
            for dev in (None, sc.DEV):
                ok, done, r = b.validate(dev, "selftest-%s-%s" % (nm, dev or "strict"), lines=mod)
                if ok:
                    raise vlib.Inconclusive("binding self-test failed: %s log was accepted (%s)" % (nm, dev))
            ctx.extra["selftest_%s_rejected" % nm] = True
    ctx.cov["rule"] = ("cases = gate schedules executed on the real Hydra and validated by TLC against Trace_Summon: the as-built counterexample, one shortest path "
                       "per transition of the strict state graphs (3 summoners / no close, 2 summoners / closes; seeded sample), seeded random schedules; "
                       "non-trivial = >= 4 commands, distinct by command sequence")
    ctx.cov["exhaustive"] = True


def judge(ctx, b):
    verdict, detail = b.classify()
    out = {}
    for i in sorted(range(len(b.results)), key=lambda j: (b.results[j]["kind"] != "witness", j)):     # the witness first: its message is the one printed
        res = b.results[i]
        c = out.setdefault(res["kind"], dict(strict=0, asbuilt=0, rejected=0, unvalidated=0, skipped=0, two_live=0, stuck=0))
        cmds = res["cmds"]
        ctx.count_case([[x["a"], x["p"], x["x"]] for x in cmds], nontrivial=len(cmds) >= 4)
        if res.get("skip"):
            c["skipped"] += 1
            continue
        v = verdict[i]
        if v is None:
            c["unvalidated"] += 1
            continue
        c[v] += 1
        ctx.cov["traces_validated_against_impl"] += 1
        ctx.cov["evaluations"] += len(b.run_lines(i))
        sched = [x["a"] + ":" + (x["p"] or str(x["x"])) for x in cmds[:res["executed"]]]
        replay = dict(kind="summon-schedule", source=res["kind"], cmds=cmds[:res["executed"]], lines=[json.loads(x) for x in b.run_lines(i)])
        if res["max_live"] >= 2:
            c["two_live"] += 1
        if res["stuck"]:
            c["stuck"] += 1
        if v == "rejected":
            obs = [(json.loads(x)["a"], json.loads(x)["p"], json.loads(x)["obs"], json.loads(x)["live"]) for x in b.run_lines(i)][-4:]
            ctx.deviation(None, "the real SummonSwamp did something no behaviour of spec/Summon.tla explains (not even with the known deviation) in schedule %s "
                                "(+drain)%s; last observations: %s" % (sched, ": %s violated" % detail[i]["violated"] if detail.get(i, {}).get("violated") else "", obs), replay)
        elif v == "asbuilt":
            if res["max_live"] >= 2:
                ctx.deviation(FID, "two live in-memory instances of one swamp on the real Hydra: after %s the summoning slot is deleted while a woken waiter still "
                                   "owns it, the next summoner gets a fresh slot and both create the swamp (live instances at rest: %s; returned: %s)" % (
                                       sched, max((json.loads(x)["live"] for x in b.run_lines(i)), key=len), json.loads(b.run_lines(i)[-1])["rets"]), replay)
            else:
                ctx.deviation(FID, "the summoning slot of a swamp is dropped while a summoner still uses it (two summoners inside the critical section of "
                                   "SummonSwamp at once) in schedule %s" % sched, replay)
        elif res["stuck"] or res["max_live"] >= 2:
            ctx.deviation(None, "the strict spec explains the log although the driver saw %s" % ("a stuck summoner" if res["stuck"] else "two live instances"), replay)
    sk = sum(c["skipped"] for c in out.values())
    tot = len(b.results)
    if sk > max(3, tot // 10):
        raise vlib.Inconclusive("%d of %d runs hit the 30 s WaitForGracefulClose bound (machine too slow): not enough evidence" % (sk, tot))
    un = sum(c["unvalidated"] for c in out.values())
    if un:
        ctx.extra["unvalidated_runs"] = un
    return out
