"""C19 - Subscribers get each committed change once, in order, with correct time.

spec/Events.tla: commit log vs per-subscriber stream - a change (created / updated / deleted record) owes exactly one
event to every stream subscribed at the commit, nothing is owed for saves that change nothing, deletes of absent keys
or reads; the events of one record reach a stream in commit order with the committed value; the event time lies in
[call, return] of the committing request (ranks); no two sends are in flight on one stream (SendsSerial).  TLC checks
the strict design exhaustively (2 writers, 2 subscribers coming and going, 2 keys) and finds a counterexample for every
named deviation.  Binding (A): the REAL Gateway.SubscribeToEvents handler runs against a fake
SubscribeToEventsServer that records every message and counts sends in flight; writers go through the in-process gRPC
client (Set, Set without overwrite, no-op Set, Delete, ShiftByKeys, IncrementInt64, PatchTreasures, reads), alone and
concurrently, on in-memory, interval-flushed and write-through swamps.  Every observable step is one ndjson line;
TLC (Trace_Events) judges every line, carrying the set of spec states that explain the trace so far (commits are not
observable).  A history that fails the strict spec must be explained exactly by a set of named deviations.
"""
import json, os, random
import vlib

F_TIME = "D_C19_TimeNanosAsSeconds"
F_CONC = "D_C19_ConcurrentSend"
F_NOOP = "D_C19_EventForNoopSave"
F_DEL = "D_C19_DeleteEventUnordered"
DEV_OF = {F_TIME: "TimeNanosAsSeconds", F_CONC: "ConcurrentSend", F_NOOP: "NoopEvent", F_DEL: "DeleteUnguarded"}


def mc_cfg(dev, maxops, subs=("s1", "s2"), inv="InvSendsSerial InvOnlyChanges InvEvents InvTime InvDelivered", keys="{1, 2}"):
    return """SPECIFICATION MCSpec
CONSTANTS
  Keys = %s
  Writers = {"w1", "w2"}
  Subs = {%s}
  Dev = {%s}
  MaxOps = %d
  Vals = {1, 2}
  OpNames = {"set", "del", "read"}
INVARIANTS %s
CHECK_DEADLOCK FALSE
""" % (keys, ", ".join('"%s"' % s for s in subs), ", ".join('"%s"' % d for d in dev), maxops, inv)


# ----------------------------------------------------------------------------------------------- scripts
def call(w, do, k=0, v=0):
    return dict(w=w, do=do, k=k, v=v)


def seq(*cs):
    return [dict(op="calls", calls=[c]) for c in cs]


def par(*cs):
    return [dict(op="calls", calls=list(cs))]


def witnesses():
    hs = []
    # the event time; an event for a save that changes nothing
    hs.append((1, [dict(op="sub", s="s1")] + seq(call("w1", "set", 1, 2), call("w1", "set", 1, 2), call("w1", "set", 1, 3),
                                                  call("w1", "del", 1), call("w1", "del", 1))))
    # requests that must not produce events: set without overwrite on an existing record, reads, deletes of nothing
    hs.append((0, [dict(op="sub", s="s1"), dict(op="sub", s="s2")] +
               seq(call("w1", "set", 1, 1), call("w1", "setnx", 1, 2), call("w2", "read", 0, 0), call("w2", "read", 0, 1),
                   call("w2", "read", 0, 2), call("w2", "read", 0, 3), call("w1", "shift", 2), call("w1", "inc", 1, 2),
                   call("w1", "patch", 3, 1), call("w1", "patch", 3, 2), call("w2", "shift", 3)) +
               [dict(op="unsub", s="s1")] + seq(call("w1", "set", 2, 1)) + [dict(op="unsub", s="s2")] + seq(call("w1", "set", 2, 2))))
    # writers on different records at the same time: their sends can meet on one stream
    ops = [dict(op="sub", s="s1"), dict(op="sub", s="s2")]
    for i in range(12):
        ops += par(call("w1", "set", 1, 1 + i % 4), call("w2", "set", 2, 1 + (i + 1) % 4), call("w3", "patch", 3, 1 + i % 5))
    hs.append((1, ops))
    # writers queued on one record, back to back (in-memory, interval-flushed, write-through)
    for mem in (1, 0, 2):
        ops = [dict(op="sub", s="s1")]
        for i in range(10):
            ops += par(call("w1", "set", 1, 1), call("w2", "set", 1, 2), call("w3", "set", 1, 3))
            ops += seq(call("w1", "del", 1))
        hs.append((mem, ops))
    # a delete and a re-create of the same record at the same time
    ops = [dict(op="sub", s="s1")]
    for i in range(12):
        ops += seq(call("w1", "set", 2, 3))
        ops += par(call("w2", "del", 2), call("w1", "set", 2, 1 + i % 2))
    hs.append((1, ops))
    return hs


def rand_history(rng, nphases):
    ops, subs = [], set()
    val = {1: 0, 2: 0, 3: 0}            # the generator's picture of the records: 0 absent, None unknown

    def one(w, keys_free):
        k = rng.choice(sorted(keys_free))
        cur = val[k]
        if k == 3:
            do = rng.choice(["patch", "patch", "del", "shift"])
            v = rng.randint(1, 5)
            if do == "patch" and cur and rng.random() < 0.3:
                v = cur                                    # a patch that changes nothing
            val[k] = v if do == "patch" else 0
            return call(w, do, k, v)
        do = rng.choice(["set", "set", "set", "setnx", "del", "shift", "inc", "read"])
        if do == "inc" and not cur:
            do = "set"
        if do == "read":
            return call(w, "read", 0, rng.randint(0, 3))
        v = rng.randint(1, 4)
        if do == "set":
            if cur and rng.random() < 0.3:
                v = cur                                    # a save that changes nothing
            val[k] = v
        elif do == "setnx":
            if not cur and cur is not None:
                val[k] = v
        elif do == "inc":
            v = rng.randint(1, 2)
            val[k] = cur + v
        else:
            val[k] = 0
        return call(w, do, k, v)

    for _ in range(nphases):
        r = rng.random()
        if r < 0.22:
            s = rng.choice(["s1", "s2"])
            if s in subs:
                subs.discard(s); ops.append(dict(op="unsub", s=s))
            else:
                subs.add(s); ops.append(dict(op="sub", s=s))
        elif r < 0.6:
            known = {k for k in val if val[k] is not None}
            if not known:
                k = rng.choice([1, 2]); v = rng.randint(1, 4); val[k] = v
                ops += seq(call("w1", "set", k, v))
            else:
                ops += seq(one(rng.choice(["w1", "w2", "w3"]), known))
        elif r < 0.8:
            # concurrent writers on different records
            ws, cs, free = ["w1", "w2", "w3"], [], {k for k in val if val[k] is not None}
            for w in ws[:rng.randint(2, 3)]:
                if not free:
                    break
                c = one(w, free)
                cs.append(c)
                free.discard(c["k"])
            if cs:
                ops += par(*cs)
        else:
            # concurrent writers queued on one record: distinct values, the order is theirs
            k = rng.choice([1, 2])
            vs = rng.sample([1, 2, 3, 4], rng.randint(2, 3))
            cs = [call("w%d" % (i + 1), "set", k, v) for i, v in enumerate(vs)]
            if rng.random() < 0.3:
                cs[-1] = call(cs[-1]["w"], "del", k)
            ops += par(*cs)
            val[k] = None
            v = rng.randint(1, 4)
            ops += seq(call("w1", "set", k, v))               # re-establish a known value
            val[k] = v
    return ops


def gen_scripts(rng, thorough):
    hs = witnesses()
    for i in range(60 if thorough else 16):
        hs.append((rng.choice([0, 1, 2]), rand_history(rng, rng.randint(8, 16) if thorough else rng.randint(6, 10))))
    script, index = [], {}
    for h, (mem, ops) in enumerate(hs, start=1):
        lines = [dict(op="reset", h=h, mem=mem)] + ops
        index[h] = (len(script), len(script) + len(lines))
        script += lines
    return script, index


# ----------------------------------------------------------------------------------------------- check
def write_nd(path, rows):
    with open(path, "w") as f:
        for r in rows:
            f.write(json.dumps(r) + "\n")


# deaths of the server process that are open findings of other properties: (finding id, texts the crash output must contain)
FOREIGN_CRASHES = [
    ("D_C10_GetAllMapEscape", ["concurrent map", "gateway.Gateway.GetAll"]),
    ("D_C10_ColdIndexBuildMapEscape", ["concurrent map", "treasuresForBeacon"]),
    ("D_C10_ColdIndexBuildMapEscape", ["concurrent map", "PushManyFromMap"]),
]

ALLDEVS = ["TimeNanosAsSeconds", "NoopEvent", "ConcurrentSend", "DeleteUnguarded"]      # bit order of Trace_Events!AllDevs
FID_OF = {v: k for k, v in DEV_OF.items()}


def judge(ctx, tracefile, open_devs, name):
    """One TLC run judges every line of every history against the strict spec and against every subset of the open
    deviations.  Returns {history: stuck}, stuck[m] = line at which subset m (bit mask over ALLDEVS) stopped explaining
    the history (0 = explains all of it, -1 = not evaluated)."""
    ok, r = ctx.validate_trace("Trace_Events", "Trace_Events", tracefile, dev="+".join(open_devs), name=name, dfs=False, timeout=3000)
    if not ok:
        raise vlib.Inconclusive("trace run %s did not consume every line: %s\n%s" % (name, r.violated, r.out[-1500:]))
    res = {}
    for p in r.printed:
        try:
            o = json.loads(p) if isinstance(p, str) else p
        except Exception:
            continue
        if isinstance(o, dict) and "stuck" in o:
            res[o["h"]] = o["stuck"]
    return res


def verdict(stuck):
    """(strict_ok, minimal explaining set of deviation names or None, line where the most permissive spec is left)"""
    alive = [m for m, v in enumerate(stuck) if v == 0]
    if 0 in alive:
        return True, [], 0
    if not alive:
        full = max((m for m, v in enumerate(stuck) if v >= 0), key=lambda m: bin(m).count("1"))
        return False, None, stuck[full]
    m = min(alive, key=lambda m: (bin(m).count("1"), m))
    return False, [ALLDEVS[i] for i in range(len(ALLDEVS)) if (m >> i) & 1], 0


def run(ctx):
    thorough = ctx.tier == "thorough"
    rng = random.Random(ctx.seed * 104729 + (19 if thorough else 5))
    ctx.assumptions += [
        "subscriptions are opened and closed only while no write is in flight (the property speaks of subscriptions opened and closed around the writes)",
        "the fake stream records under one mutex; that order is taken as the real-time order of calls, sends and returns",
        "call / return times are the driver's wall clock around the gRPC call; the event time is the server's wall clock in the same process",
        "OldTreasure of an update event is not judged (the property asks for the committed values)",
    ]
    binary = ctx.go_build("events")

    # 1. the design, exhaustively; every deviation is a real deviation at model level
    r = ctx.tlc("MC_Events", cfg_text=mc_cfg([], 3 if thorough else 2), name="mc-strict", workers=8 if thorough else 4, timeout=3000,
                coverage=False)
    if not r.ok:
        raise vlib.Inconclusive("strict Events design violates its own properties: %s %s" % (r.violated, r.error))
    ctx.extra["mc_strict"] = r.summary()
    if thorough:
        r = ctx.tlc("MC_Events", cfg_text=mc_cfg([], 3, subs=("s1",)), name="mc-strict-1sub", workers=8, timeout=3000)
        if not r.ok:
            raise vlib.Inconclusive("strict Events design (one subscriber, 3 operations) fails: %s %s" % (r.violated, r.error))
        ctx.extra["mc_strict_1sub"] = r.summary()
    for dev, inv in (("NoopEvent", "InvOnlyChanges"), ("ConcurrentSend", "InvSendsSerial"), ("TimeNanosAsSeconds", "InvTime"),
                     ("DeleteUnguarded", "InvEvents")):
        # the delete/re-create race needs an existing record, a delete and a set: 3 requests on one key
        cfg = mc_cfg([dev], 3, subs=("s1",), keys="{1}") if dev == "DeleteUnguarded" else mc_cfg([dev], 2)
        r = ctx.tlc("MC_Events", cfg_text=cfg, name="mc-asbuilt-" + dev, workers=4, timeout=3000, count_states=False)
        if r.ok or r.violated != inv:
            raise vlib.Inconclusive("as-built Events (%s) should violate %s, got %s %s" % (dev, inv, r.violated, r.error))
        ctx.extra["mc_asbuilt_" + dev] = r.violated

    # 2. histories on the real gateway
    if ctx.replay:
        rp = json.load(open(ctx.replay))["replay"]
        script = rp["script"]
        index = {}
        for i, o in enumerate(script):
            if o["op"] == "reset":
                index[o["h"]] = [i, len(script)]
        hs = sorted(index)
        for a, b in zip(hs, hs[1:]):
            index[a][1] = index[b][0]
    else:
        script, index = gen_scripts(rng, thorough)
    sf = os.path.join(ctx.work, "script.ndjson")
    tf = os.path.join(ctx.work, "trace.ndjson")
    write_nd(sf, script)
    # The driver hosts the server.  If the server process dies (Go fatal error / panic on an unprotected goroutine) the
    # histories finished so far are in the trace; a death whose text matches the signature of an OPEN finding of
    # another property (reads racing with writes: C10) is that known finding, the history in progress is lost and the
    # run continues with the remaining histories; any other death is a VIOLATION.
    all_lines, lost, todo = [], [], script
    for attempt in range(6):
        part_s, part_t = os.path.join(ctx.work, "part-%d.script" % attempt), os.path.join(ctx.work, "part-%d.trace" % attempt)
        write_nd(part_s, todo)
        try:
            ctx.run_driver(binary, ["run", part_s, part_t], timeout=3000, env={"C19_SPIN": "200"})
            all_lines += [json.loads(x) for x in open(part_t)]
            todo = []
            break
        except vlib.Inconclusive as ex:
            msg = str(ex)
            if not ("panic:" in msg or "fatal error:" in msg):
                raise
            fid = None
            for f_id, needles in FOREIGN_CRASHES:
                if all(n in msg for n in needles) and any(f.get("id") == f_id and f.get("status") == "open" for f in ctx.findings):
                    fid = f_id
                    break
            got = []
            if os.path.exists(part_t):
                for x in open(part_t):
                    try:
                        got.append(json.loads(x))
                    except Exception:
                        break                                   # a torn last line
            done_h = [ln["h"] for ln in got if ln.get("ev") == "reset"]
            # the last history in the file may be incomplete only if the file ends inside it: histories are written whole
            all_lines += got
            hs_todo = [o["h"] for o in todo if o["op"] == "reset"]
            dying = next((h for h in hs_todo if h not in done_h), None)
            if fid is None:
                ctx.deviation(None, "the server process died while serving history %s: %s" % (dying, msg[-900:].replace("\n", " | ")),
                              dict(kind="history", h=dying, script=script[index[dying][0]:index[dying][1]] if dying in index else script))
                return
            ctx.known_seen.setdefault(fid, "the server process died while serving history %s (reads racing with writes): %s" % (
                dying, msg[msg.find("fatal error"):][:300].replace("\n", " | ")))
            lost.append(dying)
            after = [i for i, o in enumerate(todo) if o["op"] == "reset" and o["h"] not in done_h and o["h"] != dying]
            todo = todo[after[0]:] if after else []
            if not todo:
                break
    if todo:
        raise vlib.Inconclusive("the server process died %d times with a known crash; giving up" % (attempt + 1))
    ctx.extra["histories_lost_to_known_crash"] = lost
    for h in lost:
        index.pop(h, None)
    write_nd(tf, all_lines)
    lines = [json.loads(x) for x in open(tf)]
    # split the trace by history
    tindex, cur = {}, None
    for i, ln in enumerate(lines):
        if ln["ev"] == "reset":
            if cur is not None:
                tindex[cur][1] = i
            cur = ln["h"]
            tindex[cur] = [i, len(lines)]
    if set(tindex) != set(index):
        raise vlib.Inconclusive("the trace has %d histories, the script %d" % (len(tindex), len(index)))
    notes = {}
    cur = None
    for ln in lines:
        if ln["ev"] == "reset":
            cur = ln["h"]
        elif ln["ev"] == "note":
            notes[cur] = ln.get("panics", [])
        elif ln["ev"] == "ret" and ln.get("err"):
            if any(x in ln["err"] for x in ("DeadlineExceeded", "Canceled", "Unavailable")):
                raise vlib.Inconclusive("a request timed out in the driver: %s" % ln["err"])
            ln["st"] = "ERROR"                      # an error status for a well-formed request: no spec state expects it
    # notes are observations about a history (recovered server panics), not steps of the spec
    keep = [i for i, ln in enumerate(lines) if ln["ev"] != "note"]
    lines = [lines[i] for i in keep]
    tindex, cur = {}, None
    for i, ln in enumerate(lines):
        if ln["ev"] == "reset":
            if cur is not None:
                tindex[cur][1] = i
            cur = ln["h"]
            tindex[cur] = [i, len(lines)]
    # 2b. a request that came back OK with an empty reply (status PANIC: the handler's panic was swallowed) or a history
    # during which the server logged a recovered panic.  Not an event-stream matter by itself: (i) a panic whose text
    # matches the signature of an OPEN finding (of any property) is that known finding; (ii) otherwise the same
    # history is re-run RERUNS times: it is a VIOLATION if the panic shows again at least once (a change that makes
    # panics likely is caught), else it is recorded as an unreproduced transient.  Either way the history is not
    # judged as an event history (its request statuses are unknown).
    RERUNS = 20
    panicky = sorted({h for h in tindex if any(x["ev"] == "ret" and x.get("st") == "PANIC" for x in lines[tindex[h][0]:tindex[h][1]])} | set(notes))
    transients, known_panics = [], []
    for h in panicky:
        texts = notes.get(h, [])
        sig = None
        for f in ctx.findings:
            if f.get("status") == "open" and f.get("panic_signature") and any(f["panic_signature"] in t for t in texts):
                sig = f
                break
        a, b = index[h]
        if sig is not None:
            known_panics.append(h)
            ctx.known_seen.setdefault(sig["id"], "history %d: a request was answered OK + empty after a recovered panic matching %r (finding of %s)" % (
                h, sig["panic_signature"], sig.get("property")))
            continue
        again = 0
        rs = []
        for i in range(RERUNS):
            rs += [dict(script[a], h=100000 + i)] + script[a + 1:b]
        rsf, rtf = os.path.join(ctx.work, "rerun-%d.script" % h), os.path.join(ctx.work, "rerun-%d.trace" % h)
        write_nd(rsf, rs)
        try:
            ctx.run_driver(binary, ["run", rsf, rtf], timeout=3000, env={"C19_SPIN": "200"})
            for x in open(rtf):
                o = json.loads(x)
                if o["ev"] == "note" or (o["ev"] == "ret" and o.get("st") == "PANIC"):
                    again += 1
        except vlib.Inconclusive as ex:
            if "panic:" in str(ex) or "fatal error:" in str(ex):
                again += 1
            else:
                raise
        if again:
            ctx.deviation(None, "history %d: a request was answered OK + empty / the server recovered from a panic (%s), and it happened again in %d of %d "
                                "re-runs of the same history" % (h, " ## ".join(texts)[:700] or "no panic text captured", again, RERUNS),
                          dict(kind="history", h=h, script=script[a:b], trace=lines[tindex[h][0]:tindex[h][1]], panics=texts))
        else:
            transients.append(dict(h=h, panics=[t[:600] for t in texts], script=script[a:b]))
    ctx.extra["unreproduced_transient_panics"] = transients
    ctx.extra["histories_with_known_panic"] = len(known_panics)
    if panicky:
        drop = set(panicky)
        lines = [ln for h in sorted(tindex) if h not in drop for ln in lines[tindex[h][0]:tindex[h][1]]]
        index = {h: v for h, v in index.items() if h not in drop}
        tindex, cur = {}, None
        for i, ln in enumerate(lines):
            if ln["ev"] == "reset":
                if cur is not None:
                    tindex[cur][1] = i
                cur = ln["h"]
                tindex[cur] = [i, len(lines)]

    nsend = sum(1 for x in lines if x["ev"] == "sb")
    ctx.extra["histories"] = len(index)
    ctx.extra["trace_lines"] = len(lines)
    ctx.extra["events_sent"] = nsend
    ctx.extra["sends_begun_while_another_in_flight"] = sum(1 for x in lines if x["ev"] == "sb" and x["infl"] > 0)
    ctx.extra["calls"] = sum(1 for x in lines if x["ev"] == "call")
    ctx.extra["histories_with_recovered_server_panic"] = len(notes)

    # 3. one TLC run: every line of every history against the strict spec and every set of open deviations
    open_devs = [DEV_OF[f] for f in (F_TIME, F_NOOP, F_CONC, F_DEL) if ctx.is_known(f)]
    write_nd(tf + ".judge", lines + [dict(ev="end")])
    res = judge(ctx, tf + ".judge", open_devs, "trace-all")
    ctx.cov["evaluations"] += len(lines) * (2 ** len(open_devs))
    if set(res) != set(index):
        raise vlib.Inconclusive("TLC reported %d histories, the script has %d" % (len(res), len(index)))
    failed, explained, stuck = {}, {}, {}
    for h in sorted(res):
        ok_strict, devs_needed, at = verdict(res[h])
        if ok_strict:
            continue
        failed[h] = res[h][0] - 1                                  # index into `lines` of the line the strict spec cannot take
        if devs_needed is None:
            stuck[h] = at - 1
        else:
            explained[h] = [FID_OF[d] for d in devs_needed]
    ctx.extra["strict_failed_histories"] = len(failed)
    rest = set(failed) - set(explained)

    def hist_obj(h):
        a, b = index[h]
        ta, tb = tindex[h]
        return dict(kind="history", h=h, script=script[a:b], trace=lines[ta:tb])

    for h in sorted(failed):
        if h in explained:
            first = lines[failed[h]]
            for d in explained[h]:
                ctx.deviation(d, "history %d: the strict spec is left at %s; explained by %s" % (
                    h, json.dumps(first, sort_keys=True), "+".join(DEV_OF[x] for x in explained[h])), hist_obj(h))
        else:
            ln = lines[stuck[h]]
            extra = (" | the server recovered from a panic while serving this history: %s" % " ## ".join(notes[h])[:900]) if notes.get(h) else ""
            ctx.deviation(None, "history %d: no state of the spec explains line %s (after %d lines of the history) and no set of named "
                                "deviations explains the history%s" % (h, json.dumps(ln, sort_keys=True), stuck[h] - tindex[h][0], extra), hist_obj(h))

    # 5. accounting
    for h in index:
        a, b = index[h]
        conc = any(o["op"] == "calls" and len(o["calls"]) > 1 for o in script[a:b])
        subs = sum(1 for o in script[a:b] if o["op"] in ("sub", "unsub"))
        ctx.count_case(script[a + 1:b], nontrivial=conc or subs >= 2)
        ctx.cov["evaluations"] -= 1
    ctx.cov["traces_validated_against_impl"] += len(index)
    if failed:
        h = sorted(failed)[0]
        ta, tb = tindex[h]
        ctx.sample(dict(kind="history rejected by the strict spec", explained_by=explained.get(h), lines=lines[ta:tb][:10]))
    ok_h = [h for h in index if h not in failed]
    if ok_h:
        ta, tb = tindex[ok_h[0]]
        ctx.sample(dict(kind="history accepted by the strict spec", lines=lines[ta:tb][:10]))

    # 6. binding self-test (thorough): a corrupted value / a dropped event must be noticed even by the most permissive spec
    if thorough and not ctx.replay:
        cands = [h for h in index if h not in rest and any(x["ev"] == "sb" for x in lines[tindex[h][0]:tindex[h][1]])]
        if not cands:
            raise vlib.Inconclusive("binding self-test: no explained history with an event")
        h = min(cands, key=lambda x: tindex[x][1] - tindex[x][0])
        ta, tb = tindex[h]
        rows = [json.loads(json.dumps(x)) for x in lines[ta:tb]]
        i = [j for j, x in enumerate(rows) if x["ev"] == "sb"][0]
        bad = [json.loads(json.dumps(x)) for x in rows]
        bad[i]["val"] += 7
        p = os.path.join(ctx.work, "selftest-value.ndjson")
        write_nd(p, bad + [dict(ev="end")])
        r1 = judge(ctx, p, open_devs, "selftest-value")
        rejected = verdict(r1[h])[1] is None and not verdict(r1[h])[0]
        ctx.extra["selftest_corrupted_value_rejected"] = rejected
        if not rejected:
            raise vlib.Inconclusive("binding self-test failed: an event with a corrupted value was accepted")
        drop = rows[:i] + rows[i + 2:]                        # the send (begin + end) vanishes
        p = os.path.join(ctx.work, "selftest-drop.ndjson")
        write_nd(p, drop + [dict(ev="end")])
        r2 = judge(ctx, p, open_devs, "selftest-drop")
        rejected = verdict(r2[h])[1] is None and not verdict(r2[h])[0]
        ctx.extra["selftest_dropped_event_rejected"] = rejected
        if not rejected:
            raise vlib.Inconclusive("binding self-test failed: a trace with a dropped event was accepted")
    ctx.cov["rule"] = ("case = one gateway history (writers through the in-process gRPC client, subscribers = the real SubscribeToEvents handler on "
                       "a recording stream) judged line by line by TLC; non-trivial = the history has concurrent writers or >= 2 subscription changes")
    ctx.cov["exhaustive"] = False
