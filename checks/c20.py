"""C20 - Swamp addressing is deterministic, in range and SDK/server-consistent.

spec/Naming.tla: the 64-bit hashes are inputs (16 hex digits); Island = Horner mod over the digits + 1, Route =
owner of the island in the client's range table, Location = island / slices of the UNPADDED hex string (both
ends clamped) / full hex.  TLC checks the strict design exhaustively over hash classes (0..16 leading zero
digits) x depth 1..10 x folders-per-level x island tables for InRange, Consistent, Total, Injective,
RouteOwns, LevelsFromHash; the as-built deviation "SliceBeyondHash" must violate Total.

Binding (A): harness/cmd/naming evaluates generated names (ASCII, multi-byte UTF-8, control bytes, empty
parts, embedded '/', long, mined names whose hash has leading zero digits) x configurations on the REAL
server name package, SDK name package and a really connected SDK client (TLS gRPC heartbeat servers on
127.0.0.1), through EVERY construction route of the name (plain chain, prefixes asked before they are extended,
a shared realm-level prefix, a re-used builder object, Load of the string form, the same object asked twice -
Naming!Routes), and logs both hashes from its own xxhash implementation; all routes must give the one answer.
TLC validates every line against Trace_Naming.  Lines whose path computation panicked are validated
separately: the strict spec must reject them, and only if the as-built spec (Dev = SliceBeyondHash)
accepts them all is it the known finding D_C20_SliceBeyondHash.
"""
import json, os, random, re, shutil
import vlib

DEV = "SliceBeyondHash"
FID = "D_C20_SliceBeyondHash"
FPLS = [2, 16, 256, 1000, 4096, 65536]
TABLES = [
    dict(N=1, ranges=[[1, 1]]),
    dict(N=7, ranges=[[1, 3], [4, 7]]),
    dict(N=1000, ranges=[[1, 500], [501, 900]]),                       # 901..1000 have no server
    dict(N=65535, ranges=[[1, 20000], [20001, 40000], [40001, 65535]]),
    dict(N=100, ranges=[[1, 100]]),
    dict(N=2, ranges=[[1, 1], [2, 2]]),
]


def mc_cfg(dev, depths, fpls, tids):
    return """SPECIFICATION MCSpec
CONSTANTS
  Dev = %s
  Queries = {}
  MaxOps = 2
  Depths = {%s}
  Fpls = {%s}
  TableIds = {%s}
INVARIANTS InRange Consistent Total Injective RouteOwns LevelsFromHash
CHECK_DEADLOCK FALSE
""" % ('{"%s"}' % dev if dev else "{}", ",".join(map(str, depths)), ",".join(map(str, fpls)), ",".join(map(str, tids)))


def valid(parts):
    return 1 if all(p != "" and "/" not in p for p in parts) else 0


ALPH = ["abcdefghijklmnopqrstuvwxyz0123456789", "ABCxyz-_.:*", "áéűőπжש中🙂", " \t\n\x00\x7f", "/"]


def rand_part(rng):
    k = rng.random()
    if k < 0.03:
        return ""
    n = rng.choice([1, 1, 2, 3, 5, 8, 13, 40])
    out = []
    for _ in range(n):
        a = ALPH[0] if rng.random() < 0.7 else rng.choice(ALPH[1:4])
        if rng.random() < 0.01:
            a = ALPH[4]
        out.append(rng.choice(a))
    return "".join(out)


SPECIAL = [
    ["users", "profiles", "alice123"], ["a", "b", "c"], ["", "", ""], ["", "a", "b"], ["a", "", "b"], ["a", "b", ""],
    ["a/b", "c", "d"], ["a", "b/c", "d"], ["a", "b", "c/d"], ["a/", "b", "c"], ["a", "/b", "c"], ["/", "/", "/"],
    ["ab", "c", "d"], ["a", "bc", "d"], ["a", "b", "cd"],            # same concatenation, different canonical string
    ["..", "..", "etc"], [".", ".", "."], ["*", "*", "*"], ["a", "*", "*"],
    ["árvíztűrő", "tükörfúrógép", "🙂🙂"], ["\x00", "\x00\x00", "\x00"], [" ", "  ", "   "],
    ["x" * 40, "y" * 40, "z" * 40], ["s" * 7, "r" * 8, "w" * 17], ["q" * 31, "", ""], ["q" * 32, "", ""], ["q" * 33, "", ""],
]


def gen_names(rng, n):
    names = [list(x) for x in SPECIAL]
    seen = set(json.dumps(x) for x in names)
    while len(names) < n:
        p = [rand_part(rng), rand_part(rng), rand_part(rng)]
        k = json.dumps(p)
        if k in seen:
            continue
        seen.add(k)
        names.append(p)
    return names


def rejected(r, lines):
    m = re.search(r'TRACE_REJECTED_AT_LINE",\s*(\d+)', r.out)
    if not m:
        return None, "invariant %s" % r.violated
    d = int(m.group(1))
    e = json.loads(lines[d - 1]) if 0 < d <= len(lines) else None
    return e, "line %d: %s" % (d, (lines[d - 1][:500] if e else "end of trace"))


def run(ctx):
    thorough = ctx.tier == "thorough"
    rng = random.Random(ctx.seed)
    ctx.assumptions += [
        "supported configurations: island count 1..65535 (the server's GetFolderNumber takes a uint16), folder depth >= 1, folders per level >= 2",
        "the two 64-bit hashes of every name are inputs of the spec, computed by an xxhash implementation inside the driver that is cross-checked against the library at start",
        "location uniqueness is demanded for names that obey the documented constraints (no '/' inside a part, no empty part); names breaking them are still checked for determinism, range, SDK/server agreement, routing and totality",
        "the folder layout of the strict spec is the one the code produces wherever it does not panic (existing data must stay reachable); beyond the end of the hex string the slices are empty",
    ]
    binary = ctx.go_build("naming")

    # 1. exhaustive check of the strict design; the as-built deviation must violate Total
    if thorough:
        r = ctx.tlc("MC_Naming", cfg_text=mc_cfg(None, range(1, 11), FPLS, [1, 2, 3, 4]), name="mc-strict", coverage=True, timeout=3600)
    else:
        r = ctx.tlc("MC_Naming", cfg_text=mc_cfg(None, [1, 2, 8, 9, 10], [256, 65536], [2, 4]), name="mc-strict", timeout=1800)
    if not r.ok:
        raise vlib.Inconclusive("strict Naming spec does not satisfy its own properties: %s %s" % (r.violated, r.error))
    ctx.extra["mc_strict"] = r.summary()
    if thorough and r.coverage_zero:
        ctx.extra["coverage_zero"] = r.coverage_zero[:10]
    r2 = ctx.tlc("MC_Naming", cfg_text=mc_cfg(DEV, [8, 10], [256], [2]), name="mc-asbuilt-witness", count_states=False, timeout=1800)
    if r2.ok or r2.violated != "Total":
        raise vlib.Inconclusive("as-built Naming spec (SliceBeyondHash) does not violate Total: %s %s" % (r2.violated, r2.error))
    ctx.extra["asbuilt_witness_violates"] = r2.violated

    # 2. names and configurations
    if ctx.replay:
        rp = json.load(open(ctx.replay))["replay"]
        names, configs = rp["names"], rp["configs"]
    else:
        mined_f = os.path.join(ctx.work, "mined.json")
        maxclass, budget = (6, 400000000) if thorough else (4, 8000000)
        ctx.run_driver(binary, ["mine", str(maxclass), "2", str(budget), mined_f], timeout=1800)
        mined = json.load(open(mined_f))
        ctx.extra["mined_leading_zero_names"] = len(mined)
        if len(mined) < 2 * 3:
            raise vlib.Inconclusive("could not find names with leading-zero hashes")
        raw = gen_names(rng, 400 if thorough else 110)
        names = [dict(id="n%d" % i, parts=p, valid=valid(p)) for i, p in enumerate(raw)] + mined
        combos = [(d, f) for d in range(1, 11) for f in FPLS]
        if not thorough:
            must = [(1, 1000), (2, 1000), (3, 4096), (8, 256), (8, 16), (10, 256), (4, 65536), (9, 256), (2, 2)]
            combos = must + rng.sample([c for c in combos if c not in must], 11)
        extra_fpl = [3, 17, 255, 257, 1001, 65535, 65537, 1 << 20, 1 << 24, 100, 5000]
        combos += [(rng.randrange(1, 11), f) for f in (extra_fpl if thorough else rng.sample(extra_fpl, 4))]
        configs = []
        for i, (d, f) in enumerate(combos):
            t = TABLES[i % len(TABLES)]
            configs.append(dict(N=t["N"], ranges=t["ranges"], depth=d, fpl=f))
        # a few random island counts with a two-server split
        for _ in range(6 if thorough else 2):
            n = rng.randrange(2, 65536)
            cut = rng.randrange(1, n)
            d, f = rng.choice(combos)
            configs.append(dict(N=n, ranges=[[1, cut], [cut + 1, n]], depth=d, fpl=f))
        configs.sort(key=lambda c: (c["N"], json.dumps(c["ranges"])))
    cf = os.path.join(ctx.work, "cases.json")
    json.dump(dict(names=names, configs=configs), open(cf, "w"))
    tf = os.path.join(ctx.work, "trace.ndjson")
    ctx.run_driver(binary, ["run", cf, tf], timeout=1800)
    lines = open(tf).read().splitlines()
    if len(lines) != len(names) * len(configs):
        raise vlib.Inconclusive("driver logged %d lines for %d names x %d configurations" % (len(lines), len(names), len(configs)))
    ctx.extra["names"] = len(names)
    ctx.extra["names_breaking_documented_constraints"] = sum(1 for n in names if not n["valid"])
    ctx.extra["configurations"] = len(configs)
    ok_lines, panic_lines = [], []
    byid = {n["id"]: n for n in names}
    coll = {}
    for ln in lines:
        e = json.loads(ln)
        pan = any(x["panic"] for x in e["loc"])
        (panic_lines if pan else ok_lines).append(ln)
        ctx.count_case([e["id"], e["N"], e["depth"], e["fpl"]], nontrivial=e["N"] > 1 and e["depth"] > 1)
        if not pan:
            coll.setdefault((e["N"], e["depth"], e["fpl"], e["raw"]), set()).add(e["id"])
    shared = [(k, sorted(v)) for k, v in coll.items() if len(v) > 1]
    ctx.extra["locations_shared_by_names_breaking_the_documented_constraints"] = len(shared)
    if shared:
        k, ids = shared[0]
        ctx.extra["shared_location_example"] = dict(path=k[3], names=[byid[i]["parts"] for i in ids])
    ctx.extra["lines_ok"] = len(ok_lines)
    ctx.extra["lines_panic"] = len(panic_lines)
    ctx.sample(dict(kind="recorded line", line=json.loads(ok_lines[len(ok_lines) // 2])))

    def write(name, ls):
        p = os.path.join(ctx.work, name)
        open(p, "w").write("\n".join(ls) + "\n")
        return p

    def mini_replay(e):
        if e is None:
            return dict(kind="cases", names=names[:20], configs=configs)
        return dict(kind="cases", names=[byid[e["id"]]], configs=[dict(N=e["N"], ranges=e["ranges"], depth=e["depth"], fpl=e["fpl"])], line=e)

    # 3. lines without a panic: the strict spec must accept every one of them
    p_ok = write("trace-ok.ndjson", ok_lines)
    ok, rs = ctx.validate_trace("Trace_Naming", "Trace_Naming", p_ok, name="trace-ok", timeout=3600)
    ctx.cov["traces_validated_against_impl"] += len(ok_lines)
    if not ok:
        e, where = rejected(rs, ok_lines)
        ctx.deviation(None, "real addressing rejected by the strict spec (%s)" % where, mini_replay(e))

    # 4. lines with a panic: never allowed by the strict spec; known only if the as-built spec predicts each one
    if panic_lines:
        p_pa = write("trace-panic.ndjson", panic_lines)
        ok_s, rs = ctx.validate_trace("Trace_Naming", "Trace_Naming", p_pa, name="trace-panic-strict", timeout=3600)
        if ok_s:
            raise vlib.Inconclusive("the strict spec accepted lines on which the path computation panicked")
        ok_a, ra = ctx.validate_trace("Trace_Naming", "Trace_Naming_asbuilt", p_pa, dev=DEV, name="trace-panic-asbuilt", timeout=3600)
        ctx.cov["traces_validated_against_impl"] += len(panic_lines)
        e0 = json.loads(panic_lines[0])
        ctx.sample(dict(kind="recorded panic", name=byid[e0["id"]]["parts"], depth=e0["depth"], fpl=e0["fpl"], panic=e0["raw"]))
        nat = [json.loads(x) for x in panic_lines]
        nat = [x for x in nat if x["depth"] * max(2, len("%x" % (x["fpl"] - 1))) <= 16]
        if nat:
            x = nat[0]
            ctx.extra["panic_within_16_digits"] = dict(name=byid[x["id"]]["parts"], depth=x["depth"], fpl=x["fpl"], panic=x["raw"])
        if ok_a:
            ctx.deviation(FID, "GetFullHashPath panics (%s) for name %s with depth %d, folders per level %d; %d such lines, all predicted by the as-built spec" % (
                e0["raw"], json.dumps(byid[e0["id"]]["parts"]), e0["depth"], e0["fpl"], len(panic_lines)), mini_replay(e0))
        else:
            e, where = rejected(ra, panic_lines)
            ctx.deviation(None, "path computation panicked where not even the as-built spec allows it (%s)" % where, mini_replay(e))

    # 5. binding self-test (thorough): altered lines must be rejected
    if thorough and not ctx.replay:
        base = [json.loads(x) for x in ok_lines[:300]]
        muts = {}
        def alt(name, f):
            b = json.loads(json.dumps(base))
            f(b[len(b) // 2])
            muts[name] = b
        alt("srv", lambda e: e.__setitem__("srv", [e["srv"][0] % e["N"] + 1 if e["N"] > 1 else 2]))
        alt("sdk_two_results", lambda e: e.__setitem__("sdk", e["sdk"] + [e["sdk"][0] + 1]))
        alt("route", lambda e: e.__setitem__("route", [e["route"][0] + 1]))
        alt("level_digit", lambda e: e["loc"][0]["levels"][0].__setitem__(0, (e["loc"][0]["levels"][0][0] + 1) % 16))
        alt("leaf_dropped_digit", lambda e: e["loc"][0].__setitem__("leaf", e["loc"][0]["leaf"][:-1]))
        alt("hash_input", lambda e: e["hp"].__setitem__(15, (e["hp"][15] + 1) % 16))
        alt("construction_route_missing", lambda e: e.__setitem__("routes", [x for x in e["routes"] if x != "sdk:shared-prefix"]))
        for k, b in muts.items():
            p = write("selftest-%s.ndjson" % k, [json.dumps(x) for x in b])
            okm, _ = ctx.validate_trace("Trace_Naming", "Trace_Naming", p, name="selftest-" + k)
            ctx.extra["selftest_%s_rejected" % k] = not okm
            if okm:
                raise vlib.Inconclusive("binding self-test failed: a trace with an altered %s was accepted" % k)
        # two valid names at one location must violate Injective
        b = json.loads(json.dumps(base))
        v = [i for i, e in enumerate(b) if e["valid"] == 1]
        j = [i for i in v if b[i]["N"] == b[v[0]]["N"] and b[i]["depth"] == b[v[0]]["depth"] and b[i]["fpl"] == b[v[0]]["fpl"]][:2]
        if len(j) == 2:
            dup = json.loads(json.dumps(b[j[0]]))
            dup["id"] = b[j[1]]["id"] + "-other"
            b.insert(j[0] + 1, dup)
            p = write("selftest-collision.ndjson", [json.dumps(x) for x in b])
            okm, rr = ctx.validate_trace("Trace_Naming", "Trace_Naming", p, name="selftest-collision")
            ctx.extra["selftest_collision_rejected"] = (not okm) and rr.violated == "Injective"
            if okm:
                raise vlib.Inconclusive("binding self-test failed: two valid names at one location were accepted")

    ctx.cov["rule"] = ("cases = (name, configuration) pairs evaluated on the real server/SDK name packages and SDK client and validated by TLC; "
                       "non-trivial = island count > 1 and folder depth > 1; distinct by (name, N, depth, folders per level)")
    ctx.cov["exhaustive"] = bool(thorough)
