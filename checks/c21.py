"""C21 - Swamp settings resolve deterministically from registered patterns.

spec/Settings.tla (strict: the applied pattern is a most-specific match and a FUNCTION of the set of
registered patterns and the name) + TLC:
  * exhaustive model check of the strict design (and the as-built deviation must violate it);
  * binding C: Gen_Settings makes TLC enumerate every set of patterns over a/{x,y,*}/{x,y,*} with all
    registration orders (small sets) and evaluate Matching/Maximal per probe name;
  * the driver registers every order on the REAL settings package (fresh root per case), looks every
    probe name up many times, restarts (settings.New on the same root) twice and looks up again; some
    cases go on with re-registration (changed / unchanged settings) and deregistration; plus seeded
    random histories.  Every call is logged and the log is validated by TLC against Trace_Settings,
    whose resolution memo is keyed by the pattern SET and survives restarts and fresh servers.
A trace the strict spec rejects is re-validated with Dev = {"MapOrderLookup"}; only if that as-built spec
accepts the very same trace is it the known finding D_C21_MapOrderLookup.
"""
import json, os, random, re, shutil
import vlib

DEV = "MapOrderLookup"
FID = "D_C21_MapOrderLookup"
STAR = "*"
PROBES = [[s, r, w] for s in ["a"] for r in "xyz" for w in "xyz"] + [["b", "x", "y"]]
ALLPAT = [["a", r, w] for r in ["*", "x", "y"] for w in ["*", "x", "y"]]


def mc_cfg(maxops, dev):
    return """SPECIFICATION Spec
CONSTANTS
  Sancts = {"a"}
  Parts = {"x", "y"}
  SetIds <- MCSetIds
  MaxOps = %d
  Dev = %s
CONSTRAINT Bounded
INVARIANTS Functional MostSpecific Persisted
""" % (maxops, '{"%s"}' % dev if dev else "{}")


def rank(p):
    pr = {STAR: 0, "x": 1, "y": 2}
    return 3 * pr[p[1]] + pr[p[2]]


def setting(p, v=(0, 0, 0)):
    """registration arguments <<inMemory, idleSec, writeIntervalSec, maxFileSize>> of pattern p in version
    v = (t, i, w): every dimension can change on its own - t = 1 the other swamp type, i = 1 another idle
    timeout, w = 1 another write interval / file size (no effect on an in-memory registration).
    In-memory registrations carry no filesystem settings (as the gateway sends them)."""
    t, i, w = v
    r = rank(p)
    mem = (r + t) % 2
    idle = 10 + r + 30 * i
    if mem:
        return [1, idle, 0, 0]
    return [0, idle, 40 + r + 20 * w, 1000 + r + 100 * w]


VERSIONS = [(t, i, w) for t in (0, 1) for i in (0, 1) for w in (0, 1)]


def matches(n, p):
    return n[0] == p[0] and p[1] in (STAR, n[1]) and p[2] in (STAR, n[2])


def look(reps):
    return dict(op="look", names=PROBES, reps=reps)


def reg(p, v=(0, 0, 0)):
    return dict(op="reg", p=p, set=setting(p, v))


def order_case(order, reps, suffix=None):
    ops = [reg(p) for p in order]
    ops += [look(reps), dict(op="restart"), look(reps), dict(op="restart"), look(reps)]
    if suffix:
        ops += suffix
    return ops


def variation_suffix(P, rng, reps):
    """re-registrations that change ONE dimension at a time (only the type - in both directions -, only the
    idle timeout, only write interval / file size), an unchanged one, all at once, deregistration and
    registration again; lookups after each and after restarts"""
    if not P:
        return []
    ops = []
    L, R = look(reps), dict(op="restart")
    p = rng.choice(P)
    ops += [reg(p, (1, 0, 0)), L, R, L]                   # only the type changes (same idle timeout)
    ops += [reg(p, (0, 0, 0)), L, R, L]                   # and back: the other direction
    q = rng.choice(P)
    ops += [reg(q, (0, 0, 0)), L]                         # unchanged (or first change back) re-registration
    ops += [reg(q, (0, 1, 0)), L, reg(q, (0, 1, 1)), L, R, L]   # only idle, then only write interval / file size
    u = rng.choice(P)
    ops += [reg(u, (1, 1, 1)), L, reg(u, (1, 1, 1)), L, R, L]   # everything, then unchanged
    d = rng.choice(P)
    ops += [dict(op="dereg", p=d), L, R, L]
    ops += [reg(d, (1, 0, 1)), L]
    return ops


def random_history(rng, reps, length):
    ops = []
    for _ in range(length):
        x = rng.random()
        if x < 0.45:
            ops.append(reg(rng.choice(ALLPAT), rng.choice(VERSIONS)))
        elif x < 0.55:
            ops.append(dict(op="dereg", p=rng.choice(ALLPAT)))
        elif x < 0.70:
            ops.append(dict(op="restart"))
        else:
            ops.append(look(reps))
    ops.append(look(reps))
    return ops


def rejected_line(r, lines):
    """(line number, logged event) of the first line no spec step explains"""
    m = re.search(r'TRACE_REJECTED_AT_LINE",\s*(\d+)', r.out)
    if not m:
        return 0, None, "invariant %s" % r.violated
    d = int(m.group(1))
    e = json.loads(lines[d - 1]) if 0 < d <= len(lines) else None
    txt = "line %d" % d
    if e is not None:
        if e["ev"] == "look":
            multi = [x for x in e["res"] if len(x["obs"]) > 1]
            txt += " case %s look %s" % (e.get("case"), json.dumps((multi or e["res"])[:2]))
        else:
            txt += " " + json.dumps(e)
    return d, e, txt[:600]


def run(ctx):
    thorough = ctx.tier == "thorough"
    rng = random.Random(ctx.seed)
    ctx.assumptions += [
        "patterns are registered with the argument shapes the gateway's RegisterSwamp produces (no filesystem settings for in-memory patterns, positive write interval and file size otherwise)",
        "for an in-memory result only the type and the idle timeout are compared (write interval / file size are documented as unused)",
        "sanctuary wildcards are outside the property's quantifier (exact, realm wildcard, swamp wildcard) and are not generated",
    ]
    binary = ctx.go_build("settings")

    # 1. the strict design satisfies the property; the as-built deviation does not (non-vacuity)
    r = ctx.tlc("MC_Settings", cfg_text=mc_cfg(5 if thorough else 3, None), name="mc-strict", coverage=thorough, timeout=2400)
    if not r.ok:
        raise vlib.Inconclusive("strict Settings spec does not satisfy its own properties: %s %s" % (r.violated, r.error))
    ctx.extra["mc_strict"] = r.summary()
    if thorough and r.coverage_zero:
        ctx.extra["coverage_zero"] = r.coverage_zero[:10]
    r2 = ctx.tlc("MC_Settings", cfg_text=mc_cfg(4, DEV), name="mc-asbuilt-witness", count_states=False)
    if r2.ok or r2.violated not in ("Functional", "MostSpecific"):
        raise vlib.Inconclusive("as-built Settings spec (MapOrderLookup) does not violate Functional/MostSpecific: %s %s" % (r2.violated, r2.error))
    ctx.extra["asbuilt_witness_violates"] = r2.violated

    # 2. binding C: TLC enumerates the pattern sets, their orders and the allowed resolutions
    maxk = 4 if thorough else 3
    g = ctx.tlc_expect_ok("Gen_Settings", workers=1, env={"GEN_MAXK": str(maxk)}, name="gen", count_states=False, timeout=1800)
    gen = [json.loads(x) if isinstance(x, str) else x for x in g.printed]
    gen = [c for c in gen if isinstance(c, dict) and "orders" in c]
    if len(gen) != 512:
        raise vlib.Inconclusive("Gen_Settings produced %d pattern sets, expected 512" % len(gen))
    ctx.extra["gen_pattern_sets"] = len(gen)
    ctx.extra["gen_orders"] = sum(len(c["orders"]) for c in gen)
    expect = {}
    for c in gen:
        key = json.dumps(sorted(c["P"]))
        expect[key] = {json.dumps(e["n"]): e for e in c["expect"]}

    reps = 40 if thorough else 25
    groups = []      # one group = every case of one pattern set (kept in one trace file: memo is per file)
    if ctx.replay:
        rp = json.load(open(ctx.replay))["replay"]
        groups = [rp["cases"]]
    else:
        small = [c for c in gen if len(c["P"]) <= maxk]
        big = [c for c in gen if len(c["P"]) > maxk]
        if not thorough:
            big = rng.sample(big, 70)
        for c in small + big:
            grp = []
            orders = sorted(c["orders"])
            for k, o in enumerate(orders):
                sfx = variation_suffix(sorted(c["P"]), rng, reps) if k == 0 else None
                grp.append(order_case(o, reps, sfx))
            groups.append(grp)
        nh = 400 if thorough else 60
        groups.append([random_history(rng, reps, rng.randrange(6, 16)) for _ in range(nh)])
    ncases = sum(len(gp) for gp in groups)
    ctx.extra["cases"] = ncases

    # chunks: whole groups, so that every order of one pattern set is validated against one memo
    nchunks = 1 if ctx.replay else (3 if thorough else 1)
    chunks = [[] for _ in range(nchunks)]
    for i, gp in enumerate(groups):
        chunks[i % nchunks].append(gp)
    cid = 0
    stats = dict(lookup_events=0, keys=0, keys_multi=0, keys_not_most_specific=0)
    witness = None
    first_trace = None
    for ci, ch in enumerate(chunks):
        cases = []
        for gp in ch:
            for k, ops in enumerate(gp):
                cases.append(dict(id=cid, forget=1 if k % 25 == 0 else 0, ops=ops))
                cid += 1
        if not cases:
            continue
        cf = os.path.join(ctx.work, "cases-%d.json" % ci)
        json.dump(cases, open(cf, "w"))
        tf = os.path.join(ctx.work, "trace-%d.ndjson" % ci)
        ctx.run_driver(binary, ["run", cf, tf], timeout=1800)
        lines = open(tf).read().splitlines()
        first_trace = first_trace or tf
        # measured statistics (python only counts; the verdict is TLC's)
        cur, seen = {}, {}
        for ln in lines:
            e = json.loads(ln)
            if e["ev"] in ("reset",):
                cur, disk = {}, {}
            elif e["ev"] == "reg":
                cur[json.dumps(e["p"])] = e["set"]
            elif e["ev"] == "dereg":
                cur.pop(json.dumps(e["p"]), None)
            elif e["ev"] == "look":
                stats["lookup_events"] += 1
                P = sorted(json.loads(k) for k in cur)
                pk = json.dumps(P)
                for x in e["res"]:
                    k = (pk, json.dumps(x["n"]))
                    s = seen.setdefault(k, set())
                    for o in x["obs"]:
                        s.add(json.dumps(o["pat"]))
                    nm = sum(1 for p in P if matches(x["n"], p))
                    ctx.count_case([P, x["n"]], nontrivial=nm >= 2)
        for (pk, nk), s in seen.items():
            stats["keys"] += 1
            ex = expect.get(pk, {}).get(nk)
            if len(s) > 1:
                stats["keys_multi"] += 1
                if witness is None and ex:
                    witness = dict(patterns=json.loads(pk), name=json.loads(nk), resolved_to=sorted(json.loads(x) for x in s),
                                   most_specific=ex["max"])
            if ex and ex["max"] and not s <= set(json.dumps(p) for p in ex["max"]):
                stats["keys_not_most_specific"] += 1
        ok, rs = ctx.validate_trace("Trace_Settings", "Trace_Settings", tf, name="trace-%d" % ci, timeout=2400)
        ctx.cov["traces_validated_against_impl"] += len(cases)
        if ci == 0:
            ctx.sample(dict(kind="case (ops)", ops=[(o["op"], o.get("p", "")) for o in cases[min(len(cases) - 1, 30)]["ops"]][:12]))
            for ln in lines[:400]:
                e = json.loads(ln)
                if e["ev"] == "look" and any(len(x["obs"]) > 1 for x in e["res"]):
                    ctx.sample(dict(kind="recorded lookup with more than one distinct result",
                                    case=e["case"], res=[x for x in e["res"] if len(x["obs"]) > 1][:1]))
                    break
        if ok:
            continue
        keep = os.path.join(ctx.replays, "trace-%d-%d.ndjson" % (ctx.seed, ci))
        _, _, where = rejected_line(rs, lines)
        ok2, ra = ctx.validate_trace("Trace_Settings", "Trace_Settings", tf, dev=DEV, name="trace-%d-dev" % ci, timeout=2400)
        if ok2:
            what = "real settings rejected by the strict spec (%s); the as-built spec with map-order lookup accepts the whole trace" % where
            ctx.deviation(FID, what, dict(kind="cases", cases=[c["ops"] for c in cases][:50], witness=witness))
        else:
            shutil.copy(tf, keep)
            _, ev, where2 = rejected_line(ra, lines)
            what = "recorded trace of the real settings rejected by the strict spec (%s) and by the as-built spec (%s)" % (where, where2)
            bad = ev.get("case") if ev else None
            sel = [c["ops"] for c in cases if bad is None or c["id"] == bad]
            ctx.deviation(None, what, dict(kind="cases", cases=sel, trace=keep, rejected=ev))
    ctx.extra.update(stats)
    if witness:
        ctx.extra["witness_multi_resolution"] = witness

    # 3. binding self-test (thorough): corrupted traces must be rejected, also by the as-built spec
    if thorough and first_trace and not ctx.replay:
        lines = [json.loads(x) for x in open(first_trace).read().splitlines()][:3000]
        # cut at a case boundary
        while lines and lines[-1]["ev"] != "reset":
            lines.pop()
        lines.pop()
        # (a) a returned setting altered
        idx = [i for i, e in enumerate(lines) if e["ev"] == "look" and any(o["set"][0] == 0 and o["pat"][0] == "a" and o["set"][1] != 5 for x in e["res"] for o in x["obs"])]
        i = idx[len(idx) // 2]
        bad = json.loads(json.dumps(lines))
        done = False
        for x in bad[i]["res"]:
            for o in x["obs"]:
                if o["set"][0] == 0 and o["set"][1] != 5 and not done:
                    o["set"][2] += 1
                    done = True
        p = os.path.join(ctx.work, "corrupt.ndjson")
        open(p, "w").write("\n".join(json.dumps(e) for e in bad) + "\n")
        ok, _ = ctx.validate_trace("Trace_Settings", "Trace_Settings", p, dev=DEV, name="selftest-corrupt")
        ctx.extra["selftest_corrupt_rejected"] = not ok
        if ok:
            raise vlib.Inconclusive("binding self-test failed: a trace with an altered setting was accepted")
        # (b) the only registration of a one-pattern case dropped
        j = None
        for i, e in enumerate(lines):
            if e["ev"] == "reg" and lines[i - 1]["ev"] == "reset" and lines[i + 1]["ev"] == "look":
                j = i
                break
        if j is not None:
            p = os.path.join(ctx.work, "dropped.ndjson")
            open(p, "w").write("\n".join(json.dumps(e) for k, e in enumerate(lines) if k != j) + "\n")
            ok, _ = ctx.validate_trace("Trace_Settings", "Trace_Settings", p, dev=DEV, name="selftest-drop")
            ctx.extra["selftest_dropped_event_rejected"] = not ok
            if ok:
                raise vlib.Inconclusive("binding self-test failed: a trace with a dropped registration was accepted")
        # (c) strictness: a non-most-specific (but matching) resolution must be rejected by the strict spec
        #     and accepted by the as-built one
        syn = [dict(ev="reset", case=0, forget=1)]
        P = [["a", "*", "*"], ["a", "x", "*"], ["a", "x", "y"]]
        for q in P:
            syn.append(dict(ev="reg", case=0, p=q, set=setting(q)))
        eff = lambda s: [1, s[1], 0, 0] if s[0] == 1 else s
        syn.append(dict(ev="look", case=0, res=[dict(n=["a", "x", "y"], obs=[dict(pat=P[1], set=eff(setting(P[1])))])]))
        p = os.path.join(ctx.work, "synthetic.ndjson")
        open(p, "w").write("\n".join(json.dumps(e) for e in syn) + "\n")
        ok_s, _ = ctx.validate_trace("Trace_Settings", "Trace_Settings", p, name="selftest-syn-strict")
        ok_a, _ = ctx.validate_trace("Trace_Settings", "Trace_Settings", p, dev=DEV, name="selftest-syn-asbuilt")
        ctx.extra["selftest_nonmaximal_rejected_by_strict"] = not ok_s
        ctx.extra["selftest_nonmaximal_accepted_by_asbuilt"] = ok_a
        if ok_s or not ok_a:
            raise vlib.Inconclusive("binding self-test failed: synthetic non-most-specific resolution strict=%s asbuilt=%s" % (ok_s, ok_a))
        # and a most-specific resolution is accepted by the strict spec
        syn[-1]["res"][0]["obs"] = [dict(pat=P[2], set=eff(setting(P[2])))]
        open(p, "w").write("\n".join(json.dumps(e) for e in syn) + "\n")
        ok_s, _ = ctx.validate_trace("Trace_Settings", "Trace_Settings", p, name="selftest-syn-good")
        ctx.extra["selftest_most_specific_accepted_by_strict"] = ok_s
        if not ok_s:
            raise vlib.Inconclusive("binding self-test failed: the strict spec rejects a most-specific resolution")

    ctx.cov["rule"] = ("cases = (registered pattern set, probe name) pairs looked up on the real settings after registration in a given order, "
                       "after restarts, re-registration and deregistration; non-trivial = at least two registered patterns match the name; "
                       "distinct by (pattern set, name)")
    ctx.cov["exhaustive"] = bool(thorough)
