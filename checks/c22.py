"""C22 - SDK model save/read round-trips exactly.

spec/SdkModel.tla: a model is a sequence of fields <tag head, omitempty, type class, value token>; Encode (SDK),
Store (server: one content per treasure, a typed value wins over bytes), Decode (SDK) form a small state
machine model -> wire -> stored -> read; RoundTrip: the read model equals the saved one; TagIsolation: renaming
a body field never changes another field's result.  TLC checks the strict design over every catalog model of
<= 4 fields (key + <= 3 others; tag heads from reserved words, names CONTAINING reserved words and neutral
names) and small profile models, and must find a witness for the as-built deviations.

Binding (C): Gen_SdkModel makes TLC emit every model with the expected result and the outcome under each named
deviation; harness/cmd/sdkmodel builds the struct types at run time (reflect.StructOf, tags included), saves
and reads them through the REAL SDK against the in-process gRPC server and reports what came back as tokens.
observed = expected: held.  Otherwise the case is a known finding only if the outcome the spec computes under
that finding's deviation is exactly what was observed; anything else is a violation.
"""
import json, os, random
import vlib

DEVS = [("substr", ["D_C22_SubstringTags"]), ("nilbody", ["D_C22_NilBodyField"]),
        ("both", ["D_C22_SubstringTags", "D_C22_NilBodyField"])]
RESERVED = ["key", "value", "expireAt", "createdAt", "createdBy", "updatedAt", "updatedBy"]
SUB_TABLE = {"keywords": {"key"}, "monkey": {"key"}, "values": {"value"}, "createdAtX": {"createdAt"},
             "updatedByWho": {"updatedBy"}, "name": set(), "count": set(), "tags": set(), "when": set(), "zeta": set()}


def mc_cfg(dev, inv, spec="Spec"):
    return """SPECIFICATION %s
CONSTANTS
  Dev = %s
INVARIANTS %s
CHECK_DEADLOCK FALSE
""" % (spec, dev, inv)


def run(ctx):
    thorough = ctx.tier == "thorough"
    rng = random.Random(ctx.seed)
    ctx.assumptions += [
        "type classes: string, int64, []string, time.Time (whole seconds, UTC, far future); values: zero or one non-zero value per field, different for every field",
        "models the SDK documents as rejected are expected to fail on save: a non-omitempty zero expireAt/createdAt/updatedAt, and a profile in which every field is empty and omitempty (the server refuses an empty request)",
        "nil and empty slices are the same value; the Sub table of the spec (reserved words contained in a tag head) is cross-checked against Python's substring test",
    ]
    # the spec's containment table must be what strings.Contains says
    for h, s in SUB_TABLE.items():
        if set(w for w in RESERVED if w in h) != s:
            raise vlib.Inconclusive("Sub table wrong for %s" % h)
    binary = ctx.go_build("sdkmodel")

    # 1. the strict design round-trips every model and isolates tags; the as-built deviations do not
    env = {"MAXK3": "0"}
    r = ctx.tlc("MC_SdkModel", cfg_text=mc_cfg("{}", "RoundTrip StepsAreOutcome OneContent TagIsolation RecordsIndependent"), env=env, name="mc-strict",
                timeout=3600, coverage=thorough, workers=1)
    if not r.ok:
        raise vlib.Inconclusive("strict SdkModel spec does not satisfy its own properties: %s %s" % (r.violated, r.error))
    ctx.extra["mc_strict"] = r.summary()
    if thorough:
        if r.coverage_zero:
            ctx.extra["coverage_zero"] = r.coverage_zero[:10]
        r3 = ctx.tlc("MC_SdkModel", cfg_text=mc_cfg("{}", "RoundTrip OneContent RecordsIndependent"), env={"MAXK3": "1"}, name="mc-strict-k3", timeout=7200, workers=1)
        if not r3.ok:
            raise vlib.Inconclusive("strict SdkModel spec (4-field models) does not satisfy its own properties: %s %s" % (r3.violated, r3.error))
        ctx.extra["mc_strict_k3"] = r3.summary()
    for dev, inv in (('{"SubstringTags"}', "TagIsolation"), ('{"SubstringTags"}', "RoundTrip"), ('{"NilBodyField"}', "RoundTrip")):
        rx = ctx.tlc("MC_SdkModel", cfg_text=mc_cfg(dev, inv, "WitnessSpec"), env=env, name="mc-asbuilt-%s-%s" % (inv, dev.strip('{}"')),
                     count_states=False, timeout=3600, workers=1)
        if rx.ok or rx.violated != inv:
            raise vlib.Inconclusive("as-built SdkModel spec %s does not violate %s: %s %s" % (dev, inv, rx.violated, rx.error))
    ctx.extra["asbuilt_witnesses"] = ["SubstringTags violates TagIsolation", "SubstringTags violates RoundTrip", "NilBodyField violates RoundTrip"]

    # 2. binding C: cases with expectations from TLC
    g = ctx.tlc_expect_ok("Gen_SdkModel", workers=1, env={"MAXK3": "1" if thorough else "0"}, name="gen", count_states=False, timeout=7200)
    cases = []
    for x in g.printed:
        c = json.loads(x) if isinstance(x, str) else x
        if isinstance(c, dict) and "fields" in c:
            cases.append(c)
    if len(cases) < 5000 and not ctx.replay:
        raise vlib.Inconclusive("Gen_SdkModel produced only %d cases" % len(cases))
    for c in cases:
        if c["strict"] != c["expected"]:
            raise vlib.Inconclusive("the strict spec's outcome differs from the expectation for %s" % json.dumps(c["fields"]))
    ctx.extra["generated_models"] = len(cases)
    if ctx.replay:
        rp = json.load(open(ctx.replay))["replay"]
        want = json.dumps([rp["kind"], rp["fields"]], sort_keys=True)
        cases = [c for c in cases if json.dumps([c["kind"], c["fields"]], sort_keys=True) == want]
        if not cases:
            raise vlib.Inconclusive("the replayed model is not in the generated space")
    # every abstract case is concretised several times. A variant (0..6) picks the representatives of the KEY
    # (plain; leading / trailing blank; case + trailing tab; inner double blank; white space only; multi-byte and
    # 600 bytes long - the sibling record's key differs from it only by white space or case), of string values
    # (plain; multi-byte with NUL and '/'; 3000 bytes; leading blanks; differing only in trailing white space;
    # white space only; mixed case with inner double blank) and of the other types (ordinary; negative int /
    # pre-epoch time / slice holding ""; extreme int / the epoch itself / 300-element slice).  The expectation is
    # the same for every variant.  Small models get all 7 variants in the thorough tier, otherwise 3 rotating ones.
    abstract = cases
    cases = []
    for i, c in enumerate(abstract):
        if thorough and len(c["fields"]) <= 3:
            variants = range(7)
        else:
            variants = sorted(set((i + ctx.seed + k) % 7 for k in (0, 2, 4)))
        for variant in variants:
            d = dict(c)
            d["variant"] = variant
            d["id"] = len(cases) + 1
            cases.append(d)
    ctx.extra["runs_per_variant"] = {str(v): sum(1 for c in cases if c["variant"] == v) for v in range(7)}
    cf = os.path.join(ctx.work, "cases.json")
    json.dump([dict(id=c["id"], kind=c["kind"], variant=c["variant"], fields=c["fields"]) for c in cases], open(cf, "w"))
    rf = os.path.join(ctx.work, "results.ndjson")
    ctx.run_driver(binary, ["run", cf, rf], timeout=3600)
    res = [json.loads(l) for l in open(rf)]
    if len(res) != len(cases):
        raise vlib.Inconclusive("driver returned %d results for %d cases" % (len(res), len(cases)))
    byid = {c["id"]: c for c in cases}
    counts = dict(held=0, substr=0, nilbody=0, both=0, unexplained=0)
    reported = {}
    for x in res:
        c = byid[x["id"]]
        obs = dict(save=x["save"], read=x["read"], out=x["out"])
        # catalog models: the sibling record (saved first under a key that differs only by white space / case) must
        # read back exactly like the main record does, in its own frame
        sib = x.get("sib")
        sobs = dict(save=sib["save"], read=sib["read"], out=sib["out"]) if sib else None
        heads = [f["head"] for f in c["fields"]]
        ctx.count_case([c["kind"], c["variant"], c["fields"]], nontrivial=len(c["fields"]) >= 3 or any(h not in ("key", "name", "count", "tags", "when") for h in heads))
        if obs == c["expected"] and sobs in (None, c["expected"]):
            counts["held"] += 1
            continue
        expl = None
        for name, fids in DEVS:
            if obs == c[name] and sobs in (None, c[name]) and c[name] != c["expected"]:
                expl = (name, fids)
                break
        what = "model %s %s (variant %d): saved %s, read back save=%s read=%s out=%s (%s); sibling record (key differing only by white space/case) read back %s; expected %s for both" % (
            c["kind"], json.dumps([[f["head"] + (",omitempty" if f["om"] else ""), f["ty"]] for f in c["fields"]]), c["variant"],
            json.dumps([f["val"] for f in c["fields"]]), x["save"], x["read"], json.dumps(x["out"]), x["detail"][:120],
            json.dumps(sobs) + ((" (" + sib["detail"][:80] + ")") if sib and sib["detail"] else ""), json.dumps(c["expected"]))
        rep = dict(kind=c["kind"], fields=c["fields"], variant=c["variant"], observed=obs, sibling=sobs, detail=x["detail"])
        if expl is None:
            counts["unexplained"] += 1
            if counts["unexplained"] <= 5:          # every one is a violation; a handful of replay files is enough
                ctx.deviation(None, what, rep)
            continue
        counts[expl[0]] += 1
        for fid in expl[1]:
            n = reported.get((fid, expl[0]), 0)
            reported[(fid, expl[0])] = n + 1
            if n >= (1 if ctx.is_known(fid) else 3):
                continue
            ctx.deviation(fid, what, rep)
    ctx.cov["traces_validated_against_impl"] += len(res)
    ctx.extra["cases_run"] = len(res)
    ctx.extra["outcomes"] = counts
    for pick in ("keywords", "values", "tags"):
        for x in res:
            c = byid[x["id"]]
            if any(f["head"] == pick for f in c["fields"]) and dict(save=x["save"], read=x["read"], out=x["out"]) != c["expected"]:
                ctx.sample(dict(kind="case", model=c["kind"], fields=c["fields"], expected=c["expected"], observed=dict(save=x["save"], read=x["read"], out=x["out"]), detail=x["detail"][:160]))
                break
    ctx.sample(dict(kind="case", model=cases[len(cases) // 2]["kind"], fields=cases[len(cases) // 2]["fields"], expected=cases[len(cases) // 2]["expected"]))

    # 3. binding self-test (thorough): the driver's observation follows the model it is given - cases sent with one
    #    value flipped must no longer match the expectation computed for the original
    if thorough and not ctx.replay:
        # only models that the open findings do not touch (tag heads without a contained reserved word, no slice in
        # the body): there the flipped model round-trips as well, so its result must differ from the original's
        safe = set(RESERVED) | {"name", "count", "when"}
        good = [c for c, x in zip(cases, res) if dict(save=x["save"], read=x["read"], out=x["out"]) == c["expected"] and c["expected"]["read"] == "ok"
                and len(c["fields"]) >= 2 and c["fields"][-1]["om"] == 0 and all(f["head"] in safe for f in c["fields"])]
        pick = rng.sample(good, min(40, len(good)))
        alt = []
        for c in pick:
            fs = json.loads(json.dumps(c["fields"]))
            n = len(fs)
            fs[-1]["val"] = "z" if fs[-1]["val"] != "z" else "v%d" % n
            alt.append(dict(id=c["id"], kind=c["kind"], variant=c["variant"], fields=fs))
        af = os.path.join(ctx.work, "selftest.json")
        json.dump(alt, open(af, "w"))
        arf = os.path.join(ctx.work, "selftest.ndjson")
        ctx.run_driver(binary, ["run", af, arf], timeout=1800)
        ares = [json.loads(l) for l in open(arf)]
        same = [x["id"] for x in ares if dict(save=x["save"], read=x["read"], out=x["out"]) == byid[x["id"]]["expected"]
                and (not x.get("sib") or dict(save=x["sib"]["save"], read=x["sib"]["read"], out=x["sib"]["out"]) == byid[x["id"]]["expected"])]
        ctx.extra["selftest_flipped_cases"] = len(ares)
        ctx.extra["selftest_flipped_cases_detected"] = len(ares) - len(same)
        # a flipped time slot may legitimately turn into a documented rejection, which still differs from the expectation
        if same:
            raise vlib.Inconclusive("binding self-test failed: %d flipped cases still matched the original expectation" % len(same))

    ctx.cov["rule"] = ("cases = models enumerated by TLC (tag heads x omitempty x type x zero/non-zero values), each concretised with 3-7 variants of key / string / other values (white space, case, multi-byte, long, boundary values) and, for catalogs, a sibling record whose key differs only by white space or case, built with reflect.StructOf, saved and read through the real SDK; "
                       "non-trivial = at least 2 non-key fields or a tag head that is reserved or contains a reserved word; distinct by (kind, value variant, fields)")
    ctx.cov["exhaustive"] = True
