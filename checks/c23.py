"""C23 - V1 to V2 migration preserves exactly the loadable data.

spec/Migration.tla: the legacy folder as chunk files of records (key, value, shadow-deleted flag) built by the
legacy engine's own operations (new / modify / shadow delete / real delete, chunk roll-over, a chunk may be
damaged), a leftover file at the target path, and one migration Start(cfg) ; Load ; (Empty | Write ; Verify? ;
Delete?) with a fault possible at every step. TLC checks Preserves (the new file loads to exactly what the legacy
engine loads, values and deleted flags included, name kept), LegacyIntactOnFailure and NoEarlyDelete exhaustively.
Binding (B)+(A): the REAL legacy chronicler writes real folders from seeded histories (small chunk sizes), one chunk
file is optionally damaged, the REAL migrator runs with every combination of verify / delete-old and with an I/O
error or short write injected at every file operation of the new file (FileOp hook), its phase hooks are recorded
as a trace, the legacy folder is compared byte by byte with its snapshot, the new file is loaded by the real V2
chronicler and compared with what the real legacy engine loaded before; TLC validates every trace.
"""
import json, os, random
import vlib

DEV = "StaleTargetAppend"
FID = "D_C23_StaleTargetAppend"
INV = "INVARIANTS Preserves LegacyIntactOnFailure NoEarlyDelete"


def mc_cfg(maxops, dev):
    return """SPECIFICATION Spec
CONSTANTS
  Keys = {1, 2, 3}
  Vals = {1, 2}
  ChunkCap = 2
  Dev = %s
  MaxOps = %d
  StaleTargets <- MCStaleTargets
CONSTRAINT Bounded
VIEW view
%s
CHECK_DEADLOCK FALSE
""" % ('{"%s"}' % dev if dev else "{}", maxops, INV)


def history(rng, n):
    ops, present = [], set()
    for _ in range(n):
        k = rng.randint(1, 9)
        if k not in present:
            ops.append(dict(op="new", k=k, v=rng.randint(1, 50)))
            present.add(k)
        else:
            op = rng.choice(["modify", "modify", "shadow", "delete"])
            ops.append(dict(op=op, k=k, v=rng.randint(51, 99)))
            if op == "delete":
                present.discard(k)
    return ops


def accepted(ctx, tfile, dev, name):
    ok, r = ctx.validate_trace("Trace_Migration", "Trace_Migration", tfile, dev=dev, name=name, timeout=1500)
    if not ok:
        raise vlib.Inconclusive("trace validation run %s did not complete: %s %s" % (name, r.violated, (r.error or "")[:500]))
    acc = set()
    for ln in r.printed:
        try:
            o = json.loads(ln) if isinstance(ln, str) else ln
            if isinstance(o, dict) and "ok" in o:
                acc.add(o["ok"])
        except Exception:
            pass
    return acc


def run(ctx):
    thorough = ctx.tier == "thorough"
    rng = random.Random(ctx.seed * 15485863 + 23)
    ctx.assumptions += [
        "\"what the legacy engine would load\" is what the real legacy chronicler loads from the folder right before the migration",
        "legacy histories are kept free of duplicate keys: a record whose file pointer the legacy writer failed to announce gets it the way a reload would (the legacy writer's lost file pointer is not this property's subject)",
        "a damaged chunk is classified by what the real legacy load makes of it (chunk skipped / everything refused / no effect); damages that alter records undetected are skipped and counted",
        "a read fault during the migration is a chunk file replaced, for the duration of Run(), by a symbolic link that cannot be followed (dangling or looping); the reference stays the legacy load taken before",
        "write faults are I/O errors or short writes at single file operations of the new file (FileOp hook); faults while deleting the legacy files cannot be injected (os.Remove is not hooked)",
    ]
    binary = ctx.go_build("migration")
    r = ctx.tlc("MC_Migration", cfg_text=mc_cfg(9 if thorough else 7, None), name="mc-strict", coverage=thorough, timeout=3000)
    if not r.ok:
        raise vlib.Inconclusive("strict Migration spec violates its own properties: %s %s" % (r.violated, (r.error or "")[:500]))
    ctx.extra["mc_strict"] = r.summary()
    if thorough and r.coverage_zero:
        ctx.extra["coverage_zero"] = r.coverage_zero[:10]
    r2 = ctx.tlc("MC_Migration", cfg_text=mc_cfg(6, DEV), name="mc-asbuilt-witness", count_states=False)
    if r2.ok or r2.violated != "Preserves":
        raise vlib.Inconclusive("as-built Migration spec does not violate Preserves: %s %s" % (r2.violated, (r2.error or "")[:300]))
    ctx.extra["asbuilt_witness_violates"] = r2.violated

    scs = []
    names = [["verif", "c23", "swamp"], ["szentély", "birodalom", "mocsár-測試"], ["a", "b", "c/with/slashes"]]

    def add(**kw):
        sc = dict(ops=history(rng, rng.randint(3, 18)), batch=rng.choice([1, 2, 3, 8]), chunk=rng.choice([40, 60, 120, 400, 100000]),
                  pad=rng.choice([0, 10, 200]), name=rng.choice(names), verify=rng.random() < 0.5, delete_old=rng.random() < 0.6,
                  parallel=rng.choice([1, 4]), damage="", stale="", read_fault="", fail_at=-1, short=False, seed=rng.randint(1, 2 ** 31))
        sc.update(kw)
        sc["id"] = len(scs) + 1
        scs.append(sc)

    if ctx.replay:
        scs = [json.load(open(ctx.replay))["replay"]["scenario"]]
        scs[0]["id"] = 1
    else:
        # the committed witnesses of the known finding
        w = [dict(op="new", k=k, v=k) for k in (1, 2, 3)]
        add(ops=w, stale="whole", verify=True, delete_old=True)
        add(ops=w, stale="torn", verify=False, delete_old=True)
        add(ops=w, stale="torn", verify=True, delete_old=True)      # the only way verification fails: legacy must survive
        add(ops=[], stale="whole", verify=True, delete_old=True)    # nothing to migrate, but a leftover lies at the target
        for _ in range(40 if thorough else 8):       # plain migrations, every configuration
            add()
        add(ops=[dict(op="new", k=1, v=1), dict(op="delete", k=1, v=0)])     # a folder without records
        for _ in range(30 if thorough else 6):       # write faults at every operation of the new file
            base = dict(ops=history(rng, rng.randint(3, 12)), batch=2, chunk=rng.choice([60, 400]), pad=rng.choice([0, 200]),
                        name=rng.choice(names), seed=rng.randint(1, 2 ** 31))
            for k in range(0, 14):
                add(fail_at=k, short=rng.random() < 0.5, verify=rng.random() < 0.4, delete_old=True, **base)
        for _ in range(60 if thorough else 10):      # damaged chunks
            add(damage=rng.choice(["truncate0", "truncate", "bitflip", "garbage"]))
        for _ in range(40 if thorough else 8):       # a chunk that cannot be read while the migrator runs
            add(read_fault=rng.choice(["dangling", "loop"]), verify=rng.random() < 0.5, delete_old=rng.random() < 0.7)
        add(ops=[dict(op="new", k=k, v=k) for k in range(1, 8)], chunk=60, batch=2, read_fault="dangling", verify=True, delete_old=True)
        for _ in range(12 if thorough else 3):       # leftover target files
            add(stale=rng.choice(["whole", "torn"]))
    sf, tf, rf = [os.path.join(ctx.work, x) for x in ("scenarios.json", "trace.ndjson", "results.ndjson")]
    json.dump(scs, open(sf, "w"))
    ctx.run_driver(binary, ["run", sf, tf, rf], timeout=3000)
    results = {}
    for ln in open(rf):
        o = json.loads(ln)
        results[o["id"]] = o
    if set(results) != {s["id"] for s in scs}:
        raise vlib.Inconclusive("driver returned %d results for %d scenarios" % (len(results), len(scs)))
    strict_ok = accepted(ctx, tf, "", "trace-strict")
    live = [s for s in scs if not results[s["id"]].get("skip")]
    asbuilt_ok = accepted(ctx, tf, DEV, "trace-asbuilt") if len(strict_ok) < len(live) else set()
    nknown = nskip = lost = 0
    for sc in scs:
        res = results[sc["id"]]
        if res.get("notes"):
            raise vlib.Inconclusive("driver problem in scenario %d: %s" % (sc["id"], res["notes"]))
        lost += res.get("lost_pointers", 0)
        if res.get("skip"):
            nskip += 1
            continue
        key = [sc["ops"], sc["chunk"], sc["batch"], sc["verify"], sc["delete_old"], sc["damage"], sc["stale"], sc.get("read_fault", ""), sc["fail_at"], sc["short"]]
        ctx.count_case(key, nontrivial=bool(sc["damage"] or sc["stale"] or sc.get("read_fault") or sc["fail_at"] >= 0 or len(sc["ops"]) >= 4))
        ctx.cov["traces_validated_against_impl"] += 1
        if sc["id"] in strict_ok:
            continue
        what = "migration (verify=%s, delete-old=%s, write fault at op %s%s, read fault=%r, damage=%r, leftover target=%r) of history %s: trace rejected by the strict spec; %s" % (
            sc["verify"], sc["delete_old"], sc["fail_at"], " short" if sc["short"] else "", sc.get("read_fault", ""), sc["damage"], sc["stale"],
            json.dumps([[o["op"], o["k"], o["v"]] for o in sc["ops"]]), "; ".join((res.get("wrong") or ["(see trace)"])[:2]))
        if sc["id"] in asbuilt_ok:
            nknown += 1
            ctx.deviation(FID, what, dict(kind="scenario", scenario=sc))
        else:
            ctx.deviation(None, what + " - not explained by " + DEV, dict(kind="scenario", scenario=sc))
    ctx.cov["evaluations"] += len(scs)
    ctx.extra.update(scenarios=len(scs), skipped_unclassifiable_damage=nskip, scenarios_accepted_by_strict=len(strict_ok),
                     scenarios_known_finding=nknown, legacy_file_pointers_restored=lost,
                     trace_lines=sum(1 for _ in open(tf)))
    ctx.sample(dict(kind="scenario", scenario=scs[0]))
    ctx.sample(dict(kind="scenario", scenario=scs[min(len(scs) - 1, 12)]))

    if thorough and not ctx.replay:
        lines = open(tf).read().splitlines()
        seg, start = None, 0
        for i, l in enumerate(lines):
            if '"ev":"setup"' in l:
                start = i
            if '"ev":"done"' in l and json.loads(l)["id"] in strict_ok and any('"ev":"written"' in x for x in lines[start:i]):
                seg = lines[start:i + 1]
                break
        if seg:
            sid = json.loads(seg[-1])["id"]
            bad1 = list(seg)
            for j, x in enumerate(bad1):
                if '"ev":"end"' in x:
                    e = json.loads(x)
                    if e["v2"]:
                        e["v2"][0][1] += 1
                    else:
                        e["v2_ex"] = not e["v2_ex"]
                    bad1[j] = json.dumps(e, separators=(",", ":"))
            bad2 = [x for x in seg if '"ev":"written"' not in x]
            for tag, bad in (("falsified", bad1), ("dropped", bad2)):
                p = os.path.join(ctx.work, "selftest-%s.ndjson" % tag)
                open(p, "w").write("\n".join(bad) + "\n")
                acc = accepted(ctx, p, "", "selftest-" + tag)
                ctx.extra["selftest_%s_rejected" % tag] = sid not in acc
                if sid in acc:
                    raise vlib.Inconclusive("binding self-test failed: %s trace was accepted" % tag)
    ctx.cov["rule"] = ("cases = migrations of real legacy folders (seeded histories through the real legacy chronicler) by the real migrator, "
                       "with configuration, write-fault placement, chunk damage and leftover target file varied, validated by TLC; "
                       "non-trivial = a fault/damage/leftover is present or the history has >= 4 operations; distinct by all scenario parameters")
    ctx.cov["exhaustive"] = True
