"""C24 - Compression round-trips and never hides corruption.

spec/Codec.tla is the two-line codec contract (round trip; a damaged form decodes to an error or the original),
model-checked as a tiny session machine. harness/cmd/codec evaluates seeded inputs (incl. empty) x 4 algorithms x
damages of the compressed form, plus large inputs around typical internal limits (64 KiB .. 32 MiB, 8 MiB +-1,
compressible and incompressible; every run has an input above 16 MiB per algorithm; bit flips incl. every bit of the first/last bytes, byte substitutions, runs,
zero fills, truncations incl. to nothing, appended bytes, swapped halves, garbage) on the real compressor in child
processes (a dying or hanging child is an outcome), aggregates outcome classes, and TLC judges every class with
the spec's own Decompress guard (Trace_Codec). Classes the strict contract forbids are known findings only if one
named deviation explains exactly that class. Claimed level: exploration (the spec contributes the contract and
the oracle, the inputs are sampled).
"""
import json, os
import vlib

FIDS = {"GzipNilNil": "D_C24_GzipNilNil", "SnappyNoChecksum": "D_C24_SnappyNoChecksum",
        "Lz4EofUnchecked": "D_C24_Lz4EofUnchecked", "ZstdEmptyIsValid": "D_C24_ZstdEmptyIsValid"}


def mc_cfg(dev):
    return """SPECIFICATION Spec
CONSTANTS
  Algs = {"gzip", "lz4", "snappy", "zstd"}
  Dev = %s
INVARIANTS RoundTrip NoHiddenCorruption
CHECK_DEADLOCK FALSE
""" % ("{%s}" % ", ".join('"%s"' % d for d in dev))


def run(ctx):
    thorough = ctx.tier == "thorough"
    ctx.level = "exploration"
    ctx.assumptions += [
        "the spec is only the codec contract; the compression algorithms themselves are not modelled",
        "an empty output for an empty input counts as the original, whether nil or an empty slice",
        "cases run in child processes; a child that dies or makes no progress for two minutes is the outcome died/hung of the case it was evaluating",
    ]
    binary = ctx.go_build("codec")
    r = ctx.tlc("MC_Codec", cfg_text=mc_cfg([]), name="mc-strict", workers=1)
    if not r.ok:
        raise vlib.Inconclusive("strict Codec spec violates its contract: %s %s" % (r.violated, (r.error or "")[:300]))
    r2 = ctx.tlc("MC_Codec", cfg_text=mc_cfg(sorted(FIDS)), name="mc-asbuilt-witness", workers=1, count_states=False)
    if r2.ok:
        raise vlib.Inconclusive("as-built Codec spec satisfies the contract: deviations are vacuous")
    ctx.extra["asbuilt_witness_violates"] = r2.violated

    cf, sf = os.path.join(ctx.work, "classes.ndjson"), os.path.join(ctx.work, "summary.json")
    env = None
    if ctx.replay:
        rp = json.load(open(ctx.replay))["replay"]
        env = {"VERIF_SEED": str(rp.get("seed", ctx.seed)), "VERIF_TIER": rp.get("tier", ctx.tier)}
    ctx.run_driver(binary, ["run", cf, sf], timeout=6000, env=env)
    summary = json.load(open(sf))
    classes = [json.loads(l) for l in open(cf)]
    if summary.get("compress_failed"):
        raise vlib.Inconclusive("Compress returned an error for %d inputs" % summary["compress_failed"])
    ok, rt = ctx.validate_trace("Trace_Codec", "Trace_Codec", cf, name="trace-classes", dfs=False)
    if not ok:
        raise vlib.Inconclusive("class validation did not complete: %s %s" % (rt.violated, (rt.error or "")[:400]))
    verdicts = {}
    for ln in rt.printed:
        try:
            o = json.loads(ln) if isinstance(ln, str) else ln
        except Exception:
            continue
        if isinstance(o, dict) and "line" in o:
            verdicts[o["line"]] = o
    if len(verdicts) != len(classes):
        raise vlib.Inconclusive("TLC judged %d of %d classes" % (len(verdicts), len(classes)))
    nbad = 0
    per_dev = {}
    for i, c in enumerate(classes, 1):
        v = verdicts[i]
        ctx.cov["traces_validated_against_impl"] += 1
        if v["ok"]:
            continue
        if c["outcome"] == "hung":
            # no progress for three minutes, and not within 15 more minutes on its own: a time-out, never a violation
            raise vlib.Inconclusive("%s: a decompression of a damaged form did not finish (kind=%s, example %s)" % (c["alg"], c["kind"], c["example"]))
        nbad += 1
        ex = c["example"]
        what = "%s: %s of the compressed form (damaged=%s) of a %d-byte input decodes to outcome '%s' in %d cases (e.g. kind=%s pos=%d len=%d val=%d on the %d-byte compressed form of input #%d)" % (
            c["alg"], c["kind"], c["damaged"], c["input_len"], c["outcome"], c["count"], ex["Kind"], ex["Pos"], ex["Len"], ex["Val"], c["comp_len"], ex["Input"])
        devs = v.get("devs") or []
        fid = FIDS.get(devs[0]) if len(devs) >= 1 else None
        if fid:
            per_dev[fid] = per_dev.get(fid, 0) + c["count"]
        ctx.deviation(fid, what, dict(kind="class", cls=c, seed=ctx.seed, tier=ctx.tier))
    # binding self-test: fabricated classes must be judged correctly, and a worker death must surface as an outcome
    if thorough and not ctx.replay:
        fake = [dict(alg="zstd", kind="bitflip", damaged=True, xempty=False, outcome="different", count=1),
                dict(alg="gzip", kind="none", damaged=False, xempty=False, outcome="empty", count=1),
                dict(alg="lz4", kind="truncate", damaged=True, xempty=False, outcome="died", count=1),
                dict(alg="snappy", kind="bitflip", damaged=True, xempty=False, outcome="err", count=1)]
        ff = os.path.join(ctx.work, "selftest.ndjson")
        open(ff, "w").write("".join(json.dumps(c) + "\n" for c in fake))
        ok2, rs = ctx.validate_trace("Trace_Codec", "Trace_Codec", ff, name="selftest-classes", dfs=False)
        got = {}
        for ln in rs.printed:
            try:
                o = json.loads(ln) if isinstance(ln, str) else ln
                got[o["line"]] = (o["ok"], o["devs"])
            except Exception:
                pass
        good = got.get(1) == (False, []) and got.get(2) == (False, []) and got.get(3) == (False, []) and got.get(4, (False,))[0] is True
        ctx.extra["selftest_fabricated_classes_judged"] = good
        if not good:
            raise vlib.Inconclusive("binding self-test failed: fabricated classes judged %s" % got)
        cf2, sf2 = os.path.join(ctx.work, "classes-die.ndjson"), os.path.join(ctx.work, "summary-die.json")
        ctx.run_driver(binary, ["run", cf2, sf2], timeout=6000, env={"VERIF_TIER": "quick", "VERIF_CODEC_DIE_AT": "37"})
        died = [json.loads(l) for l in open(cf2) if '"died"' in l]
        ctx.extra["selftest_worker_death_reported"] = (len(died) == 1 and died[0]["count"] == 1)
        if not ctx.extra["selftest_worker_death_reported"]:
            raise vlib.Inconclusive("binding self-test failed: a killed worker did not surface as outcome 'died'")
    ctx.cov["evaluations"] = summary["cases"]
    ctx.cov["distinct_nontrivial"] = summary["distinct_damaged"]
    ctx.extra.update(large_input_cases=summary.get("large_input_cases", 0), large_input_bytes=summary.get("large_input_bytes", 0),
                     inputs=summary["inputs"], outcome_classes=len(classes), classes_outside_strict_contract=nbad,
                     cases_per_known_finding=per_dev, worker_deaths=summary["worker_deaths"], slow_cases_retried=summary.get("slow_cases_retried", 0))
    for c in classes[:3] + [c for i, c in enumerate(classes, 1) if not verdicts[i]["ok"]][:3]:
        ctx.sample(dict(kind="outcome class", cls=c))
    ctx.cov["rule"] = ("cases = (algorithm, seeded input, damage of its compressed form) evaluated on the real compressor and classified; "
                       "non-trivial = the damage really changed the bytes; distinct by (algorithm, input, damage kind, position, length, value); "
                       "TLC judges each aggregated outcome class with the Codec contract")
    ctx.cov["exhaustive"] = False
