"""C25 - Disk write failures never corrupt durable data.

spec/HydFile.tla with Fault(mode): at any file operation of a call (create, header, name, truncate, block
header, block payload, in-place header rewrite, fsync) the operation fails with nothing written ("err") or after
a short write ("short"); the call returns the error.  TLC checks the strict design exhaustively for every single
and double fault placement: DurableReadable (the file never becomes unreadable), AlwaysRecoverable (it always
shows a flush boundary at or after the last sync) and Consistent (LaterWritesRecoverable / NoHiding: after the
fault, file + buffer is exactly the map of the accepted writes).

Binding (B -> A): the verif FileOp hook injects the fault into the real v2.FileWriter and the real chronicler (it
performs the short write on the *os.File itself, then returns the error): every single placement (operation x
mode) and all / a seeded sample of double placements for seeded histories, including a chronicler history that
reaches the inline compaction (faults on the temporary file and the rename).  Each faulted execution - API results,
the operation hit, every LoadIndex / chronicler Load, later writes with the fault cleared - is a trace validated by
TLC: the strict spec must explain it, otherwise exactly the as-built deviations of the open findings.
"""
import concurrent.futures, json, os
import vlib
import hydcommon as hc

FAMS = [("D_C25_PartialBlockHides", ["PartialBlockHides", "AppendAfterTorn", "TornTailFails"]),
        ("D_C25_BufferDroppedOnError", ["BufferDroppedOnError"]),
        ("D_C25_HeaderFaultMisplaces", ["HeaderFaultMisplaces"]),
        ("D_C25_CloseFaultWedges", ["CloseFaultWedges"]),
        ("D_C25_FailedCreateBlocks", ["TornCreate", "WriteErrorsSkipped"])]


def run(ctx):
    thorough = ctx.tier == "thorough"
    ctx.assumptions += [
        "fault model of the property: one file operation fails with an error, either before any byte is written or after a short write (the hook writes the first half of the buffer); the fault then clears",
        "a failed Close is retried once by the owner before the writer is given up (new FileWriter / new or same chronicler object)",
        "as built, a load behind appended garbage takes arbitrary bytes for a block header and allocates up to 4 GiB: when the harness sees such a header it runs the real load in a child process limited to 1.5 GiB of address space and counts its out-of-memory death as a failed load",
        "compaction itself is not modelled: a fault inside the temporary file must leave the logical state unchanged (C03 owns compaction)",
    ]
    binary = ctx.go_build("hydfile")
    fams = hc.families_of(ctx, FAMS)

    if ctx.replay:
        rp = json.load(open(ctx.replay))["replay"]
        ctx.tlc_expect_ok("MC_HydFile", cfg_text=hc.mc_cfg(2, 3, maxfault=1), workers=8, deadlock=False, name="mc-strict-small", timeout=3600)
        cfgs = [dict(seed=1, mode="fault", level="both", replay=rp["history"], idbase=0)]
    else:
        # 1. the strict design satisfies the property for every single and double fault placement (exhaustive)
        mw, mc = (3, 4) if thorough else (2, 4)
        r = ctx.tlc("MC_HydFile", cfg_text=hc.mc_cfg(mw, mc, maxfault=2), workers=16, deadlock=False, name="mc-strict-faults",
                    timeout=10800, coverage=thorough)
        if not r.ok:
            raise vlib.Inconclusive("strict HydFile spec violates %s under write faults: %s\n%s" % (r.violated, r.error, r.out[-2000:]))
        ctx.extra["mc_strict_faults"] = r.summary()
        if thorough and r.coverage_zero:
            ctx.extra["coverage_zero"] = r.coverage_zero[:12]
        r = ctx.tlc("MC_HydFile", cfg_text=hc.mc_cfg(4 if thorough else 3, 4, maxfault=1, named=False), workers=16, deadlock=False,
                    name="mc-strict-1fault", timeout=10800)
        if not r.ok:
            raise vlib.Inconclusive("strict HydFile spec violates %s under one write fault: %s\n%s" % (r.violated, r.error, r.out[-2000:]))
        r = ctx.tlc("MC_HydFile", cfg_text=hc.mc_cfg(2, 3, maxfault=1, maxcrash=1), workers=16, deadlock=False,
                    name="mc-strict-fault-crash", timeout=10800)
        if not r.ok:
            raise vlib.Inconclusive("strict HydFile spec violates %s with a fault and a crash: %s\n%s" % (r.violated, r.error, r.out[-2000:]))
        wit = {}
        for dev in ("PartialBlockHides", "BufferDroppedOnError", "HeaderFaultMisplaces", "CloseFaultWedges"):
            rw = ctx.tlc("MC_HydFile", cfg_text=hc.mc_cfg(2, 4, dev=[dev], maxfault=1), workers=4, deadlock=False,
                         name="mc-asbuilt-" + dev, count_states=False, timeout=3600)
            if rw.ok or not rw.violated:
                raise vlib.Inconclusive("as-built HydFile spec with %s satisfies every invariant: vacuous (%s)" % (dev, rw.error))
            wit[dev] = rw.violated
        ctx.extra["asbuilt_witness_violates"] = wit
        if thorough:
            cfgs = [dict(seed=ctx.seed * 104729 + i, mode="fault", level="fw" if i % 2 == 0 else "ch", count=1, maxops=10, bad=0,
                         faults=2, maxplace=(100000 if i < 2 else 300), idbase=i * 10) for i in range(6)]
        else:
            cfgs = [dict(seed=ctx.seed * 104729 + i, mode="fault", level="fw" if i % 2 == 0 else "ch", count=1, maxops=5, bad=0,
                         faults=2, maxplace=25, idbase=i * 10) for i in range(2)]
        cfgs.append(dict(seed=ctx.seed, mode="fault", compact=True, count=1, faults=1, idbase=900))

    # 2. every fault placement on the real code, several driver processes in parallel
    def one(i_cfg):
        i, cfg = i_cfg
        return hc.run_driver(ctx, binary, cfg, "fault-%d" % i, timeout=14400)
    with concurrent.futures.ThreadPoolExecutor(max_workers=len(cfgs)) as ex:
        outs = list(ex.map(one, enumerate(cfgs)))
    tf = os.path.join(ctx.work, "fault-all.ndjson")
    hists, stats = [], {}
    with open(tf, "w") as out:
        for t1, h1, st in outs:
            out.write(open(t1).read())
            os.remove(t1)
            hists += h1
            for k, v in st.items():
                stats[k] = stats.get(k, 0) + v
    ctx.extra["driver"] = stats
    res, blocks, st = hc.classify(ctx, tf, fams, "fault", pairs=thorough)
    n = hc.report(ctx, res, blocks, hists, "fault", "faulted execution", dict(mode="fault"))
    ctx.extra["units"] = n
    ctx.extra["trace"] = st
    ctx.cov["traces_validated_against_impl"] += st["histories"]
    byid = {h["id"]: h for h in hists}
    byplace = {}
    for u, v in res.items():
        h = byid[u[1]]
        fs = h.get("faults") or []
        kinds = []
        for line in blocks[u[1]]:
            e = json.loads(line)
            if e.get("fk"):
                kinds.append("%s/%s" % (e["fk"], e["fm"]))
            if e.get("xf"):
                kinds.append(e["xf"])
        key = "+".join(kinds) if kinds else ("no fault hit" if fs else "no fault")
        verdict = v if v == "strict" else ("+".join(sorted(x.replace("D_C25_", "") for x in v)) if v else "UNEXPLAINED")
        byplace.setdefault(key, {}).setdefault(verdict, 0)
        byplace[key][verdict] += 1
        ctx.count_case([h["level"], h["block"], h["keys"], h["payloads"], h["steps"], fs], nontrivial=len(kinds) >= 1)
        if len(fs) == 2 and len(kinds) == 2 and len(ctx.cov["samples"]) < 2:
            ctx.sample(dict(kind="double fault on the real code", level=h["level"], faults=fs, hit=kinds, verdict=verdict,
                            lines=[{k: x for k, x in json.loads(l).items() if k in ("ev", "op", "k", "v", "res", "fk", "fm", "err", "m", "fl")}
                                   for l in blocks[u[1]][1:14]]))
    ctx.extra["placements_by_operation"] = byplace
    if not any(k.startswith("x-") or "+x-" in k for k in byplace) and not ctx.replay:
        raise vlib.Inconclusive("no fault was placed on the compaction's temporary file")

    # 3. binding self-test (thorough): a faulted trace in which a durable record disappears must be rejected
    if thorough and not ctx.replay:
        pick = None
        for u, v in res.items():
            if v != "strict" or not byid[u[1]].get("faults"):
                continue
            lines = blocks[u[1]]
            loads = [i for i, x in enumerate(lines) if '"ev":"load"' in x and any(json.loads(x)["m"])]
            if loads:
                pick = (u[1], loads[-1])
                break
        if pick:
            hid, li = pick
            lines = list(blocks[hid])
            e = json.loads(lines[li])
            i = max(k for k, x in enumerate(e["m"]) if x)
            e["m"][i] = 0
            lines[li] = json.dumps(e) + "\n"
            p = os.path.join(ctx.work, "selftest.ndjson")
            hc.write_blocks(p, {hid: lines})
            _, acc = hc.validate(ctx, p, (), "selftest-corrupt")
            ctx.extra["selftest_corrupt_rejected"] = ("h", hid) not in acc
            if ("h", hid) in acc:
                raise vlib.Inconclusive("binding self-test failed: a faulted trace with a lost record was accepted")
    ctx.cov["rule"] = ("cases = executions of a seeded history on the real FileWriter / chronicler with one or two injected write faults "
                       "(every single placement, all or a seeded sample of double placements), validated line by line by TLC; "
                       "non-trivial = at least one fault actually hit an operation")
    ctx.cov["exhaustive"] = True
