"""C26 - Malformed requests fail cleanly without side effects.

spec/Malformed.tla: the request alphabet RPC x malformed shape x pre-state over the handler skeleton every gateway RPC
follows (system lock, name validation, summon + vigil, body, unwind, reply, graceful stop), with the property
CleanFailure (outcome is an error status or a deliberate answer - never "OK after a swallowed panic", never a dead
process; no side effect on an error or from a read-only RPC; lock and vigil counters return to zero; the server can
stop).  TLC checks it exhaustively and generates the cases (MC_Malformed, RPC table read from the protobuf
descriptors) with the outcome classes the strict design allows.  Binding: harness/cmd/malformed builds every case by
reflection and sends it through the REAL in-process gRPC server and client (only wire-reachable shapes), in child
processes, and reports per case: outcome class, panic swallowed or not, dump before/after, system lock, vigils,
graceful stop within the watchdog, reload of the data directory by a fresh process.
A disagreement is a KNOWN-FINDING only when its very (RPC, shape) pair is committed in findings/C26.json.
"""
import json, os, random
import vlib

F_PANIC = "D_C26_PanicSwallowedAsEmptyOK"
F_FROM = "D_C26_NegativeFromPanicsAsEmptyOK"
F_DEAD = "D_C26_UnrecoveredPanicKillsServer"
F_CREATES = "D_C26_ErrorCreatesSwamp"
F_ZERO = "D_C26_TruncatedToZeroLostOnReload"

BUILTIN_PAIRS = [dict(rpc="GetLike", shape="name_one", kind="panic_ok"), dict(rpc="BulkLike", shape="name_two", kind="dead"),
                 dict(rpc="RegisterLike", shape="max_ints", kind="dead"), dict(rpc="StreamLike", shape="neg_from", kind="wedge"),
                 dict(rpc="NoName", shape="valid", kind="creates")]


def judge(case, res, known):
    """Compare one observed result with what the strict spec allows for the case.
    Returns a list of (finding_id_or_None, text)."""
    out = []
    pair = (case["rpc"], case["shape"])
    tag = "%s / %s / swamp %s" % (case["rpc"], case["shape"], case["pre"])
    o = res["outcome"]
    if o in ("notapplicable", "unsendable"):
        return out
    if o not in case["allowed"]:
        if o == "panic_ok":
            fid = F_PANIC if pair in known["panic_name"] else (F_FROM if pair in known["panic_from"] else None)
            out.append((fid, "%s: the handler panicked (%s), the recovery returned (nil, nil) and the client saw OK with an empty response"
                        % (tag, res.get("panic", "")[:120])))
        elif o == "dead":
            out.append((F_DEAD if pair in known["dead"] else None,
                        "%s: the server process died (%s)" % (tag, (res.get("crash") or "")[:160].replace("\n", " "))))
        else:
            out.append((None, "%s: outcome %s is not one of %s" % (tag, o, case["allowed"])))
    if o == "dead":
        return out
    if res.get("wedged"):
        # whatever the outcome of the case itself (also a listed finding): the swamp it addressed must stay usable
        out.append((None, "%s (outcome %s): afterwards the swamp no longer serves ordinary requests: %s" % (tag, o, res["wedged"][:500])))
    if res.get("locked"):
        out.append((None, "%s: the safeops system lock is still held after the reply" % tag))
    if res.get("vigil"):
        out.append((None, "%s: a vigil is still active on the swamp after the reply" % tag))
    changed = not res.get("same", True)
    if changed and (o == "error" or not case["maychange"]):
        creates = case["rpc"] in known["creates"] and case["pre"] == "missing"
        out.append((F_CREATES if creates else None,
                    "%s: the stored data differ after %s" % (tag, "a failed request (%s)" % res.get("code") if o == "error" else "a read-only request")))
    if not res.get("stopok", True):
        out.append((None, "%s: graceful stop of the server did not complete afterwards" % tag))
    if not res.get("reloadok", True) and not case["shape"].startswith("island_"):
        out.append((F_ZERO if pair in known["zero"] else None, "%s: a fresh process does not read back the data the server reported before it stopped" % tag))
    return out


def run(ctx):
    thorough = ctx.tier == "thorough"
    rng = random.Random(ctx.seed * 7919 + 26)
    ctx.assumptions += [
        "requests are judged only in wire form (built by reflection, sent through the in-process gRPC client and server of harness/rig); the server's interceptors (telemetry, shutdown gate) are not in the path",
        "a swallowed handler panic is observed through the gateway's own log record ('grpc gateway panic'), captured by the child process",
        "IslandID is routing information chosen by the client: a write with another island id lands in that island's folder, so the reload comparison (done with island 1) is not judged for the island_* shapes",
        "a four-part name is accepted as its first three parts (name.Load) - treated as an answer, not judged",
        "watchdogs: a request that does not return within 60 s and a graceful stop that does not return within 90 s count as 'the server cannot answer / cannot stop' (requests normally take milliseconds)",
    ]
    binary = ctx.go_build("malformed")
    rpcs = os.path.join(ctx.work, "rpcs.json")
    ctx.run_driver(binary, ["rpcs", rpcs], timeout=300)
    table = json.load(open(rpcs))
    ctx.extra["rpcs"] = len(table)

    fnd = ctx.open_findings()
    known = dict(panic_name=set(), panic_from=set(), dead=set(), creates=set(), zero=set())
    for p in fnd.get(F_ZERO, {}).get("pairs", []):
        known["zero"].add(tuple(p))
    pairs = []
    for fid, key, kind in ((F_PANIC, "panic_name", "panic_ok"), (F_FROM, "panic_from", "panic_ok"), (F_DEAD, "dead", "dead")):
        for p in fnd.get(fid, {}).get("pairs", []):
            known[key].add(tuple(p))
            pairs.append(dict(rpc=p[0], shape=p[1], kind=kind))
    for r_ in fnd.get(F_CREATES, {}).get("rpcs", []):
        known["creates"].add(r_)
        pairs.append(dict(rpc=r_, shape="valid", kind="creates"))
    pf = os.path.join(ctx.work, "pairs.json")
    json.dump(pairs, open(pf, "w"))
    bpf = os.path.join(ctx.work, "pairs-builtin.json")
    json.dump(BUILTIN_PAIRS, open(bpf, "w"))

    # 1. the design: exhaustive over the small built-in table (quick) / the full real table (thorough)
    r = ctx.tlc("MC_Malformed", cfg="MC_Malformed", name="mc-strict-builtin", workers=4, timeout=1800)
    if not r.ok:
        raise vlib.Inconclusive("strict Malformed design violates CleanFailure (built-in table): %s %s" % (r.violated, r.error))
    ctx.extra["mc_strict_builtin"] = r.summary()
    r = ctx.tlc("MC_Malformed", cfg="MC_Malformed", name="mc-asbuilt-builtin", workers=4, timeout=1800, env={"PAIRS_FILE": bpf},
                count_states=False)
    if r.ok:
        raise vlib.Inconclusive("as-built Malformed (built-in deviations) satisfies every property: vacuous")
    ctx.extra["mc_asbuilt_builtin_violates"] = r.violated
    if thorough:
        r = ctx.tlc("MC_Malformed", cfg="MC_Malformed", name="mc-strict-table", workers=8, timeout=3000, env={"RPC_FILE": rpcs},
                    coverage=False)
        if not r.ok:
            raise vlib.Inconclusive("strict Malformed design violates CleanFailure (real RPC table): %s %s" % (r.violated, r.error))
        ctx.extra["mc_strict_table"] = r.summary()
        if pairs:
            r = ctx.tlc("MC_Malformed", cfg="MC_Malformed", name="mc-asbuilt-table", workers=8, timeout=3000,
                        env={"RPC_FILE": rpcs, "PAIRS_FILE": pf}, count_states=False)
            if r.ok:
                raise vlib.Inconclusive("as-built Malformed (committed pairs) satisfies every property: vacuous")
            ctx.extra["mc_asbuilt_table_violates"] = r.violated

    # 2. the cases and what the strict design allows for each (TLC is the oracle)
    r = ctx.tlc("MC_Malformed", cfg="MC_Malformed_gen", name="gen", workers=1, timeout=1800, env={"RPC_FILE": rpcs, "GEN": "1"},
                count_states=False)
    if not r.ok:
        raise vlib.Inconclusive("case generation failed: %s %s" % (r.violated, r.error))
    allcases = []
    for p in r.printed:
        try:
            c = json.loads(p) if isinstance(p, str) else p
        except Exception:
            continue
        if isinstance(c, dict) and "rpc" in c and "shape" in c:
            allcases.append(c)
    if len(allcases) < 500:
        raise vlib.Inconclusive("only %d cases generated" % len(allcases))
    allcases.sort(key=lambda c: (c["rpc"], c["shape"], c["pre"]))
    ctx.extra["cases_generated"] = len(allcases)

    if ctx.replay:
        rp = json.load(open(ctx.replay))["replay"]
        cases = [c for c in allcases if (c["rpc"], c["shape"], c["pre"]) == (rp["rpc"], rp["shape"], rp["pre"])]
    elif thorough:
        cases = allcases
    else:
        hot = {"valid", "name_one", "name_two", "name_empty", "neg_from", "empty_req"}
        settings_rpcs = {t["name"] for t in table if "pattern" in t["feats"]}     # followed by a probe of a matching swamp
        committed = known["panic_name"] | known["panic_from"] | known["dead"] | known["zero"]     # the committed witnesses are always replayed
        pick = lambda c: c["shape"] in hot or c["rpc"] in known["creates"] or c["rpc"] in settings_rpcs or (c["rpc"], c["shape"]) in committed
        must = [c for c in allcases if pick(c)]
        rest = [c for c in allcases if not pick(c)]
        cases = must + rng.sample(rest, min(len(rest), 260))
        cases.sort(key=lambda c: (c["rpc"], c["shape"], c["pre"]))
    cf = os.path.join(ctx.work, "cases.ndjson")
    with open(cf, "w") as f:
        for i, c in enumerate(cases):
            f.write(json.dumps(dict(i=i, rpc=c["rpc"], shape=c["shape"], pre=c["pre"])) + "\n")
    rf = os.path.join(ctx.work, "results.ndjson")
    ctx.run_driver(binary, ["run", cf, rf], timeout=7000,
                   env={"C26_PAR": "6", "C26_SOLO_MAX": "100000" if thorough else "12"})
    results = [json.loads(x) for x in open(rf)]
    if len(results) != len(cases):
        raise vlib.Inconclusive("driver returned %d results for %d cases" % (len(results), len(cases)))

    # 3. verdicts
    counts, hangs = {}, []
    for c, res in zip(cases, results):
        if (res["rpc"], res["shape"], res["pre"]) != (c["rpc"], c["shape"], c["pre"]):
            raise vlib.Inconclusive("result order mismatch")
        counts[res["outcome"]] = counts.get(res["outcome"], 0) + 1
        if res["outcome"] == "infra":
            raise vlib.Inconclusive("driver problem on %s/%s/%s: %s" % (c["rpc"], c["shape"], c["pre"], res.get("msg")))
        if res["outcome"] == "hang":
            hangs.append((c, res))
            continue
        if res["outcome"] not in ("notapplicable", "unsendable"):
            ctx.count_case([c["rpc"], c["shape"], c["pre"]], nontrivial=c["shape"] != "valid")
            ctx.cov["traces_validated_against_impl"] += 1
        for fid, what in judge(c, res, known):
            ctx.deviation(fid, what, dict(kind="case", rpc=c["rpc"], shape=c["shape"], pre=c["pre"], allowed=c["allowed"], result=res))
    ctx.extra["outcomes"] = counts
    ctx.extra["solo_stop_reload_checks"] = sum(1 for x in results if x.get("solo"))
    ctx.extra["health_probes_after_case"] = sum(1 for x in results if x["outcome"] in ("error", "answer", "panic_ok"))
    for want in ("error", "answer"):
        if not counts.get(want):
            raise vlib.Inconclusive("no case ended with outcome %r: the driver does not discriminate" % want)
    for c, res in zip(cases, results):
        if res["outcome"] == "panic_ok" and len(ctx.cov["samples"]) < 2:
            ctx.sample(dict(kind="case", case=dict(rpc=c["rpc"], shape=c["shape"], pre=c["pre"], allowed=c["allowed"]), observed=res))
        if res["outcome"] == "error" and c["shape"] == "keys_blank" and len(ctx.cov["samples"]) < 4:
            ctx.sample(dict(kind="case", case=dict(rpc=c["rpc"], shape=c["shape"], pre=c["pre"], allowed=c["allowed"]), observed=res))
    if not ctx.cov["samples"]:
        ctx.sample(dict(kind="case", case=cases[0], observed=results[0]))

    # 4. binding self-test: a deliberately wrong expectation must be reported
    doctored = None
    for c, res in zip(cases, results):
        if res["outcome"] == "error" and res.get("same"):
            doctored = (dict(c, allowed=["answer"]), res)
            break
    if doctored is None or not judge(doctored[0], doctored[1], known):
        raise vlib.Inconclusive("binding self-test failed: a wrong expectation was not reported")
    ctx.extra["selftest_wrong_expectation_reported"] = True
    flipped = None
    for c, res in zip(cases, results):
        if res["outcome"] == "error" and res.get("same"):
            flipped = (c, dict(res, same=False))
            break
    if flipped is None or not judge(flipped[0], flipped[1], dict(known, creates=set(), zero=set())):
        raise vlib.Inconclusive("binding self-test failed: a store change on an error was not reported")
    ctx.extra["selftest_side_effect_reported"] = True

    for c, res in hangs:
        # the server took the request and never answered it (60 s watchdog, other requests are answered in milliseconds)
        ctx.deviation(None, "%s / %s / swamp %s: the request did not return within the watchdog (%s)" % (
            c["rpc"], c["shape"], c["pre"], res.get("msg")), dict(kind="case", rpc=c["rpc"], shape=c["shape"], pre=c["pre"], result=res))
    ctx.cov["rule"] = ("case = (RPC, malformed shape, pre-state) generated by TLC from the protobuf-derived RPC table, sent through the real "
                       "in-process gRPC server in a child process; non-trivial = any shape other than the valid base request")
    ctx.cov["exhaustive"] = thorough
