"""C27 - Hydrex reverse index stays consistent with core data.

spec/Hydrex.tla models Save as the diffing algorithm the code uses (removed keys leave the reverse index,
new keys enter it, kept keys get the new value) and Destroy; TLC checks exhaustively that the reverse index
is exactly the inverse of the core data (ReverseIsInverse) and that a domain reads back its last saved items,
keys AND values (DomainIsLastSaved).  The as-built deviation "ValueNotUpdated" (a key that is already stored is
skipped, so it keeps its old value) must violate DomainIsLastSaved.

Binding (A): harness/cmd/hydrex runs sequences of Save/Destroy on the REAL hydrex package over the real Go SDK
against the in-process gRPC server (harness/rig), each sequence on fresh index names; after every call it reads
GetCoreData of every (index, domain) and GetIndexData of every (index, key) and logs call + observation.  TLC
validates the log against Trace_Hydrex with every invariant evaluated after every line.  Sequences: all of
length <= 2 (quick) / <= 3 sampled (thorough: all of length <= 2 and a large seeded part of length 3) over
1 index x 2 domains x 2 keys x 2 values, plus seeded random longer ones over 2 x 2 x 3 x 3.
Sequences in which a Save gives a stored key another value are validated separately: only if the strict spec
rejects them and the as-built spec accepts that very trace is it the known finding D_C27_ValueNotUpdated.
"""
import itertools, json, os, random, re
import vlib

DEV = "ValueNotUpdated"
FID = "D_C27_ValueNotUpdated"


def mc_cfg(dev, idx, doms, keys, vals, maxops):
    q = lambda xs: "{" + ", ".join('"%s"' % x for x in xs) + "}"
    return """SPECIFICATION Spec
CONSTANTS
  Indexes = %s
  Domains = %s
  Keys = %s
  Vals = %s
  MaxOps = %d
  Dev = %s
VIEW view
INVARIANTS TypeOK ReverseIsInverse DomainKeysAreLastSaved DomainIsLastSaved
CHECK_DEADLOCK FALSE
""" % (q(idx), q(doms), q(keys), q(vals), maxops, '{"%s"}' % dev if dev else "{}")


def item_sets(keys, vals):
    out = []
    for choice in itertools.product([None] + list(vals), repeat=len(keys)):
        out.append([[k, v] for k, v in zip(keys, choice) if v is not None])
    return out


def alphabet(idx, doms, keys, vals):
    ops = []
    for i in idx:
        for d in doms:
            for it in item_sets(keys, vals):
                ops.append(dict(op="save", i=i, d=d, items=it))
            ops.append(dict(op="destroy", i=i, d=d))
    return ops


def changes_value(ops):
    """does some Save give a key that is stored at that moment a different value?"""
    stored = {}
    for o in ops:
        c = (o["i"], o["d"])
        if o["op"] == "destroy":
            stored[c] = {}
            continue
        old = stored.get(c, {})
        new = dict((k, v) for k, v in o["items"])
        if any(k in old and old[k] != v for k, v in new.items()):
            return True
        stored[c] = new
    return False


def rejected(r, lines):
    m = re.search(r'TRACE_REJECTED_AT_LINE",\s*(\d+)', r.out)
    if not m:
        return None, "invariant %s" % r.violated
    d = int(m.group(1))
    e = json.loads(lines[d - 1]) if 0 < d <= len(lines) else None
    return e, "line %d: %s" % (d, (lines[d - 1][:600] if e else "end of trace"))


def run(ctx):
    thorough = ctx.tier == "thorough"
    rng = random.Random(ctx.seed)
    ctx.assumptions += [
        "single client, sequential calls; Save's items map is keyed by the item key (the CoreData.Key field inside the map is ignored by the code)",
        "results are compared as sets (GetCoreData / GetIndexData order by creation time; order is not part of the property)",
        "every sequence runs on its own index names, which stands for an empty store",
    ]
    binary = ctx.go_build("hydrex")

    # 1. exhaustive check of the strict design; the deviation must violate DomainIsLastSaved
    I2, D2, K3, K2, V2 = ["i1", "i2"], ["d1", "d2"], ["k1", "k2", "k3"], ["k1", "k2"], ["v1", "v2"]
    r = ctx.tlc("MC_Hydrex", cfg_text=mc_cfg(None, I2, D2, K2, V2, 4), name="mc-strict-2x2x2", timeout=3600, coverage=thorough)
    if not r.ok:
        raise vlib.Inconclusive("strict Hydrex spec does not satisfy its own properties: %s %s" % (r.violated, r.error))
    ctx.extra["mc_strict_2x2x2_ops4"] = r.summary()
    if thorough:
        if r.coverage_zero:
            ctx.extra["coverage_zero"] = r.coverage_zero[:10]
        rb = ctx.tlc("MC_Hydrex", cfg_text=mc_cfg(None, I2, D2, K3, V2, 3), name="mc-strict-2x2x3-ops3", timeout=3600)
        rc = ctx.tlc("MC_Hydrex", cfg_text=mc_cfg(None, ["i1"], D2, K3, V2, 4), name="mc-strict-1x2x3-ops4", timeout=3600)
        for x in (rb, rc):
            if not x.ok:
                raise vlib.Inconclusive("strict Hydrex spec does not satisfy its own properties: %s %s" % (x.violated, x.error))
        ctx.extra["mc_strict_2x2x3_ops3"] = rb.summary()
        ctx.extra["mc_strict_1x2x3_ops4"] = rc.summary()
    r2 = ctx.tlc("MC_Hydrex", cfg_text=mc_cfg(DEV, ["i1"], D2, K2, V2, 3), name="mc-asbuilt-witness", count_states=False, timeout=1800)
    if r2.ok or r2.violated != "DomainIsLastSaved":
        raise vlib.Inconclusive("as-built Hydrex spec (ValueNotUpdated) does not violate DomainIsLastSaved: %s %s" % (r2.violated, r2.error))
    ctx.extra["asbuilt_witness_violates"] = r2.violated

    # 2. sequences
    small = dict(indexes=["i1"], domains=D2, keys=K2)
    big = dict(indexes=I2, domains=D2, keys=K3)
    if ctx.replay:
        rp = json.load(open(ctx.replay))["replay"]
        seqs = rp["seqs"]
    else:
        A = alphabet(["i1"], D2, K2, V2)
        seqs = [dict(small, ops=[a]) for a in A] + [dict(small, ops=[a, b]) for a in A for b in A]
        all3 = [(a, b, c) for a in range(len(A)) for b in range(len(A)) for c in range(len(A))]
        for (a, b, c) in rng.sample(all3, 2500 if thorough else 250):
            seqs.append(dict(small, ops=[A[a], A[b], A[c]]))
        B = alphabet(I2, D2, K3, ["v1", "v2", "v3"])
        for _ in range(400 if thorough else 60):
            seqs.append(dict(big, ops=[rng.choice(B) for _ in range(rng.randrange(4, 10))]))
    for n, s in enumerate(seqs):
        s["id"] = n + 1
    sf = os.path.join(ctx.work, "seqs.json")
    json.dump(seqs, open(sf, "w"))
    tf = os.path.join(ctx.work, "trace.ndjson")
    ctx.run_driver(binary, ["run", sf, tf], timeout=3600)
    lines = open(tf).read().splitlines()
    nops = sum(len(s["ops"]) for s in seqs)
    if len(lines) != nops + len(seqs):
        bad = [l for l in lines if '"panic"' in l][:1]
        if not bad:
            raise vlib.Inconclusive("driver logged %d lines for %d sequences with %d calls" % (len(lines), len(seqs), nops))
    ctx.extra["sequences"] = len(seqs)
    ctx.extra["calls"] = nops
    byseq = {}
    for ln in lines:
        byseq.setdefault(json.loads(ln)["seq"], []).append(ln)
    plain, changing = [], []
    for s in seqs:
        (changing if changes_value(s["ops"]) else plain).append(s)
        ctx.count_case([[o["op"], o["i"], o["d"], o.get("items", [])] for o in s["ops"]], nontrivial=len(s["ops"]) >= 2)
    ctx.extra["sequences_changing_a_stored_value"] = len(changing)
    seqmap = {s["id"]: s for s in seqs}

    def write(name, ss):
        p = os.path.join(ctx.work, name)
        ls = [l for s in ss for l in byseq.get(s["id"], [])]
        open(p, "w").write("\n".join(ls) + "\n")
        return p, ls

    def mini(e, ss):
        if e is not None and e.get("seq") in seqmap:
            return dict(kind="seqs", seqs=[seqmap[e["seq"]]], line=e)
        return dict(kind="seqs", seqs=ss[:50])

    if plain:
        p, ls = write("trace-plain.ndjson", plain)
        ok, rs = ctx.validate_trace("Trace_Hydrex", "Trace_Hydrex", p, name="trace-plain", timeout=3600)
        ctx.cov["traces_validated_against_impl"] += len(plain)
        ctx.sample(dict(kind="recorded sequence", lines=[json.loads(x) for x in byseq[plain[min(len(plain) - 1, 200)]["id"]]][:4]))
        if not ok:
            e, where = rejected(rs, ls)
            # no named deviation covers a sequence that never changes a stored value
            ctx.deviation(None, "real hydrex rejected by the strict spec on a sequence that changes no stored value (%s)" % where, mini(e, plain))
    if changing:
        p, ls = write("trace-changing.ndjson", changing)
        ok, rs = ctx.validate_trace("Trace_Hydrex", "Trace_Hydrex", p, name="trace-changing", timeout=3600)
        ctx.cov["traces_validated_against_impl"] += len(changing)
        if not ok:
            e, where = rejected(rs, ls)
            ok2, ra = ctx.validate_trace("Trace_Hydrex", "Trace_Hydrex_asbuilt", p, dev=DEV, name="trace-changing-asbuilt", timeout=3600)
            if ok2:
                ctx.sample(dict(kind="recorded deviation", seq=seqmap[e["seq"]]["ops"] if e else None, line=e))
                ctx.deviation(FID, "Save with a new value for a stored key leaves the old value (%s); the as-built spec accepts all %d value-changing sequences" % (
                    where, len(changing)), mini(e, changing))
            else:
                e2, where2 = rejected(ra, ls)
                ctx.deviation(None, "real hydrex rejected by the strict spec (%s) and by the as-built spec (%s)" % (where, where2), mini(e2, changing))

    # 3. binding self-test (thorough)
    if thorough and plain and not ctx.replay:
        p, ls = write("selftest-base.ndjson", plain[:150])
        evs = [json.loads(x) for x in ls]
        def variant(name, f):
            b = json.loads(json.dumps(evs))
            f(b)
            q = os.path.join(ctx.work, "selftest-%s.ndjson" % name)
            open(q, "w").write("\n".join(json.dumps(x) for x in b) + "\n")
            okv, _ = ctx.validate_trace("Trace_Hydrex", "Trace_Hydrex", q, name="selftest-" + name)
            ctx.extra["selftest_%s_rejected" % name] = not okv
            if okv:
                raise vlib.Inconclusive("binding self-test failed: trace variant '%s' was accepted" % name)
        idx = [i for i, e in enumerate(evs) if e["ev"] == "save" and any(y["doms"] for y in e["rev"])]
        j = idx[len(idx) // 2]
        def drop_dom(b):
            y = [y for y in b[j]["rev"] if y["doms"]][0]
            y["doms"] = y["doms"][1:]
        variant("index_entry_missing", drop_dom)
        def add_dom(b):
            y = [y for y in b[j]["rev"] if "d2" not in y["doms"]]
            (y[0] if y else b[j]["rev"][0])["doms"].append("d2" if y else "d9")
        variant("index_entry_extra", add_dom)
        def wrong_val(b):
            x = [x for x in b[j]["core"] if x["kv"]][0]
            x["kv"][0][1] = "v3" if x["kv"][0][1] != "v3" else "v1"
        variant("core_value", wrong_val)
        k = [i for i, e in enumerate(evs) if e["ev"] == "save" and e["items"] and i >= 1 and evs[i - 1]["ev"] == "reset"
             and i + 1 < len(evs) and evs[i + 1]["ev"] != "reset" and (evs[i + 1]["i"], evs[i + 1]["d"]) != (e["i"], e["d"])]
        if k:
            kk = k[len(k) // 2]
            variant("dropped_call", lambda b: b.pop(kk))

    ctx.cov["rule"] = ("cases = sequences of Save/Destroy run on the real hydrex package with the full observable state read after every call and validated by TLC; "
                       "non-trivial = at least 2 calls; distinct by the sequence of calls")
    ctx.cov["exhaustive"] = bool(thorough)
