"""C28 - Lock and guard bookkeeping does not grow without bound.

spec/Lock.tla with the map of per-key queue objects (`qmap`): NoResidue says a key nobody holds or waits for has
no queue object.  TLC checks it exhaustively for the strict design (the last caller leaving a queue drops the map
entry; the TTL watchdog goroutine of a grant - with its timer and caller struct - ends when the grant ends:
WatchdogOfGrant, NoWatchdogResidue) and finds the counterexample for the as-built variant "QueuesNeverPruned".  Binding to
app/core/hydra/lock/lock.go: the same logs as C14 (TLC paths stepped through the real lock with a point-of-rest
line after every step, free-running stress, a run over many distinct keys, gateway runs) where every rest line
carries the set of keys that have a queue object (verif-only accessor VerifQueueKeys reading the real sync.Map) and
the set of grants whose watchdog goroutine is still alive (start / exit trace events + goroutine wait states);
Trace_Lock with CHECK_QMAP=1 compares both with the spec's qmap / wd.  A run that is a behaviour of the as-built variant
but not of the strict design is the known finding D_C28_QueuesNeverPruned; a run neither explains is a violation.
(The treasure guard keeps no per-key map - one guard object lives inside each treasure - so its bookkeeping is
the `waitForUnlock` slice checked by C15's queue comparison; nothing to prune there.)
"""
import json, os, random
from concurrent.futures import ThreadPoolExecutor
import vlib
import lockcommon as lc

FID = "D_C28_QueuesNeverPruned"


def run(ctx):
    thorough = ctx.tier == "thorough"
    rng = random.Random(ctx.seed)
    ctx.assumptions += [
        "per-key lock state = the entries of the lock's key -> queue map, read through the verif-only accessor lock.VerifQueueKeys at points of rest",
        "only the set of keys is compared (not the size of the map's internal tables)",
    ]
    binary = ctx.go_build("lock")
    ex = ThreadPoolExecutor(max_workers=4)
    inv = "INVARIANTS TypeOK NoResidue QueuePresent QueueConsistent WatchdogOfGrant\nPROPERTIES NoWatchdogResidue\n"
    f1 = ex.submit(ctx.tlc, "MC_Lock", cfg_text=lc.mc_cfg(2, 2, 2, None, inv), name="mc-2p2k", workers=2, timeout=6000)
    f2 = ex.submit(ctx.tlc, "MC_Lock", cfg_text=lc.mc_cfg(3, 1, 2, None, inv), name="mc-3p", workers=4, timeout=12000, coverage=thorough)
    f2b = ex.submit(ctx.tlc, "MC_Lock", cfg_text=lc.mc_cfg(3, 2, 2, None, inv.split("PROPERTIES")[0]), name="mc-3p2k-safety", workers=8, timeout=20000,
                    heap="8g") if thorough else None
    f3 = ex.submit(ctx.tlc, "MC_Lock", cfg_text=lc.mc_cfg(2, 2, 2, lc.QNP, inv), name="mc-asbuilt-witness", workers=1, timeout=3000, count_states=False)
    gf = ex.submit(lc.export_tests, ctx, 2, 2, 2, 4, "edges-g2p2k")
    for f, nm in ((f1, "mc_2p2k"), (f2, "mc_3p")):
        r = f.result()
        if not r.ok:
            raise vlib.Inconclusive("strict Lock spec does not satisfy NoResidue: %s %s" % (r.violated, (r.error or "")[:300]))
        ctx.extra[nm] = r.summary()
        if nm == "mc_3p" and thorough and r.coverage_zero:
            ctx.extra["coverage_zero"] = r.coverage_zero[:12]
    if f2b is not None:
        r = f2b.result()
        if not r.ok:
            raise vlib.Inconclusive("strict Lock spec (3 callers x 2 keys) does not satisfy NoResidue: %s %s" % (r.violated, (r.error or "")[:300]))
        ctx.extra["mc_3p2k_safety"] = r.summary()
    r = f3.result()
    if r.ok or r.violated != "NoResidue":
        raise vlib.Inconclusive("as-built Lock spec (QueuesNeverPruned) should violate NoResidue, got ok=%s violated=%s" % (r.ok, r.violated))
    ctx.extra["asbuilt_violates"] = r.violated

    b = lc.LockBatch(ctx, "lock", binary)
    if ctx.replay:
        rp = json.load(open(ctx.replay))["replay"]
        if rp.get("kind") == "lock-trace":
            b.lines = rp["lines"]
            b.runs = [dict(kind="replay", first_line=1, info={})]
            with open(b.trace, "w") as f:
                f.write("\n".join(b.lines) + "\n")
            judge(ctx, b, rp.get("nkeys", 3))
            ctx.cov["rule"] = "re-validation of one recorded trace"
            return
    tests, info = gf.result()
    ctx.extra["graph_g2p2k"] = info
    pick = rng.sample(tests, min(len(tests), 1200 if thorough else 150))
    b.replay("g2p2k", pick)
    for t in pick:
        ctx.count_case([[s["act"]["a"], s["act"]["p"], s["act"]["k"], s["act"]["id"]] for s in t], nontrivial=len(t) >= 3)
    b.stress("stress", 100 if thorough else 25, 4, 3, 10, ctx.seed * 7919)
    nkeys = 120 if thorough else 40
    b.residue("many-keys", nkeys, 4, ctx.seed)
    b.gateway("gateway", 3, 4 if thorough else 3, ctx.seed)
    judge(ctx, b, nkeys)
    last_rest = [json.loads(l) for l in b.run_lines(next(i for i, r_ in enumerate(b.runs) if r_["kind"] == "many-keys")) if '"ev":"rest"' in l][-1]
    ctx.extra["many_keys_run"] = dict(distinct_keys_locked=nkeys, queue_objects_left_when_all_released=len(last_rest["qmap"]))
    ctx.sample(dict(kind="point of rest after locking and releasing %d distinct keys" % nkeys, callers=last_rest["pcs"], queue_objects_left=len(last_rest["qmap"]),
                    first_keys=last_rest["qmap"][:5]))
    ctx.sample(dict(kind="replayed TLC path", steps=[[s["act"]["a"], s["act"]["p"], s["act"]["k"], s["act"]["id"]] for s in pick[0]]))
    ctx.extra["driver_wall_s"] = round(b.driver_wall, 1)

    if thorough:
        # binding self-test: a rest line with a forged key set must be rejected by every mode
        i0 = next(i for i, r_ in enumerate(b.runs) if r_["kind"] == "stress")
        lines = b.run_lines(i0)
        j = max(i for i, l in enumerate(lines) if '"ev":"rest"' in l)
        e = json.loads(lines[j])
        e["qmap"] = ["k1"] if e["qmap"] != ["k1"] else ["k2"]
        bad = lines[:j] + [json.dumps(e)] + lines[j + 1:]
        for dev in (None, lc.QNP):
            ok, done, r = b.validate(12, nkeys, dev, True, "selftest-%s" % (dev or "strict"), lines=bad)
            if ok:
                raise vlib.Inconclusive("binding self-test failed: forged key set accepted (%s)" % dev)
        ctx.extra["selftest_forged_qmap_rejected"] = True
    ctx.cov["rule"] = ("cases = TLC paths (one shortest path per transition of the strict 2 callers x 2 keys graph, seeded sample) stepped through the real lock "
                       "with the key set of the queue map compared at every point of rest, plus stress / many-distinct-keys / gateway runs compared at the final "
                       "point of rest; non-trivial = path of >= 3 actions, distinct by action sequence")
    ctx.cov["exhaustive"] = True


def judge(ctx, b, nkeys):
    nk = max(3, nkeys)
    verdict, detail = b.classify(12, nk, [("strict", None, True), ("asbuilt", lc.QNP, True)])
    cnt = {}
    for i, run_ in enumerate(b.runs):
        c = cnt.setdefault(run_["kind"], dict(strict=0, asbuilt=0, rejected=0, unvalidated=0))
        v = verdict[i]
        lines = b.run_lines(i)
        if v is None:
            c["unvalidated"] += 1
            continue
        c[v] += 1
        ctx.cov["traces_validated_against_impl"] += 1
        ctx.cov["evaluations"] += len(lines)
        replay = dict(kind="lock-trace", source=run_["kind"], nkeys=nk, lines=lines)
        if v == "asbuilt":
            rest = [json.loads(l) for l in lines if '"ev":"rest"' in l][-1]
            ctx.deviation(FID, "per-key queue objects are never removed from the lock's map: at a point of rest with every caller idle (%s run) the map still "
                               "holds %d queue object(s) for keys nobody holds or waits for: %s" % (run_["kind"], len(rest["qmap"]), rest["qmap"][:6]), replay)
        elif v == "rejected":
            # is it the bookkeeping, or does the lock misbehave altogether (C14's business)?
            ok, done, r = b.validate(12, nk, None, False, "noqmap-%d" % i, lines=lines)
            if not ok:
                raise vlib.Inconclusive("a lock trace (%s) is rejected even without looking at the queue map: the lock itself does not conform, see C14" % run_["kind"])
            d = detail.get(i, {})
            rests = [json.loads(l)["qmap"] for l in lines if '"ev":"rest"' in l]
            ctx.deviation(None, "the set of per-key queue objects of the real lock is explained neither by the strict design nor by the known deviation (%s run); "
                                "key sets at the points of rest: %s" % (run_["kind"], rests[-6:]), replay)
    ctx.extra["verdicts"] = cnt
    un = sum(c["unvalidated"] for c in cnt.values())
    if un:
        ctx.extra["unvalidated_runs"] = un
    return cnt
