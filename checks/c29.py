"""C29 - Fast swamp-name discovery agrees with the stored name.

spec/SwampName.tla (file = format version + name behind the header + names in metadata entries; histories:
fresh / legacy / appended / compacted / format-migrated / destroyed; ReadName and ScanName written like
reader.go ReadSwampName and explorer scanFile) + TLC exhaustive (NameAgrees, ListingExact) + binding:
  (B) one shortest path per transition of the spec's state graph is performed on real storage files
      (real chronicler / writer / every compaction path / hydraidectl format migration / Destroy; legacy files
      hand-built) and
  (A) together with seeded longer histories over realistic, long and UTF-8 names recorded as a trace
      (ReadSwampName of every file + explorer Scan/ListSwamps after every step) that TLC validates.
"""
import json, os, random
import vlib, edges

DEV = "NameLen16"
FID = "D_C29_NameLen16"

NAME_POOL = [
    "users/profiles/alice",
    "a/b/c",
    "szentély/birodalom/mocsár-árvíztűrő tükörfúrógép",
    "測試/データ/😀-swamp",
    "catalog/products/with/slashes/in/the/swamp/part",
    "name with spaces/and\ttabs/and-punctuation!?#%",
    "x/y/" + "L" * 300,
    "max/len/" + "m" * (65535 - 8),          # the longest name the 16-bit length field can hold
    "s/r/" + "é" * 2000,
]
LONG_POOL = ["big/name/" + "n" * (65536 - 9), "big/name/" + "q" * 70000, "big/name/" + "w" * (131072 + 5 - 9)]
COMPACT_VIAS = ["force", "cli", "load", "fromindex", "compact"]


def mc_cfg(steps, dev, extra):
    return """SPECIFICATION Spec
CONSTANTS
  Names = {1, 2, 3}
  Long = {3}
  Dev = %s
  MaxSteps = %d
CONSTRAINT Bounded
VIEW view
%s
""" % ('{"%s"}' % dev if dev else "{}", steps, extra)


def to_step(act, rng, idmap):
    a, n = act["a"], idmap[act["n"]]
    if a == "CreateFresh":
        return dict(op="create", n=n, via=rng.choice(["chron", "writer"]))
    if a == "CreateLegacy":
        return dict(op="legacy", n=n, via="")
    if a == "Append":
        return dict(op="append", n=n, via=rng.choice(["chron", "writer"]))
    if a == "Compact":
        return dict(op="compact", n=n, via=rng.choice(COMPACT_VIAS))
    if a == "MigrateFormat":
        return dict(op="migrate", n=n, via="")
    if a == "Destroy":
        return dict(op="destroy", n=n, via="")
    raise vlib.Inconclusive("unknown spec action %s" % a)


def random_scenario(rng, nsteps):
    k = rng.randint(2, 6)
    names = {i + 1: s for i, s in enumerate(rng.sample(NAME_POOL, k))}
    if rng.random() < 0.12:
        names[90] = rng.choice(LONG_POOL)
    state = {n: None for n in names}     # None | "fresh" | "legacy" | "bad"
    steps = []
    for _ in range(nsteps):
        n = rng.choice(sorted(names))
        st = state[n]
        if st is None:
            if n >= 90 or rng.random() < 0.5:
                steps.append(dict(op="create", n=n, via=rng.choice(["chron", "writer"])))
                state[n] = "bad" if n >= 90 else "fresh"
            else:
                steps.append(dict(op="legacy", n=n, via=""))
                state[n] = "legacy"
        elif st == "bad":
            steps.append(dict(op="destroy", n=n, via=""))
            state[n] = None
        else:
            op = rng.choice(["append", "append", "compact", "compact", "migrate", "destroy"])
            if op == "append":
                steps.append(dict(op="append", n=n, via=rng.choice(["chron", "writer"])))
            elif op == "compact":
                steps.append(dict(op="compact", n=n, via=rng.choice(COMPACT_VIAS)))
                state[n] = "fresh"
            elif op == "migrate":
                steps.append(dict(op="migrate", n=n, via=""))
                state[n] = "fresh"
            else:
                steps.append(dict(op="destroy", n=n, via=""))
                state[n] = None
    return names, steps


def accepted(ctx, tfile, dev, name):
    ok, r = ctx.validate_trace("Trace_SwampName", "Trace_SwampName", tfile, dev=dev, name=name, timeout=1500)
    if not ok:
        raise vlib.Inconclusive("trace validation run %s did not complete: %s %s" % (name, r.violated, (r.error or "")[:500]))
    acc = set()
    for ln in r.printed:
        try:
            o = json.loads(ln) if isinstance(ln, str) else ln
            if isinstance(o, dict) and "ok" in o:
                acc.add(o["ok"])
        except Exception:
            pass
    return acc


def run(ctx):
    thorough = ctx.tier == "thorough"
    rng = random.Random(ctx.seed * 7477 + 29)
    ctx.assumptions += [
        "the storage path is a function of the swamp name (one file per name); files of nameless chroniclers (API misuse: NewV2 without a name) are out of scope",
        "legacy files are hand-built the way the legacy engine wrote them: version-2 header, OpMetadata entry first",
        "names are interned to integers for TLC; names of >= 65536 bytes get the ids 90..99",
    ]
    binary = ctx.go_build("swampname")

    # 1. exhaustive: strict holds, as-built (NameLen16) violates
    inv = "INVARIANTS NameAgrees ListingExact"
    r = ctx.tlc("MC_SwampName", cfg_text=mc_cfg(9 if thorough else 6, None, inv), name="mc-strict", deadlock=False, coverage=thorough)
    if not r.ok:
        raise vlib.Inconclusive("strict SwampName spec does not satisfy its own properties: %s %s" % (r.violated, (r.error or "")[:600]))
    ctx.extra["mc_strict"] = r.summary()
    if thorough and r.coverage_zero:
        ctx.extra["coverage_zero"] = r.coverage_zero[:10]
    r2 = ctx.tlc("MC_SwampName", cfg_text=mc_cfg(4, DEV, inv), name="mc-asbuilt-witness", deadlock=False, count_states=False)
    if r2.ok or r2.violated not in ("NameAgrees", "ListingExact"):
        raise vlib.Inconclusive("as-built SwampName spec does not violate NameAgrees: %s %s" % (r2.violated, (r2.error or "")[:300]))
    ctx.extra["asbuilt_witness_violates"] = r2.violated

    # 2. one path per transition of the state graph (binding B)
    re_ = ctx.tlc("MC_SwampName", cfg_text=mc_cfg(4, None, "ACTION_CONSTRAINT ExportEdge"), workers=1, name="edges",
                  deadlock=False, count_states=False)
    if not re_.ok:
        raise vlib.Inconclusive("edge export failed: %s %s" % (re_.violated, (re_.error or "")[:300]))
    tests, nedges, nstates = edges.build_tests(re_.printed, init=[dict(ex=False, ver=3)] * 3)
    if not tests:
        raise vlib.Inconclusive("no edges exported")
    ctx.extra.update(edges=nedges, graph_states=nstates)
    scs = []
    if ctx.replay:
        scs = [json.load(open(ctx.replay))["replay"]["scenario"]]
        scs[0]["id"] = 1
    else:
        # (histories on a file whose name is >= 65536 bytes are slow: every load of such a file allocates
        #  a forged block size, see C04 - so only a sample of the transitions that involve the over-long name)
        withlong = [t for t in tests if any(s["act"]["n"] == 3 for s in t)]
        without = [t for t in tests if t not in withlong]
        if thorough:
            tests = without + rng.sample(withlong, min(len(withlong), 16))
        else:
            tests = rng.sample(without, min(len(without), 30)) + rng.sample(withlong, min(len(withlong), 4))
        for t in tests:
            two = rng.sample(NAME_POOL, 2)
            names = {1: two[0], 2: two[1], 90: rng.choice(LONG_POOL)}
            idmap = {1: 1, 2: 2, 3: 90}
            steps = [to_step(s["act"], rng, idmap) for s in t]
            used = {s["n"] for s in steps}
            scs.append(dict(id=len(scs) + 1, names={str(k): v for k, v in names.items() if k in used}, steps=steps,
                            seed=rng.randint(1, 2 ** 31), noise=rng.random() < 0.3, kind="edge"))
        for _ in range(70 if thorough else 16):
            names, steps = random_scenario(rng, rng.randint(6, 18))
            scs.append(dict(id=len(scs) + 1, names={str(k): v for k, v in names.items()}, steps=steps,
                            seed=rng.randint(1, 2 ** 31), noise=rng.random() < 0.5, kind="random"))
    sf, tf, rf = [os.path.join(ctx.work, x) for x in ("scenarios.json", "trace.ndjson", "results.ndjson")]
    json.dump(scs, open(sf, "w"))
    ctx.run_driver(binary, ["run", sf, tf, rf], timeout=3000)
    results = {}
    for ln in open(rf):
        o = json.loads(ln)
        results[o["id"]] = o
    if set(results) != {s["id"] for s in scs}:
        raise vlib.Inconclusive("driver returned %d results for %d scenarios" % (len(results), len(scs)))
    nlines = sum(1 for _ in open(tf))
    strict_ok = accepted(ctx, tf, "", "trace-strict")
    asbuilt_ok = set()
    if len(strict_ok) < len(scs):
        asbuilt_ok = accepted(ctx, tf, DEV, "trace-asbuilt")
    nknown = 0
    for sc in scs:
        res = results[sc["id"]]
        if res.get("notes"):
            raise vlib.Inconclusive("driver problem in scenario %d: %s" % (sc["id"], res["notes"]))
        steps = [[s["op"], s["n"], s["via"]] for s in sc["steps"]]
        ctx.count_case([steps, sorted(sc["names"].values())], nontrivial=len(steps) >= 2)
        ctx.cov["traces_validated_against_impl"] += 1
        if sc["id"] in strict_ok:
            continue
        lens = {k: len(v.encode()) for k, v in sc["names"].items()}
        what = "history %s over names of %s bytes: trace rejected by the strict spec; observed: %s" % (
            json.dumps(steps), json.dumps(lens), "; ".join((res.get("wrong") or ["(see trace)"])[:2]))
        small = dict(sc)
        small["names"] = {k: (v if len(v) < 200 else v[:40] + "...(%d bytes)" % len(v.encode())) for k, v in sc["names"].items()}
        if sc["id"] in asbuilt_ok:
            nknown += 1
            ctx.deviation(FID, what, dict(kind="scenario", scenario=sc))
        else:
            ctx.deviation(None, what + " and not explained by " + DEV, dict(kind="scenario", scenario=sc))
    ctx.cov["evaluations"] += sum(len(s["steps"]) + 1 for s in scs)
    ctx.extra.update(scenarios=len(scs), trace_lines=nlines, scenarios_accepted_by_strict=len(strict_ok), scenarios_known_finding=nknown)
    ctx.sample(dict(kind="edge path", steps=scs[min(len(scs) - 1, 20)]["steps"]))
    ctx.sample(dict(kind="random history", steps=scs[-1]["steps"], name_lengths=[len(v) for v in scs[-1]["names"].values()]))

    # 3. binding self-test: a falsified observation and a dropped step must be rejected
    if thorough and not ctx.replay:
        lines = open(tf).read().splitlines()
        cur, start = [], 0
        for i, l in enumerate(lines):
            if '"ev":"reset"' in l:
                start = i
            if '"ev":"done"' in l:
                sid = json.loads(l)["id"]
                seg = lines[start:i + 1]
                if sid in strict_ok and any('"ev":"compact"' in x for x in seg) and any('"reads":[[' in x for x in seg):
                    cur = seg
                    break
        if cur:
            sid = json.loads(cur[-1])["id"]
            bad1 = list(cur)
            for j in range(len(bad1) - 1, -1, -1):
                if '"reads":[[' in bad1[j]:
                    e = json.loads(bad1[j])
                    e["reads"][0][1] = 0
                    bad1[j] = json.dumps(e, separators=(",", ":"))
                    break
            j = [k for k, x in enumerate(cur) if '"ev":"create"' in x][0]
            bad2 = cur[:j] + cur[j + 1:]
            for tag, bad in (("falsified", bad1), ("dropped", bad2)):
                p = os.path.join(ctx.work, "selftest-%s.ndjson" % tag)
                open(p, "w").write("\n".join(bad) + "\n")
                acc = accepted(ctx, p, "", "selftest-" + tag)
                ctx.extra["selftest_%s_rejected" % tag] = sid not in acc
                if sid in acc:
                    raise vlib.Inconclusive("binding self-test failed: %s trace was accepted" % tag)
    ctx.cov["rule"] = ("cases = histories on real storage files (one shortest path per transition of the spec's state graph + seeded random "
                       "histories) with ReadSwampName of every file and an explorer scan after every step, validated by TLC; non-trivial = "
                       ">= 2 steps; distinct by (steps, names)")
    ctx.cov["exhaustive"] = True
