"""C30 - Expiry semantics are consistent across every read and claim path.

spec/SwampKV.tla: Expired(r, now) == r.ea # 0 /\ r.ea < now is the one definition used by every expiry-aware
action (ShiftExpiredTreasures, PatchExpiredTreasures, the expiration index, the ExpiredAt filter incl. IS_EMPTY,
meta-only patches that set / slide / clear the expiry, increment metadata) and CloseReload preserves it; TLC
checks the agreement properties over the "expiry" family.  Binding A: histories that set, slide and clear expiry
(zero and pre-epoch included) and read through every path, before and after an observed close + reload, on the
real Gateway, validated line by line by TLC.  All timestamps are years away from the wall clock (2001 / 2100 /
1960), so no verdict depends on timing.
"""
import json, os, random
import vlib, kvlib

READS = [dict(op="Get", keys=["k1", "k2", "k3", "k4"]), dict(op="GetByIndex", idx="exp", ord="asc"),
         dict(op="GetByIndex", idx="exp", ord="desc"), dict(op="FilterExp", fop="lt", ea=10), dict(op="FilterExp", fop="ge", ea=10),
         dict(op="FilterExp", fop="empty", ea=10), dict(op="FilterExp", fop="notempty", ea=10)]
CLAIMS = [dict(op="PatchExpired", n=0, ea=14, create=False, x=1), dict(op="ShiftExpired", n=0)]


def run(ctx):
    thorough = ctx.tier == "thorough"
    rng = random.Random(ctx.seed)
    ctx.assumptions += [
        "timestamps are ranks in a fixed table: past = 2001, future = 2100, pre-epoch = 1960, 'now' = the server clock; every one is years away from the wall clock",
        "patches are meta-only (no ops) on records holding a msgpack body; op semantics, caps and concurrent claims belong to C13/C12/C11",
        "the expiry filter is exercised through the GetByIndexStream handler on the key index with a transport-less server stream (protobuf round trip of request and responses)",
    ]
    binary = ctx.go_build("swampkv")
    devs = kvlib.open_devs(ctx)
    mine = [d for d in devs if kvlib.DEVS[d][1] == "C30"]
    ctx.extra["open_deviations"] = devs

    kvlib.check_design(ctx, [("expiry", 3 if thorough else 2)], workers=1, coverage_family="expiry" if thorough else None)
    kvlib.check_witnesses(ctx, mine, workers=2)
    if thorough:
        kvlib.check_bookkeeping(ctx, devs, [("expiry", 2)], workers=1)

    alph = kvlib.export_alphabets(ctx)
    reqs = alph["expiry"]["reqs"]
    writes = [q for q in reqs if q["op"] in ("Set", "Inc", "PatchMeta", "PatchExpired", "ShiftExpired")]
    ctx.extra["alphabet"] = len(reqs)
    run_ = kvlib.Runner(ctx, binary, devs, "C30")
    plain, evict = [], []
    rp = kvlib.replay_history(ctx)
    if rp:
        (evict if rp["mode"] in ("pi", "pj") else plain).append(run_.add(rp["steps"], rp["mode"], "replay"))
    else:
        noreload = [q for q in reqs if q["op"] != "CloseReload"]
        # ALL histories up to length 2 (thorough 3 on the in-memory swamp) over the family alphabet
        for h in kvlib.all_histories(noreload, 3 if thorough else 2):
            plain.append(run_.add(h, "mem", "all<=%d" % (3 if thorough else 2)))
        for h in kvlib.all_histories(noreload, 2):
            plain.append(run_.add(h, "p0", "all<=2"))
        # hot index maintenance: ALL histories [set-up, warm-up that builds the expiration index, any expiry-changing
        # request, every read path]: set / slide / clear through Set, increment metadata and patches on a built index
        sets = [q for q in reqs if q["op"] == "Set"]
        warm = [q for q in reqs if (q["op"] == "GetByIndex" and q["ord"] == "asc") or (q["op"] in ("PatchExpired", "ShiftExpired") and q["n"] == 1)]
        for mode in ("mem", "p0"):
            for a in sets:
                for w in warm:
                    for c in writes:
                        plain.append(run_.add([a, w, c] + READS, mode, "hot-index"))
        # set / slide / clear, every read path, close + reload, every read path, claim, every read path
        n = 1500 if thorough else 150
        for mode in ("pi", "pj"):
            for _ in range(n):
                pre = [rng.choice(writes) for _ in range(rng.choice([2, 3, 4, 5]))]
                evict.append(run_.add(pre + READS + [dict(op="CloseReload", how="idle")] + READS + [rng.choice(CLAIMS)] + READS, mode, "reload"))
    ctx.extra["histories_planned"] = len(plain) + len(evict)
    rng.shuffle(plain)
    rng.shuffle(evict)
    if plain:
        run_.driver_env = {}
        run_.run_batches(kvlib.chunk(plain, 6 if thorough else 3), driver_workers=6, tlc_workers=6)
    if evict:
        run_.driver_env = {"SWAMPKV_PAR": "64"}
        run_.run_batches(kvlib.chunk(evict, 6 if thorough else 2), driver_workers=6, tlc_workers=6)
    run_.run_retries()
    ctx.extra.update(run_.stats)
    ctx.extra["deviation_use_count"] = run_.used_count
    for hs in (plain, evict):
        if hs:
            ctx.sample(dict(kind="history", mode=hs[0]["mode"], label=hs[0]["label"], steps=hs[0]["steps"][:3]))
    ctx.cov["rule"] = ("cases = histories over the expiry family (set / slide / clear expiry through Set, increment metadata and meta-only "
                       "patches, incl. zero and pre-epoch; ShiftExpired, PatchExpired, expiry index asc/desc, ExpiredAt filters lt/ge/"
                       "IS_EMPTY/IS_NOT_EMPTY, Get) validated line by line by TLC: all histories up to length %d on in-memory and "
                       "immediate-write swamps plus sampled write prefixes + all reads + observed reload + all reads + claim + all reads; "
                       "non-trivial = at least 2 calls" % (3 if thorough else 2))
    ctx.cov["exhaustive"] = True
