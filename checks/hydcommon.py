"""Shared by the storage-engine checks C01, C02, C25 (spec/HydFile.tla, harness/cmd/hydfile).

Trace files hold many histories (blocks starting with a "reset" line).  TLC validates a file against
Trace_HydFile and prints one JSON line per accepted history / crash cut.  classify() first validates with
the strict spec (Dev = {}), then re-validates only the rejected histories with the as-built spec: each open
deviation alone, then pairs, then all open deviations together.  What no as-built spec explains is a violation.
"""
import itertools, json, os, re
import vlib

INVS = "Consistent LWW RejectNotMangle NoSpuriousError NoTornFailure FlushBoundary DurableReadable AlwaysRecoverable"

DEV_OF = {   # finding id -> deviation name in HydFile.tla
    "D_C01_KeyLen16": "KeyLen16", "D_C01_EmptyKey": "EmptyKey", "D_C01_BlockCount16": "BlockCount16",
    "D_C02_TornTailFails": "TornTailFails", "D_C02_AppendAfterTorn": "AppendAfterTorn", "D_C02_TornCreate": "TornCreate",
    "D_C25_PartialBlockHides": "PartialBlockHides", "D_C25_BufferDroppedOnError": "BufferDroppedOnError",
    "D_C25_HeaderFaultMisplaces": "HeaderFaultMisplaces", "D_C25_CloseFaultWedges": "CloseFaultWedges",
    "D_C25_WriteErrorsSkipped": "WriteErrorsSkipped",
}
FID_OF = {v: k for k, v in DEV_OF.items()}


def devset(names):
    return "{%s}" % ", ".join('"%s"' % d for d in sorted(names))


def trace_cfg(dev=(), inv=True):
    return """SPECIFICATION TraceSpec
CONSTANTS
  Keys = {1, 2, 3, 4, 5, 6, 7, 8}
  Vals = {}
  Nil = 0
  CntLimit = 65535
  Dev = %s
%s
CHECK_DEADLOCK FALSE
""" % (devset(dev), ("INVARIANTS " + INVS) if inv and not dev else "")


def mc_cfg(maxwrites, maxcalls, maxcrash=0, maxfault=0, dev=(), badkeys=False, cntlimit=3, named=True, sym=True, inv=True):
    return """SPECIFICATION MCSpec
CONSTANTS
  k1 = k1
  k2 = k2
  v1 = v1
  v2 = v2
  Nil = Nil
  Keys = {k1, k2}
  Vals = {v1, v2}
  BadKeys = %s
  CntLimit = %d
  Named = %s
  Dev = %s
  MaxWrites = %d
  MaxCalls = %d
  MaxCrash = %d
  MaxFault = %d
%s
%s
CHECK_DEADLOCK FALSE
""" % ("{k2}" if badkeys else "{}", cntlimit, "TRUE" if named else "FALSE", devset(dev), maxwrites, maxcalls, maxcrash, maxfault,
       ("SYMMETRY SymV" if badkeys else "SYMMETRY Sym") if sym else "",
       ("INVARIANTS TypeOK " + INVS) if inv else "")


def run_driver(ctx, binary, cfg, name, timeout=3600):
    """Runs `hydfile run`; returns (trace path, list of history dicts, stats dict)."""
    cf = os.path.join(ctx.work, name + ".cfg.json")
    tf = os.path.join(ctx.work, name + ".ndjson")
    json.dump(cfg, open(cf, "w"))
    p = ctx.run_driver(binary, ["run", cf, tf], timeout=timeout)
    stats = {}
    for line in p.stdout.splitlines():
        if line.startswith("{"):
            stats = json.loads(line)
    hists = [json.loads(l) for l in open(tf + ".hist")]
    if stats.get("panics"):
        ctx.extra["driver_panics"] = ctx.extra.get("driver_panics", 0) + stats["panics"]
    return tf, hists, stats


def split_trace(path):
    """hid -> list of lines (including the reset line)."""
    out, curid = {}, None
    for line in open(path):
        if line.startswith('{"ev":"reset"'):
            curid = json.loads(line)["h"]
            out[curid] = []
        out[curid].append(line)
    return out


def units_of(blocks):
    """All units that need acceptance: ('h', hid) for each history and ('c', hid, line, j) for each cut.
    `line` is the 1-based line number inside the file the blocks are written to, in dict order."""
    units = {}
    ln = 0
    for hid, lines in blocks.items():
        units[("h", hid)] = None
        for k, line in enumerate(lines):
            ln += 1
            if '"cuts":[{' not in line:
                continue
            e = json.loads(line)
            for j, c in enumerate(e.get("cuts") or []):
                units[("c", hid, k, j + 1)] = (ln, c)
    return units


def validate(ctx, path, dev=(), name="tv", verbose=False, timeout=7200):
    """Returns (TLCResult, set of accepted units) where cut units are ('c', hid, absolute line, j)."""
    env = {"TRACE_FILE": path}
    if verbose:
        env["TRACE_VERBOSE"] = "1"
    r = ctx.tlc("Trace_HydFile", cfg_text=trace_cfg(dev), workers=1, deadlock=False, env=env, name=name,
                count_states=False, timeout=timeout, heap="6g")
    if r.violated:
        raise vlib.Inconclusive("HydFile invariant %s violated while validating %s with Dev=%s: the specification is inconsistent\n%s"
                                % (r.violated, path, list(dev), r.out[-2500:]))
    if not r.ok:
        raise vlib.Inconclusive("trace validation of %s failed: %s\n%s" % (path, r.error, r.out[-2500:]))
    acc = set()
    for p in r.printed:
        try:
            o = json.loads(p) if isinstance(p, str) else p
            if isinstance(o, str):
                o = json.loads(o)
        except Exception:
            continue
        if isinstance(o, dict) and o.get("acc") == "hist":
            acc.add(("h", o["h"]))
        elif isinstance(o, dict) and o.get("acc") == "cut":
            acc.add(("c", o["h"], o["l"], o["j"]))
    return r, acc


def write_blocks(path, blocks):
    with open(path, "w") as f:
        for lines in blocks.values():
            f.writelines(lines)


def accepted_units(blocks, acc):
    """Maps TLC's absolute line numbers back to (hid, line-in-history) units."""
    out = set()
    ln = 0
    start = {}
    for hid, lines in blocks.items():
        start[hid] = ln
        ln += len(lines)
    for a in acc:
        if a[0] == "h":
            out.add(a)
        else:
            _, hid, l, j = a
            out.add(("c", hid, l - 1 - start[hid], j))
    return out


def families_of(ctx, fams):
    """fams: list of (finding id, [deviation names]).  Only open findings of this property take part."""
    of = ctx.open_findings()
    return [(fid, devs) for fid, devs in fams if fid in of]


def classify(ctx, path, fams, name, pairs=True):
    """fams: list of (finding id, [deviation names]) - a finding may switch on several deviations of the spec
    (one root cause seen through several spec switches).
    Returns (result: dict unit -> 'strict' | frozenset(finding ids) | None, blocks, stats)."""
    blocks = split_trace(path)
    units = units_of(blocks)
    r, acc = validate(ctx, path, (), name + "-strict")
    nlines = sum(len(b) for b in blocks.values())
    ok = accepted_units(blocks, acc)
    res = {u: ("strict" if u in ok else None) for u in units}
    stats = dict(lines=nlines, histories=len(blocks), cuts=len(units) - len(blocks), tlc_states=r.distinct)

    def pending():
        return [u for u in units if res[u] is None]

    def hids(us):
        return sorted({u[1] for u in us})

    # a finding may be listed with several alternative switch sets (tried in order)
    ids = list(range(len(fams)))
    tries = [frozenset([i]) for i in ids]
    distinct = sorted({f for f, _ in fams})
    if len(distinct) > 1 and (pairs or len(distinct) == 2):
        tries += [frozenset(p) for p in itertools.combinations(ids, 2) if fams[p[0]][0] != fams[p[1]][0]]
    if len(distinct) > 2:
        tries.append(frozenset(ids))
    for k, fset in enumerate(tries):
        todo = pending()
        if not todo:
            break
        dev = sorted({d for i in fset for d in fams[i][1]})
        sub = {h: blocks[h] for h in hids(todo)}
        sp = os.path.join(ctx.work, "%s-rej-%d.ndjson" % (name, k))
        write_blocks(sp, sub)
        _, acc2 = validate(ctx, sp, dev, "%s-dev-%d" % (name, k))
        ok2 = accepted_units(sub, acc2)
        for u in todo:
            # a cut is only explained if the main line of its history is explained by the same spec
            if u in ok2 and (u[0] == "h" or ("h", u[1]) in ok2 or res[("h", u[1])] == "strict"):
                res[u] = frozenset(fams[i][0] for i in fset)
        os.remove(sp)
    return res, blocks, stats


def last_line(ctx, blocks, hid, dev, name):
    """Index of the last line of history `hid` consumed by some behaviour (diagnostics only)."""
    sp = os.path.join(ctx.work, name + "-diag.ndjson")
    write_blocks(sp, {hid: blocks[hid]})
    try:
        r, _ = validate(ctx, sp, dev, name + "-diag", verbose=True)
    except vlib.Inconclusive:
        return None
    best = 0
    for m in re.finditer(r'<<"AT", \d+, (\d+), <<>>>>', r.out):
        best = max(best, int(m.group(1)))
    return best


def report(ctx, res, blocks, hists, name, kind, mode_cfg, max_reports=6):
    """Turns the classification into KNOWN-FINDING / VIOLATION records.  Returns counters."""
    byid = {h["id"]: h for h in hists}
    n = dict(strict=0, known=0, violation=0)
    reported = 0
    for u, v in sorted(res.items(), key=lambda kv: str(kv[0])):
        if v == "strict":
            n["strict"] += 1
            continue
        hid = u[1]
        hist = byid.get(hid)
        cfg1 = mode_cfg.get(hid, {}) if all(isinstance(k, int) for k in mode_cfg) and mode_cfg else mode_cfg
        cfg1 = {k: v for k, v in cfg1.items() if k in ("mode", "seed", "level")}
        if v is None:
            n["violation"] += 1
            if reported >= max_reports:
                continue
            reported += 1
            at = last_line(ctx, blocks, hid, (), name + "-h%s" % hid) if u[0] == "h" else None
            what = "%s %s of the real storage engine is not explained by the strict spec nor by any open deviation" % (kind, u,)
            if at is not None and at < len(blocks[hid]):
                what += "; first unexplained line %d: %s" % (at, blocks[hid][at].strip()[:400])
            if u[0] == "c":
                what += "; cut: %s" % json.dumps(json.loads(blocks[hid][u[2]])["cuts"][u[3] - 1])[:500]
            ctx.deviation(None, what, dict(kind="history", config=cfg1, history=hist, unit=list(u), lines=blocks[hid][:200]))
        else:
            n["known"] += 1
            for d in sorted(v):
                what = "%s of history %s (level %s%s) is explained only by the as-built deviation of %s" % (
                    "crash cut %s" % (u[2:],) if u[0] == "c" else "the trace", hid, hist and hist.get("level"),
                    (", faults %s" % json.dumps(hist.get("faults"))) if hist and hist.get("faults") else "", d)
                ctx.deviation(d, what, dict(kind="history", config=cfg1, history=hist, unit=list(u), lines=blocks[hid][:200]))
    return n
