"""Shared machinery of the SwampKV checks (C06, C05, C30): spec/SwampKV.tla + MC_SwampKV + Trace_SwampKV bound
to the real Gateway by harness/cmd/swampkv.

  * exhaustive TLC runs of the design per request family (strict must hold; every deviation must be caught),
  * export of the request alphabets from the TLA+ module (single source for spec and driver),
  * enumeration of ALL histories up to a length over an alphabet, seeded long mixed histories,
  * parallel driver batches (one process per batch: one rig per process) and parallel TLC trace validation,
  * classification: a history is fine if the strict spec explains it; if it needed deviations they must all be
    open findings of the property (KNOWN-FINDING), anything else is a VIOLATION with a replay file.
"""
import json, os, random, itertools, shutil, threading
from concurrent.futures import ThreadPoolExecutor
import vlib

# deviation name in the spec  ->  (finding id, property)
DEVS = {
    "U32DeleteDeadlock": ("D_C06_U32DeleteDeadlock", "C06"),
    "U32DeleteWrongType": ("D_C06_U32DeleteWrongType", "C06"),
    "StickyDirty": ("D_C06_StickyDirty", "C06"),
    "IncVoidSideEffect": ("D_C06_IncVoidSideEffect", "C06"),
    "EmptySwampExists": ("D_C06_EmptySwampExists", "C06"),
    "VoidNoClear": ("D_C06_VoidNoClear", "C06"),
    "SetSliceMerges": ("D_C06_SetSliceMerges", "C06"),
    "U32PushWrongType": ("D_C06_U32PushWrongType", "C06"),
    "SetErrorExtraResponse": ("D_C06_SetErrorExtraResponse", "C06"),
    "GobZero": ("D_C05_GobZero", "C05"),
    "IncMetaNotSaved": ("D_C05_IncMetaNotSaved", "C05"),
    "DeleteRecreateResurrects": ("D_C05_DeleteRecreateResurrects", "C05"),
    "PreEpochInvisible": ("D_C30_PreEpochInvisible", "C30"),
    "StaleExpiryIndex": ("D_C30_StaleExpiryIndex", "C30"),
}
FID2DEV = {v[0]: k for k, v in DEVS.items()}

STATE_INV = "TypeOK Normalized ExistsIffNonEmpty NoPending NoStaleFlags DiskFaithful IndexFresh"
PROPS = ("Returns OneResponsePerSwamp SetStatusTruth SetWrites SwampErrorsNoEffect FailedIncrement GoodIncrement "
         "ReadsArePure ErrorsNoEffect CountIsSize RemovalsAreLegal SetSemantics CloseReloadIdentity ShiftExpiredSound "
         "ExpiryVisible PatchExpiredSound FilterAgrees IndexAgrees PatchMetaEffect DvSound")

# where TLC must find each deviation (family, depth): non-vacuity of the properties
WITNESS_SCOPE = {
    "U32DeleteDeadlock": ("u32", 2), "U32DeleteWrongType": ("u32", 2), "StickyDirty": ("set", 2),
    "IncVoidSideEffect": ("inc", 2), "EmptySwampExists": ("inc", 2), "VoidNoClear": ("set", 2),
    "SetSliceMerges": ("u32", 2), "U32PushWrongType": ("u32", 2), "SetErrorExtraResponse": ("set", 1),
    "GobZero": ("reload", 2), "IncMetaNotSaved": ("reload", 2), "DeleteRecreateResurrects": ("resurrect", 6), "PreEpochInvisible": ("expiry", 2), "StaleExpiryIndex": ("expiry", 3),
}


def open_devs(ctx):
    """deviation names whose finding is open (in any of the three properties)."""
    out = []
    # VERIF_ASSUME_FIXED=D_C06_x,D_C06_y: treat these findings as fixed (used to verify a proposed fix in a
    # private repository copy before the finding's status is changed)
    assume = set(filter(None, os.environ.get("VERIF_ASSUME_FIXED", "").split(",")))
    for f in ctx.findings:
        if f.get("status") == "open" and f["id"] in FID2DEV and f["id"] not in assume:
            out.append(FID2DEV[f["id"]])
    return sorted(out)


def devset(devs):
    return "{%s}" % ",".join('"%s"' % d for d in devs)


def mc_cfg(family, maxops, devs=(), props=PROPS, inv=STATE_INV):
    return """SPECIFICATION Spec
CONSTANTS
  Dev = %s
  NOW = 10
  KeyOrder <- Keys4
  Family = "%s"
  MaxOps = %d
CONSTRAINT Bounded
VIEW mcview
INVARIANTS %s
PROPERTIES %s
""" % (devset(devs), family, maxops, inv, props)


def trace_cfg(devs):
    return """SPECIFICATION TraceSpec
CONSTANTS
  Dev = %s
  NOW = 10
  KeyOrder <- Keys4
INVARIANTS TNormalized TExistsIffNonEmpty TNoStaleFlags TCountable
POSTCONDITION TraceAccepted
CHECK_DEADLOCK FALSE
""" % devset(devs)


def parallel(fn, items, workers):
    """run fn over items in a thread pool; the first exception (Inconclusive) is re-raised."""
    if not items:
        return []
    with ThreadPoolExecutor(max_workers=workers) as ex:
        return list(ex.map(fn, items))


# ------------------------------------------------------------------------------------------- design checks

def check_design(ctx, scopes, workers=4, coverage_family=None):
    """strict spec: every property holds on every (family, depth) scope."""
    def one(fd):
        fam, depth = fd
        r = ctx.tlc("MC_SwampKV", cfg_text=mc_cfg(fam, depth), name="mc-%s-%d" % (fam, depth), workers=8 if len(scopes) == 1 else 4,
                    timeout=3000, coverage=(fam == coverage_family))
        return fam, depth, r
    res = parallel(one, scopes, workers)
    out = {}
    for fam, depth, r in res:
        if not r.ok:
            raise vlib.Inconclusive("strict SwampKV (%s, depth %d) does not satisfy its own properties: %s %s\n%s" % (
                fam, depth, r.violated, r.error, r.out[-2500:]))
        out["%s/%d" % (fam, depth)] = r.summary()
        if fam == coverage_family and r.coverage_zero:
            ctx.extra["coverage_zero"] = r.coverage_zero[:12]
    ctx.extra.setdefault("mc_strict", {}).update(out)
    return out


def check_witnesses(ctx, devs, workers=4):
    """each deviation alone must make TLC find a violated property (the properties are not vacuous)."""
    def one(d):
        fam, depth = WITNESS_SCOPE[d]
        r = ctx.tlc("MC_SwampKV", cfg_text=mc_cfg(fam, depth, [d]), name="mc-dev-%s" % d, workers=2, timeout=3000,
                    deadlock=False, count_states=False)
        return d, r
    out = {}
    for d, r in parallel(one, devs, workers):
        if r.ok or not r.violated:
            raise vlib.Inconclusive("deviation %s does not violate any property of the design (vacuous properties?): %s" % (d, r.error))
        out[d] = r.violated
    ctx.extra.setdefault("deviation_violates", {}).update(out)
    return out


def check_bookkeeping(ctx, devs, scopes, workers=4):
    """with all open deviations on, every outcome the strict spec does not allow names a deviation."""
    def one(fd):
        fam, depth = fd
        r = ctx.tlc("MC_SwampKV", cfg_text=mc_cfg(fam, depth, devs, props="DvSound", inv="TypeOK"), name="mc-asbuilt-%s" % fam,
                    workers=4, timeout=3000, deadlock=False, count_states=False)
        return fam, r
    for fam, r in parallel(one, scopes, workers):
        if not r.ok:
            raise vlib.Inconclusive("as-built SwampKV (%s): deviation bookkeeping unsound: %s %s" % (fam, r.violated, r.error))
        ctx.extra.setdefault("mc_asbuilt", {})[fam] = r.summary()


def export_alphabets(ctx):
    cfg = """SPECIFICATION Spec
CONSTANTS
  Dev = {}
  NOW = 10
  KeyOrder <- Keys4
  Family = "set"
  MaxOps = 0
CONSTRAINT Bounded
"""
    r = ctx.tlc("Gen_SwampKV", cfg_text=cfg, workers=1, name="gen-alphabets", count_states=False, timeout=1200)
    if not r.ok:
        raise vlib.Inconclusive("alphabet export failed: %s %s" % (r.violated, r.error))
    out = {}
    for p in r.printed:
        d = json.loads(p) if isinstance(p, str) else p
        if isinstance(d, dict) and "family" in d:
            key = lambda q: json.dumps(q, sort_keys=True)
            out[d["family"]] = dict(reqs=sorted(d["reqs"], key=key), core=sorted(d["core"], key=key))
    if not out:
        raise vlib.Inconclusive("no alphabets exported")
    return out


# ------------------------------------------------------------------------------------------- histories

def all_histories(alphabet, maxlen, minlen=1):
    for n in range(minlen, maxlen + 1):
        for h in itertools.product(alphabet, repeat=n):
            yield list(h)


class LongGen:
    """seeded long mixed histories over every C06 RPC.  A light shadow (which keys probably hold a non-empty
    uint32 set) only steers the generator away from the calls that end a history early while the
    Uint32SliceDelete deadlock is open; it has no part in any verdict."""
    KEYS = ["k1", "k2", "k3"]
    SCALARS = ["i8", "i16", "i32", "i64", "u8", "u16", "u32", "u64", "f32", "f64", "str", "bool", "bytes"]

    def __init__(self, rng, risky=0.03):
        self.r = rng
        self.risky = risky
        self.sets = {}

    def item(self, k=None):
        r = self.r
        k = k or r.choice(self.KEYS)
        t = r.choice(self.SCALARS + ["void", "none", "u32s", "str", "i8"])
        it = dict(k=k, t=t, v=0, u=[], ca=0, cb=0, ua=0, ub=0, ea=0)
        if t in ("str", "bytes"):
            it["v"] = r.choice([0, 1, 2, 3])
        elif t == "bool":
            it["v"] = r.choice([0, 1])
        elif t == "u32s":
            it["u"] = r.sample([1, 2, 3, 4], r.choice([0, 1, 2, 3]))
        elif t not in ("void", "none"):
            it["v"] = r.choice([0, 1, 2, 5, 7])
        if r.random() < 0.3:
            it["ca"] = r.choice([0, 1, 2, 11])
            it["cb"] = r.choice([0, 1, 2])
        if r.random() < 0.2:
            it["ua"] = r.choice([0, 3, 12])
            it["ub"] = r.choice([0, 1, 3])
        if r.random() < 0.25:
            it["ea"] = r.choice([0, 2, 4, 12, 13])
        return it

    def meta(self):
        r = self.r
        if r.random() < 0.6:
            return dict(on=False, ca=False, cb=0, ua=False, ub=0, ea=0)
        return dict(on=True, ca=r.random() < 0.3, cb=r.choice([0, 0, 1, 2]), ua=r.random() < 0.3, ub=r.choice([0, 0, 2, 3]),
                    ea=r.choice([0, 0, 3, 12, 14]))

    def touch(self, k, kind):
        if kind is None:
            self.sets.pop(k, None)
        else:
            self.sets[k] = kind

    def step(self):
        r = self.r
        x = r.random()
        keys = lambda: r.sample(self.KEYS + ["k9"], r.choice([1, 1, 2, 3]))
        if x < 0.30:
            n = r.choice([1, 1, 1, 2, 3])
            ks = r.sample(self.KEYS, n)
            items = [self.item(k) for k in ks]
            create, over = r.choice([(True, True)] * 6 + [(True, False), (False, True), (False, True), (False, False)])
            if create or over:
                for it in items:
                    self.touch(it["k"], "other")   # approximate
            return dict(op="Set", create=create, over=over, items=items)
        if x < 0.42:
            t = r.choice(["i8", "i8", "u16", "i64", "f64", "u8", "f32"])
            k = r.choice(self.KEYS)
            c = r.choice([dict(op="none", v=0)] * 3 + [dict(op=o, v=r.choice([0, 1, 2, 5])) for o in ("eq", "ne", "gt", "ge", "lt", "le")])
            self.touch(k, "other")
            # an unsigned increment cannot be negative on the wire
            by = r.choice([1, 1, 2, 3]) if t.startswith("u") else r.choice([1, 1, 2, -1, -2, 3])
            return dict(op="Inc", t=t, k=k, by=by, cond=c, mn=self.meta(), mx=self.meta())
        if x < 0.52:
            ps = []
            for k in r.sample(self.KEYS, r.choice([1, 1, 2])):
                u = [r.choice([1, 2, 3, 4]) for _ in range(r.choice([0, 1, 2, 3]))]
                ps.append(dict(k=k, u=u))
                cur = self.sets.get(k)
                if cur is None:
                    self.touch(k, set(u) if u else "other")
                elif isinstance(cur, set):
                    cur.update(u)
            return dict(op="U32Push", pairs=ps)
        if x < 0.60:
            if r.random() < self.risky:
                k = r.choice(self.KEYS)
                self.touch(k, None)
                return dict(op="U32Delete", pairs=[dict(k=k, u=r.sample([1, 2, 3, 4], r.choice([1, 2, 4])))])
            safe = [k for k, v in self.sets.items() if isinstance(v, set) and len(v) >= 1]
            if not safe:
                return dict(op="U32Size", k=r.choice(self.KEYS))
            k = r.choice(safe)
            vals = sorted(self.sets[k])
            drop = r.sample(vals, r.randrange(0, len(vals)))      # never all of them
            self.sets[k] = set(vals) - set(drop)
            return dict(op="U32Delete", pairs=[dict(k=k, u=drop + [r.choice([7, 8, 9])])])
        if x < 0.64:
            return dict(op="U32Size", k=r.choice(self.KEYS))
        if x < 0.68:
            return dict(op="U32Has", k=r.choice(self.KEYS), x=r.choice([1, 2, 3, 4, 9]))
        if x < 0.76:
            return dict(op="Get", keys=keys())
        if x < 0.80:
            return dict(op="GetAll")
        if x < 0.83:
            return dict(op="GetByKeys", keys=keys())
        if x < 0.88:
            ks = keys()
            for k in ks:
                self.touch(k, None)
            return dict(op="Delete", keys=ks)
        if x < 0.91:
            ks = keys()
            for k in ks:
                self.touch(k, None)
            return dict(op="ShiftByKeys", keys=ks)
        if x < 0.94:
            return dict(op="Count")
        if x < 0.96:
            return dict(op="IsSwampExist")
        if x < 0.975:
            return dict(op="IsKeyExist", k=r.choice(self.KEYS + ["k9"]))
        if x < 0.99:
            return dict(op="AreKeysExist", keys=keys())
        self.sets = {}
        return dict(op="Destroy")

    def history(self, n):
        self.sets = {}
        return [self.step() for _ in range(n)]


# ------------------------------------------------------------------------------------------- run + validate

class Runner:
    def __init__(self, ctx, binary, devs, prop):
        self.ctx, self.binary, self.devs, self.prop = ctx, binary, devs, prop
        self.next_id = 1
        self.batches = []     # (tag, [history dicts])
        self.by_id = {}
        self.stats = dict(histories=0, calls=0, not_returned=0, strict_ok=0, known=0, violations=0)
        self.used_count = {}
        self.lock = threading.Lock()
        self.driver_env = {}
        self.foreign_used = {}
        self.retry = []          # unexplained histories of idle-timeout swamps: judged only if they repeat
        self.retrying = False
        self.unreproduced = []

    def add(self, steps, mode, label):
        h = dict(id=self.next_id, mode=mode, steps=steps, label=label)
        self.by_id[h["id"]] = h
        self.next_id += 1
        return h

    def run_batches(self, batches, driver_workers=4, tlc_workers=4, driver_timeout=3000, tlc_timeout=3000):
        """batches: list of lists of history dicts.  Runs the driver for each batch, validates each trace, classifies."""
        ctx = self.ctx

        def drive(ib):
            i, hs = ib
            tag = "b%d" % i
            inp = os.path.join(ctx.work, "in-%s.json" % tag)
            outp = os.path.join(ctx.work, "trace-%s.ndjson" % tag)
            json.dump(dict(tag=tag, histories=[dict(id=h["id"], mode=h["mode"], steps=h["steps"]) for h in hs]), open(inp, "w"))
            env = {"VERIF_WORK": os.path.join(ctx.work, "data-" + tag)}
            env.update(self.driver_env)
            ctx.run_driver(self.binary, ["run", inp, outp], timeout=driver_timeout, env=env)
            shutil.rmtree(os.path.join(ctx.work, "data-" + tag), ignore_errors=True)
            os.remove(inp)
            return tag, outp, hs

        base = self.stats.get("batches", 0)
        numbered = [(base + i, b) for i, b in enumerate(batches)]
        self.stats["batches"] = base + len(batches)
        driven = parallel(drive, numbered, driver_workers)

        def validate(t):
            tag, outp, hs = t
            r = ctx.tlc("Trace_SwampKV", cfg_text=trace_cfg(self.devs), workers=1, deadlock=False, dfs=True,
                        env={"TRACE_FILE": outp}, name="trace-" + tag, count_states=False, timeout=tlc_timeout, heap="3g")
            return tag, outp, hs, r
        for tag, outp, hs, r in parallel(validate, driven, tlc_workers):
            self.classify(tag, outp, hs, r)

    def classify(self, tag, outp, hs, r):
        ctx = self.ctx
        if r.error or (r.violated and r.violated != "Postcondition" and not r.violated.startswith("T")):
            raise vlib.Inconclusive("trace validation of %s failed: %s %s\n%s" % (tag, r.violated, r.error, r.out[-2500:]))
        lines = open(outp).read().splitlines()
        calls = [l for l in lines if '"ev":"call"' in l]
        nret = sum(1 for l in calls if '"ret":false' in l)
        reports, mism = {}, {}
        for p in r.printed:
            try:
                d = json.loads(p) if isinstance(p, str) else p
            except Exception:
                continue
            if not isinstance(d, dict) or "h" not in d:
                continue
            if "expected" in d:
                # several branches (silent evictions) may fail at different lines: keep the one that got furthest
                if d["h"] not in mism or d.get("line", 0) > mism[d["h"]].get("line", 0):
                    mism[d["h"]] = d
            elif "used" in d:
                reports.setdefault(d["h"], []).append(d)
        if r.violated and r.violated.startswith("T"):
            # a design invariant failed on a recorded state: find the history from the error trace
            hid = None
            import re
            m = re.findall(r"hid = (\d+)", r.out)
            if m:
                hid = int(m[-1])
            h = self.by_id.get(hid)
            keep = os.path.join(ctx.replays, "trace-%d-%s.ndjson" % (ctx.seed, tag))
            shutil.copy(outp, keep)
            ctx.deviation(None, "invariant %s of SwampKV violated on the state reached by a recorded history (%s)" % (
                r.violated, h["label"] if h else "?"), dict(kind="history", history=h, trace=keep))
            self.stats["violations"] += 1
            return
        if not r.ok and r.violated == "Postcondition":
            raise vlib.Inconclusive("trace %s not consumed to the end\n%s" % (tag, r.out[-2000:]))
        with self.lock:
            self.stats["histories"] += len(hs)
            self.stats["calls"] += len(calls)
            self.stats["not_returned"] += nret
            ctx.cov["traces_validated_against_impl"] += len(hs)
            ctx.cov["evaluations"] += len(calls)
        skipped = 0
        for l in lines[-3:]:
            if '"ev":"end"' in l:
                e = json.loads(l)
                skipped = e.get("skipped", 0)
                self.stats["retried_histories"] = self.stats.get("retried_histories", 0) + e.get("retried", 0)
                self.stats["skipped_histories"] = self.stats.get("skipped_histories", 0) + skipped
        byh = {}
        for l in lines:
            if '"ev":"call"' in l:
                d = json.loads(l)
                byh.setdefault(d["h"], []).append(d)
        for h in hs:
            reps = reports.get(h["id"])
            if not reps:
                if skipped:
                    continue    # the driver stopped early after repeated runaway calls (those are reported)
                raise vlib.Inconclusive("no verdict printed for history %d in %s" % (h["id"], tag))
            good = [x for x in reps if not x["bad"]]
            ctx.count_case([h["mode"]] + h["steps"], nontrivial=len(h["steps"]) >= 2)
            if good:
                used = min((set(x["used"]) for x in good), key=len)
                if not used:
                    self.stats["strict_ok"] += 1
                    continue
                verdicts = []
                for d in sorted(used):
                    self.used_count[d] = self.used_count.get(d, 0) + 1
                    fid, prop = DEVS.get(d, (None, None))
                    if fid is not None and prop != self.prop:
                        # an open finding of a sibling property (it is in Dev only while open): reported by that property's check
                        self.foreign_used[d] = self.foreign_used.get(d, 0) + 1
                        continue
                    what = "history (%s, %s) needs deviation %s: %s" % (h["label"], h["mode"], d, brief(h, byh.get(h["id"])))
                    verdicts.append(ctx.deviation(fid, what,
                                                  dict(kind="history", history=h, observed=byh.get(h["id"]), needs=sorted(used))))
                if not verdicts:
                    self.stats["strict_ok"] += 1
                    continue
                if "violation" in verdicts:
                    self.stats["violations"] += 1
                else:
                    self.stats["known"] += 1
            else:
                m = mism.get(h["id"], {})
                obs = byh.get(h["id"]) or []
                i = m.get("i", 0)
                what = "history (%s, %s): step %d %s: no outcome of the specification (with the open deviations) matches the real response; observed %s; spec allows %s" % (
                    h["label"], h["mode"], i, m.get("op"), json.dumps(strip(obs[i]) if i < len(obs) else None)[:500],
                    json.dumps(m.get("expected"))[:500])
                rep = dict(kind="history", history=h, observed=obs, mismatch=m)
                if h["mode"] in ("pi", "pj") and not self.retrying:
                    # a swamp with a 1 s idle timeout can be evicted WHILE a request is being served when the machine
                    # is slow; what happens then is a race of the lifecycle code (C16-C18), not single-client
                    # semantics.  Such a history is run again, alone; only a mismatch that repeats is a verdict.
                    self.retry.append((h, what, rep))
                    continue
                ctx.deviation(None, what, rep)
                self.stats["violations"] += 1

    def run_retries(self):
        """second, sequential run of the idle-timeout histories that were unexplained the first time."""
        if not self.retry:
            return
        ctx = self.ctx
        first = {h["id"]: (what, rep) for h, what, rep in self.retry}
        hs = [h for h, _, _ in self.retry]
        self.retry = []
        self.retrying = True
        before = self.stats["violations"]
        env = dict(self.driver_env)
        self.driver_env = {"SWAMPKV_PAR": "4"}
        try:
            self.run_batches([hs[:400]], driver_workers=1, tlc_workers=1)
        finally:
            self.driver_env = env
            self.retrying = False
        repeated = self.stats["violations"] - before
        ctx.extra["retried_unexplained"] = len(hs)
        ctx.extra["retried_repeated"] = repeated
        if repeated == 0:
            for hid, (what, rep) in list(first.items())[:5]:
                path = ctx.save_replay(rep, tag="unreproduced")
                self.unreproduced.append(dict(what=what[:400], replay=path))
            ctx.extra["unreproduced"] = self.unreproduced
            for u in self.unreproduced:
                vlib.log("NOTE property=%s unreproduced (raced an idle eviction, passed when run again): %s replay=%s" % (
                    ctx.pid, u["what"][:200], u["replay"]))

def strip(d):
    return {k: v for k, v in d.items() if k not in ("ev", "h")}


def brief(h, obs):
    ops = [s["op"] for s in h["steps"]]
    return "ops=%s" % (",".join(ops[:8]) + ("..." if len(ops) > 8 else ""))


def chunk(hs, n):
    n = max(1, n)
    size = (len(hs) + n - 1) // n
    return [hs[i:i + size] for i in range(0, len(hs), size)] if hs else []


def replay_history(ctx):
    """--replay PATH: the single history stored in a replay file, or None."""
    if not ctx.replay:
        return None
    rp = json.load(open(ctx.replay)).get("replay", {})
    if rp.get("kind") == "history" and rp.get("history"):
        return rp["history"]
    return None
