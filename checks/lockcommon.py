"""Shared by c14.py (exclusive / FIFO / TTL / deadlock-free) and c28.py (no residue): spec/Lock.tla, the driver
harness/cmd/lock and TLC trace validation against spec/Trace_Lock.tla."""
import json, os, time
import vlib, edges

QNP = "QueuesNeverPruned"
INV = "INVARIANTS TypeOK MutualExclusion HolderIsHead QueueConsistent HeadToldToGo QueuePresent\n"
PROPS = "PROPERTIES GrantFifo ForeignUnlockHarmless ReleasedOnlyByOwnerOrTtl\n"


def sset(names):
    return "{%s}" % ", ".join('"%s"' % n for n in names)


def P(n):
    return ["p%d" % i for i in range(1, n + 1)]


def K(n):
    return ["k%d" % i for i in range(1, n + 1)]


def mc_cfg(nprocs, nkeys, budget, dev, extra, maxtotal=99):
    if "ACTION_CONSTRAINT" in extra:
        extra = extra.replace("ACTION_CONSTRAINT", "ACTION_CONSTRAINT EagerWdExit")
    else:
        extra += "ACTION_CONSTRAINT EagerWdExit\n"
    return """SPECIFICATION Spec
CONSTANTS
  Procs = %s
  Keys = %s
  Budget = %d
  MaxTotal = %d
  Dev = %s
%s
""" % (sset(P(nprocs)), sset(K(nkeys)), budget, maxtotal, sset([dev] if dev else []), extra)


def trace_cfg(nprocs, nkeys, invariants=True):
    return """SPECIFICATION TraceSpec
CONSTANTS
  Procs = %s
  Keys = %s
  Budget = 0
  Dev <- TraceDev
%sCHECK_DEADLOCK FALSE
""" % (sset(P(nprocs)), sset(K(nkeys)), "INVARIANT TraceInv\nPROPERTY TraceProps\n" if invariants else "")


def realizable(path):
    """A TLC path the harness can force on the real lock: the select of a caller takes the branch whose channel
    was closed first, so a path that lets a caller Acquire after it was cancelled first (or Abort although it was
    told to go first) cannot be forced (both are behaviours of the code; they are covered by the stress traces)."""
    first = {}
    for s in path:
        a, p = s["act"]["a"], s["act"]["p"]
        if a == "Enq":
            first[p] = "ready" if s["act"]["res"] == 1 else None
        elif a == "CancelCtx":
            if first.get(p) is None:
                first[p] = "cancel"
        elif a == "Acquire":
            if first.get(p) == "cancel":
                return False
        elif a == "Abort":
            if first.get(p) != "cancel":
                return False
        # somebody else's remove may make p ready: look at the resulting state
        for q, rd in s["to"]["ready"].items():
            if rd and s["to"]["pc"].get(q) == "waiting" and first.get(q) is None:
                first[q] = "ready"
    return True


def export_tests(ctx, nprocs, nkeys, budget, maxtotal, name):
    r = ctx.tlc("MC_Lock", cfg_text=mc_cfg(nprocs, nkeys, budget, None, "CONSTRAINT Cap\nACTION_CONSTRAINT OrderedFirstCalls ExportEdge\n", maxtotal),
                workers=1, deadlock=False, name=name, count_states=False, timeout=6000)
    if not r.ok:
        raise vlib.Inconclusive("edge export %s failed: %s %s" % (name, r.violated, r.error))
    # (the AtRest stutter of the spec shows up as a self-loop labelled with the previous action: not a transition)
    lines = [e for e in (json.loads(x) for x in r.printed if x.startswith("{")) if edges.key(e["from"]) != edges.key(e["to"])]
    tests, ne, ns = edges.build_tests(lines)
    # the watchdog's exit is not something the harness does: it is observed (wdexit lines, `wd` at the points of rest)
    tests = [[s for s in t if s["act"]["a"] != "WdExit"] for t in tests if t[-1]["act"]["a"] != "WdExit"]
    ok = [t for t in tests if realizable(t)]
    return ok, dict(edges=ne, states=ns, paths=len(tests), realizable=len(ok))


class LockBatch:
    """Driver runs concatenated into one log; every run starts with a reset line."""

    def __init__(self, ctx, name, binary):
        self.ctx, self.name, self.binary = ctx, name, binary
        self.trace = os.path.join(ctx.work, name + ".ndjson")
        self.lines = []
        self.runs = []          # dict(kind, first_line, info)
        self.parts = 0
        self.driver_wall = 0.0

    def _run(self, kind, args, env=None):
        k = self.parts
        self.parts += 1
        tr = os.path.join(self.ctx.work, "%s.part%d.ndjson" % (self.name, k))
        rf = os.path.join(self.ctx.work, "%s.part%d.results.ndjson" % (self.name, k))
        t0 = time.time()
        self.ctx.run_driver(self.binary, [a.replace("@TRACE", tr).replace("@RES", rf) for a in args], timeout=6000, env=env)
        self.driver_wall += time.time() - t0
        lines = open(tr).read().splitlines()
        results = [json.loads(l) for l in open(rf)] if os.path.exists(rf) else []
        base = len(self.lines)
        resets = [i for i, l in enumerate(lines) if '"ev":"reset"' in l]
        for j, i in enumerate(resets):
            info = results[j] if j < len(results) else {}
            if info.get("infra"):
                raise vlib.Inconclusive("lock driver could not complete a step (%s, run %d): %s" % (kind, j, info["infra"]))
            self.runs.append(dict(kind=kind, first_line=base + i + 1, info=info))
        for l in lines:
            if '"ev":"hang"' in l or '"ev":"panic"' in l:
                raise vlib.Inconclusive("lock driver reported %s" % l[:300])
        self.lines += lines
        os.remove(tr)
        with open(self.trace, "w") as f:
            f.write("\n".join(self.lines) + "\n")
        return results

    def replay(self, kind, tests):
        tf = os.path.join(self.ctx.work, "%s.%s.tests.json" % (self.name, kind))
        json.dump([[dict(act=s["act"]) for s in t] for t in tests], open(tf, "w"))
        res = self._run(kind, ["replay", tf, "@TRACE", "@RES"])
        if len(res) != len(tests):
            raise vlib.Inconclusive("lock driver returned %d results for %d paths" % (len(res), len(tests)))
        return res

    def stress(self, kind, runs, procs, keys, ops, seed):
        return self._run(kind, ["stress", "@TRACE", str(runs), str(procs), str(keys), str(ops)], env={"VERIF_SEED": str(seed)})

    def residue(self, kind, keys, procs, seed):
        return self._run(kind, ["residue", "@TRACE", str(keys), str(procs)], env={"VERIF_SEED": str(seed)})

    def gateway(self, kind, clients, rounds, seed):
        return self._run(kind, ["gateway", "@TRACE", str(clients), str(rounds)], env={"VERIF_SEED": str(seed)})

    def run_lines(self, i):
        a = self.runs[i]["first_line"] - 1
        b = self.runs[i + 1]["first_line"] - 1 if i + 1 < len(self.runs) else len(self.lines)
        return self.lines[a:b]

    def validate(self, nprocs, nkeys, dev, check_qmap, label, lines=None, invariants=True):
        """Returns (accepted, number of runs fully explained, TLCResult)."""
        path = self.trace
        if lines is not None:
            path = os.path.join(self.ctx.work, "%s-%s.ndjson" % (self.name, label))
            with open(path, "w") as f:
                f.write("\n".join(lines) + "\n")
        r = self.ctx.tlc("Trace_Lock", cfg_text=trace_cfg(nprocs, nkeys, invariants), workers=1, dfs=True, deadlock=False,
                         env={"TRACE_FILE": path, "TRACE_DEV": dev or "", "CHECK_QMAP": "1" if check_qmap else "0"},
                         name="%s-%s" % (self.name, label), count_states=False, timeout=6000)
        if r.error:
            raise vlib.Inconclusive("trace validation failed to run (%s): %s\n%s" % (label, r.error[:500], r.out[-1500:]))
        accepted, done = False, 0
        for x in r.printed:
            if x.startswith("{"):
                d = json.loads(x)
                if d.get("accepted"):
                    accepted = True
                elif "run" in d:
                    done = max(done, d["run"])
        return accepted and not r.violated, done, r

    def classify(self, nprocs, nkeys, modes, max_rejected=5):
        """modes: list of (label, dev, check_qmap) tried in order for every run. Returns per run the label of the first
        mode that explains it, or 'rejected' (with the TLC result of the last mode tried) / None (not reached)."""
        n = len(self.runs)
        verdict = [None] * n
        detail = {}
        start = 0
        rejected = 0
        while start < n:
            lines = self.lines[self.runs[start]["first_line"] - 1:]
            progressed = False
            for label, dev, cq in modes:
                ok, done, r = self.validate(nprocs, nkeys, dev, cq, "%s-%d" % (label, start), lines=None if start == 0 else lines)
                if ok:
                    for i in range(start, n):
                        verdict[i] = label
                    return verdict, detail
                if done > 0:
                    for i in range(start, start + done):
                        verdict[i] = label
                    start += done
                    progressed = True
                    break
            if not progressed:
                # run `start` is explained by no mode
                verdict[start] = "rejected"
                detail[start] = dict(violated=r.violated, tail=r.out[-1200:])
                rejected += 1
                start += 1
                if rejected >= max_rejected:
                    break
        return verdict, detail
