"""Shared by c18.py (one live instance per swamp) and c17.py (summon waits terminate): spec/Summon.tla, the driver
harness/cmd/summon (real Hydra, verifhook gates inside SummonSwamp) and TLC trace validation against
spec/Trace_Summon.tla."""
import json, os, re, time
import vlib, edges

DEV = "SlotDrop"
COMMANDS = ("Start", "Cancel", "GoLoaded", "GoSlot", "GoGot", "GoCreate", "CloseBegin", "CloseDone")
INV = "INVARIANTS TypeOK OneLive MapIsLive OneInBody SlotNotDropped ParkedHasOwner ParkedConsistent NoStuck\n"


def sset(names):
    return "{%s}" % ", ".join('"%s"' % n for n in names)


def S(n):
    return ["s%d" % i for i in range(1, n + 1)]


def mc_cfg(nproc, maxcalls, ninst, nobj, dev, extra):
    return """SPECIFICATION Spec
CONSTANTS
  Procs = %s
  MaxCalls = %d
  MaxInst = %d
  MaxObj = %d
  Dev = %s
%s
""" % (sset(S(nproc)), maxcalls, ninst, nobj, sset([dev] if dev else []), extra)


TRACE_CFG = """SPECIFICATION TraceSpec
CONSTANTS
  Procs = {"s1","s2","s3","s4"}
  MaxCalls = 0
  MaxInst = 0
  MaxObj = 0
  Dev <- TraceDev
%sCHECK_DEADLOCK FALSE
"""


def project(path):
    return [dict(a=s["act"]["a"], p=s["act"]["p"], x=s["act"]["x"] if s["act"]["a"].startswith("Close") else 0)
            for s in path if s["act"]["a"] in COMMANDS]


def dedupe(cmdlists):
    seen, out = set(), []
    for c in cmdlists:
        k = json.dumps(c)
        if c and k not in seen:
            seen.add(k)
            out.append(c)
    return out


def export_schedules(ctx, nproc, maxcalls, ninst, nobj, name):
    """One shortest path per transition of the strict state graph, projected to the harness' commands."""
    r = ctx.tlc("MC_Summon", cfg_text=mc_cfg(nproc, maxcalls, ninst, nobj, None, "ACTION_CONSTRAINT OrderedStarts ExportEdge\n"),
                workers=1, deadlock=False, name=name, count_states=False, timeout=6000)
    if not r.ok:
        raise vlib.Inconclusive("edge export %s failed: %s %s" % (name, r.violated, (r.error or "")[:400]))
    lines = [e for e in (json.loads(x) for x in r.printed if x.startswith("{")) if edges.key(e["from"]) != edges.key(e["to"])]
    if any(e.get("twolive") for e in lines):
        raise vlib.Inconclusive("the strict Summon state graph contains a state with two live instances")
    tests, ne, ns = edges.build_tests(lines)
    cmds = dedupe([project(t) for t in tests])
    return cmds, dict(edges=ne, states=ns, schedules=len(cmds))


_state_re = re.compile(r"^State \d+: <(\w+)\(([^)]*)\) line", re.M)


def counterexample_commands(r):
    """The action sequence of a TLC counterexample (invariant violation), projected to the harness' commands."""
    out = []
    for a, args in _state_re.findall(r.out):
        if a not in COMMANDS:
            continue
        args = args.strip().strip('"')
        if a.startswith("Close"):
            out.append(dict(a=a, p="", x=int(args)))
        else:
            out.append(dict(a=a, p=args, x=0))
    return out


class SummonBatch:
    def __init__(self, ctx, name, binary):
        self.ctx, self.name, self.binary = ctx, name, binary
        self.trace = os.path.join(ctx.work, name + ".ndjson")
        self.lines = []
        self.results = []
        self.parts = 0
        self.driver_wall = 0.0

    def _part(self, kind, args, n, env=None):
        k = self.parts
        self.parts += 1
        tr = os.path.join(self.ctx.work, "%s.part%d.ndjson" % (self.name, k))
        rf = os.path.join(self.ctx.work, "%s.part%d.results.ndjson" % (self.name, k))
        t0 = time.time()
        self.ctx.run_driver(self.binary, [a.replace("@TRACE", tr).replace("@RES", rf) for a in args], timeout=6000, env=env)
        self.driver_wall += time.time() - t0
        results = [json.loads(l) for l in open(rf)]
        for r in results:
            if r.get("infra"):
                raise vlib.Inconclusive("summon driver could not observe a point of rest (%s, test %d): %s" % (kind, r["test"], r["infra"]))
        if len(results) != n:
            raise vlib.Inconclusive("summon driver returned %d results for %d schedules (%s)" % (len(results), n, kind))
        base = len(self.lines)
        for r in results:
            r["first_line"] += base
            r["kind"] = kind
        self.lines += open(tr).read().splitlines()
        self.results += results
        os.remove(tr)
        with open(self.trace, "w") as f:
            f.write("\n".join(self.lines) + "\n")
        return results

    def run_tests(self, kind, tests):
        tf = os.path.join(self.ctx.work, "%s.%s.tests.json" % (self.name, kind))
        json.dump(tests, open(tf, "w"))
        return self._part(kind, ["run", tf, "@TRACE", "@RES"], len(tests))

    def run_random(self, kind, runs, nsum, steps, seed):
        return self._part(kind, ["random", "@TRACE", "@RES", str(runs), str(nsum), str(steps)], runs, env={"VERIF_SEED": str(seed)})

    def run_lines(self, i):
        a = self.results[i]["first_line"] - 1
        b = self.results[i + 1]["first_line"] - 1 if i + 1 < len(self.results) else len(self.lines)
        return self.lines[a:b]

    def validate(self, dev, label, lines=None):
        path = self.trace
        if lines is not None:
            path = os.path.join(self.ctx.work, "%s-%s.ndjson" % (self.name, label))
            with open(path, "w") as f:
                f.write("\n".join(lines) + "\n")
        r = self.ctx.tlc("Trace_Summon", cfg_text=TRACE_CFG % ("" if dev else "INVARIANT TraceInv\n"), workers=1, dfs=True, deadlock=False,
                         env={"TRACE_FILE": path, "TRACE_DEV": dev or ""}, name="%s-%s" % (self.name, label), count_states=False, timeout=6000)
        if r.error:
            raise vlib.Inconclusive("trace validation failed to run (%s): %s\n%s" % (label, r.error[:500], r.out[-1500:]))
        accepted, done = False, 0
        for x in r.printed:
            if x.startswith("{"):
                d = json.loads(x)
                if d.get("accepted"):
                    accepted = True
                elif "run" in d:
                    done = max(done, d["run"])
        return accepted and not r.violated, done, r

    def classify(self, max_rejected=5, max_fallbacks=10):
        """Per run: 'strict' | 'asbuilt' | 'rejected' | None (not reached). The strict design is tried first on the rest of
        the log; a run it does not explain is tried alone under the as-built variant, then the strict pass resumes after it
        (after max_fallbacks such runs the rest is labelled by one as-built pass)."""
        n = len(self.results)
        verdict = [None] * n
        detail = {}
        start, rejected, fallbacks = 0, 0, 0
        while start < n:
            lines = None if start == 0 else self.lines[self.results[start]["first_line"] - 1:]
            mode = ("strict", None) if fallbacks < max_fallbacks else ("asbuilt", DEV)
            ok, done, r = self.validate(mode[1], "%s-%d" % (mode[0], start), lines=lines)
            if ok:
                for i in range(start, n):
                    verdict[i] = mode[0]
                break
            if done > 0:
                for i in range(start, start + done):
                    verdict[i] = mode[0]
                start += done
                continue
            # run `start` is not explained by this mode: try it alone under the other variant
            one = self.run_lines(start)
            other = ("asbuilt", DEV) if mode[0] == "strict" else ("strict", None)
            ok1, _, r1 = self.validate(other[1], "%s-one-%d" % (other[0], start), lines=one)
            if ok1:
                verdict[start] = other[0]
                fallbacks += 1
            else:
                verdict[start] = "rejected"
                detail[start] = dict(violated=r1.violated or r.violated)
                rejected += 1
                if rejected >= max_rejected:
                    break
            start += 1
        return verdict, detail
