// Driver for cap-bearing operations (C12): binds spec/Cap.tla to the real gateway
// (PatchTreasures / PatchExpiredTreasures / ShiftMatchingTreasures, all carrying the same Cap).
//
//	cap seq    <trace.ndjson> <histories> <ops>                    sequential random histories
//	cap replay <schedules.json> <trace.ndjson> <results.json>      TLC witness schedules stepped through the gate cap.precount.done (binding B)
//	cap stress <trace.ndjson> <histories> <info.json>              concurrent batches, all carrying the cap (binding A)
//
// Requests reach the handlers in wire form (rig.Wire) in the goroutine of the model process, so that the
// hook events (cap.batch, cap.cell, beacon.cap, beacon.select, patchexpired.patched: all emitted under capMu)
// are attributed by goroutine id. The swamp is dumped at every quiescent point; TLC validates the trace
// against Trace_Cap (budget arithmetic of every line, Count <= Max in every state).
package main

import (
	"context"
	"encoding/json"
	"fmt"
	"math/rand"
	"os"
	"runtime"
	"sort"
	"strconv"
	"strings"
	"sync"
	"sync/atomic"
	"time"

	"github.com/hydraide/hydraide/app/core/hydra/swamp/treasure"
	"github.com/hydraide/hydraide/app/verifhook"
	hydrapb "github.com/hydraide/hydraide/sdk/go/hydraidego/v3/hydraidepbgo"
	"github.com/vmihailenco/msgpack/v5"
	"google.golang.org/protobuf/types/known/timestamppb"

	"verifharness/rig"
	"verifharness/sched"
	"verifharness/trace"
)

type Op struct {
	Kind    string  `json:"kind"`    // pt | pe | sh | put
	N       int     `json:"n"`       // pe / sh: HowMany
	Patches [][]any `json:"patches"` // pt: [[key, "in"|"out"|"keep"], ...]
	Create  int     `json:"create"`  // pt: CreateIfNotExist
	SeedM   int     `json:"seedm"`   // pt: InitialMsgpackOnCreate matches Cap.Filter
	// put (seeding, carries no cap): key, st, expiry class
	K   int    `json:"k"`
	St  string `json:"st"`
	Exp string `json:"exp"` // past | future | none
}

func (o Op) traceForm() map[string]any {
	p := o.Patches
	if p == nil {
		p = [][]any{}
	}
	return map[string]any{"kind": o.Kind, "n": o.N, "patches": p, "k": o.K, "st": o.St, "exp": o.Exp, "create": o.Create, "seedm": o.SeedM}
}

var (
	r       *rig.Rig
	bg      = context.Background()
	runID   string
	base    time.Time
	pastN   int64
	futureN int64
	capMax  int
)

func keyName(k int) string { return "k" + strconv.Itoa(k) }
func keyNum(s string) int {
	n, err := strconv.Atoi(strings.TrimPrefix(s, "k"))
	if err != nil {
		return -1
	}
	return n
}
func enc(v any) []byte    { b, _ := msgpack.Marshal(v); return b }
func ps(s string) *string { return &s }

func capMsg(max int) *hydrapb.Cap {
	return &hydrapb.Cap{MaxMatching: int32(max), Filter: &hydrapb.FilterGroup{Logic: hydrapb.FilterLogic_AND, Filters: []*hydrapb.TreasureFilter{
		{BytesFieldPath: ps("st"), Operator: hydrapb.Relational_EQUAL, CompareValue: &hydrapb.TreasureFilter_StringVal{StringVal: "c"}}}}}
}

func stOf(raw []byte) string {
	if len(raw) < 2 {
		return "?"
	}
	var m map[string]any
	if msgpack.Unmarshal(raw[2:], &m) != nil {
		return "?"
	}
	s, _ := m["st"].(string)
	return s
}

func isMissingSwamp(err error) bool {
	return err != nil && (strings.Contains(err.Error(), "FailedPrecondition") || strings.Contains(err.Error(), "does not exist"))
}

func exec(sw string, max int, o Op) (out []any, err error) {
	defer func() {
		if p := recover(); p != nil {
			err = fmt.Errorf("panic: %v", p)
		}
	}()
	switch o.Kind {
	case "put":
		req := &hydrapb.PatchTreasuresRequest{IslandID: 1, SwampName: sw, CreateIfNotExist: true,
			Patches: []*hydrapb.TreasurePatch{{Key: keyName(o.K), Ops: []*hydrapb.PatchOp{{Op: hydrapb.PatchOp_SET, Path: "st", Value: enc(o.St)}}}}}
		switch o.Exp {
		case "past":
			req.Meta = &hydrapb.PatchMeta{SetExpiredAt: timestamppb.New(base.Add(-1000*time.Hour + time.Duration(atomic.AddInt64(&pastN, 1))*time.Second))}
		case "future":
			req.Meta = &hydrapb.PatchMeta{SetExpiredAt: timestamppb.New(base.Add(1000*time.Hour + time.Duration(atomic.AddInt64(&futureN, 1))*time.Second))}
		default:
			req.Meta = &hydrapb.PatchMeta{ClearExpiredAt: true}
		}
		resp, e := r.GW.PatchTreasures(bg, rig.Wire(req))
		if e != nil {
			return nil, e
		}
		return []any{resp.GetResults()[0].GetStatus().String()}, nil
	case "pt":
		req := &hydrapb.PatchTreasuresRequest{IslandID: 1, SwampName: sw, Cap: capMsg(max)}
		if o.Create == 1 {
			// an absent key is created from the seed body, then patched: the seed itself may already match Cap.Filter
			req.CreateIfNotExist = true
			seed := "p"
			if o.SeedM == 1 {
				seed = "c"
			}
			req.InitialMsgpackOnCreate = enc(map[string]any{"st": seed})
		}
		for _, p := range o.Patches {
			k := int(toInt(p[0]))
			op := &hydrapb.PatchOp{Op: hydrapb.PatchOp_SET, Path: "st", Value: enc("p")}
			switch p[1].(string) {
			case "in":
				op.Value = enc("c")
			case "keep": // does not touch the field Cap.Filter reads
				op = &hydrapb.PatchOp{Op: hydrapb.PatchOp_SET, Path: "note", Value: enc("x")}
			}
			req.Patches = append(req.Patches, &hydrapb.TreasurePatch{Key: keyName(k), Ops: []*hydrapb.PatchOp{op}})
		}
		resp, e := r.GW.PatchTreasures(bg, rig.Wire(req))
		if e != nil {
			return nil, e
		}
		out = []any{}
		for _, x := range resp.GetResults() {
			out = append(out, x.GetStatus().String())
		}
		return out, nil
	case "pe":
		req := &hydrapb.PatchExpiredTreasuresRequest{IslandID: 1, SwampName: sw, HowMany: int32(o.N), Cap: capMsg(max),
			Ops:  []*hydrapb.PatchOp{{Op: hydrapb.PatchOp_SET, Path: "st", Value: enc("c")}},
			Meta: &hydrapb.PatchMeta{SetExpiredAt: timestamppb.New(base.Add(1000*time.Hour + time.Duration(atomic.AddInt64(&futureN, 1))*time.Second))}}
		resp, e := r.GW.PatchExpiredTreasures(bg, rig.Wire(req))
		if e != nil {
			return nil, e
		}
		out = []any{}
		for _, x := range resp.GetPatched() {
			if x.GetStatus() == hydrapb.PatchResult_PATCHED {
				out = append(out, keyNum(x.GetKey()))
			} else {
				out = append(out, -keyNum(x.GetKey())) // selected but not patched
			}
		}
		return out, nil
	case "sh":
		req := &hydrapb.ShiftMatchingTreasuresRequest{IslandID: 1, SwampName: sw, HowMany: int32(o.N), Cap: capMsg(max),
			IndexType: hydrapb.IndexType_EXPIRATION_TIME, OrderType: hydrapb.OrderType_ASC, ToTime: timestamppb.New(base)}
		resp, e := r.GW.ShiftMatchingTreasures(bg, rig.Wire(req))
		if e != nil {
			return nil, e
		}
		out = []any{}
		for _, t := range resp.GetTreasures() {
			out = append(out, keyNum(t.GetKey()))
		}
		return out, nil
	}
	return nil, fmt.Errorf("unknown op %q", o.Kind)
}

func toInt(v any) int64 {
	switch x := v.(type) {
	case int:
		return int64(x)
	case int64:
		return x
	case float64:
		return int64(x)
	}
	return -1
}

type recOut struct {
	K int `json:"k"`
	M int `json:"m"`
	X int `json:"x"`
	E int `json:"e"`
}

func dump(sw string) ([]any, error) {
	resp, err := r.GW.GetAll(bg, rig.Wire(&hydrapb.GetAllRequest{IslandID: 1, SwampName: sw}))
	if err != nil {
		if isMissingSwamp(err) {
			return []any{}, nil
		}
		return nil, err
	}
	recs := []any{}
	for _, t := range resp.GetTreasures() {
		o := recOut{K: keyNum(t.GetKey())}
		if stOf(t.GetBytesVal()) == "c" {
			o.M = 1
		}
		if t.ExpiredAt != nil && t.ExpiredAt.AsTime().UnixNano() != 0 {
			o.E = 1
			if t.ExpiredAt.AsTime().Before(base) {
				o.X = 1
			}
		}
		recs = append(recs, o)
	}
	sort.Slice(recs, func(i, j int) bool { return recs[i].(recOut).K < recs[j].(recOut).K })
	return recs, nil
}

// ------------------------------------------------------------------------------------------------

type history struct {
	id    int
	max   int
	sw    string
	mu    sync.Mutex
	lines []map[string]any
	dead  atomic.Bool
}

func (h *history) emit(m map[string]any) {
	h.mu.Lock()
	if !h.dead.Load() {
		h.lines = append(h.lines, m)
	}
	h.mu.Unlock()
}

type procCtx struct {
	h    *history
	name string
}

var procs sync.Map

func bind(h *history, name string) func() {
	id := sched.GoID()
	procs.Store(id, &procCtx{h: h, name: name})
	return func() { procs.Delete(id) }
}
func current() *procCtx {
	if v, ok := procs.Load(sched.GoID()); ok {
		return v.(*procCtx)
	}
	return nil
}
func b2i(v any) int {
	if b, _ := v.(bool); b {
		return 1
	}
	return 0
}
func keysOf(v any) []int {
	out := []int{}
	if ts, ok := v.([]treasure.Treasure); ok {
		for _, t := range ts {
			out = append(out, keyNum(t.GetKey()))
		}
	}
	return out
}

func installTrace() {
	verifhook.SetTrace(func(ev string, kv ...any) {
		switch ev {
		case "cap.batch", "cap.cell", "beacon.cap", "beacon.select", "patchexpired.patched":
		default:
			return
		}
		pc := current()
		if pc == nil {
			return
		}
		m := trace.KV(kv)
		switch ev {
		case "cap.batch":
			pc.h.emit(map[string]any{"ev": "count", "p": pc.name, "matching": toInt32(m["matching"])})
		case "beacon.cap":
			// the count the budget is derived from: budget = max - matching with the max the beacon was given
			// (a caller may pass a reduced max to account for matches the beacon cannot see)
			pc.h.emit(map[string]any{"ev": "count", "p": pc.name, "matching": pc.h.max - (toInt32(m["max"]) - toInt32(m["matching"]))})
		case "cap.cell":
			pc.h.emit(map[string]any{"ev": "cell", "p": pc.name, "k": keyNum(m["key"].(string)), "was": b2i(m["pre"]), "now": b2i(m["post"]),
				"ok": b2i(m["accepted"]), "left": toInt32(m["left"])})
		case "beacon.select":
			pc.h.emit(map[string]any{"ev": "sel", "p": pc.name, "keys": keysOf(m["taken"]), "capReached": b2i(m["capReached"])})
		case "patchexpired.patched":
			pc.h.emit(map[string]any{"ev": "patched", "p": pc.name, "k": keyNum(m["key"].(string))})
		}
	})
}
func toInt32(v any) int {
	switch x := v.(type) {
	case int32:
		return int(x)
	case int:
		return x
	case int64:
		return int(x)
	}
	return -1
}

func call(h *history, name string, o Op) bool {
	unbind := bind(h, name)
	defer unbind()
	h.emit(map[string]any{"ev": "call", "p": name, "op": o.traceForm()})
	out, err := exec(h.sw, h.max, o)
	if err != nil {
		h.emit(map[string]any{"ev": "error", "p": name, "msg": err.Error()})
		return false
	}
	h.emit(map[string]any{"ev": "ret", "p": name, "out": out})
	return true
}

func post(h *history) bool {
	recs, err := dump(h.sw)
	if err != nil {
		h.emit(map[string]any{"ev": "error", "p": "", "msg": "dump: " + err.Error()})
		return false
	}
	h.emit(map[string]any{"ev": "post", "recs": recs})
	return true
}

var histSeq int

func newHistory(max int) *history {
	histSeq++
	h := &history{id: histSeq, max: max}
	h.sw = rig.SwampName("c12mem", runID, "h"+strconv.Itoa(h.id))
	if histSeq%2 == 0 {
		h.sw = rig.SwampName("c12disk", runID, "h"+strconv.Itoa(h.id))
	}
	h.lines = append(h.lines, map[string]any{"ev": "reset", "h": h.id, "max": max})
	return h
}

func flush(w *trace.Writer, h *history) {
	h.mu.Lock()
	defer h.mu.Unlock()
	for _, l := range h.lines {
		w.Emit(l)
	}
}

// seed: nkeys records; at most max of them match; a matching record has a lease (future expiry) or, sometimes, no
// expiry at all; the others are expired and do not match. One pin record (never expires, never matches, key 8).
func seed(h *history, rng *rand.Rand, nkeys int, allowNoExpiry bool) bool {
	ok := put(h, Op{Kind: "put", K: 8, St: "p", Exp: "none"})
	matching := 0
	for k := 1; k <= nkeys && ok; k++ {
		o := Op{Kind: "put", K: k, St: "p", Exp: "past"}
		if matching < h.max && rng.Intn(3) == 0 {
			matching++
			o.St, o.Exp = "c", "future"
			if allowNoExpiry && rng.Intn(2) == 0 {
				o.Exp = "none"
			}
		}
		ok = put(h, o)
	}
	return ok && warm(h) && post(h)
}

// put writes one record without a cap (seeding, nothing else is running) and logs what it is
func put(h *history, o Op) bool {
	if _, err := exec(h.sw, h.max, o); err != nil {
		h.emit(map[string]any{"ev": "error", "p": "s0", "msg": err.Error()})
		return false
	}
	m, x, e := 0, 0, 0
	if o.St == "c" {
		m = 1
	}
	if o.Exp != "none" {
		e = 1
	}
	if o.Exp == "past" {
		x = 1
	}
	h.emit(map[string]any{"ev": "seed", "k": o.K, "m": m, "x": x, "e": e})
	return true
}

// warm builds the expiration index (built lazily on first use, not safely against concurrent first use) with a
// cap-less shift that can take nothing; it is not a cap-bearing operation and is not logged
func warm(h *history) bool {
	_, err := r.GW.ShiftMatchingTreasures(bg, rig.Wire(&hydrapb.ShiftMatchingTreasuresRequest{IslandID: 1, SwampName: h.sw, HowMany: 1,
		IndexType: hydrapb.IndexType_EXPIRATION_TIME, FromTime: timestamppb.New(base.Add(5000 * time.Hour)), ToTime: timestamppb.New(base.Add(5001 * time.Hour))}))
	if err != nil {
		h.emit(map[string]any{"ev": "error", "p": "s0", "msg": "warm-up: " + err.Error()})
		return false
	}
	return true
}

func genOp(rng *rand.Rand, nkeys int) Op {
	switch x := rng.Intn(10); {
	case x < 5:
		o := Op{Kind: "pt"}
		if rng.Intn(3) == 0 {
			o.Create, o.SeedM = 1, rng.Intn(2)
		}
		for j := 1 + rng.Intn(3); j > 0; j-- {
			to := "in"
			switch rng.Intn(6) {
			case 0:
				to = "out"
			case 1, 2:
				to = "keep"
			}
			k := 1 + rng.Intn(nkeys+1)
			if o.Create == 1 && rng.Intn(2) == 0 {
				k = nkeys + 1 + rng.Intn(7-nkeys) // a key that was not seeded (6, 7 never are)
			}
			o.Patches = append(o.Patches, []any{k, to})
		}
		return o
	case x < 8:
		return Op{Kind: "pe", N: rng.Intn(3)}
	default:
		return Op{Kind: "sh", N: 1 + rng.Intn(2)}
	}
}

func seqMode(out string, nhist, nops int, seed0 int64) error {
	w, err := trace.Create(out)
	if err != nil {
		return err
	}
	rng := rand.New(rand.NewSource(seed0))
	for i := 0; i < nhist; i++ {
		h := newHistory(capMax)
		nkeys := 3 + rng.Intn(3)
		ok := seed(h, rng, nkeys, true)
		for j := 0; j < nops && ok; j++ {
			ok = call(h, []string{"b1", "b2", "b3"}[rng.Intn(3)], genOp(rng, nkeys)) && post(h)
		}
		flush(w, h)
	}
	w.Emit(map[string]any{"ev": "reset", "h": 0, "max": 1})
	return w.Close()
}

// ------------------------------------------------------------------------------------------------
// gates

type mproc struct {
	name    string
	goid    atomic.Int64
	parked  atomic.Bool
	stopped atomic.Bool
	done    atomic.Bool
	gating  atomic.Bool
	release chan struct{}
	rng     *rand.Rand
}

var mprocs sync.Map

func installYield(fuzz bool) {
	verifhook.SetYield(func(point string, args ...any) {
		if point != "cap.precount.done" && point != "beacon.select.enter" && point != "patchexpired.selected" {
			return
		}
		v, ok := mprocs.Load(sched.GoID())
		if !ok {
			return
		}
		mp := v.(*mproc)
		if fuzz {
			switch x := mp.rng.Intn(10); {
			case x < 3:
			case x < 7:
				for i := mp.rng.Intn(4); i >= 0; i-- {
					runtime.Gosched()
				}
			default:
				time.Sleep(time.Duration(mp.rng.Intn(400)) * time.Microsecond)
			}
			return
		}
		if point != "cap.precount.done" || !mp.gating.Load() {
			return
		}
		mp.parked.Store(true)
		mp.stopped.Store(true)
		<-mp.release
	})
}

var lockWaits = []string{"sync.Mutex.Lock", "sync.RWMutex.Lock", "sync.RWMutex.RLock", "sync.Cond.Wait", "semacquire"}

const stepTimeout = 60 * time.Second

func (mp *mproc) wait() string {
	w := sched.WaitDoneOrParked(mp.goid.Load(), &mp.stopped, lockWaits, stepTimeout)
	switch {
	case w == "done" && mp.done.Load():
		return "done"
	case w == "done":
		return "counted"
	case w == "timeout":
		return "timeout"
	}
	return "blocked"
}

func (mp *mproc) start(h *history, o Op) string {
	mp.stopped.Store(false)
	mp.done.Store(false)
	mp.parked.Store(false)
	ready := make(chan struct{})
	go func() {
		id := sched.GoID()
		mp.goid.Store(id)
		mprocs.Store(id, mp)
		close(ready)
		call(h, mp.name, o)
		mprocs.Delete(id)
		mp.parked.Store(false)
		mp.done.Store(true)
		mp.stopped.Store(true)
	}()
	<-ready
	return mp.wait()
}

func (mp *mproc) advance() string {
	if mp.done.Load() {
		return "done"
	}
	if mp.parked.Load() {
		mp.stopped.Store(false)
		mp.parked.Store(false)
		mp.release <- struct{}{}
	}
	return mp.wait()
}

type sstep struct {
	P    string `json:"p"`
	Act  string `json:"act"`
	Op   *Op    `json:"op,omitempty"`
	Want string `json:"want"`
}
type schedule struct {
	Name  string  `json:"name"`
	Max   int     `json:"max"`
	Init  []Op    `json:"init"`
	Steps []sstep `json:"steps"`
}
type replayResult struct {
	Name     string   `json:"name"`
	H        int      `json:"h"`
	OK       bool     `json:"ok"`
	Why      string   `json:"why,omitempty"`
	Observed []string `json:"observed"`
	Hung     bool     `json:"hung,omitempty"`
}

func replayMode(in, out, resFile string) error {
	b, err := os.ReadFile(in)
	if err != nil {
		return err
	}
	var scheds []schedule
	if err := json.Unmarshal(b, &scheds); err != nil {
		return err
	}
	w, err := trace.Create(out)
	if err != nil {
		return err
	}
	installYield(false)
	results := []replayResult{}
	for _, sc := range scheds {
		h := newHistory(sc.Max)
		res := replayResult{Name: sc.Name, H: h.id, OK: true, Observed: []string{}}
		good := put(h, Op{Kind: "put", K: 8, St: "p", Exp: "none"})
		for _, o := range sc.Init {
			good = good && put(h, o)
		}
		good = good && warm(h) && post(h)
		mps := map[string]*mproc{}
		get := func(n string) *mproc {
			if mps[n] == nil {
				mps[n] = &mproc{name: n, release: make(chan struct{})}
				mps[n].gating.Store(true)
			}
			return mps[n]
		}
		for i, st := range sc.Steps {
			if !good {
				break
			}
			mp := get(st.P)
			var got string
			if st.Act == "start" {
				got = mp.start(h, *st.Op)
			} else {
				got = mp.advance()
			}
			for got == "counted" && st.Want != "counted" { // the schedule does not stop between count and lock
				got = mp.advance()
			}
			res.Observed = append(res.Observed, st.P+":"+got)
			if got == "timeout" {
				res.OK, res.Why, res.Hung = false, fmt.Sprintf("step %d: %s neither reached the gate nor returned nor blocked", i, st.P), true
				good = false
			} else if st.Want != "" && got != st.Want {
				res.OK, res.Why = false, fmt.Sprintf("step %d: %s is at %q, the schedule expects %q", i, st.P, got, st.Want)
			}
		}
		for _, mp := range mps {
			mp.gating.Store(false)
		}
		deadline := time.Now().Add(stepTimeout)
		for {
			pending := 0
			for _, mp := range mps {
				if mp.done.Load() {
					continue
				}
				pending++
				if mp.parked.Load() && mp.stopped.Load() {
					mp.stopped.Store(false)
					mp.parked.Store(false)
					mp.release <- struct{}{}
				}
			}
			if pending == 0 {
				break
			}
			if time.Now().After(deadline) {
				res.Hung, res.OK, res.Why = true, false, "calls did not return after the schedule"
				break
			}
			time.Sleep(200 * time.Microsecond)
		}
		if !res.Hung {
			post(h)
			flush(w, h)
		} else {
			h.dead.Store(true)
		}
		results = append(results, res)
	}
	w.Emit(map[string]any{"ev": "reset", "h": 0, "max": 1})
	if err := w.Close(); err != nil {
		return err
	}
	rb, _ := json.MarshalIndent(results, "", " ")
	return os.WriteFile(resFile, rb, 0o644)
}

// ------------------------------------------------------------------------------------------------
// stress

type stressInfo struct {
	Histories int            `json:"histories"`
	Completed int            `json:"completed"`
	Hung      int            `json:"hung"`
	Errors    int            `json:"errors"`
	Ops       int            `json:"ops"`
	HungAt    map[string]int `json:"hung_states"`
}

func stressMode(out string, nhist int, infoFile string, seed0 int64) error {
	w, err := trace.Create(out)
	if err != nil {
		return err
	}
	installYield(true)
	rng := rand.New(rand.NewSource(seed0))
	info := stressInfo{HungAt: map[string]int{}}
	for hi := 0; hi < nhist; hi++ {
		h := newHistory(capMax)
		info.Histories++
		nkeys := 3 + rng.Intn(3)
		if !seed(h, rng, nkeys, false) {
			info.Errors++
			flush(w, h)
			continue
		}
		type prog struct {
			name string
			ops  []Op
		}
		progs := []prog{}
		for _, n := range []string{"b1", "b2", "b3"}[:2+rng.Intn(2)] {
			p := prog{name: n}
			for j := 1 + rng.Intn(2); j > 0; j-- {
				p.ops = append(p.ops, genOp(rng, nkeys))
			}
			info.Ops += len(p.ops)
			progs = append(progs, p)
		}
		var wg sync.WaitGroup
		var failed atomic.Bool
		goids := make([]atomic.Int64, len(progs))
		fin := make([]atomic.Bool, len(progs))
		startCh := make(chan struct{})
		for pi, p := range progs {
			wg.Add(1)
			go func(pi int, p prog) {
				defer wg.Done()
				id := sched.GoID()
				goids[pi].Store(id)
				mp := &mproc{name: p.name, rng: rand.New(rand.NewSource(seed0*7919 + int64(h.id)*31 + int64(pi)))}
				mprocs.Store(id, mp)
				defer mprocs.Delete(id)
				<-startCh
				for _, o := range p.ops {
					if !call(h, p.name, o) {
						failed.Store(true)
						break
					}
				}
				fin[pi].Store(true)
			}(pi, p)
		}
		close(startCh)
		allDone := make(chan struct{})
		go func() { wg.Wait(); close(allDone) }()
		hung, stuck := false, 0
		deadline := time.Now().Add(120 * time.Second)
	waitLoop:
		for {
			select {
			case <-allDone:
				break waitLoop
			case <-time.After(2 * time.Millisecond):
			}
			st := sched.States()
			parked, pending := 0, 0
			sig := []string{}
			for pi := range progs {
				if fin[pi].Load() {
					continue
				}
				pending++
				s := st[goids[pi].Load()]
				for _, r := range lockWaits {
					if s == r {
						parked++
						sig = append(sig, s)
						break
					}
				}
			}
			if pending > 0 && parked == pending {
				stuck++
			} else {
				stuck = 0
			}
			if stuck >= 100 || time.Now().After(deadline) {
				hung = true
				sort.Strings(sig)
				info.HungAt[strings.Join(sig, "+")]++
				break waitLoop
			}
		}
		if hung {
			h.dead.Store(true)
			info.Hung++
			continue
		}
		if failed.Load() {
			info.Errors++
		} else {
			post(h)
		}
		info.Completed++
		flush(w, h)
	}
	w.Emit(map[string]any{"ev": "reset", "h": 0, "max": 1})
	if err := w.Close(); err != nil {
		return err
	}
	ib, _ := json.MarshalIndent(info, "", " ")
	return os.WriteFile(infoFile, ib, 0o644)
}

func main() {
	if len(os.Args) < 3 {
		fmt.Fprintln(os.Stderr, "usage: cap seq|replay|stress ...")
		os.Exit(2)
	}
	seed, _ := strconv.ParseInt(os.Getenv("VERIF_SEED"), 10, 64)
	runID = "r" + strconv.FormatInt(seed, 10) + "x" + strconv.Itoa(os.Getpid())
	r = rig.New(rig.Options{})
	r.Register("c12mem", "*", "*", true, 36000, 0)
	r.Register("c12disk", "*", "*", false, 36000, 0)
	base = time.Now().UTC().Truncate(time.Second)
	capMax, _ = strconv.Atoi(os.Getenv("VERIF_MAX"))
	if capMax <= 0 {
		capMax = 1
	}
	installTrace()
	var err error
	switch os.Args[1] {
	case "seq":
		nh, _ := strconv.Atoi(os.Args[3])
		no, _ := strconv.Atoi(os.Args[4])
		err = seqMode(os.Args[2], nh, no, seed)
	case "replay":
		err = replayMode(os.Args[2], os.Args[3], os.Args[4])
	case "stress":
		nh, _ := strconv.Atoi(os.Args[3])
		err = stressMode(os.Args[2], nh, os.Args[4], seed)
	default:
		err = fmt.Errorf("unknown mode %q", os.Args[1])
	}
	os.RemoveAll(r.Root)
	if err != nil {
		fmt.Fprintln(os.Stderr, "error:", err)
		os.Exit(3)
	}
	os.Exit(0)
}
