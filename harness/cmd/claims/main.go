// Driver for claims (C11): binds spec/Claims.tla to the real gateway
// (ShiftExpiredTreasures, ShiftMatchingTreasures, PatchExpiredTreasures against concurrent
// PatchTreasures / Delete).
//
//	claims seq    <trace.ndjson> <histories> <ops>              sequential random histories
//	claims replay <schedules.json> <trace.ndjson> <results.json>  TLC witness schedules stepped through gates (binding B)
//	claims stress <trace.ndjson> <histories> <info.json>        concurrent histories with schedule fuzzing at the gates (binding A)
//
// Every request reaches its handler in wire form (rig.Wire) and is executed in the goroutine of the
// model process that issues it, so hook events can be attributed to processes by goroutine id.
// The driver only concretises abstract operations and abstracts responses; every judgement is made
// by TLC on the recorded trace.
package main

import (
	"context"
	"encoding/json"
	"fmt"
	"math/rand"
	"os"
	"runtime"
	"sort"
	"strconv"
	"strings"
	"sync"
	"sync/atomic"
	"time"

	"github.com/hydraide/hydraide/app/core/hydra/swamp/treasure"
	"github.com/hydraide/hydraide/app/verifhook"
	hydrapb "github.com/hydraide/hydraide/sdk/go/hydraidego/v3/hydraidepbgo"
	"github.com/vmihailenco/msgpack/v5"
	"google.golang.org/protobuf/types/known/timestamppb"

	"verifharness/rig"
	"verifharness/sched"
	"verifharness/trace"
)

// ------------------------------------------------------------------------------------------------
// abstract operations (the alphabet of spec/Claims.tla)

type Filter struct {
	Mode   string   `json:"mode"` // none | and | or
	UseG   int      `json:"useG"`
	G      []string `json:"G"`
	UseS   int      `json:"useS"`
	S      string   `json:"S"`
	GFirst int      `json:"gfirst"` // concretisation only: the indexable leg comes first
}

type Op struct {
	Kind string `json:"kind"` // se | sm | pe | put | patch | del
	// claimers
	N     int    `json:"n"`
	Max   int    `json:"max"`
	Idx   string `json:"idx"`
	Desc  int    `json:"desc"`
	F     Filter `json:"f"`
	Lo    int    `json:"lo"`
	Hi    int    `json:"hi"`
	NewSt string `json:"newst"`
	Lease int    `json:"lease"`
	Cond  string `json:"cond"`
	// interferers
	K int    `json:"k"`
	E int    `json:"e"`
	G string `json:"g"`
	S string `json:"s"`
}

func (o Op) claimer() bool { return o.Kind == "se" || o.Kind == "sm" || o.Kind == "pe" }

// what goes into the trace for a call: claimers and interferers have disjoint field sets
func (o Op) traceForm() map[string]any {
	if o.claimer() {
		g := o.F.G
		if g == nil {
			g = []string{}
		}
		return map[string]any{"kind": o.Kind, "n": o.N, "max": o.Max, "idx": o.Idx, "desc": o.Desc,
			"f":  map[string]any{"mode": o.F.Mode, "useG": o.F.UseG, "G": g, "useS": o.F.UseS, "S": o.F.S, "gfirst": o.F.GFirst},
			"lo": o.Lo, "hi": o.Hi, "newst": o.NewSt, "lease": o.Lease, "cond": o.Cond}
	}
	return map[string]any{"kind": o.Kind, "k": o.K, "e": o.E, "g": o.G, "s": o.S}
}

const nowSlot = 100

var observeExp = true

var (
	base  time.Time // the instant that stands for slot 100 ("now"); slots are hours apart
	r     *rig.Rig
	bg    = context.Background()
	runID string
)

func slotTime(s int) time.Time { return base.Add(time.Duration(s-nowSlot) * time.Hour) }
func timeSlot(t time.Time) int {
	if t.IsZero() || t.UnixNano() == 0 {
		return 0
	}
	d := t.Sub(base)
	return nowSlot + int((d+time.Duration(sign(d))*30*time.Minute)/time.Hour)
}
func sign(d time.Duration) int {
	if d < 0 {
		return -1
	}
	return 1
}
func keyName(k int) string { return "k" + strconv.Itoa(k) }
func keyNum(s string) int {
	n, err := strconv.Atoi(strings.TrimPrefix(s, "k"))
	if err != nil {
		return -1
	}
	return n
}
func enc(v any) []byte    { b, _ := msgpack.Marshal(v); return b }
func ps(s string) *string { return &s }

func decodeBody(raw []byte) (grp, st string) {
	if len(raw) < 2 {
		return "?", "?"
	}
	return decodeMap(raw[2:])
}
func decodeMap(body []byte) (grp, st string) {
	var m map[string]any
	if err := msgpack.Unmarshal(body, &m); err != nil {
		return "?", "?"
	}
	g, _ := m["grp"].(string)
	s, _ := m["st"].(string)
	return g, s
}

// ------------------------------------------------------------------------------------------------
// concretisation: abstract op -> wire request -> handler -> abstract response

func filterGroup(f Filter) *hydrapb.FilterGroup {
	if f.Mode == "none" {
		return nil
	}
	fg := &hydrapb.FilterGroup{Logic: hydrapb.FilterLogic_AND}
	if f.Mode == "or" {
		fg.Logic = hydrapb.FilterLogic_OR
	}
	var gleg, sleg *hydrapb.TreasureFilter
	if f.UseG == 1 {
		if len(f.G) == 1 {
			gleg = &hydrapb.TreasureFilter{BytesFieldPath: ps("grp"), Operator: hydrapb.Relational_EQUAL,
				CompareValue: &hydrapb.TreasureFilter_StringVal{StringVal: f.G[0]}}
		} else {
			gleg = &hydrapb.TreasureFilter{BytesFieldPath: ps("grp"), Operator: hydrapb.Relational_STRING_IN, StringInVals: append([]string{}, f.G...)}
		}
	}
	if f.UseS == 1 {
		sleg = &hydrapb.TreasureFilter{BytesFieldPath: ps("st"), Operator: hydrapb.Relational_NOT_EQUAL,
			CompareValue: &hydrapb.TreasureFilter_StringVal{StringVal: f.S}}
	}
	legs := []*hydrapb.TreasureFilter{sleg, gleg}
	if f.GFirst == 1 {
		legs = []*hydrapb.TreasureFilter{gleg, sleg}
	}
	for _, l := range legs {
		if l != nil {
			fg.Filters = append(fg.Filters, l)
		}
	}
	return fg
}

func isMissingSwamp(err error) bool {
	return err != nil && (strings.Contains(err.Error(), "FailedPrecondition") || strings.Contains(err.Error(), "does not exist") || strings.Contains(err.Error(), "not found"))
}

type recOut struct {
	K   int    `json:"k"`
	Exp int    `json:"exp"`
	Grp string `json:"grp"`
	St  string `json:"st"`
}
type peOut struct {
	K      int    `json:"k"`
	Status string `json:"status"`
	Exp    int    `json:"exp"`
	Grp    string `json:"grp"`
	St     string `json:"st"`
}

func treasuresOut(ts []*hydrapb.Treasure) []any {
	out := []any{}
	for _, t := range ts {
		g, s := decodeBody(t.GetBytesVal())
		e := 0
		if t.ExpiredAt != nil {
			e = timeSlot(t.ExpiredAt.AsTime())
		}
		out = append(out, recOut{K: keyNum(t.GetKey()), Exp: e, Grp: g, St: s})
	}
	return out
}

// exec runs one abstract operation against the gateway and returns the abstract response
// (nil, error) is a transport / handler level failure that the specification has no word for.
func exec(sw string, o Op) (out []any, err error) {
	defer func() {
		if p := recover(); p != nil {
			err = fmt.Errorf("panic: %v", p)
		}
	}()
	switch o.Kind {
	case "se":
		resp, e := r.GW.ShiftExpiredTreasures(bg, rig.Wire(&hydrapb.ShiftExpiredTreasuresRequest{IslandID: 1, SwampName: sw, HowMany: int32(o.N)}))
		if e != nil {
			if isMissingSwamp(e) {
				return []any{}, nil
			}
			return nil, e
		}
		return treasuresOut(resp.GetTreasures()), nil
	case "sm":
		req := &hydrapb.ShiftMatchingTreasuresRequest{IslandID: 1, SwampName: sw, HowMany: int32(o.N), MaxResults: int32(o.Max),
			IndexType: hydrapb.IndexType_KEY, OrderType: hydrapb.OrderType_ASC, Filters: filterGroup(o.F)}
		if o.Idx == "exp" {
			req.IndexType = hydrapb.IndexType_EXPIRATION_TIME
		}
		if o.Desc == 1 {
			req.OrderType = hydrapb.OrderType_DESC
		}
		if o.Lo != -1 {
			req.FromTime = timestamppb.New(slotTime(o.Lo))
		}
		if o.Hi != -1 {
			req.ToTime = timestamppb.New(slotTime(o.Hi))
		}
		resp, e := r.GW.ShiftMatchingTreasures(bg, rig.Wire(req))
		if e != nil {
			return nil, e
		}
		return treasuresOut(resp.GetTreasures()), nil
	case "pe":
		req := &hydrapb.PatchExpiredTreasuresRequest{IslandID: 1, SwampName: sw, HowMany: int32(o.N), Filters: filterGroup(o.F),
			Ops: []*hydrapb.PatchOp{{Op: hydrapb.PatchOp_SET, Path: "st", Value: enc(o.NewSt)}}}
		if o.Lease != 0 {
			req.Meta = &hydrapb.PatchMeta{SetExpiredAt: timestamppb.New(slotTime(o.Lease))}
		}
		if o.Cond != "" {
			req.Condition = &hydrapb.PatchCondition{Path: "st", Operator: hydrapb.PatchCondition_EQUAL, Threshold: enc(o.Cond)}
		}
		resp, e := r.GW.PatchExpiredTreasures(bg, rig.Wire(req))
		if e != nil {
			return nil, e
		}
		out = []any{}
		for _, p := range resp.GetPatched() {
			po := peOut{K: keyNum(p.GetKey()), Status: p.GetStatus().String()}
			if p.GetStatus() == hydrapb.PatchResult_PATCHED {
				po.Grp, po.St = decodeMap(p.GetNewMsgpack())
				// PatchedExpiredTreasure.ExpiredAt is read after Save, which releases the record guard early in
				// immediate-write swamps: under concurrency it is not the expiry the patch left (observeExp off)
				if !observeExp {
					po.Exp = -1
				} else if p.ExpiredAt != nil {
					po.Exp = timeSlot(p.ExpiredAt.AsTime())
				}
			}
			out = append(out, po)
		}
		return out, nil
	case "put", "patch":
		p := &hydrapb.TreasurePatch{Key: keyName(o.K)}
		if o.G != "" {
			p.Ops = append(p.Ops, &hydrapb.PatchOp{Op: hydrapb.PatchOp_SET, Path: "grp", Value: enc(o.G)})
		}
		if o.S != "" {
			p.Ops = append(p.Ops, &hydrapb.PatchOp{Op: hydrapb.PatchOp_SET, Path: "st", Value: enc(o.S)})
		}
		req := &hydrapb.PatchTreasuresRequest{IslandID: 1, SwampName: sw, CreateIfNotExist: o.Kind == "put", Patches: []*hydrapb.TreasurePatch{p}}
		switch {
		case o.E == 0:
			req.Meta = &hydrapb.PatchMeta{ClearExpiredAt: true}
		case o.E > 0:
			req.Meta = &hydrapb.PatchMeta{SetExpiredAt: timestamppb.New(slotTime(o.E))}
		}
		resp, e := r.GW.PatchTreasures(bg, rig.Wire(req))
		if e != nil {
			return nil, e
		}
		if len(resp.GetResults()) != 1 {
			return nil, fmt.Errorf("PatchTreasures returned %d results", len(resp.GetResults()))
		}
		return []any{resp.GetResults()[0].GetStatus().String()}, nil
	case "del":
		resp, e := r.GW.Delete(bg, rig.Wire(&hydrapb.DeleteRequest{Swamps: []*hydrapb.DeleteRequest_SwampKeys{{IslandID: 1, SwampName: sw, Keys: []string{keyName(o.K)}}}}))
		if e != nil {
			return nil, e
		}
		if len(resp.GetResponses()) != 1 {
			return nil, fmt.Errorf("Delete returned %d responses", len(resp.GetResponses()))
		}
		sr := resp.GetResponses()[0]
		if sr.ErrorCode != nil || len(sr.GetKeyStatuses()) != 1 {
			return []any{"NOT_FOUND"}, nil
		}
		if !observeExp {
			// concurrent modes: DeleteTreasure checks existence and deletes in two steps, two racing deletes of one
			// key both answer DELETED; that is not a claim's business, the status is not bound ("?")
			return []any{"?"}, nil
		}
		return []any{sr.GetKeyStatuses()[0].GetStatus().String()}, nil
	}
	return nil, fmt.Errorf("unknown op kind %q", o.Kind)
}

// dump reads the whole swamp through the wire (GetAll) and abstracts it
func dump(sw string) ([]any, error) {
	resp, err := r.GW.GetAll(bg, rig.Wire(&hydrapb.GetAllRequest{IslandID: 1, SwampName: sw}))
	if err != nil {
		if isMissingSwamp(err) {
			return []any{}, nil
		}
		return nil, err
	}
	recs := treasuresOut(resp.GetTreasures())
	sort.Slice(recs, func(i, j int) bool { return recs[i].(recOut).K < recs[j].(recOut).K })
	return recs, nil
}

// ------------------------------------------------------------------------------------------------
// histories: per-history event buffer; hook events are attributed by goroutine id

type history struct {
	id    int
	mode  string
	sw    string
	mu    sync.Mutex
	lines []map[string]any
	dead  atomic.Bool // abandoned (a call never returned): late hook events are dropped
}

func (h *history) emit(m map[string]any) {
	h.mu.Lock()
	if !h.dead.Load() {
		h.lines = append(h.lines, m)
	}
	h.mu.Unlock()
}

type procCtx struct {
	h    *history
	name string
}

var procs sync.Map // goid -> *procCtx

func bind(h *history, name string) func() {
	id := sched.GoID()
	procs.Store(id, &procCtx{h: h, name: name})
	return func() { procs.Delete(id) }
}
func current() *procCtx {
	if v, ok := procs.Load(sched.GoID()); ok {
		return v.(*procCtx)
	}
	return nil
}

func keysOf(v any) []int {
	out := []int{}
	if ts, ok := v.([]treasure.Treasure); ok {
		for _, t := range ts {
			out = append(out, keyNum(t.GetKey()))
		}
	}
	return out
}

func installTrace() {
	verifhook.SetTrace(func(ev string, kv ...any) {
		switch ev {
		case "claims.pred":
			pc := current()
			if pc == nil {
				return
			}
			m := trace.KV(kv)
			c := keysOf(m["cand"])
			sort.Ints(c)
			pc.h.emit(map[string]any{"ev": "pred", "p": pc.name, "cand": c})
		case "beacon.select":
			pc := current()
			if pc == nil {
				return
			}
			m := trace.KV(kv)
			pc.h.emit(map[string]any{"ev": "sel", "p": pc.name, "keys": keysOf(m["taken"])})
		}
	})
}

// call runs one operation of process `name` in the calling goroutine and logs call / ret
func call(h *history, name string, o Op) (ok bool) {
	unbind := bind(h, name)
	defer unbind()
	h.emit(map[string]any{"ev": "call", "p": name, "op": o.traceForm()})
	out, err := exec(h.sw, o)
	if err != nil {
		h.emit(map[string]any{"ev": "error", "p": name, "msg": err.Error()})
		return false
	}
	h.emit(map[string]any{"ev": "ret", "p": name, "out": out})
	return true
}

func post(h *history) bool {
	recs, err := dump(h.sw)
	if err != nil {
		h.emit(map[string]any{"ev": "error", "p": "", "msg": "dump: " + err.Error()})
		return false
	}
	h.emit(map[string]any{"ev": "post", "recs": recs})
	return true
}

var histSeq int

func newHistory(mode string) *history {
	histSeq++
	h := &history{id: histSeq, mode: mode}
	h.sw = rig.SwampName("c11"+mode, runID, "h"+strconv.Itoa(h.id))
	h.lines = append(h.lines, map[string]any{"ev": "reset", "h": h.id, "mode": mode})
	return h
}

func flush(w *trace.Writer, h *history) {
	h.mu.Lock()
	defer h.mu.Unlock()
	for _, l := range h.lines {
		w.Emit(l)
	}
}

// ------------------------------------------------------------------------------------------------
// random generation

var groups = []string{"a", "b"}
var stats = []string{"p", "d", "c"}

func genFilter(rng *rand.Rand) Filter {
	f := Filter{Mode: "none", G: []string{}, GFirst: rng.Intn(2)}
	switch x := rng.Intn(10); {
	case x < 2:
		return f
	case x < 8:
		f.Mode = "and"
	default:
		f.Mode = "or"
	}
	switch rng.Intn(4) {
	case 0:
		f.UseG = 1
	case 1:
		f.UseS = 1
	default:
		f.UseG, f.UseS = 1, 1
	}
	if f.UseG == 1 {
		switch rng.Intn(6) {
		case 0:
			f.G = []string{"z"} // matches nothing
		case 1:
			f.G = []string{"a", "b"}
		case 2:
			f.G = []string{"b", "z"}
		default:
			f.G = []string{groups[rng.Intn(2)]}
		}
	}
	if f.UseS == 1 {
		f.S = stats[rng.Intn(len(stats))]
	}
	return f
}

type gen struct {
	rng    *rand.Rand
	nkeys  int
	future int // next unused future slot
}

func (g *gen) slot() int {
	switch x := g.rng.Intn(10); {
	case x < 1:
		return 0
	case x < 8:
		return 1 + g.rng.Intn(40) // past
	default:
		g.future++
		return g.future
	}
}

func (g *gen) claim() Op {
	rng := g.rng
	o := Op{Idx: "exp", F: Filter{Mode: "none", G: []string{}}, Lo: -1, Hi: -1}
	switch rng.Intn(3) {
	case 0:
		o.Kind = "se"
		o.N = rng.Intn(4)
	case 1:
		o.Kind = "sm"
		o.N = rng.Intn(4)
		if rng.Intn(4) == 0 {
			o.Max = 1 + rng.Intn(2)
		}
		if rng.Intn(2) == 0 {
			o.Idx = "key"
		}
		o.Desc = rng.Intn(2)
		o.F = genFilter(rng)
		if rng.Intn(3) == 0 {
			a, b := 1+rng.Intn(45), 1+rng.Intn(45)
			if a > b {
				a, b = b, a
			}
			switch rng.Intn(3) {
			case 0:
				o.Lo = a
			case 1:
				o.Hi = b
			default:
				o.Lo, o.Hi = a, b+1
			}
			if rng.Intn(4) == 0 { // a window that reaches into the future
				o.Hi = nowSlot + 50
			}
		}
	default:
		o.Kind = "pe"
		o.N = rng.Intn(4)
		o.F = genFilter(rng)
		if o.F.Mode == "or" && o.F.UseG == 1 && o.F.UseS == 1 && rng.Intn(2) == 0 {
			o.F.UseS, o.F.S = 0, ""
		}
		o.NewSt = "c"
		if rng.Intn(4) == 0 {
			o.NewSt = "d"
		}
		if rng.Intn(3) != 0 {
			g.future++
			o.Lease = g.future
		}
		if rng.Intn(3) == 0 {
			o.Cond = stats[rng.Intn(len(stats))]
		}
	}
	return o
}

func (g *gen) interfere() Op {
	rng := g.rng
	k := 1 + rng.Intn(g.nkeys)
	switch x := rng.Intn(10); {
	case x < 4:
		return Op{Kind: "put", K: k, E: g.slot(), G: groups[rng.Intn(2)], S: stats[rng.Intn(2)]}
	case x < 7:
		o := Op{Kind: "patch", K: k, E: -1}
		switch rng.Intn(4) {
		case 0:
			o.G = groups[rng.Intn(2)]
		case 1:
			o.S = stats[rng.Intn(len(stats))]
		case 2:
			o.E = g.slot()
		default:
			o.G, o.S = groups[rng.Intn(2)], stats[rng.Intn(len(stats))]
		}
		return o
	default:
		return Op{Kind: "del", K: k, E: -1}
	}
}

// ------------------------------------------------------------------------------------------------
// seq: sequential histories; the swamp is dumped after every operation

func seqMode(out string, nhist, nops int, seed int64) error {
	w, err := trace.Create(out)
	if err != nil {
		return err
	}
	rng := rand.New(rand.NewSource(seed))
	for i := 0; i < nhist; i++ {
		mode := []string{"mem", "disk"}[rng.Intn(2)]
		h := newHistory(mode)
		g := &gen{rng: rng, nkeys: 3 + rng.Intn(3), future: nowSlot}
		ok := true
		// seed the swamp: a few puts
		for k := 1; k <= g.nkeys && ok; k++ {
			if rng.Intn(5) == 0 {
				continue
			}
			ok = call(h, "i1", Op{Kind: "put", K: k, E: g.slot(), G: groups[rng.Intn(2)], S: stats[rng.Intn(2)]}) && post(h)
		}
		for j := 0; j < nops && ok; j++ {
			if rng.Intn(5) < 3 {
				ok = call(h, []string{"c1", "c2"}[rng.Intn(2)], g.claim())
			} else {
				ok = call(h, "i1", g.interfere())
			}
			ok = ok && post(h)
		}
		flush(w, h)
	}
	w.Emit(map[string]any{"ev": "reset", "h": 0, "mode": "mem"})
	return w.Close()
}

func runtimeGosched() { runtime.Gosched() }

// ------------------------------------------------------------------------------------------------
// gates: the yield hook parks a model process at a named point until the scheduler releases it

const (
	gNone     = iota
	gEnter    // beacon.select.enter: predicate built, selection lock not yet taken
	gExit     // beacon.select.exit: end of the walk, selection lock still held
	gSelected // patchexpired.selected: selection done and unlocked, nothing patched yet
	gFetch    // patchfields.fetched: PatchFields holds the treasure object, has not taken its guard yet
	gGuard    // patchfields.guarded: PatchFields holds the record guard, has not changed anything yet
	gGap      // beacon.add.enter, first Add of an interferer's save: the record was taken out of the expiration beacons and is not back yet
)

var gateOf = map[string]int32{"beacon.select.enter": gEnter, "beacon.select.exit": gExit, "patchexpired.selected": gSelected, "beacon.add.enter": gGap, "patchfields.fetched": gFetch, "patchfields.guarded": gGuard}
var gateName = []string{"none", "enter", "exit", "selected", "fetch", "guard", "gap"}

type mproc struct {
	name    string
	goid    atomic.Int64
	gate    atomic.Int32 // gate the process is parked at (gNone: running / finished)
	stopped atomic.Bool  // parked at a gate, or finished
	done    atomic.Bool
	ok      atomic.Bool
	release chan struct{}
	gating  atomic.Bool
	gapSeen atomic.Bool // the gap gate is offered once per call (the first beacon Add of a save of an existing record)
	isIntf  bool
	isPatch bool
	rng     *rand.Rand // stress: schedule fuzzing
}

var mprocs sync.Map // goid -> *mproc

func installYield(fuzz bool) {
	verifhook.SetYield(func(point string, args ...any) {
		g, known := gateOf[point]
		if !known && point != "claims.predicate.built" {
			return
		}
		v, ok := mprocs.Load(sched.GoID())
		if !ok {
			return
		}
		mp := v.(*mproc)
		if fuzz {
			switch x := mp.rng.Intn(10); {
			case x < 4:
			case x < 8:
				for i := mp.rng.Intn(4); i >= 0; i-- {
					runtimeGosched()
				}
			default:
				time.Sleep(time.Duration(mp.rng.Intn(300)) * time.Microsecond)
			}
			return
		}
		if !known || !mp.gating.Load() {
			return
		}
		if g == gGap {
			if !mp.isIntf || mp.gapSeen.Swap(true) {
				return
			}
		}
		if (g == gFetch || g == gGuard) && !mp.isPatch {
			return
		}
		mp.gate.Store(g)
		mp.stopped.Store(true)
		<-mp.release
	})
}

var lockWaits = []string{"sync.Mutex.Lock", "sync.RWMutex.Lock", "sync.RWMutex.RLock", "sync.Cond.Wait", "semacquire"}

const stepTimeout = 60 * time.Second

// start launches op o of process mp in its own goroutine and waits until it parks at a gate, returns, or blocks on a lock
func (mp *mproc) start(h *history, o Op) string {
	mp.stopped.Store(false)
	mp.done.Store(false)
	mp.gate.Store(gNone)
	mp.gapSeen.Store(o.Kind != "patch") // only a patch of an existing record re-files without creating
	mp.isIntf = !o.claimer()
	mp.isPatch = o.Kind == "patch"
	ready := make(chan struct{})
	go func() {
		id := sched.GoID()
		mp.goid.Store(id)
		mprocs.Store(id, mp)
		close(ready)
		ok := call(h, mp.name, o)
		mprocs.Delete(id)
		mp.ok.Store(ok)
		mp.gate.Store(gNone)
		mp.done.Store(true)
		mp.stopped.Store(true)
	}()
	<-ready
	return mp.wait()
}

func (mp *mproc) wait() string {
	w := sched.WaitDoneOrParked(mp.goid.Load(), &mp.stopped, lockWaits, stepTimeout)
	if w == "done" {
		if mp.done.Load() {
			return "done"
		}
		return gateName[mp.gate.Load()]
	}
	if w == "timeout" {
		return "timeout"
	}
	return "blocked"
}

// advance releases the process from its gate and waits for its next stop
func (mp *mproc) advance() string {
	if mp.done.Load() {
		return "done"
	}
	if mp.gate.Load() != gNone {
		mp.stopped.Store(false)
		mp.gate.Store(gNone)
		mp.release <- struct{}{}
	}
	return mp.wait()
}

type sstep struct {
	P   string `json:"p"`
	Act string `json:"act"` // start | advance
	Op  *Op    `json:"op,omitempty"`
	// where the specification says the process is after the step: enter | exit | selected | done | blocked | "" (do not care)
	Want string `json:"want"`
}
type schedule struct {
	Name  string  `json:"name"`
	Mode  string  `json:"mode"`
	Init  []Op    `json:"init"` // puts that build the initial swamp
	Steps []sstep `json:"steps"`
}
type replayResult struct {
	Name     string   `json:"name"`
	H        int      `json:"h"`
	OK       bool     `json:"ok"` // the schedule could be forced on the real code as given
	Why      string   `json:"why,omitempty"`
	Observed []string `json:"observed"`
	Hung     bool     `json:"hung,omitempty"`
}

func replayMode(in, out, resFile string) error {
	b, err := os.ReadFile(in)
	if err != nil {
		return err
	}
	var scheds []schedule
	if err := json.Unmarshal(b, &scheds); err != nil {
		return err
	}
	w, err := trace.Create(out)
	if err != nil {
		return err
	}
	installYield(false)
	results := []replayResult{}
	for _, sc := range scheds {
		h := newHistory(sc.Mode)
		res := replayResult{Name: sc.Name, H: h.id, OK: true, Observed: []string{}}
		good := true
		for _, o := range sc.Init {
			good = good && call(h, "i1", o)
		}
		// the model's indexes exist from the start: build both (lazily built on first use) with claims that take nothing
		good = good && call(h, "c1", Op{Kind: "sm", N: 1, Idx: "exp", F: Filter{Mode: "none", G: []string{}}, Lo: 90, Hi: 91})
		good = good && call(h, "c1", Op{Kind: "sm", N: 1, Idx: "key", F: Filter{Mode: "and", UseS: 1, S: "p", G: []string{}}, Lo: -1, Hi: -1})
		good = good && post(h)
		mps := map[string]*mproc{}
		get := func(n string) *mproc {
			if mps[n] == nil {
				mps[n] = &mproc{name: n, release: make(chan struct{})}
				mps[n].gating.Store(true)
			}
			return mps[n]
		}
		for i, st := range sc.Steps {
			if !good {
				break
			}
			mp := get(st.P)
			var got string
			if st.Act == "start" {
				got = mp.start(h, *st.Op)
			} else {
				got = mp.advance()
			}
			for (got == "gap" || got == "fetch" || got == "guard") && st.Want != got { // the schedule does not stop at this gate
				got = mp.advance()
			}
			res.Observed = append(res.Observed, st.P+":"+got)
			if got == "timeout" {
				res.OK, res.Why, res.Hung = false, fmt.Sprintf("step %d: %s neither reached a gate nor returned nor blocked", i, st.P), true
				good = false
			} else if st.Want != "" && got != st.Want {
				res.OK, res.Why = false, fmt.Sprintf("step %d: %s is at %q, the schedule expects %q", i, st.P, got, st.Want)
			}
		}
		// let everything run to completion: gates off, release whoever is parked, until all calls have returned
		for _, mp := range mps {
			mp.gating.Store(false)
		}
		deadline := time.Now().Add(stepTimeout)
		for {
			pending := 0
			for _, mp := range mps {
				if mp.done.Load() {
					continue
				}
				pending++
				if mp.gate.Load() != gNone && mp.stopped.Load() {
					mp.stopped.Store(false)
					mp.gate.Store(gNone)
					mp.release <- struct{}{}
				}
			}
			if pending == 0 {
				break
			}
			if time.Now().After(deadline) {
				res.Hung, res.OK, res.Why = true, false, "calls did not return after the schedule (deadlock)"
				break
			}
			time.Sleep(200 * time.Microsecond)
		}
		if !res.Hung {
			post(h)
			flush(w, h)
		} else {
			h.dead.Store(true)
		}
		results = append(results, res)
	}
	w.Emit(map[string]any{"ev": "reset", "h": 0, "mode": "mem"})
	if err := w.Close(); err != nil {
		return err
	}
	rb, _ := json.MarshalIndent(results, "", " ")
	return os.WriteFile(resFile, rb, 0o644)
}

// ------------------------------------------------------------------------------------------------
// stress: concurrent histories. 2 claimers + 1..2 interferers run their operations concurrently on a
// seeded swamp; the yield hook perturbs the schedule at the gates. A history in which some call never
// returns (the engine's lock-order inversions can deadlock) is abandoned and only counted.

func (g *gen) stressClaim() Op {
	for {
		o := g.claim()
		if o.Kind == "sm" && o.Idx == "key" {
			// The pin record (grp "pin", st "pin", no expiry) keeps the swamp alive (an empty swamp destroys itself,
			// which is another property's business). A key-index claim must not be able to take it, not even when the
			// indexable leg is dropped for lack of candidates (D_C11_EmptyCandidatesDropIndexedLeg): the leg always
			// has the pin as a candidate, and the residual leg always rejects the pin.
			if o.F.UseG == 0 || len(o.F.G) == 0 {
				o.F.G = []string{groups[g.rng.Intn(2)]}
			}
			o.F.Mode, o.F.UseG, o.F.UseS, o.F.S = "and", 1, 1, "pin"
			o.F.G = append(append([]string{}, o.F.G...), "pin")
		}
		if o.N == 0 && g.rng.Intn(2) == 0 {
			o.N = 1 + g.rng.Intn(2)
		}
		return o
	}
}

type stressInfo struct {
	Histories int            `json:"histories"`
	Completed int            `json:"completed"`
	Hung      int            `json:"hung"`
	Errors    int            `json:"errors"`
	HungAt    map[string]int `json:"hung_states"`
	Ops       int            `json:"ops"`
}

const pinKey = 8

func stressMode(out string, nhist int, infoFile string, seed int64) error {
	w, err := trace.Create(out)
	if err != nil {
		return err
	}
	installYield(true)
	rng := rand.New(rand.NewSource(seed))
	info := stressInfo{HungAt: map[string]int{}}
	for hi := 0; hi < nhist; hi++ {
		mode := []string{"mem", "disk"}[rng.Intn(2)]
		h := newHistory(mode)
		info.Histories++
		g := &gen{rng: rng, nkeys: 3 + rng.Intn(3), future: nowSlot}
		ok := call(h, "i1", Op{Kind: "put", K: pinKey, E: 0, G: "pin", S: "pin"})
		for k := 1; k <= g.nkeys && ok; k++ {
			e := 1 + rng.Intn(40)
			if rng.Intn(6) == 0 {
				g.future++
				e = g.future
			}
			ok = call(h, "i1", Op{Kind: "put", K: k, E: e, G: groups[rng.Intn(2)], S: stats[rng.Intn(2)]})
		}
		// first use builds an index lazily (swamp.buildBeacon is not safe against concurrent first use and a claimer
		// can walk a half-built index): build both indexes before the concurrent phase with claims that take nothing
		ok = ok && call(h, "c1", Op{Kind: "sm", N: 1, Idx: "exp", F: Filter{Mode: "none", G: []string{}}, Lo: 90, Hi: 91})
		ok = ok && call(h, "c1", Op{Kind: "sm", N: 1, Idx: "key", F: Filter{Mode: "and", UseG: 1, G: []string{"pin"}, UseS: 1, S: "pin", GFirst: 1}, Lo: -1, Hi: -1})
		if !ok {
			info.Errors++
			flush(w, h)
			continue
		}
		// programs
		type prog struct {
			name string
			ops  []Op
		}
		progs := []prog{}
		fresh := g.nkeys + 1
		for _, n := range []string{"c1", "c2"} {
			p := prog{name: n}
			for j := 1 + rng.Intn(2); j > 0; j-- {
				p.ops = append(p.ops, g.stressClaim())
			}
			progs = append(progs, p)
		}
		if rng.Intn(4) == 0 {
			progs = append(progs, prog{name: "c3", ops: []Op{g.stressClaim()}})
		}
		for _, n := range []string{"i1", "i2"}[:1+rng.Intn(2)] {
			p := prog{name: n}
			for j := 1 + rng.Intn(3); j > 0; j-- {
				o := g.interfere()
				if o.Kind == "put" { // only a key that never existed may be created while claims are in progress
					if fresh >= pinKey {
						continue
					}
					o.K = fresh
					fresh++
				}
				p.ops = append(p.ops, o)
			}
			progs = append(progs, p)
		}
		for _, p := range progs {
			info.Ops += len(p.ops)
		}
		var wg sync.WaitGroup
		var failed atomic.Bool
		goids := make([]atomic.Int64, len(progs))
		fin := make([]atomic.Bool, len(progs))
		startCh := make(chan struct{})
		for pi, p := range progs {
			wg.Add(1)
			go func(pi int, p prog) {
				defer wg.Done()
				id := sched.GoID()
				goids[pi].Store(id)
				mp := &mproc{name: p.name, rng: rand.New(rand.NewSource(seed*7919 + int64(h.id)*31 + int64(pi)))}
				mprocs.Store(id, mp)
				defer mprocs.Delete(id)
				<-startCh
				for _, o := range p.ops {
					if !call(h, p.name, o) {
						failed.Store(true)
						break
					}
				}
				fin[pi].Store(true)
			}(pi, p)
		}
		close(startCh)
		allDone := make(chan struct{})
		go func() { wg.Wait(); close(allDone) }()
		hung := false
		stuck := 0
		deadline := time.Now().Add(120 * time.Second)
	waitLoop:
		for {
			select {
			case <-allDone:
				break waitLoop
			case <-time.After(2 * time.Millisecond):
			}
			// every unfinished process parked on a lock / guard, persistently: nobody is left to release them
			st := sched.States()
			parked, pending := 0, 0
			sig := []string{}
			for pi := range progs {
				if fin[pi].Load() {
					continue
				}
				pending++
				s := st[goids[pi].Load()]
				for _, r := range lockWaits {
					if s == r {
						parked++
						sig = append(sig, s)
						break
					}
				}
			}
			if pending > 0 && parked == pending {
				stuck++
			} else {
				stuck = 0
			}
			if stuck >= 100 || time.Now().After(deadline) {
				hung = true
				sort.Strings(sig)
				info.HungAt[strings.Join(sig, "+")]++
				break waitLoop
			}
		}
		if hung {
			h.dead.Store(true)
			info.Hung++
			continue
		}
		if failed.Load() {
			info.Errors++
		} else {
			post(h)
		}
		info.Completed++
		flush(w, h)
	}
	w.Emit(map[string]any{"ev": "reset", "h": 0, "mode": "mem"})
	if err := w.Close(); err != nil {
		return err
	}
	ib, _ := json.MarshalIndent(info, "", " ")
	return os.WriteFile(infoFile, ib, 0o644)
}

func main() {
	if len(os.Args) < 3 {
		fmt.Fprintln(os.Stderr, "usage: claims seq|replay|stress ...")
		os.Exit(2)
	}
	seed, _ := strconv.ParseInt(os.Getenv("VERIF_SEED"), 10, 64)
	runID = "r" + strconv.FormatInt(seed, 10) + "x" + strconv.Itoa(os.Getpid())
	r = rig.New(rig.Options{})
	r.Register("c11mem", "*", "*", true, 36000, 0)
	r.Register("c11disk", "*", "*", false, 36000, 0)
	base = time.Now().UTC().Truncate(time.Second)
	installTrace()
	var err error
	switch os.Args[1] {
	case "seq":
		nh, _ := strconv.Atoi(os.Args[3])
		no, _ := strconv.Atoi(os.Args[4])
		err = seqMode(os.Args[2], nh, no, seed)
	case "replay":
		observeExp = false
		err = replayMode(os.Args[2], os.Args[3], os.Args[4])
	case "stress":
		observeExp = false
		nh, _ := strconv.Atoi(os.Args[3])
		err = stressMode(os.Args[2], nh, os.Args[4], seed)
	default:
		err = fmt.Errorf("unknown mode %q", os.Args[1])
	}
	os.RemoveAll(r.Root)
	if err != nil {
		fmt.Fprintln(os.Stderr, "error:", err)
		os.Exit(3)
	}
	os.Exit(0)
}
