// temporary probe (removed later)
package main

import (
	"context"
	"fmt"
	"os"
	"sync"
	"time"

	hydrapb "github.com/hydraide/hydraide/sdk/go/hydraidego/v3/hydraidepbgo"
	"github.com/vmihailenco/msgpack/v5"
	"google.golang.org/protobuf/types/known/timestamppb"

	"verifharness/rig"
)

var c hydrapb.HydraideServiceClient
var ctx = context.Background()

func enc(v any) []byte { b, _ := msgpack.Marshal(v); return b }
func ps(s string) *string { return &s }

func seed(sw, key, grp, st string, exp time.Time) {
	req := &hydrapb.PatchTreasuresRequest{IslandID: 1, SwampName: sw, CreateIfNotExist: true,
		Patches: []*hydrapb.TreasurePatch{{Key: key, Ops: []*hydrapb.PatchOp{
			{Op: hydrapb.PatchOp_SET, Path: "grp", Value: enc(grp)},
			{Op: hydrapb.PatchOp_SET, Path: "st", Value: enc(st)}}}}}
	if !exp.IsZero() {
		req.Meta = &hydrapb.PatchMeta{SetExpiredAt: timestamppb.New(exp)}
	}
	r, err := c.PatchTreasures(ctx, req)
	fmt.Println("seed", key, r, err)
}
func eqf(path, v string) *hydrapb.TreasureFilter {
	return &hydrapb.TreasureFilter{BytesFieldPath: ps(path), Operator: hydrapb.Relational_EQUAL, CompareValue: &hydrapb.TreasureFilter_StringVal{StringVal: v}}
}
func dump(sw string) {
	r, err := c.GetAll(ctx, &hydrapb.GetAllRequest{IslandID: 1, SwampName: sw})
	if err != nil {
		fmt.Println("  dump err", err)
		return
	}
	for _, t := range r.Treasures {
		var m map[string]any
		if len(t.BytesVal) > 2 {
			msgpack.Unmarshal(t.BytesVal[2:], &m)
		}
		fmt.Println("  rec", t.Key, m, t.ExpiredAt.AsTime())
	}
}

func main() {
	r := rig.New(rig.Options{})
	defer os.RemoveAll(r.Root)
	r.Register("c11mem", "*", "*", true, 3600, 0)
	r.Register("c11disk", "*", "*", false, 3600, 0)
	c = r.GRPC()
	now := time.Now()
	for _, sanc := range []string{"c11mem", "c11disk"} {
		sw := rig.SwampName(sanc, "a", "one")
		seed(sw, "k1", "a", "p", now.Add(-2*time.Hour))
		seed(sw, "k2", "a", "p", now.Add(-1*time.Hour))
		seed(sw, "k3", "b", "d", now.Add(2*time.Hour))
		dump(sw)
		// empty candidates: grp == "zz" AND st == "p"
		resp, err := c.ShiftMatchingTreasures(ctx, &hydrapb.ShiftMatchingTreasuresRequest{IslandID: 1, SwampName: sw, IndexType: hydrapb.IndexType_KEY,
			HowMany: 5, Filters: &hydrapb.FilterGroup{Filters: []*hydrapb.TreasureFilter{eqf("grp", "zz"), eqf("st", "p")}}})
		fmt.Println("shiftmatching empty-cand:", len(resp.GetTreasures()), err)
		dump(sw)
		// patch expired with no-match filter
		pr, err := c.PatchExpiredTreasures(ctx, &hydrapb.PatchExpiredTreasuresRequest{IslandID: 1, SwampName: sw, HowMany: 5,
			Ops:     []*hydrapb.PatchOp{{Op: hydrapb.PatchOp_SET, Path: "st", Value: enc("c")}},
			Filters: &hydrapb.FilterGroup{Filters: []*hydrapb.TreasureFilter{eqf("grp", "zz")}}})
		fmt.Println("patchexpired empty-cand:", pr, err)
		dump(sw)
	}
	// cross-index concurrency smoke: many rounds
	dl := 0
	dbl := 0
	for round := 0; round < 200; round++ {
		sw := rig.SwampName("c11mem", "x", fmt.Sprintf("r%d", round))
		for i := 0; i < 4; i++ {
			req := &hydrapb.PatchTreasuresRequest{IslandID: 1, SwampName: sw, CreateIfNotExist: true,
				Patches: []*hydrapb.TreasurePatch{{Key: fmt.Sprintf("k%d", i), Ops: []*hydrapb.PatchOp{
					{Op: hydrapb.PatchOp_SET, Path: "grp", Value: enc("a")}}}},
				Meta: &hydrapb.PatchMeta{SetExpiredAt: timestamppb.New(now.Add(-time.Duration(10-i) * time.Minute))}}
			c.PatchTreasures(ctx, req)
		}
		c.PatchTreasures(ctx, &hydrapb.PatchTreasuresRequest{IslandID: 1, SwampName: sw, CreateIfNotExist: true,
			Patches: []*hydrapb.TreasurePatch{{Key: "zpin", Ops: []*hydrapb.PatchOp{{Op: hydrapb.PatchOp_SET, Path: "grp", Value: enc("pin")}}}}})
		var wg sync.WaitGroup
		got := make([][]string, 3)
		wg.Add(3)
		go func() {
			defer wg.Done()
			resp, _ := c.ShiftMatchingTreasures(ctx, &hydrapb.ShiftMatchingTreasuresRequest{IslandID: 1, SwampName: sw, IndexType: hydrapb.IndexType_KEY,
				HowMany: 2, Filters: &hydrapb.FilterGroup{Filters: []*hydrapb.TreasureFilter{eqf("grp", "a")}}})
			for _, t := range resp.GetTreasures() {
				got[0] = append(got[0], t.Key)
			}
		}()
		go func() {
			defer wg.Done()
			resp, _ := c.ShiftExpiredTreasures(ctx, &hydrapb.ShiftExpiredTreasuresRequest{IslandID: 1, SwampName: sw, HowMany: 2})
			for _, t := range resp.GetTreasures() {
				got[1] = append(got[1], t.Key)
			}
		}()
		go func() {
			defer wg.Done()
			resp, _ := c.Delete(ctx, &hydrapb.DeleteRequest{Swamps: []*hydrapb.DeleteRequest_SwampKeys{{IslandID: 1, SwampName: sw, Keys: []string{"k1"}}}})
			_ = resp
		}()
		done := make(chan struct{})
		go func() { wg.Wait(); close(done) }()
		select {
		case <-done:
		case <-time.After(2 * time.Second):
			dl++
			continue
		}
		seen := map[string]bool{}
		for _, g := range got[:2] {
			for _, k := range g {
				if seen[k] {
					dbl++
					fmt.Println("DOUBLE", round, got)
				}
				seen[k] = true
			}
		}
	}
	fmt.Println("deadlocked rounds:", dl, "double:", dbl)
	os.Exit(0)
}
