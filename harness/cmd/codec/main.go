// Driver for C24 (compression round-trips and never hides corruption): binds spec/Codec.tla to
// app/core/compressor.
//
//	codec run <classes.ndjson> <summary.json>     parent: spawns workers, survives their death
//	codec worker <from> <progress.ndjson>          child: evaluates cases from index <from> on
//
// Cases = seeded inputs (incl. empty) x 4 algorithms x damages of the compressed form (single bit flips,
// byte substitutions, multi-byte runs, truncations, appended bytes, swapped halves, pure garbage, and the
// undamaged form). Each case is evaluated under recover in a child process (a fatal runtime error, an
// out-of-memory kill or a hang of the child is an observation: outcome "died"/"hung") and classified:
//
//	same       no error and the output equals the original input
//	err        an error was returned
//	empty      no error, empty output, although the input was not empty
//	prefix     no error, a proper non-empty prefix of the input
//	different  no error and any other output
//	panic / died / hung
//
// The verdict is TLC's (Trace_Codec): the driver only aggregates (algorithm, damage kind, damaged?, input
// empty?, outcome) classes with counts and the first example of each.
package main

import (
	"bufio"
	"bytes"
	"crypto/sha256"
	"encoding/json"
	"fmt"
	"math/rand"
	"os"
	"os/exec"
	"runtime"
	"strconv"
	"sync"
	"time"

	"github.com/hydraide/hydraide/app/core/compressor"
)

type alg struct {
	name string
	t    compressor.Type
}

var algs = []alg{{"gzip", compressor.Gzip}, {"lz4", compressor.LZ4}, {"snappy", compressor.Snappy}, {"zstd", compressor.Zstd}}

type kase struct {
	Alg    int
	Input  int
	Kind   string // none | bitflip | byteset | run | truncate | append | swap | garbage | zerofill
	Pos    int
	Len    int
	Val    byte
	Serial int
}

func inputs(seed int64, thorough bool) [][]byte {
	rng := rand.New(rand.NewSource(seed))
	out := [][]byte{{}, {0}, {'a'}, []byte("hello hydraide"), bytes.Repeat([]byte{0}, 1000), bytes.Repeat([]byte("abcdefgh"), 500)}
	sizes := []int{2, 63, 1024, 70000}
	if thorough {
		sizes = append(sizes, 3, 7, 16, 17, 255, 256, 4096, 65536)
	}
	for _, n := range sizes {
		b := make([]byte, n)
		rng.Read(b)
		out = append(out, b) // incompressible
		t := make([]byte, n)
		for i := range t {
			t[i] = "the quick brown fox "[rng.Intn(20)]
		}
		out = append(out, t) // text-like
		m := make([]byte, n)
		for i := range m {
			if rng.Intn(10) == 0 {
				m[i] = byte(rng.Intn(256))
			} else if i > 0 {
				m[i] = m[i-1]
			}
		}
		out = append(out, m) // runs
	}
	return out
}

// the case list is a pure function of (seed, tier) so that parent and workers agree on it
func cases(seed int64, thorough bool, ins [][]byte, comp [][][]byte) []kase {
	rng := rand.New(rand.NewSource(seed*31 + 7))
	var out []kase
	per := 4
	if thorough {
		per = 12
	}
	for a := range algs {
		for i := range ins {
			c := comp[a][i]
			n := len(c)
			out = append(out, kase{Alg: a, Input: i, Kind: "none"})
			if n == 0 {
				continue
			}
			for k := 0; k < per; k++ {
				out = append(out, kase{Alg: a, Input: i, Kind: "bitflip", Pos: rng.Intn(n), Val: byte(1 << rng.Intn(8))})
			}
			// every bit of the first bytes and of the last bytes (headers, checksums, trailers)
			edge := 6
			if !thorough {
				edge = 2
			}
			for p := 0; p < n && p < edge; p++ {
				for b := 0; b < 8; b++ {
					out = append(out, kase{Alg: a, Input: i, Kind: "bitflip", Pos: p, Val: byte(1 << b)})
					if n-1-p > p {
						out = append(out, kase{Alg: a, Input: i, Kind: "bitflip", Pos: n - 1 - p, Val: byte(1 << b)})
					}
				}
			}
			for k := 0; k < per/2; k++ {
				out = append(out, kase{Alg: a, Input: i, Kind: "byteset", Pos: rng.Intn(n), Val: byte(rng.Intn(256))})
				out = append(out, kase{Alg: a, Input: i, Kind: "run", Pos: rng.Intn(n), Len: 2 + rng.Intn(16), Val: byte(rng.Intn(256))})
				out = append(out, kase{Alg: a, Input: i, Kind: "zerofill", Pos: rng.Intn(n), Len: 1 + rng.Intn(64)})
				out = append(out, kase{Alg: a, Input: i, Kind: "truncate", Pos: 1 + rng.Intn(n)%max(1, n-1)})
			}
			out = append(out, kase{Alg: a, Input: i, Kind: "truncate0", Pos: 0}) // nothing left at all
			for _, p := range []int{1, n / 2, n - 1, n - 4, n - 8} {
				if p >= 1 && p < n {
					out = append(out, kase{Alg: a, Input: i, Kind: "truncate", Pos: p})
				}
			}
			for _, l := range []int{1, 4, 100} {
				out = append(out, kase{Alg: a, Input: i, Kind: "append", Len: l, Val: byte(rng.Intn(256))})
			}
			out = append(out, kase{Alg: a, Input: i, Kind: "swap", Pos: n / 2})
			out = append(out, kase{Alg: a, Input: i, Kind: "garbage", Len: n, Val: byte(rng.Intn(256))})
		}
	}
	for i := range out {
		out[i].Serial = i
	}
	return out
}

func damage(c []byte, k kase) []byte {
	d := append([]byte{}, c...)
	switch k.Kind {
	case "bitflip":
		d[k.Pos] ^= k.Val
	case "byteset":
		d[k.Pos] = k.Val
	case "run":
		for i := k.Pos; i < len(d) && i < k.Pos+k.Len; i++ {
			d[i] = k.Val + byte(i)
		}
	case "zerofill":
		for i := k.Pos; i < len(d) && i < k.Pos+k.Len; i++ {
			d[i] = 0
		}
	case "truncate", "truncate0":
		d = d[:k.Pos]
	case "append":
		for i := 0; i < k.Len; i++ {
			d = append(d, k.Val+byte(i*7))
		}
	case "swap":
		d = append(append([]byte{}, c[k.Pos:]...), c[:k.Pos]...)
	case "garbage":
		r := rand.New(rand.NewSource(int64(k.Val) + int64(len(c))))
		r.Read(d)
	}
	return d
}

func prepare() (int64, bool, [][]byte, [][][]byte) {
	seed, _ := strconv.ParseInt(os.Getenv("VERIF_SEED"), 10, 64)
	thorough := os.Getenv("VERIF_TIER") == "thorough"
	ins := inputs(seed, thorough)
	comp := make([][][]byte, len(algs))
	for a, al := range algs {
		comp[a] = make([][]byte, len(ins))
		for i, in := range ins {
			c, err := compressor.New(al.t).Compress(in)
			if err != nil {
				c = nil
			}
			comp[a][i] = c
		}
	}
	return seed, thorough, ins, comp
}

func evaluate(k kase, ins [][]byte, comp [][][]byte) (outcome string, damaged bool) {
	defer func() {
		if r := recover(); r != nil {
			outcome = "panic"
		}
	}()
	c := comp[k.Alg][k.Input]
	d := damage(c, k)
	damaged = !bytes.Equal(c, d)
	out, err := compressor.New(algs[k.Alg].t).Decompress(d)
	switch {
	case err != nil:
		return "err", damaged
	case bytes.Equal(out, ins[k.Input]):
		return "same", damaged
	case len(out) == 0:
		return "empty", damaged
	case len(out) < len(ins[k.Input]) && bytes.Equal(out, ins[k.Input][:len(out)]):
		return "prefix", damaged
	default:
		return "different", damaged
	}
}

func worker(from int, progress string, stripe, stripes int) {
	_, thorough, ins, comp := prepare()
	seed, _ := strconv.ParseInt(os.Getenv("VERIF_SEED"), 10, 64)
	cs := cases(seed, thorough, ins, comp)
	f, err := os.OpenFile(progress, os.O_APPEND|os.O_CREATE|os.O_WRONLY, 0o644)
	if err != nil {
		panic(err)
	}
	w := bufio.NewWriter(f)
	for i := from; i < len(cs); i++ {
		if i%stripes != stripe {
			continue
		}
		// announce, so that the parent knows which case killed us
		fmt.Fprintf(w, "{\"begin\":%d}\n", i)
		w.Flush()
		if os.Getenv("VERIF_CODEC_DIE_AT") == strconv.Itoa(i) {
			os.Exit(7) // self-test of the death handling: this case "kills" its worker
		}
		var m0, m1 runtime.MemStats
		runtime.ReadMemStats(&m0)
		o, dmg := evaluate(cs[i], ins, comp)
		runtime.ReadMemStats(&m1)
		b, _ := json.Marshal(map[string]any{"i": i, "outcome": o, "damaged": dmg})
		w.Write(b)
		w.WriteByte('\n')
		if m1.TotalAlloc-m0.TotalAlloc > 64<<20 {
			// a forged length made the decoder allocate a huge block; re-using it for the next forged length would
			// have to be zeroed again (seconds per GiB): end here, the parent starts a fresh child for the rest
			break
		}
		if (i/stripes)%64 == 0 {
			w.Flush()
		}
	}
	w.Flush()
	f.Close()
}

// ---- large inputs: sizes around typical internal limits (buffer sizes, "bomb guards", window sizes), compressible and
// incompressible, round trip plus two damages; evaluated one at a time in their own child process

type bigCase struct {
	Alg   int
	Size  int
	Comp  bool   // compressible
	Kind  string // none | bitflip | truncate
	Index int
}

var bigSizes = []int{64 << 10, 1 << 20, 4 << 20, 8<<20 - 1, 8 << 20, 8<<20 + 1, 16 << 20, 16<<20 + 1, 32 << 20}

func bigCases(seed int64, thorough bool) []bigCase {
	rng := rand.New(rand.NewSource(seed*977 + 5))
	var out []bigCase
	for a := range algs {
		type in struct {
			size int
			comp bool
		}
		var ins []in
		if thorough {
			for _, sz := range bigSizes {
				ins = append(ins, in{sz, true}, in{sz, false})
			}
		} else {
			// always one input above 16 MiB, the two sizes around 8 MiB, and one more
			ins = append(ins, in{[]int{16<<20 + 1, 32 << 20}[rng.Intn(2)], rng.Intn(2) == 0}, in{8<<20 + 1, rng.Intn(2) == 0},
				in{8 << 20, rng.Intn(2) == 0}, in{bigSizes[rng.Intn(3)], rng.Intn(2) == 0})
		}
		for j, x := range ins {
			out = append(out, bigCase{Alg: a, Size: x.size, Comp: x.comp, Kind: "none"})
			if thorough || j == 1 {
				out = append(out, bigCase{Alg: a, Size: x.size, Comp: x.comp, Kind: "bitflip"}, bigCase{Alg: a, Size: x.size, Comp: x.comp, Kind: "truncate"})
			}
		}
	}
	for i := range out {
		out[i].Index = i
	}
	return out
}

func bigInput(seed int64, size int, comp bool) []byte {
	rng := rand.New(rand.NewSource(seed + int64(size)*3 + 1))
	b := make([]byte, size)
	if !comp {
		rng.Read(b)
		return b
	}
	words := [][]byte{[]byte("hydraide "), []byte("swamp "), []byte("treasure "), []byte("0123456789"), {0, 0, 0, 0, 0, 0, 0, 0}}
	for off := 0; off < size; {
		off += copy(b[off:], words[rng.Intn(len(words))])
	}
	return b
}

func bigWorker(from int, progress string) {
	seed, _ := strconv.ParseInt(os.Getenv("VERIF_SEED"), 10, 64)
	cs := bigCases(seed, os.Getenv("VERIF_TIER") == "thorough")
	f, err := os.OpenFile(progress, os.O_APPEND|os.O_CREATE|os.O_WRONLY, 0o644)
	if err != nil {
		panic(err)
	}
	defer f.Close()
	// one case per process: the compressor never closes its zstd encoders/decoders, a long-lived worker that handles
	// hundreds of megabytes per case accumulates them until it is killed for lack of memory
	for i := from; i < len(cs) && i < from+1; i++ {
		c := cs[i]
		fmt.Fprintf(f, "{\"begin\":%d}\n", i)
		in := bigInput(seed, c.Size, c.Comp)
		outcome, damaged, compLen := "err", false, 0
		func() {
			defer func() {
				if r := recover(); r != nil {
					outcome = "panic"
				}
			}()
			cp := compressor.New(algs[c.Alg].t)
			comp, err := cp.Compress(in)
			if err != nil {
				outcome = "compress-error"
				return
			}
			compLen = len(comp)
			switch c.Kind {
			case "bitflip":
				comp[len(comp)/2] ^= 0x10
				damaged = true
			case "truncate":
				comp = comp[:len(comp)/2]
				damaged = true
			}
			out, err := cp.Decompress(comp)
			switch {
			case err != nil:
				outcome = "err"
			case len(out) == len(in) && sha256.Sum256(out) == sha256.Sum256(in):
				outcome = "same"
			case len(out) == 0:
				outcome = "empty"
			case len(out) < len(in) && bytes.Equal(out, in[:len(out)]):
				outcome = "prefix"
			default:
				outcome = "different"
			}
		}()
		b, _ := json.Marshal(map[string]any{"i": i, "outcome": outcome, "damaged": damaged, "comp_len": compLen})
		f.Write(append(b, '\n'))
	}
}

type class struct {
	Alg      string `json:"alg"`
	Kind     string `json:"kind"`
	Damaged  bool   `json:"damaged"`
	XEmpty   bool   `json:"xempty"`
	Outcome  string `json:"outcome"`
	Count    int    `json:"count"`
	Example  kase   `json:"example"`
	InputLen int    `json:"input_len"`
	CompLen  int    `json:"comp_len"`
}

func main() {
	if len(os.Args) >= 6 && os.Args[1] == "worker" {
		from, _ := strconv.Atoi(os.Args[2])
		stripe, _ := strconv.Atoi(os.Args[4])
		stripes, _ := strconv.Atoi(os.Args[5])
		worker(from, os.Args[3], stripe, stripes)
		return
	}
	if len(os.Args) >= 4 && os.Args[1] == "bigworker" {
		from, _ := strconv.Atoi(os.Args[2])
		bigWorker(from, os.Args[3])
		return
	}
	if len(os.Args) < 4 || os.Args[1] != "run" {
		fmt.Fprintln(os.Stderr, "usage: codec run <classes.ndjson> <summary.json>")
		os.Exit(3)
	}
	seed, thorough, ins, comp := prepare()
	cs := cases(seed, thorough, ins, comp)
	outcomes := make([]string, len(cs))
	damagedF := make([]bool, len(cs))
	const stripes = 4
	var mu sync.Mutex
	deaths := 0
	retried := 0
	var wg sync.WaitGroup
	for st := 0; st < stripes; st++ {
		wg.Add(1)
		go func(st int) {
			defer wg.Done()
			progress := fmt.Sprintf("%s.progress-%d", os.Args[2], st)
			os.Remove(progress)
			next := func(i int) int { // first index >= i of this stripe
				for i%stripes != st {
					i++
				}
				return i
			}
			done := next(0)
			for done < len(cs) {
				cmd := exec.Command(os.Args[0], "worker", strconv.Itoa(done), progress, strconv.Itoa(st), strconv.Itoa(stripes))
				cmd.Env = os.Environ()
				if err := cmd.Start(); err != nil {
					panic(err)
				}
				waitCh := make(chan error, 1)
				go func() { waitCh <- cmd.Wait() }()
				hung := false
				lastSize := int64(-1)
				idle := 0
			wait:
				for {
					select {
					case <-waitCh:
						break wait
					case <-time.After(5 * time.Second):
						fi, err := os.Stat(progress)
						sz := int64(0)
						if err == nil {
							sz = fi.Size()
						}
						if sz == lastSize {
							idle++
						} else {
							idle = 0
						}
						lastSize = sz
						if idle >= 36 { // three minutes without a single finished case
							hung = true
							cmd.Process.Kill()
							<-waitCh
							break wait
						}
					}
				}
				// read what the worker managed to do
				begun := -1
				if f, err := os.Open(progress); err == nil {
					sc := bufio.NewScanner(f)
					sc.Buffer(make([]byte, 1<<20), 1<<20)
					for sc.Scan() {
						var m map[string]any
						if json.Unmarshal(sc.Bytes(), &m) != nil {
							continue
						}
						if b, ok := m["begin"]; ok {
							begun = int(b.(float64))
							continue
						}
						i := int(m["i"].(float64))
						mu.Lock()
						outcomes[i] = m["outcome"].(string)
						damagedF[i] = m["damaged"].(bool)
						mu.Unlock()
						if i+stripes > done {
							done = i + stripes
						}
					}
					f.Close()
				}
				os.Remove(progress)
				if done < len(cs) && begun >= 0 && begun < done && !hung {
					continue // the child ended on its own after a completed case
				}
				if done < len(cs) {
					// the worker died (or was killed) while evaluating case `done`
					mu.Lock()
					deaths++
					tooMany := deaths > 200
					mu.Unlock()
					if tooMany {
						fmt.Fprintln(os.Stderr, "too many worker deaths")
						os.Exit(4)
					}
					if begun == done || begun == -1 {
						mu.Lock()
						if hung {
							outcomes[done] = "hung"
						} else {
							outcomes[done] = "died"
						}
						d := damage(comp[cs[done].Alg][cs[done].Input], cs[done])
						damagedF[done] = !bytes.Equal(d, comp[cs[done].Alg][cs[done].Input])
						mu.Unlock()
						done += stripes
					}
				}
			}
		}(st)
	}
	wg.Wait()
	// A case on which a child made no progress for three minutes is evaluated once more on its own, in a fresh process
	// and with nothing else running here (forged lengths make the decoders allocate gigabytes, which is slow under
	// memory pressure but does end); only if it still does not finish within 15 minutes it stays "hung".
	for i := range outcomes {
		if outcomes[i] != "hung" {
			continue
		}
		progress := fmt.Sprintf("%s.progress-retry", os.Args[2])
		os.Remove(progress)
		cmd := exec.Command(os.Args[0], "worker", strconv.Itoa(i), progress, strconv.Itoa(i), strconv.Itoa(len(cs)+1))
		cmd.Env = os.Environ()
		if err := cmd.Start(); err != nil {
			panic(err)
		}
		waitCh := make(chan error, 1)
		go func() { waitCh <- cmd.Wait() }()
		select {
		case <-waitCh:
		case <-time.After(15 * time.Minute):
			cmd.Process.Kill()
			<-waitCh
		}
		if f, err := os.Open(progress); err == nil {
			sc := bufio.NewScanner(f)
			for sc.Scan() {
				var m map[string]any
				if json.Unmarshal(sc.Bytes(), &m) == nil && m["outcome"] != nil && int(m["i"].(float64)) == i {
					outcomes[i] = m["outcome"].(string)
					damagedF[i] = m["damaged"].(bool)
					retried++
				}
			}
			f.Close()
		}
		os.Remove(progress)
	}
	for i := range outcomes {
		if outcomes[i] == "" {
			fmt.Fprintf(os.Stderr, "case %d was never evaluated\n", i)
			os.Exit(5)
		}
	}
	classes := map[string]*class{}
	order := []string{}
	nontrivial := map[string]bool{}
	for i, k := range cs {
		key := fmt.Sprintf("%s|%s|%v|%v|%s", algs[k.Alg].name, k.Kind, damagedF[i], len(ins[k.Input]) == 0, outcomes[i])
		c := classes[key]
		if c == nil {
			c = &class{Alg: algs[k.Alg].name, Kind: k.Kind, Damaged: damagedF[i], XEmpty: len(ins[k.Input]) == 0, Outcome: outcomes[i],
				Example: k, InputLen: len(ins[k.Input]), CompLen: len(comp[k.Alg][k.Input])}
			classes[key] = c
			order = append(order, key)
		}
		c.Count++
		if damagedF[i] {
			nontrivial[fmt.Sprintf("%d|%d|%s|%d|%d|%d", k.Alg, k.Input, k.Kind, k.Pos, k.Len, k.Val)] = true
		}
	}
	// the large inputs, one child at a time (a child that dies is restarted behind the case it was on)
	bcs := bigCases(seed, thorough)
	bout := make([]string, len(bcs))
	bdam := make([]bool, len(bcs))
	bcomp := make([]int, len(bcs))
	bprog := os.Args[2] + ".progress-big"
	for done := 0; done < len(bcs); {
		os.Remove(bprog)
		cmd := exec.Command(os.Args[0], "bigworker", strconv.Itoa(done), bprog)
		cmd.Env = os.Environ()
		if err := cmd.Start(); err != nil {
			panic(err)
		}
		waitCh := make(chan error, 1)
		go func() { waitCh <- cmd.Wait() }()
		timedOut := false
		select {
		case <-waitCh:
		case <-time.After(30 * time.Minute):
			timedOut = true
			cmd.Process.Kill()
			<-waitCh
		}
		begun := -1
		if pf, err := os.Open(bprog); err == nil {
			sc := bufio.NewScanner(pf)
			for sc.Scan() {
				var m map[string]any
				if json.Unmarshal(sc.Bytes(), &m) != nil {
					continue
				}
				if b, ok := m["begin"]; ok {
					begun = int(b.(float64))
					continue
				}
				i := int(m["i"].(float64))
				bout[i], bdam[i], bcomp[i] = m["outcome"].(string), m["damaged"].(bool), int(m["comp_len"].(float64))
				if i+1 > done {
					done = i + 1
				}
			}
			pf.Close()
		}
		os.Remove(bprog)
		if done < len(bcs) && begun >= 0 && begun < done && !timedOut {
			continue // (one case per child)
		}
		if done < len(bcs) {
			deaths++
			if begun == done || begun == -1 {
				bout[done] = "died"
				if timedOut {
					bout[done] = "hung"
				}
				bdam[done] = bcs[done].Kind != "none"
				done++
			}
		}
	}
	bigBytes := 0
	for i, c := range bcs {
		key := fmt.Sprintf("%s|%s|%v|%v|%s", algs[c.Alg].name, c.Kind, bdam[i], false, bout[i])
		cl := classes[key]
		if cl == nil {
			cl = &class{Alg: algs[c.Alg].name, Kind: c.Kind, Damaged: bdam[i], Outcome: bout[i],
				Example: kase{Alg: c.Alg, Input: 1000 + i, Kind: c.Kind, Pos: bcomp[i] / 2}, InputLen: c.Size, CompLen: bcomp[i]}
			classes[key] = cl
			order = append(order, key)
		}
		cl.Count++
		bigBytes += c.Size
		if bdam[i] || c.Size > 0 {
			nontrivial[fmt.Sprintf("big|%d|%d|%v|%s", c.Alg, c.Size, c.Comp, c.Kind)] = true
		}
	}
	f, err := os.Create(os.Args[2])
	if err != nil {
		panic(err)
	}
	for _, key := range order {
		b, _ := json.Marshal(classes[key])
		f.Write(append(b, '\n'))
	}
	f.Close()
	compressFailed := 0
	for a := range algs {
		for i := range ins {
			if comp[a][i] == nil {
				compressFailed++
			}
		}
	}
	sum, _ := json.Marshal(map[string]any{"cases": len(cs) + len(bcs), "large_input_cases": len(bcs), "large_input_bytes": bigBytes, "inputs": len(ins), "classes": len(order), "worker_deaths": deaths, "slow_cases_retried": retried,
		"distinct_damaged": len(nontrivial), "compress_failed": compressFailed})
	os.WriteFile(os.Args[3], sum, 0o644)
}
