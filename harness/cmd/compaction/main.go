// Driver for C03 (compaction never changes the stored state): binds spec/Compaction.tla to
//
//	app/core/hydra/swamp/chronicler/v2/compactor.go   Compact / ForceCompact / CompactIfNeeded /
//	                                                  CompactDirectory / CompactFromIndex
//	app/core/hydra/swamp/chronicler/chronicler_v2.go  Load self-heal, inline (Write), Close, ForceCompaction
//	app/hydraidectl/cmd/compact.go                    compactSwamp / runCompaction (verif wrappers)
//
//	compaction run <scenarios.json> <trace.ndjson> <results.ndjson>
//
// Every scenario builds real files (history crossing the thresholds, optional leftover .compact file),
// runs one real entry point with the verifhook.FileOp hook recording what is done to the temp file, and
// writes one trace line per spec action. From the recorded operation log every crash cut (operation
// boundaries, byte prefixes of writes; process death and power failure) is materialised as an image in
// a fresh directory, loaded with the real reader and the real chronicler, optionally compacted again
// with the command line path, and written to the trace as a branch (mark / crash / ... / rewind).
// The verdict is TLC's: this program only reports what it observed.
package main

import (
	"bytes"
	"encoding/binary"
	"encoding/json"
	"fmt"
	"io"
	"log/slog"
	"math/rand"
	"os"
	"path/filepath"
	"runtime/pprof"
	"sort"
	"strconv"
	"strings"

	"github.com/hydraide/hydraide/app/core/hydra/swamp/beacon"
	"github.com/hydraide/hydraide/app/core/hydra/swamp/chronicler"
	v2 "github.com/hydraide/hydraide/app/core/hydra/swamp/chronicler/v2"
	"github.com/hydraide/hydraide/app/core/hydra/swamp/treasure"
	"github.com/hydraide/hydraide/app/core/hydra/swamp/treasure/guard"
	hcmd "github.com/hydraide/hydraide/app/hydraidectl/cmd"
	"github.com/hydraide/hydraide/app/verifhook"

	"verifharness/trace"
)

type Stale struct {
	Kind string   `json:"kind"` // none | zero | short | hdronly | whole | torn | garbage
	Ents [][2]int `json:"ents"`
	Tear string   `json:"tear"` // blockhdr | payload (kind torn)
}

type Scenario struct {
	ID        int      `json:"id"`
	EP        string   `json:"ep"`  // inline | close | load | forced | cli | api
	Via       string   `json:"via"` // cli: swamp|pool ; api: compact|force|ifneeded|dir ; load: chron|fromindex|v2file
	Hist      [][2]int `json:"hist"`
	Rep       int      `json:"rep"`
	Stale     Stale    `json:"stale"`
	Block     int      `json:"block"`
	Threshold float64  `json:"threshold"`
	Name      string   `json:"name"`
	Pad       int      `json:"pad"`
	Cuts      int      `json:"cuts"`   // -1 all, 0 none, n>0: at most n sampled cuts per run
	Follow    int      `json:"follow"` // percentage of crash images that get a follow-up command-line compaction
	Faults    int      `json:"faults"` // how many fault placements (I/O error at one temp-file operation) are tried after the clean run
	Config    bool     `json:"config"` // chronicler built with NewV2WithConfig(block, threshold) instead of NewV2WithName
	Seed      int64    `json:"seed"`
}

type ev = map[string]any

var (
	tw      *trace.Writer
	workDir string
)

// ---------------------------------------------------------------------------------------------
// values: every stored value is the real byte form of a treasure whose string content names the abstract value

func mkTreasure(key string, v int, pad int) treasure.Treasure {
	tr := treasure.New(nil)
	gid := tr.StartTreasureGuard(true, guard.BodyAuthID)
	tr.BodySetKey(gid, key)
	if v > 0 {
		tr.SetContentString(gid, "val-"+strconv.Itoa(v)+"-"+strings.Repeat("x", pad))
	} else {
		tr.BodySetForDeletion(gid, "verif", false)
	}
	tr.ReleaseTreasureGuard(gid)
	return tr
}

func treasureBytes(key string, v int, pad int) []byte {
	tr := mkTreasure(key, v, pad)
	gid := tr.StartTreasureGuard(true, guard.BodyAuthID)
	defer tr.ReleaseTreasureGuard(gid)
	b, err := tr.ConvertToByte(gid)
	if err != nil {
		panic(err)
	}
	return b
}

func keyName(k int) string { return "key-" + strconv.Itoa(k) }

func keyID(s string) int {
	if strings.HasPrefix(s, "key-") {
		if n, err := strconv.Atoi(s[4:]); err == nil && n >= 1 && n <= 15 {
			return n
		}
	}
	return 16 // not a key this driver wrote
}

func contentID(s string) int {
	if strings.HasPrefix(s, "val-") {
		r := s[4:]
		if i := strings.IndexByte(r, '-'); i > 0 {
			if n, err := strconv.Atoi(r[:i]); err == nil && n >= 1 {
				return n
			}
		}
	}
	return 9999
}

func valueID(b []byte) int {
	tr := treasure.New(nil)
	gid := tr.StartTreasureGuard(true, guard.BodyAuthID)
	defer tr.ReleaseTreasureGuard(gid)
	if err := tr.LoadFromByte(gid, b, ""); err != nil {
		return 9998
	}
	s, err := tr.GetContentString()
	if err != nil {
		return 9997
	}
	return contentID(s)
}

func pairsOfIndex(idx map[string][]byte) [][2]int {
	out := make([][2]int, 0, len(idx))
	for k, b := range idx {
		out = append(out, [2]int{keyID(k), valueID(b)})
	}
	sort.Slice(out, func(i, j int) bool { return out[i][0] < out[j][0] || (out[i][0] == out[j][0] && out[i][1] < out[j][1]) })
	return out
}

func pairsOfBeacon(b beacon.Beacon) [][2]int {
	out := [][2]int{}
	for k, t := range b.GetAll() {
		s, err := t.GetContentString()
		v := 9996
		if err == nil {
			v = contentID(s)
		}
		out = append(out, [2]int{keyID(k), v})
	}
	sort.Slice(out, func(i, j int) bool { return out[i][0] < out[j][0] || (out[i][0] == out[j][0] && out[i][1] < out[j][1]) })
	return out
}

func loadIndexOf(path string) (pairs [][2]int, failed bool) {
	defer func() {
		if r := recover(); r != nil {
			pairs, failed = [][2]int{}, true
		}
	}()
	fr, err := v2.NewFileReader(path)
	if err != nil {
		return [][2]int{}, true
	}
	defer fr.Close()
	idx, _, err := fr.LoadIndex()
	if err != nil {
		return [][2]int{}, true
	}
	return pairsOfIndex(idx), false
}

func exists(p string) bool { _, err := os.Stat(p); return err == nil }

// what a freshly started server makes of the files in dir (a copy is loaded, the original is untouched)
func serverLoad(mainPath string, name string, scratch string) [][2]int {
	os.MkdirAll(scratch, 0o755)
	base := filepath.Join(scratch, "swamp")
	os.Remove(base + ".hyd")
	os.Remove(base + ".hyd.compact")
	copyFile(mainPath, base+".hyd")
	copyFile(mainPath+".compact", base+".hyd.compact")
	c := chronicler.NewV2WithName(base, 10, name)
	c.CreateDirectoryIfNotExists()
	b := beacon.New()
	c.Load(b)
	out := pairsOfBeacon(b)
	_ = c.Close()
	return out
}

func copyFile(src, dst string) {
	b, err := os.ReadFile(src)
	if err != nil {
		return
	}
	if err := os.WriteFile(dst, b, 0o644); err != nil {
		panic(err)
	}
}

// ---------------------------------------------------------------------------------------------
// recorder: the temp-file operations of one compaction run

type opRec struct {
	Kind    string
	Off     int64
	Data    []byte
	Ex      bool // the temp file existed when the operation was announced
	Failed  bool // an injected fault: the hook returned an error instead of letting the operation happen
	Applied int  // ... after writing this many bytes of it itself (short write)
}

type recorder struct {
	mainPath, tempPath string
	ops                []opRec
	beforeMain         []byte
	beforeTemp         []byte
	beforeTempEx       bool
	beforeIdx          [][2]int
	beforeErr          bool
	failAt             int // index of the operation that fails (-1: none)
	failShort          bool
}

func newRecorder(mainPath string) *recorder {
	return &recorder{mainPath: mainPath, tempPath: mainPath + ".compact", failAt: -1}
}

func (r *recorder) hook(kind string, f *os.File, path string, data []byte) error {
	if path != r.tempPath {
		return nil
	}
	if len(r.ops) == 0 {
		r.beforeMain, _ = os.ReadFile(r.mainPath)
		b, err := os.ReadFile(r.tempPath)
		r.beforeTemp, r.beforeTempEx = b, err == nil
		r.beforeIdx, r.beforeErr = loadIndexOf(r.mainPath)
	}
	off := int64(-1)
	if f != nil && kind == "write" {
		off, _ = f.Seek(0, io.SeekCurrent)
	}
	op := opRec{Kind: kind, Off: off, Data: append([]byte{}, data...), Ex: exists(r.tempPath)}
	var ret error
	// (the results of the remove and close announcements are ignored by the code under test: no fault there)
	if len(r.ops) == r.failAt && (kind == "create" || kind == "write" || kind == "sync" || kind == "rename") {
		op.Failed = true
		if kind == "write" && r.failShort && f != nil && len(data) > 1 {
			op.Applied = len(data) / 2
			f.Write(data[:op.Applied])
		}
		ret = errInjected
	}
	r.ops = append(r.ops, op)
	return ret
}

var errInjected = fmt.Errorf("verif: injected I/O error")

func (r *recorder) install() {
	verifhook.SetFileOp(func(kind string, f *os.File, path string, data []byte) error { return r.hook(kind, f, path, data) })
}
func uninstall() { verifhook.SetFileOp(nil) }

func (r *recorder) renamed() bool {
	for _, o := range r.ops {
		if o.Kind == "rename" && !o.Failed {
			return true
		}
	}
	return false
}
func (r *recorder) wroteTemp() bool {
	for _, o := range r.ops {
		if (o.Kind == "create" || o.Kind == "write") && !(o.Failed && o.Applied == 0) {
			return true
		}
	}
	return false
}

// abstraction of the temp file while its operation log is replayed
type absState struct {
	ex     bool
	hdr    int
	flen   int64
	opened bool
	fresh  bool
	pend   []byte // a complete block header whose payload has not been written yet
	torn   int    // 1: a block header is incomplete, 2: a block's payload is incomplete
}

// apply operation o (only the first n bytes of its data when n >= 0) and emit the spec-level events
func (st *absState) apply(o opRec, n int, emit func(ev)) {
	if o.Failed {
		if o.Kind != "write" || o.Applied == 0 {
			return // the operation did not happen
		}
		if n < 0 || n > o.Applied {
			n = o.Applied
		}
	}
	full := n < 0 || n >= len(o.Data)
	if st.ex && !o.Ex && o.Kind != "remove" {
		// the file was removed without an announcement (a plain os.Remove)
		emit(ev{"ev": "cleanup"})
		st.ex, st.hdr, st.flen, st.opened, st.fresh, st.pend = false, 0, 0, false, false, nil
	}
	switch o.Kind {
	case "remove":
		emit(ev{"ev": "cleanup"})
		st.ex, st.hdr, st.flen, st.opened, st.fresh, st.pend = false, 0, 0, false, false, nil
	case "create":
		emit(ev{"ev": "create"})
		st.ex, st.hdr, st.flen, st.opened, st.fresh, st.pend = true, 0, 0, true, true, nil
	case "write":
		if !st.opened {
			if st.ex {
				emit(ev{"ev": "openappend"})
			} else {
				emit(ev{"ev": "unknown", "why": "write to a temp file that was not created"})
			}
			st.opened = true
		}
		ln := len(o.Data)
		if !full {
			ln = n
		}
		switch {
		case o.Off == 0 && len(o.Data) == v2.FileHeaderSize:
			if st.fresh && st.hdr == 0 {
				if full {
					nl := int(binary.LittleEndian.Uint16(o.Data[44:46]))
					if nl == 0 {
						st.hdr = 2
					} else {
						st.hdr = 1
					}
					emit(ev{"ev": "header", "h": st.hdr})
				}
			} // else: counts rewritten in place, no abstract change (any mix of two valid headers is a valid header)
		case st.fresh && st.hdr == 1 && o.Off == v2.FileHeaderSize:
			if full {
				st.hdr = 2
				emit(ev{"ev": "header", "h": 2})
			}
		case st.pend == nil && len(o.Data) == v2.BlockHeaderSize && o.Off == st.flen:
			if full {
				st.pend = o.Data
			} else if ln > 0 {
				st.torn = 1
			}
		case st.pend != nil && o.Off == st.flen:
			if full {
				bh := &v2.BlockHeader{}
				_ = bh.Deserialize(st.pend)
				blk, err := v2.ParseBlock(bh, o.Data)
				if err != nil {
					emit(ev{"ev": "unknown", "why": "block written to the temp file does not parse: " + err.Error()})
				} else {
					ents := make([][2]int, 0, len(blk.Entries))
					for _, e := range blk.Entries {
						v := 0
						if e.Operation != v2.OpDelete {
							v = valueID(e.Data)
						}
						ents = append(ents, [2]int{keyID(e.Key), v})
					}
					emit(ev{"ev": "write", "ents": ents})
				}
				st.pend = nil
			} else if ln > 0 {
				st.torn = 2
			}
		default:
			emit(ev{"ev": "unknown", "why": fmt.Sprintf("write of %d bytes at %d (file length %d)", len(o.Data), o.Off, st.flen)})
		}
		if o.Off+int64(ln) > st.flen {
			st.flen = o.Off + int64(ln)
		}
	case "sync":
		emit(ev{"ev": "sync"})
	case "close":
		emit(ev{"ev": "close"})
	case "rename":
		emit(ev{"ev": "rename"})
		st.ex, st.opened = false, false
	}
}

// concrete files while the log is replayed: content and durable content
type fileImg struct {
	ex  bool
	b   []byte
	dex bool
	d   []byte
}

type images struct{ main, temp fileImg }

func (im *images) apply(o opRec, n int) {
	if im.temp.ex && !o.Ex && o.Kind != "remove" {
		im.temp = fileImg{}
	}
	if o.Failed {
		if o.Kind != "write" || o.Applied == 0 {
			return
		}
		if n < 0 || n > o.Applied {
			n = o.Applied
		}
	}
	switch o.Kind {
	case "remove":
		im.temp = fileImg{}
	case "create":
		im.temp = fileImg{ex: true, b: []byte{}, dex: true, d: []byte{}}
	case "write":
		data := o.Data
		if n >= 0 && n < len(data) {
			data = data[:n]
		}
		end := o.Off + int64(len(data))
		if int64(len(im.temp.b)) < end {
			nb := make([]byte, end)
			copy(nb, im.temp.b)
			im.temp.b = nb
		} else {
			im.temp.b = append([]byte{}, im.temp.b...)
		}
		copy(im.temp.b[o.Off:], data)
	case "sync":
		im.temp.d = append([]byte{}, im.temp.b...)
		im.temp.dex = true
	case "rename":
		im.main = im.temp
		im.temp = fileImg{}
	}
}

func (im *images) write(dir string, power bool) string {
	os.MkdirAll(dir, 0o755)
	mp := filepath.Join(dir, "swamp.hyd")
	put := func(p string, f fileImg) {
		if power {
			if f.dex {
				os.WriteFile(p, f.d, 0o644)
				return
			}
		} else if f.ex {
			os.WriteFile(p, f.b, 0o644)
			return
		}
		os.Remove(p)
	}
	put(mp, im.main)
	put(mp+".compact", im.temp)
	return mp
}

// ---------------------------------------------------------------------------------------------

type runInfo struct {
	ep     string
	rec    *recorder
	res    string // compacted | skipped | error
	preIdx [][2]int
	preErr bool
}

type scenarioRun struct {
	sc            Scenario
	rng           *rand.Rand
	dir           string
	main          string
	images        int
	follows       int
	faults        int
	brokenFollows int
	harm          []string // places where the observed state differs from the reference map (reporting only)
	ref           map[int]int
	issued        int
	notes         []string
}

func (s *scenarioRun) refPairs() [][2]int {
	out := [][2]int{}
	for k, v := range s.ref {
		if v > 0 {
			out = append(out, [2]int{k, v})
		}
	}
	sort.Slice(out, func(i, j int) bool { return out[i][0] < out[j][0] })
	return out
}

func samePairs(a, b [][2]int) bool {
	if len(a) != len(b) {
		return false
	}
	for i := range a {
		if a[i] != b[i] {
			return false
		}
	}
	return true
}

func (s *scenarioRun) observe(e ev, mainPath string, where string) {
	after, failed := loadIndexOf(mainPath)
	e["after"], e["after_err"] = after, failed
	e["temp_ex"] = exists(mainPath + ".compact")
	srv := [][2]int{}
	if !failed {
		// (an unreadable swamp file is not loaded a second time: the reader may allocate gigabytes on it, see C04)
		srv = serverLoad(mainPath, s.sc.Name, filepath.Join(s.dir, "srv"))
	}
	e["srv"], e["srv_ok"] = srv, !failed
	want := s.refPairs()
	if failed {
		s.harm = append(s.harm, where+": swamp file unreadable")
	} else if !samePairs(after, want) {
		s.harm = append(s.harm, fmt.Sprintf("%s: loaded %v, written %v", where, after, want))
	} else if !samePairs(srv, want) {
		s.harm = append(s.harm, fmt.Sprintf("%s: server loaded %v, written %v", where, srv, want))
	}
}

// emit one finished run (start ... end) with its crash branches
func (s *scenarioRun) emitRun(ri *runInfo, endObs func(e ev)) {
	r := ri.rec
	idx, ierr := ri.preIdx, ri.preErr
	if len(r.ops) > 0 {
		idx, ierr = r.beforeIdx, r.beforeErr
	}
	if ierr {
		// the swamp file could not be read: no run starts
		e := ev{"ev": "end", "res": "error", "reported": ""}
		endObs(e)
		tw.Emit(e)
		return
	}
	tw.Emit(ev{"ev": "start", "ep": ri.ep, "idx": idx})
	st := &absState{ex: r.beforeTempEx, hdr: staleHdr(s.sc.Stale, r.beforeTempEx, r.beforeTemp, s.sc.Name), flen: int64(len(r.beforeTemp))}
	if len(r.ops) == 0 {
		st.ex = exists(r.tempPath)
	}
	im := &images{main: fileImg{ex: true, b: r.beforeMain, dex: true, d: r.beforeMain},
		temp: fileImg{ex: r.beforeTempEx, b: r.beforeTemp, dex: r.beforeTempEx, d: r.beforeTemp}}
	emit := func(e ev) { tw.Emit(e) }

	// which cuts get an image
	type cut struct{ i, n int }
	var cuts []cut
	if s.sc.Cuts != 0 && len(r.ops) > 0 {
		for i := 0; i <= len(r.ops); i++ {
			cuts = append(cuts, cut{i, -1})
			if i < len(r.ops) && r.ops[i].Kind == "write" && len(r.ops[i].Data) > 1 {
				ln := len(r.ops[i].Data)
				seen := map[int]bool{}
				for _, n := range []int{1, ln / 2, ln - 1, 1 + s.rng.Intn(ln-1)} {
					if n >= 1 && n < ln && !seen[n] {
						seen[n] = true
						cuts = append(cuts, cut{i, n})
					}
				}
			}
		}
		if s.sc.Cuts > 0 && len(cuts) > s.sc.Cuts {
			// keep the cuts around sync/close/rename, sample the rest
			keep := map[int]bool{}
			for i, o := range r.ops {
				if o.Kind == "sync" || o.Kind == "rename" {
					keep[i], keep[i+1] = true, true
				}
			}
			var must, rest []cut
			for _, c := range cuts {
				if c.n < 0 && keep[c.i] {
					must = append(must, c)
				} else {
					rest = append(rest, c)
				}
			}
			s.rng.Shuffle(len(rest), func(a, b int) { rest[a], rest[b] = rest[b], rest[a] })
			if len(must) < s.sc.Cuts {
				must = append(must, rest[:s.sc.Cuts-len(must)]...)
			}
			cuts = must
			sort.Slice(cuts, func(a, b int) bool { return cuts[a].i < cuts[b].i || (cuts[a].i == cuts[b].i && cuts[a].n < cuts[b].n) })
		}
	}
	ci := 0
	for i := 0; i <= len(r.ops); i++ {
		marked := false
		for ci < len(cuts) && cuts[ci].i == i {
			c := cuts[ci]
			ci++
			for _, power := range []bool{false, true} {
				if !marked {
					tw.Emit(ev{"ev": "mark"})
					marked = true
				}
				st2 := *st
				im2 := *im
				var pre []ev
				if c.n >= 0 {
					st2.apply(r.ops[i], c.n, func(e ev) { pre = append(pre, e) })
					im2.apply(r.ops[i], c.n)
				}
				for _, e := range pre {
					tw.Emit(e)
				}
				imgDir := filepath.Join(s.dir, "img")
				mp := im2.write(imgDir, power)
				s.images++
				torn := st2.torn
				if torn == 0 && st2.pend != nil {
					torn = 1 // a complete block header without a single payload byte reads as the end of the file
				}
				if power {
					torn = 0
				}
				e := ev{"ev": "crash", "power": power, "torn": torn}
				s.observe(e, mp, fmt.Sprintf("crash image op=%d bytes=%d power=%v of run %s", i, c.n, power, ri.ep))
				tw.Emit(e)
				broken := exists(mp+".compact") && (st2.torn > 0 || st2.pend != nil || st2.hdr == 1)
				if s.sc.Follow > 0 && s.rng.Intn(100) < s.sc.Follow && (!broken || s.brokenFollows < 1) {
					if broken {
						s.brokenFollows++ // (each of these leaves an unreadable swamp file, which is expensive to load)
					}
					s.follows++
					s.followUp(mp)
				}
				tw.Emit(ev{"ev": "rewind"})
			}
		}
		if i < len(r.ops) {
			st.apply(r.ops[i], -1, emit)
			im.apply(r.ops[i], -1)
		}
	}
	e := ev{"ev": "end", "res": ri.res, "reported": ""}
	endObs(e)
	tw.Emit(e)
}

// header state of a leftover temp file, from its bytes
func staleHdr(sl Stale, ex bool, b []byte, name string) int {
	if !ex || len(b) < v2.FileHeaderSize {
		return 0
	}
	h := &v2.FileHeader{}
	if err := h.Deserialize(b[:v2.FileHeaderSize]); err != nil {
		return 0
	}
	if int64(len(b)) < h.DataStartOffset() {
		return 1
	}
	return 2
}

// a command-line compaction of the files in a crash image (no cuts inside)
func (s *scenarioRun) followUp(mainPath string) {
	pre, perr := loadIndexOf(mainPath)
	rec := newRecorder(mainPath)
	rec.install()
	res := hcmd.VerifCompactSwamp(mainPath, 0.0001, false)
	uninstall()
	ri := &runInfo{ep: "cli", rec: rec, res: classify(rec, res.Error, res.Compacted), preIdx: pre, preErr: perr}
	save := s.sc.Cuts
	s.sc.Cuts = 0
	s.emitRun(ri, func(e ev) { s.observe(e, mainPath, "command-line compaction of a crash image") })
	s.sc.Cuts = save
}

func classify(rec *recorder, err error, compacted bool) string {
	if rec.renamed() {
		return "compacted"
	}
	if err != nil || rec.wroteTemp() {
		return "error"
	}
	return "skipped"
}

// ---------------------------------------------------------------------------------------------
// building files

func (s *scenarioRun) issuedOps() [][2]int {
	out := [][2]int{}
	for _, e := range s.sc.Hist {
		for i := 0; i < s.sc.Rep; i++ {
			out = append(out, e)
		}
	}
	return out
}

func (s *scenarioRun) applyRef(es [][2]int) {
	for _, e := range es {
		s.ref[e[0]] = e[1]
	}
}

func writeV2File(path string, block int, name string, es [][2]int, pad int) {
	w, err := v2.NewFileWriterWithName(path, block, name)
	if err != nil {
		panic(err)
	}
	seen := map[int]bool{}
	for _, e := range es {
		ent := v2.Entry{Key: keyName(e[0])}
		if e[1] == 0 {
			ent.Operation = v2.OpDelete
		} else {
			ent.Operation = v2.OpUpdate
			if !seen[e[0]] {
				ent.Operation = v2.OpInsert
			}
			ent.Data = treasureBytes(keyName(e[0]), e[1], pad)
		}
		seen[e[0]] = true
		if err := w.WriteEntry(ent); err != nil {
			panic(err)
		}
	}
	if err := w.Close(); err != nil {
		panic(err)
	}
}

func (s *scenarioRun) placeStale() ev {
	sl := s.sc.Stale
	tp := s.main + ".compact"
	rec := ev{"ex": false, "hdr": 0, "ents": [][2]int{}}
	switch sl.Kind {
	case "", "none":
		return rec
	case "zero":
		os.WriteFile(tp, []byte{}, 0o644)
		return ev{"ex": true, "hdr": 0, "ents": [][2]int{}}
	case "garbage":
		b := make([]byte, 200)
		s.rng.Read(b)
		b[0] = 'X'
		os.WriteFile(tp, b, 0o644)
		return ev{"ex": true, "hdr": 0, "ents": [][2]int{}}
	}
	ents := sl.Ents
	if ents == nil {
		ents = [][2]int{}
	}
	// a real file written by the real writer, one block per entry so that a tear cuts exactly one block
	w, err := v2.NewFileWriterWithName(tp, 1, s.sc.Name)
	if err != nil {
		panic(err)
	}
	for _, e := range ents {
		if err := w.WriteEntry(v2.Entry{Operation: v2.OpInsert, Key: keyName(e[0]), Data: treasureBytes(keyName(e[0]), e[1], s.sc.Pad)}); err != nil {
			panic(err)
		}
	}
	whole := int64(0)
	if sl.Kind == "torn" {
		w.Flush()
		fi, _ := os.Stat(tp)
		whole = fi.Size()
		// one more block, then cut into it
		if err := w.WriteEntry(v2.Entry{Operation: v2.OpInsert, Key: keyName(15), Data: treasureBytes(keyName(15), 77, s.sc.Pad)}); err != nil {
			panic(err)
		}
	}
	if err := w.Close(); err != nil {
		panic(err)
	}
	b, _ := os.ReadFile(tp)
	dataStart := v2.FileHeaderSize + len(s.sc.Name)
	switch sl.Kind {
	case "short":
		os.WriteFile(tp, b[:1+s.rng.Intn(v2.FileHeaderSize-1)], 0o644)
		return ev{"ex": true, "hdr": 0, "ents": [][2]int{}}
	case "hdronly":
		if len(s.sc.Name) == 0 {
			os.WriteFile(tp, b[:dataStart], 0o644)
			return ev{"ex": true, "hdr": 2, "ents": [][2]int{}}
		}
		os.WriteFile(tp, b[:v2.FileHeaderSize+s.rng.Intn(len(s.sc.Name))], 0o644)
		return ev{"ex": true, "hdr": 1, "ents": [][2]int{}}
	case "torn":
		n := int(whole) + 1 + s.rng.Intn(v2.BlockHeaderSize) // 1..16 bytes of the block header, no payload
		mark := [2]int{0, 1}
		if sl.Tear == "payload" {
			n = int(whole) + v2.BlockHeaderSize + 1 + s.rng.Intn(len(b)-int(whole)-v2.BlockHeaderSize-1)
			mark = [2]int{0, 2}
		}
		os.WriteFile(tp, b[:n], 0o644)
		return ev{"ex": true, "hdr": 2, "ents": append(append([][2]int{}, ents...), mark)}
	}
	return ev{"ex": true, "hdr": 2, "ents": ents}
}

type tracker struct {
	keys     map[int]bool
	override int
}

func (t *tracker) count() int {
	if t.override >= 0 {
		return t.override
	}
	return len(t.keys)
}
func (t *tracker) note(es [][2]int) {
	for _, e := range es {
		if e[1] > 0 {
			t.keys[e[0]] = true
		} else {
			delete(t.keys, e[0])
		}
	}
}

func (s *scenarioRun) newChron(base string) chronicler.Chronicler {
	var c chronicler.Chronicler
	if s.sc.Config {
		c = chronicler.NewV2WithConfig(base, 10, s.sc.Block, s.sc.Threshold)
	} else {
		c = chronicler.NewV2WithName(base, 10, s.sc.Name)
	}
	c.CreateDirectoryIfNotExists()
	c.DontSendFilePointer()
	return c
}

func treasures(es [][2]int, pad int) []treasure.Treasure {
	out := make([]treasure.Treasure, 0, len(es))
	for _, e := range es {
		out = append(out, mkTreasure(keyName(e[0]), e[1], pad))
	}
	return out
}

func silenceStdout() func() {
	old := os.Stdout
	dn, _ := os.OpenFile(os.DevNull, os.O_WRONLY, 0)
	os.Stdout = dn
	return func() { os.Stdout = old; dn.Close() }
}

// ---------------------------------------------------------------------------------------------

func (s *scenarioRun) run() {
	sc := s.sc
	s.dir = filepath.Join(workDir, fmt.Sprintf("sc-%d", sc.ID))
	os.RemoveAll(s.dir)
	os.MkdirAll(filepath.Join(s.dir, "data"), 0o755)
	base := filepath.Join(s.dir, "data", "swamp")
	s.main = base + ".hyd"
	s.ref = map[int]int{}
	issued := s.issuedOps()
	s.issued = len(issued)
	endObs := func(e ev) { s.observe(e, s.main, "after "+sc.EP+"/"+sc.Via) }

	// one real entry-point call on the files at rest, recorded by rec; a panic of the code under test is an
	// observation (result "panic"), not a driver failure
	type outcome struct {
		res        string
		reported   string
		loaded     [][2]int
		haveLoaded bool
	}
	invoke := func(rec *recorder) (out outcome) {
		var err error
		compacted := false
		rec.install()
		func() {
			defer func() {
				if r := recover(); r != nil {
					out.res = "panic"
					s.harm = append(s.harm, fmt.Sprintf("%s/%s panicked: %v", sc.EP, sc.Via, r))
				}
			}()
			switch sc.EP + "/" + sc.Via {
			case "cli/swamp":
				r := hcmd.VerifCompactSwamp(s.main, sc.Threshold, false)
				err, compacted = r.Error, r.Compacted
			case "cli/pool":
				restore := silenceStdout()
				defer restore()
				rep := hcmd.VerifRunCompaction([]string{s.main}, sc.Threshold, 2)
				compacted = rep.CompactedSwamps == 1
				if rep.FailedSwamps > 0 {
					err = fmt.Errorf("%v", rep.FailedDetails)
				}
			case "api/compact":
				var r *v2.CompactionResult
				r, err = v2.NewCompactor(s.main, sc.Block, sc.Threshold).Compact()
				compacted = r != nil && r.Compacted
			case "api/force":
				var r *v2.CompactionResult
				r, err = v2.NewCompactor(s.main, sc.Block, sc.Threshold).ForceCompact()
				compacted = r != nil && r.Compacted
			case "api/ifneeded":
				var r *v2.CompactionResult
				r, err = v2.NewCompactor(s.main, sc.Block, sc.Threshold).CompactIfNeeded()
				compacted = r != nil && r.Compacted
			case "api/dir":
				var rs map[string]*v2.CompactionResult
				rs, err = v2.CompactDirectory(filepath.Dir(s.main), sc.Block, sc.Threshold)
				if r := rs[s.main]; r != nil {
					compacted = r.Compacted
					if r.Error != nil {
						err = r.Error
					}
				}
			case "load/fromindex":
				fr, e1 := v2.NewFileReader(s.main)
				if e1 != nil {
					err = e1
					return
				}
				idx, nm, e2 := fr.LoadIndex()
				total := int(fr.GetHeader().EntryCount)
				fr.Close()
				if e2 != nil {
					err = e2
					return
				}
				var r *v2.CompactionResult
				r, err = v2.CompactFromIndex(s.main, sc.Block, nm, idx, total)
				compacted = r != nil && r.Compacted
			case "load/chron", "load/v2file":
				c := s.newChron(base)
				b := beacon.New()
				c.Load(b)
				out.loaded, out.haveLoaded = pairsOfBeacon(b), true
				_ = c.Close()
			default:
				panic("unknown entry point " + sc.EP + "/" + sc.Via)
			}
		}()
		uninstall()
		if out.res == "" {
			out.res = classify(rec, err, compacted)
			// what the entry point itself reported (the spec requires it to agree with what happened to the files)
			if !out.haveLoaded {
				switch {
				case compacted:
					out.reported = "compacted"
				case err != nil:
					out.reported = "error"
				default:
					out.reported = "skipped"
				}
			}
		}
		return out
	}

	switch sc.EP {
	case "cli", "api", "load":
		// a fragmented file at rest (written by the real writer or a real chronicler), an optional leftover temp
		// file, then: the command-line tool / the Compactor API / a server start (Load self-heal)
		if sc.EP == "load" && sc.Via == "chron" {
			c := s.newChron(base)
			for i := 0; i < len(issued); {
				n := 1 + s.rng.Intn(25)
				if i+n > len(issued) {
					n = len(issued) - i
				}
				c.Write(treasures(issued[i:i+n], sc.Pad))
				i += n
			}
			if err := c.Close(); err != nil {
				panic(err)
			}
		} else {
			writeV2File(s.main, sc.Block, sc.Name, issued, sc.Pad)
		}
		s.applyRef(issued)
		tempRec := s.placeStale()
		main0, _ := os.ReadFile(s.main)
		temp0, terr := os.ReadFile(s.main + ".compact")
		tw.Emit(ev{"ev": "setup", "id": sc.ID, "main_ex": true, "hist": issued, "temp": tempRec})
		oneRun := func(rec *recorder) {
			pre, perr := loadIndexOf(s.main)
			out := invoke(rec)
			s.emitRun(&runInfo{ep: sc.EP, rec: rec, res: out.res, preIdx: pre, preErr: perr}, func(e ev) {
				endObs(e)
				e["reported"] = out.reported
				if out.haveLoaded {
					// what this very Load put into the beacon is the server's view
					e["srv"] = out.loaded
					if !samePairs(out.loaded, s.refPairs()) {
						s.harm = append(s.harm, fmt.Sprintf("Load with self-heal gave %v, written %v", out.loaded, s.refPairs()))
					}
				}
			})
		}
		clean := newRecorder(s.main)
		oneRun(clean)
		// the same run again with an I/O error (or a short write) injected at one operation on the temp file
		if sc.Faults > 0 {
			var cand []int
			for i, o := range clean.ops {
				if o.Kind == "create" || o.Kind == "write" || o.Kind == "sync" || o.Kind == "rename" {
					cand = append(cand, i)
				}
			}
			must := map[int]bool{}
			for i := len(clean.ops) - 1; i >= 0 && len(must) < 4; i-- { // the last operations: final flush, header, fsync, rename
				if o := clean.ops[i]; o.Kind == "write" || o.Kind == "sync" || o.Kind == "rename" {
					must[i] = true
				}
			}
			s.rng.Shuffle(len(cand), func(a, b int) { cand[a], cand[b] = cand[b], cand[a] })
			var picks []int
			for i := range must {
				picks = append(picks, i)
			}
			for _, i := range cand {
				if len(picks) >= sc.Faults {
					break
				}
				if !must[i] {
					picks = append(picks, i)
				}
			}
			sort.Ints(picks)
			saveCuts := s.sc.Cuts
			s.sc.Cuts = 0
			for _, k := range picks {
				os.WriteFile(s.main, main0, 0o644)
				if terr == nil {
					os.WriteFile(s.main+".compact", temp0, 0o644)
				} else {
					os.Remove(s.main + ".compact")
				}
				tw.Emit(ev{"ev": "restart"})
				rec := newRecorder(s.main)
				rec.failAt, rec.failShort = k, s.rng.Intn(2) == 0
				s.faults++
				oneRun(rec)
			}
			s.sc.Cuts = saveCuts
		}

	case "inline", "close", "forced":
		tr := &tracker{keys: map[int]bool{}, override: -1}
		c := s.newChron(base)
		c.RegisterLiveCountFunction(tr.count)
		b := beacon.New()
		c.Load(b)
		tempRec := s.placeStale()
		tw.Emit(ev{"ev": "setup", "id": sc.ID, "main_ex": false, "hist": [][2]int{}, "temp": tempRec})
		if sc.EP == "close" {
			tr.override = 1 << 30 // the live count seen while writing keeps the inline trigger off
		}
		pending := [][2]int{}
		flushPending := func() {
			if len(pending) > 0 {
				tw.Emit(ev{"ev": "append", "ents": pending})
				pending = [][2]int{}
			}
		}
		doRun := func(ep string, call func() error) {
			rec := newRecorder(s.main)
			rec.install()
			var err error
			panicked := ""
			func() {
				defer func() {
					if r := recover(); r != nil {
						panicked = fmt.Sprint(r)
					}
				}()
				err = call()
			}()
			uninstall()
			if len(rec.ops) == 0 && panicked == "" {
				return // no compaction was attempted (below the thresholds): nothing observable happened
			}
			flushPending()
			res := classify(rec, err, rec.renamed())
			if panicked != "" {
				res = "panic"
				s.harm = append(s.harm, ep+" panicked: "+panicked)
			}
			s.emitRun(&runInfo{ep: ep, rec: rec, res: res}, endObs)
		}
		for i := 0; i < len(issued); {
			n := 1 + s.rng.Intn(25)
			if i+n > len(issued) {
				n = len(issued) - i
			}
			batch := issued[i : i+n]
			i += n
			tr.note(batch)
			s.applyRef(batch)
			pending = append(pending, batch...)
			doRun("inline", func() error { c.Write(treasures(batch, sc.Pad)); return nil })
		}
		if sc.EP == "forced" {
			doRun("forced", func() error { return c.ForceCompaction() })
		}
		tr.override = -1
		doRun("close", func() error { return c.Close() })
		flushPending()
		e := ev{"ev": "check"}
		endObs(e)
		tw.Emit(e)
	default:
		panic("unknown entry point " + sc.EP)
	}
	tw.Emit(ev{"ev": "done", "id": sc.ID})
}

func main() {
	if len(os.Args) < 5 || os.Args[1] != "run" {
		fmt.Fprintln(os.Stderr, "usage: compaction run <scenarios.json> <trace.ndjson> <results.ndjson>")
		os.Exit(3)
	}
	slog.SetDefault(slog.New(slog.NewTextHandler(io.Discard, nil)))
	if pf := os.Getenv("VERIF_CPUPROFILE"); pf != "" {
		f, _ := os.Create(pf)
		pprof.StartCPUProfile(f)
		defer pprof.StopCPUProfile()
	}
	var scs []Scenario
	raw, err := os.ReadFile(os.Args[2])
	if err != nil {
		panic(err)
	}
	if err := json.Unmarshal(raw, &scs); err != nil {
		panic(err)
	}
	workDir = os.Getenv("VERIF_WORK")
	if workDir == "" {
		panic("VERIF_WORK not set")
	}
	workDir = filepath.Join(workDir, "compaction-files")
	os.MkdirAll(workDir, 0o755)
	tw, err = trace.Create(os.Args[3])
	if err != nil {
		panic(err)
	}
	rf, err := os.Create(os.Args[4])
	if err != nil {
		panic(err)
	}
	var out bytes.Buffer
	for _, sc := range scs {
		s := &scenarioRun{sc: sc, rng: rand.New(rand.NewSource(sc.Seed))}
		func() {
			defer func() {
				if r := recover(); r != nil {
					uninstall()
					s.notes = append(s.notes, fmt.Sprintf("driver panic: %v", r))
					tw.Emit(ev{"ev": "unknown", "why": fmt.Sprintf("panic: %v", r)})
					tw.Emit(ev{"ev": "done", "id": sc.ID})
				}
			}()
			s.run()
		}()
		b, _ := json.Marshal(map[string]any{"id": sc.ID, "images": s.images, "follows": s.follows, "faults": s.faults, "harm": s.harm,
			"notes": s.notes, "issued": s.issued})
		out.Write(b)
		out.WriteByte('\n')
		os.RemoveAll(s.dir)
	}
	rf.Write(out.Bytes())
	rf.Close()
	if err := tw.Close(); err != nil {
		panic(err)
	}
	os.RemoveAll(workDir)
}
