// Driver for C04 (corrupt storage files are detected, never misread or crash the server): binds
// spec/Corrupt.tla to app/core/hydra/swamp/chronicler/v2 reader.go / block.go / types.go.
//
//	corrupt run <cases.json> <results.ndjson> <summary.json>
//
// cases.json holds the abstract cases exported by TLC (shape + <= 2 damages, with the outcome classes the
// spec allows). Every case is concretised `variants` times: a real file of that shape is written by the
// real writer (version-2 files hand-built like the legacy engine's), the damages are applied at seeded byte
// positions / bit flips / forged values inside the region the abstract damage names, and the damaged file
// is presented to NewFileReader, LoadIndex, ScanBlockHeaders, ReadSwampName, CalculateFragmentation and a
// chronicler Load, each under recover with the bytes allocated by the call measured (runtime.MemStats).
// Cases run in child processes (verifharness/isolate): a dying or hanging child is the outcome of its case.
// The driver reports the observed outcome class; the comparison with the spec's allowed set is done by the
// check.
package main

import (
	"bytes"
	"encoding/binary"
	"encoding/json"
	"fmt"
	"hash/crc32"
	"io"
	"log/slog"
	"math/rand"
	"os"
	"path/filepath"
	"runtime"
	"sort"
	"strconv"
	"strings"
	"time"

	"github.com/golang/snappy"
	"github.com/hydraide/hydraide/app/core/hydra/swamp/beacon"
	"github.com/hydraide/hydraide/app/core/hydra/swamp/chronicler"
	v2 "github.com/hydraide/hydraide/app/core/hydra/swamp/chronicler/v2"
	"github.com/hydraide/hydraide/app/core/hydra/swamp/treasure"
	"github.com/hydraide/hydraide/app/core/hydra/swamp/treasure/guard"

	"verifharness/isolate"
)

type Damage struct {
	W string `json:"w"`
	B int    `json:"b"`
	V string `json:"v"`
}
type Shape struct {
	N     int  `json:"n"`
	Ver   int  `json:"ver"`
	Named bool `json:"named"`
}
type Case struct {
	ID       int      `json:"id"`
	S        Shape    `json:"s"`
	DS       []Damage `json:"ds"`
	Variants int      `json:"variants"`
	Raw      int      `json:"raw"` // > 0: not a taxonomy case but a pure random byte string of this length class
}

type conc struct{ c, v int } // case index, variant

const swampName = "verif/c04/corrupt-swamp"

// ---------------------------------------------------------------------------------------------
// the intact files

func tbytes(key, content string) []byte {
	tr := treasure.New(nil)
	gid := tr.StartTreasureGuard(true, guard.BodyAuthID)
	defer tr.ReleaseTreasureGuard(gid)
	tr.BodySetKey(gid, key)
	tr.SetContentString(gid, content)
	b, err := tr.ConvertToByte(gid)
	if err != nil {
		panic(err)
	}
	return b
}

// block i of every file: the pattern of spec/Corrupt.tla's comment (last writer wins across blocks)
func blockEntries(i int, pad string) []v2.Entry {
	put := func(k string, v int) v2.Entry {
		return v2.Entry{Operation: v2.OpUpdate, Key: k, Data: tbytes(k, fmt.Sprintf("val-%d-%s", v, pad))}
	}
	switch i {
	case 1:
		return []v2.Entry{put("key-1", 1), put("key-2", 1)}
	case 2:
		return []v2.Entry{put("key-1", 2), {Operation: v2.OpDelete, Key: "key-2"}}
	default:
		return []v2.Entry{put("key-2", i), put("key-1", i), put("key-3", i)}
	}
}

type layout struct {
	bytes    []byte
	nameOff  int
	nameLen  int
	blockOff []int // header offset of block i (1-based: index i-1)
	blockEnd []int
	counts   []int
	written  map[string]map[string]bool // key -> set of contents ever put
	full     map[string]string          // last-writer-wins content
}

func contentOf(b []byte) string {
	tr := treasure.New(nil)
	gid := tr.StartTreasureGuard(true, guard.BodyAuthID)
	defer tr.ReleaseTreasureGuard(gid)
	if err := tr.LoadFromByte(gid, b, ""); err != nil {
		return "?undecodable"
	}
	s, err := tr.GetContentString()
	if err != nil {
		return "?nostring"
	}
	return s
}

func buildFile(dir string, s Shape, rng *rand.Rand) *layout {
	p := filepath.Join(dir, "intact.hyd")
	os.Remove(p)
	pad := strings.Repeat("p", []int{0, 20, 300}[rng.Intn(3)])
	lay := &layout{written: map[string]map[string]bool{}, full: map[string]string{}}
	var w *v2.FileWriter
	var err error
	if s.Ver == 2 {
		h := v2.NewFileHeader()
		h.Version = v2.Version2
		h.NameLength = 0
		hb := h.Serialize()
		binary.LittleEndian.PutUint16(hb[4:6], v2.Version2)
		if err := os.WriteFile(p, hb, 0o644); err != nil {
			panic(err)
		}
		w, err = v2.NewFileWriter(p, 1<<20)
	} else if s.Named {
		w, err = v2.NewFileWriterWithName(p, 1<<20, swampName)
	} else {
		w, err = v2.NewFileWriter(p, 1<<20)
	}
	if err != nil {
		panic(err)
	}
	sizes := []int64{}
	for i := 1; i <= s.N; i++ {
		ents := blockEntries(i, pad)
		if i == 1 && s.Ver == 2 && s.Named {
			ents = append([]v2.Entry{{Operation: v2.OpMetadata, Key: v2.MetadataEntryKey, Data: []byte(swampName)}}, ents...)
		}
		for _, e := range ents {
			if e.Operation == v2.OpDelete {
				delete(lay.full, e.Key)
			} else if e.Operation != v2.OpMetadata {
				c := contentOf(e.Data)
				if lay.written[e.Key] == nil {
					lay.written[e.Key] = map[string]bool{}
				}
				lay.written[e.Key][c] = true
				lay.full[e.Key] = c
			}
		}
		if err := w.WriteEntries(ents); err != nil {
			panic(err)
		}
		if err := w.Flush(); err != nil {
			panic(err)
		}
		fi, _ := os.Stat(p)
		sizes = append(sizes, fi.Size())
		lay.counts = append(lay.counts, len(ents))
	}
	if err := w.Close(); err != nil {
		panic(err)
	}
	b, err := os.ReadFile(p)
	if err != nil {
		panic(err)
	}
	lay.bytes = b
	lay.nameOff = v2.FileHeaderSize
	if s.Ver == 3 && s.Named {
		lay.nameLen = len(swampName)
	}
	off := v2.FileHeaderSize + lay.nameLen
	for i := 0; i < s.N; i++ {
		lay.blockOff = append(lay.blockOff, off)
		lay.blockEnd = append(lay.blockEnd, int(sizes[i]))
		off = int(sizes[i])
	}
	if off != len(b) {
		panic(fmt.Sprintf("layout: blocks end at %d, file has %d bytes", off, len(b)))
	}
	return lay
}

// ---------------------------------------------------------------------------------------------
// concretisation of one abstract damage

func flipOrSet(b []byte, lo, hi int, rng *rand.Rand) {
	// change at least one bit somewhere in b[lo:hi]
	pos := lo + rng.Intn(hi-lo)
	switch rng.Intn(3) {
	case 0:
		b[pos] ^= 1 << rng.Intn(8)
	case 1:
		old := b[pos]
		for b[pos] == old {
			b[pos] = byte(rng.Intn(256))
		}
	default:
		n := 1 + rng.Intn(min(8, hi-pos))
		same := true
		for i := 0; i < n; i++ {
			nb := byte(rng.Intn(256))
			if nb != b[pos+i] {
				same = false
			}
			b[pos+i] = nb
		}
		if same {
			b[pos] ^= 0x40
		}
	}
}

// ownEntries walks an uncompressed entry stream with the driver's OWN reading of the format (op byte, 16-bit key
// length, key, 32-bit data length, data) so that the concretiser never depends on the code under test being right.
// It returns the start offset, key length and data length of the first `count` records (count < 0: all), or false
// if the stream is malformed.
func ownEntries(stream []byte, count int) (recs [][3]int, ok bool) {
	off := 0
	for i := 0; (count < 0 && off < len(stream)) || i < count; i++ {
		if len(stream)-off < 7 {
			return nil, false
		}
		kl := int(binary.LittleEndian.Uint16(stream[off+1 : off+3]))
		if kl == 0 || len(stream)-off < 3+kl+4 {
			return nil, false
		}
		dl := int(binary.LittleEndian.Uint32(stream[off+3+kl : off+3+kl+4]))
		if dl < 0 || len(stream)-off < 3+kl+4+dl {
			return nil, false
		}
		recs = append(recs, [3]int{off, kl, dl})
		off += 3 + kl + 4 + dl
	}
	return recs, true
}

// ownBlockHeader reads the 16-byte block header with the driver's own reading of the layout
func ownBlockHeader(b []byte) *v2.BlockHeader {
	le := binary.LittleEndian
	return &v2.BlockHeader{CompressedSize: le.Uint32(b[0:4]), UncompressedSize: le.Uint32(b[4:8]), EntryCount: le.Uint16(b[8:10]),
		Checksum: le.Uint32(b[10:14]), Flags: le.Uint16(b[14:16])}
}

// decompressOwn is the snappy decoder behind a recover (the repository's wrapper is code under test as well)
func decompressOwn(b []byte) (out []byte, err error) {
	defer func() {
		if r := recover(); r != nil {
			out, err = nil, fmt.Errorf("panic: %v", r)
		}
	}()
	return snappy.Decode(nil, b)
}

// literalFlip changes one bit of the block's payload such that the compressed stream still decodes to the stated
// length and still parses into the stated number of well-formed entries - different ones. Only the checksum can
// tell such a block from an intact one. Returns false when no such bit is found (then any payload damage is used).
func literalFlip(img []byte, bo, be int, rng *rand.Rand) bool {
	bh := ownBlockHeader(img[bo : bo+v2.BlockHeaderSize])
	pay := img[bo+v2.BlockHeaderSize : be]
	orig, err := decompressOwn(pay)
	if err != nil {
		return false
	}
	n := len(pay)
	start := rng.Intn(n)
	for k := 0; k < n; k++ {
		pos := (start + k) % n
		bit := byte(1) << rng.Intn(8)
		pay[pos] ^= bit
		out, err := decompressOwn(pay)
		if err == nil && len(out) == int(bh.UncompressedSize) && !bytes.Equal(out, orig) {
			if _, ok := ownEntries(out, int(bh.EntryCount)); ok {
				return true
			}
		}
		pay[pos] ^= bit
	}
	return false
}

// returns the new bytes and a truncation length (-1: none) so that cuts are applied after field damages
func applyDamage(img []byte, lay *layout, s Shape, d Damage, rng *rand.Rand) ([]byte, int, string) {
	le := binary.LittleEndian
	bo := func() int { return lay.blockOff[d.B-1] }
	be := func() int { return lay.blockEnd[d.B-1] }
	switch d.W {
	case "magic":
		flipOrSet(img, 0, 4, rng)
	case "version":
		if d.V == "flip" {
			le.PutUint16(img[4:6], uint16(5-s.Ver))
		} else {
			vals := []uint16{0, 1, 4, 5, 0x0300, 0x0203, 0xFFFF, uint16(6 + rng.Intn(60000))}
			le.PutUint16(img[4:6], vals[rng.Intn(len(vals))])
		}
	case "ignored":
		// flags, timestamps, block size, entry/block counts, reserved bytes (version 2: also the unused name length)
		regions := [][2]int{{6, 44}, {46, 64}}
		if s.Ver == 2 {
			regions = append(regions, [2]int{44, 46})
		}
		r := regions[rng.Intn(len(regions))]
		flipOrSet(img, r[0], r[1], rng)
	case "namelen":
		if s.Ver == 2 {
			flipOrSet(img, 44, 46, rng) // not read at all in version 2
		} else {
			old := le.Uint16(img[44:46])
			nv := old
			for nv == old {
				switch rng.Intn(4) {
				case 0:
					nv = old + uint16(1+rng.Intn(40))
				case 1:
					nv = uint16(rng.Intn(int(old) + 1))
				case 2:
					nv = uint16(rng.Intn(65536))
				default:
					nv = old ^ (1 << rng.Intn(16))
				}
			}
			le.PutUint16(img[44:46], nv)
		}
	case "name":
		flipOrSet(img, lay.nameOff, lay.nameOff+lay.nameLen, rng)
	case "csize":
		old := le.Uint32(img[bo() : bo()+4])
		nv := old
		if d.V == "big" {
			// (allocating the forged size costs the reader seconds per GiB under memory pressure: mostly sizes up to
			//  512 MiB here, the full 4 GiB only now and then in the thorough tier)
			bigs := []uint32{1 << 28, uint32(1<<28) + uint32(rng.Intn(1<<27)), 0x1FFFFFFF, 1 << 29, old | 1<<28}
			if os.Getenv("VERIF_TIER") == "thorough" && rng.Intn(4) == 0 {
				bigs = []uint32{0xFFFFFFFF, 0x80000000 | old, 0x7FFFFFFF}
			}
			nv = bigs[rng.Intn(len(bigs))]
		} else {
			for nv == old {
				switch rng.Intn(4) {
				case 0:
					nv = old + uint32(1+rng.Intn(8))
				case 1:
					nv = uint32(rng.Intn(int(old) + 1))
				case 2:
					nv = old ^ (1 << rng.Intn(20))
				default:
					nv = 0
				}
			}
		}
		le.PutUint32(img[bo():bo()+4], nv)
	case "usize":
		flipOrSet(img, bo()+4, bo()+8, rng)
	case "count":
		cnt := lay.counts[d.B-1]
		if d.V == "less" {
			le.PutUint16(img[bo()+8:bo()+10], uint16(rng.Intn(cnt)))
		} else {
			more := []uint16{uint16(cnt + 1), uint16(cnt + 1 + rng.Intn(20)), 0xFFFF, uint16(cnt) | 0x100, uint16(cnt) | 0x8000}
			le.PutUint16(img[bo()+8:bo()+10], more[rng.Intn(len(more))])
		}
	case "crc":
		switch d.V {
		case "zero": // also the CRC-32 of the empty string
			le.PutUint32(img[bo()+10:bo()+14], 0)
		case "ones":
			le.PutUint32(img[bo()+10:bo()+14], 0xFFFFFFFF)
		default:
			flipOrSet(img, bo()+10, bo()+14, rng)
		}
	case "flags":
		flipOrSet(img, bo()+14, bo()+16, rng)
	case "payload":
		if d.V == "literal" && literalFlip(img, bo(), be(), rng) {
			break
		}
		flipOrSet(img, bo()+16, be(), rng)
	case "cutfh":
		return img, rng.Intn(v2.FileHeaderSize), ""
	case "cutname":
		return img, lay.nameOff + rng.Intn(lay.nameLen), ""
	case "cutstart":
		return img, bo(), ""
	case "cuthdr":
		return img, bo() + 1 + rng.Intn(v2.BlockHeaderSize-1), ""
	case "cuthdrend":
		return img, bo() + v2.BlockHeaderSize, ""
	case "cutpay":
		return img, bo() + v2.BlockHeaderSize + 1 + rng.Intn(be()-bo()-v2.BlockHeaderSize-1), ""
	case "appendshort":
		t := make([]byte, 1+rng.Intn(v2.BlockHeaderSize-1))
		rng.Read(t)
		return img, -1, string(t)
	case "appendlong":
		t := make([]byte, v2.BlockHeaderSize+rng.Intn(200))
		switch rng.Intn(4) {
		case 0: // zeros: an all-zero block header
		case 1:
			for i := range t {
				t[i] = 0xFF
			}
		default:
			rng.Read(t)
			if !(os.Getenv("VERIF_TIER") == "thorough" && rng.Intn(8) == 0) {
				t[3] &= 0x1F // the would-be CompressedSize stays below 512 MiB (see above)
			}
		}
		return img, -1, string(t)
	case "garbage":
		g := make([]byte, []int{0, 1, 63, 64, 65, 200, len(img)}[rng.Intn(7)])
		rng.Read(g)
		if len(g) > 0 && g[0] == 'H' {
			g[0] = 'h'
		}
		return g, -1, ""
	case "dup":
		return img, -1, string(img[bo():be()])
	case "swap":
		a0, a1, b1 := lay.blockOff[d.B-1], lay.blockEnd[d.B-1], lay.blockEnd[d.B]
		out := append([]byte{}, img[:a0]...)
		out = append(out, img[a1:b1]...)
		out = append(out, img[a0:a1]...)
		out = append(out, img[b1:]...)
		return out, -1, ""
	default:
		panic("unknown damage " + d.W)
	}
	return img, -1, ""
}

func concretise(lay *layout, c Case, rng *rand.Rand, variant int) []byte {
	if c.Raw > 0 {
		n := []int{0, 3, 64, 80, 100, 1000, 5000}[rng.Intn(7)]
		g := make([]byte, n)
		rng.Read(g)
		if n >= 68 && !(os.Getenv("VERIF_TIER") == "thorough" && rng.Intn(8) == 0) {
			g[67] &= 0x1F // bytes 64..67 are the first would-be CompressedSize behind a 64-byte header
		}
		switch c.Raw {
		case 2: // a valid header in front of random bytes
			if n >= v2.FileHeaderSize {
				h := v2.NewFileHeader()
				h.NameLength = uint16(rng.Intn(3) * rng.Intn(40))
				copy(g, h.Serialize())
			}
		case 3: // valid magic, random rest
			if n >= 4 {
				copy(g, "HYDR")
			}
		}
		return g
	}
	img := append([]byte{}, lay.bytes...)
	// work on a copy of the layout: a reforged block changes the offsets behind it
	l2 := &layout{bytes: lay.bytes, nameOff: lay.nameOff, nameLen: lay.nameLen, counts: lay.counts,
		blockOff: append([]int{}, lay.blockOff...), blockEnd: append([]int{}, lay.blockEnd...)}
	isCut := func(w string) bool { return strings.HasPrefix(w, "cut") }
	// field damages first, from the back of the file to the front, so that offsets in front stay valid
	ds := append([]Damage{}, c.DS...)
	sort.SliceStable(ds, func(i, j int) bool {
		if ds[i].B != ds[j].B {
			return ds[i].B > ds[j].B
		}
		return ds[i].W == "reforge" && ds[j].W != "reforge" // rebuild the block first, damage its new bytes afterwards
	})
	tail := ""
	for _, d := range ds {
		if isCut(d.W) {
			continue
		}
		if d.W == "reforge" {
			var delta int
			img, delta = reforge(img, l2, d, rng, variant)
			l2.blockEnd[d.B-1] += delta
			for j := d.B; j < len(l2.blockOff); j++ {
				l2.blockOff[j] += delta
				l2.blockEnd[j] += delta
			}
			continue
		}
		var tl string
		img, _, tl = applyDamage(img, l2, c.S, d, rng)
		tail += tl
	}
	// then the cut, placed in the layout as it is now
	for _, d := range ds {
		if !isCut(d.W) {
			continue
		}
		_, cut, _ := applyDamage(img, l2, c.S, d, rng)
		if cut >= 0 && cut <= len(img) {
			img = img[:cut]
		}
	}
	return append(img, tail...)
}

// reforge rebuilds block d.B consistently (sizes and checksum recomputed) around a malformed entry stream
func reforge(img []byte, lay *layout, d Damage, rng *rand.Rand, variant int) ([]byte, int) {
	bo, be := lay.blockOff[d.B-1], lay.blockEnd[d.B-1]
	bh := ownBlockHeader(img[bo : bo+v2.BlockHeaderSize])
	stream, err := decompressOwn(img[bo+v2.BlockHeaderSize : be])
	if err != nil {
		panic(err)
	}
	// where the records and their fields begin
	type rec struct{ start, keyLen, dataLen int }
	var recs []rec
	own, ok := ownEntries(stream, -1)
	if !ok {
		panic("reforge: the intact block's entry stream does not parse")
	}
	for _, r := range own {
		recs = append(recs, rec{r[0], r[1], r[2]})
	}
	if d.V == "biglen" {
		r := recs[rng.Intn(len(recs))]
		room := len(stream) - r.start
		if rng.Intn(2) == 0 || r.keyLen+7 > 65000 {
			binary.LittleEndian.PutUint32(stream[r.start+3+r.keyLen:], uint32(room+rng.Intn(1<<20)))
		} else {
			kl := room + rng.Intn(1000)
			if kl > 65535 {
				kl = 65535
			}
			if kl <= r.keyLen {
				kl = r.keyLen + 1 + room
			}
			binary.LittleEndian.PutUint16(stream[r.start+1:], uint16(min(kl, 65535)))
		}
	} else {
		// cut positions: every field boundary of every record (the last record first), then random ones
		var cuts []int
		for i := len(recs) - 1; i >= 0; i-- {
			r := recs[i]
			k := r.start + 3 + r.keyLen
			for _, p := range []int{k, k + 1, k + 2, k + 3, k + 4, r.start, r.start + 1, r.start + 2, r.start + 3, r.start + 3 + r.keyLen/2, k + 4 + r.dataLen/2, k + 4 + r.dataLen - 1} {
				if p >= 1 && p < len(stream) {
					cuts = append(cuts, p)
				}
			}
		}
		p := 1 + rng.Intn(len(stream)-1)
		if variant < len(cuts) {
			p = cuts[variant]
		}
		stream = stream[:p]
	}
	comp := snappy.Encode(nil, stream)
	nh := &v2.BlockHeader{CompressedSize: uint32(len(comp)), UncompressedSize: uint32(len(stream)), EntryCount: bh.EntryCount,
		Checksum: crc32.ChecksumIEEE(comp), Flags: bh.Flags}
	out := append([]byte{}, img[:bo]...)
	out = append(out, nh.Serialize()...)
	out = append(out, comp...)
	out = append(out, img[be:]...)
	return out, len(out) - len(img)
}

// ---------------------------------------------------------------------------------------------
// observation

type apiObs struct {
	API     string `json:"api"`
	Outcome string `json:"outcome"` // ok | err | panic
	Alloc   uint64 `json:"alloc"`
	Detail  string `json:"detail,omitempty"`
}

type obs struct {
	Class    string   `json:"class"` // err | full | subset | misread | panic
	MaxAlloc uint64   `json:"max_alloc"`
	MaxAPI   string   `json:"max_api"`
	FileLen  int      `json:"file_len"`
	Huge     bool     `json:"huge"`
	Slow     bool     `json:"slow"`
	APIs     []apiObs `json:"apis"`
	Detail   string   `json:"detail,omitempty"`
	Changed  bool     `json:"changed"`
}

func measured(name string, f func() (string, error)) (o apiObs) {
	if isolate.ExitAfterCase {
		return // (a huge allocation was already observed on this file)
	}
	o.API = name
	var m0, m1 runtime.MemStats
	runtime.ReadMemStats(&m0)
	func() {
		defer func() {
			if r := recover(); r != nil {
				o.Outcome = "panic"
				o.Detail = fmt.Sprint(r)
			}
		}()
		d, err := f()
		o.Detail = d
		if err != nil {
			o.Outcome = "err"
			o.Detail = err.Error()
		} else {
			o.Outcome = "ok"
		}
	}()
	runtime.ReadMemStats(&m1)
	o.Alloc = m1.TotalAlloc - m0.TotalAlloc
	if o.Alloc > 64<<20 {
		// Re-using a huge freed block for the next forged size makes the runtime zero it again (seconds per GiB), so
		// the rest of this case's calls are skipped (they would parse the same forged size) and this child ends after
		// the case; the next case runs in a fresh process whose first huge block comes zeroed from the OS.
		isolate.ExitAfterCase = true
	}
	if len(o.Detail) > 120 {
		o.Detail = o.Detail[:120]
	}
	return o
}

func classify(idx map[string][]byte, lay *layout) (string, string) {
	if lay == nil { // pure random bytes: nothing was written at all
		if len(idx) == 0 {
			return "full", ""
		}
		return "misread", fmt.Sprintf("%d records decoded out of random bytes", len(idx))
	}
	for k, b := range idx {
		c := contentOf(b)
		if !lay.written[k][c] {
			return "misread", fmt.Sprintf("record %q=%q was never written to the file", k, c)
		}
	}
	if len(idx) == len(lay.full) {
		same := true
		for k, b := range idx {
			if lay.full[k] != contentOf(b) {
				same = false
			}
		}
		if same {
			return "full", ""
		}
	}
	return "subset", ""
}

func observe(dir string, img []byte, lay *layout, intact []byte) obs {
	p := filepath.Join(dir, "damaged.hyd")
	if err := os.WriteFile(p, img, 0o644); err != nil {
		panic(err)
	}
	res := obs{FileLen: len(img), Changed: !bytes.Equal(img, intact)}
	t0 := time.Now()
	var loaded map[string][]byte
	loadErr := true
	add := func(o apiObs) {
		if o.API == "" {
			return
		}
		res.APIs = append(res.APIs, o)
		if o.Alloc > res.MaxAlloc {
			res.MaxAlloc, res.MaxAPI = o.Alloc, o.API
		}
	}
	add(measured("NewFileReader", func() (string, error) {
		fr, err := v2.NewFileReader(p)
		if err != nil {
			return "", err
		}
		return "", fr.Close()
	}))
	add(measured("LoadIndex", func() (string, error) {
		fr, err := v2.NewFileReader(p)
		if err != nil {
			return "", err
		}
		defer fr.Close()
		idx, _, err := fr.LoadIndex()
		if err != nil {
			return "", err
		}
		loaded, loadErr = idx, false
		return fmt.Sprintf("%d keys", len(idx)), nil
	}))
	add(measured("ScanBlockHeaders", func() (string, error) {
		fr, err := v2.NewFileReader(p)
		if err != nil {
			return "", err
		}
		defer fr.Close()
		r, err := fr.ScanBlockHeaders()
		if err != nil {
			return "", err
		}
		return fmt.Sprintf("%d blocks", r.BlockCount), nil
	}))
	add(measured("ReadSwampName", func() (string, error) {
		n, err := v2.ReadSwampName(p)
		return fmt.Sprintf("%d bytes", len(n)), err
	}))
	add(measured("CalculateFragmentation", func() (string, error) {
		fr, err := v2.NewFileReader(p)
		if err != nil {
			return "", err
		}
		defer fr.Close()
		_, live, total, err := fr.CalculateFragmentation()
		if err == nil && live > total {
			return "", fmt.Errorf("VERIF-INCONSISTENT live %d > total %d", live, total)
		}
		return fmt.Sprintf("live %d total %d", live, total), err
	}))
	// the server's way in: a chronicler loading the file into a beacon
	var beaconBad string
	add(measured("chronicler.Load", func() (string, error) {
		base := filepath.Join(dir, "srv", "swamp")
		os.MkdirAll(filepath.Dir(base), 0o755)
		os.Remove(base + ".hyd.compact")
		if err := os.WriteFile(base+".hyd", img, 0o644); err != nil {
			panic(err)
		}
		c := chronicler.NewV2WithName(base, 3, swampName)
		b := beacon.New()
		c.Load(b)
		for k, t := range b.GetAll() {
			s, err := t.GetContentString()
			if lay == nil || err != nil || !lay.written[k][s] {
				beaconBad = fmt.Sprintf("server loaded %q=%q which was never written", k, s)
			}
		}
		_ = c.Close()
		return fmt.Sprintf("%d treasures", b.Count()), nil
	}))
	switch {
	case anyPanic(res.APIs) != "":
		res.Class, res.Detail = "panic", anyPanic(res.APIs)
	case beaconBad != "":
		res.Class, res.Detail = "misread", beaconBad
	case loadErr:
		res.Class = "err"
	default:
		res.Class, res.Detail = classify(loaded, lay)
	}
	for _, a := range res.APIs {
		if strings.Contains(a.Detail, "VERIF-INCONSISTENT") {
			res.Class, res.Detail = "misread", a.Detail
		}
	}
	// memory in proportion to the file: 64 x the file plus 8 MiB of slack for fixed-size buffers
	res.Huge = res.MaxAlloc > 64*uint64(len(img))+8<<20
	res.Slow = time.Since(t0) > 20*time.Second
	return res
}

func anyPanic(as []apiObs) string {
	for _, a := range as {
		if a.Outcome == "panic" {
			return a.API + ": " + a.Detail
		}
	}
	return ""
}

// ---------------------------------------------------------------------------------------------

func load(path string) ([]Case, []conc) {
	raw, err := os.ReadFile(path)
	if err != nil {
		panic(err)
	}
	var cs []Case
	if err := json.Unmarshal(raw, &cs); err != nil {
		panic(err)
	}
	var list []conc
	for i, c := range cs {
		for v := 0; v < c.Variants; v++ {
			list = append(list, conc{i, v})
		}
	}
	return cs, list
}

func main() {
	slog.SetDefault(slog.New(slog.NewTextHandler(io.Discard, nil)))
	seed, _ := strconv.ParseInt(os.Getenv("VERIF_SEED"), 10, 64)
	if len(os.Args) >= 7 && os.Args[1] == "worker" {
		from, _ := strconv.Atoi(os.Args[2])
		stripe, _ := strconv.Atoi(os.Args[4])
		stripes, _ := strconv.Atoi(os.Args[5])
		cs, list := load(os.Args[6])
		dir := filepath.Join(os.Getenv("VERIF_WORK"), fmt.Sprintf("corrupt-files-%d", stripe))
		os.MkdirAll(dir, 0o755)
		isolate.Worker(from, stripe, stripes, len(list), os.Args[3], func(i int) (out any) {
			c := cs[list[i].c]
			// diagnostics for cases that take very long: a goroutine dump after 40 s
			doneCh := make(chan struct{})
			defer close(doneCh)
			go func() {
				select {
				case <-doneCh:
				case <-time.After(40 * time.Second):
					buf := make([]byte, 1<<20)
					n := runtime.Stack(buf, true)
					os.WriteFile(filepath.Join(os.Getenv("VERIF_WORK"), fmt.Sprintf("slow-case-%d-%d.txt", c.ID, list[i].v)), buf[:n], 0o644)
				}
			}()
			defer func() {
				// (the code under test runs under its own recover inside observe: a panic arriving here is the driver's)
				if r := recover(); r != nil {
					out = map[string]any{"case": c.ID, "variant": list[i].v, "infra": fmt.Sprint(r)}
				}
			}()
			rng := rand.New(rand.NewSource(seed*1000003 + int64(c.ID)*131 + int64(list[i].v)))
			var lay *layout
			var intact []byte
			if c.Raw == 0 {
				lay = buildFile(dir, c.S, rng)
				intact = lay.bytes
			}
			img := concretise(lay, c, rng, list[i].v)
			o := observe(dir, img, lay, intact)
			return map[string]any{"case": c.ID, "variant": list[i].v, "obs": o}
		})
		return
	}
	if len(os.Args) < 5 || os.Args[1] != "run" {
		fmt.Fprintln(os.Stderr, "usage: corrupt run <cases.json> <results.ndjson> <summary.json>")
		os.Exit(3)
	}
	cs, list := load(os.Args[2])
	res, deaths := isolate.Parent(os.Args[0], len(list), 4, os.Args[3]+".progress", []string{os.Args[2]}, 45*time.Second)
	f, err := os.Create(os.Args[3])
	if err != nil {
		panic(err)
	}
	classes := map[string]int{}
	for i, r := range res {
		c := cs[list[i].c]
		var line map[string]any
		if r.Died || r.Hung {
			cl := "died"
			if r.Hung {
				cl = "hung"
			}
			line = map[string]any{"case": c.ID, "variant": list[i].v, "obs": map[string]any{"class": cl, "huge": false, "changed": true}}
			classes[cl]++
		} else {
			if err := json.Unmarshal(r.Raw, &line); err != nil {
				panic(fmt.Sprintf("case %d: no result (%v)", i, err))
			}
			if inf, ok := line["infra"]; ok {
				fmt.Fprintf(os.Stderr, "driver failure on case %v variant %v: %v\n", line["case"], line["variant"], inf)
				os.Exit(6)
			}
			classes[line["obs"].(map[string]any)["class"].(string)]++
		}
		b, _ := json.Marshal(line)
		f.Write(append(b, '\n'))
	}
	f.Close()
	keys := []string{}
	for k := range classes {
		keys = append(keys, k)
	}
	sort.Strings(keys)
	sum, _ := json.Marshal(map[string]any{"concrete_cases": len(list), "abstract_cases": len(cs), "worker_deaths": deaths, "classes": classes})
	os.WriteFile(os.Args[4], sum, 0o644)
	for st := 0; st < 4; st++ {
		os.RemoveAll(filepath.Join(os.Getenv("VERIF_WORK"), fmt.Sprintf("corrupt-files-%d", st)))
	}
}
