// Driver for C08 (accelerated and full-scan query routes agree): binds spec/Filter.tla to the
// real gateway.
//
//	filter run <cases.ndjson> <out.ndjson>
//
// Every line of cases.ndjson is one case printed by TLC from spec/Gen_Filter.tla (abstract documents,
// mutations, queries and, per query and round, the sets of answers the specification allows). The
// driver concretises the case (msgpack bodies with the SDK's magic prefix, protobuf filters), seeds a
// fresh in-memory swamp through the real Gateway (Set / Delete over the in-process gRPC client, so
// every request is in wire form), and runs every query twice with GetByIndexStream:
//
//	bucket form: the filter as given (the planner may route it through the auto-built bucket);
//	scan form:   the same filter wrapped so that the planner must bypass (PlanFilter says Bypass).
//
// Both streams (keys in order + match labels) are compared with the allowed answers. The driver only
// reports; the verdict is taken by checks/c08.py.
package main

import (
	"bufio"
	"bytes"
	"context"
	"crypto/sha1"
	"encoding/json"
	"fmt"
	"io"
	"log/slog"
	"math/rand"
	"os"
	"runtime"
	"sort"
	"strings"
	"time"

	"github.com/hydraide/hydraide/app/name"
	"github.com/hydraide/hydraide/app/server/gateway"
	hydrapb "github.com/hydraide/hydraide/sdk/go/hydraidego/v3/hydraidepbgo"
	"github.com/vmihailenco/msgpack/v5"
	"google.golang.org/grpc/codes"
	"google.golang.org/grpc/status"
	"google.golang.org/protobuf/types/known/timestamppb"

	"verifharness/rig"
)

// ---------------------------------------------------------------------------------------------
// abstract case (JSON printed by TLC)

type Val struct {
	K string `json:"k"`
	N int64  `json:"n"`
	S string `json:"s"`
	E []Val  `json:"e"`
	F string `json:"f"`
}
type Doc struct {
	Key string `json:"key"`
	Kr  int    `json:"kr"`
	Bk  string `json:"bk"`
	A   Val    `json:"a"`
	B   Val    `json:"b"`
	C   int64  `json:"c"`
	U   int64  `json:"u"`
	E   int64  `json:"e"`
}
type Mut struct {
	Op    string `json:"op"`
	D     Doc    `json:"d"`
	IsNew bool   `json:"isnew"`
}
type Seg struct {
	N string `json:"n"`
	T string `json:"t"`
}
type Leg struct {
	P     []Seg  `json:"p"`
	Op    string `json:"op"`
	Cv    Val    `json:"cv"`
	In    []Val  `json:"in"`
	Label string `json:"label"`
}
type Group struct {
	Logic string  `json:"logic"`
	Legs  []Leg   `json:"legs"`
	Subs  []Group `json:"subs"`
}
type Query struct {
	F     Group    `json:"f"`
	Idx   string   `json:"idx"`
	Desc  bool     `json:"desc"`
	From  int32    `json:"from"`
	Limit int32    `json:"limit"`
	Max   int32    `json:"max"`
	Ft    int64    `json:"ft"`
	Tt    int64    `json:"tt"`
	Excl  []string `json:"excl"`
}
type Hit struct {
	Key    string   `json:"key"`
	Labels []string `json:"labels"`
}
type Expect struct {
	Strict [][]Hit  `json:"strict"`
	Agree  bool     `json:"agree"`
	Scan   [][]Hit  `json:"scan"`
	Sdev   []string `json:"sdev"`
	Bucket [][]Hit  `json:"bucket"`
	Bdev   []string `json:"bdev"`
	Mode   string   `json:"mode"`
	Ub     bool     `json:"ub"`
}
type QCase struct {
	Q  Query  `json:"q"`
	R1 Expect `json:"r1"`
	R2 Expect `json:"r2"`
}
type Case struct {
	ID      int      `json:"id"`
	Kind    string   `json:"kind"`
	Docs    []Doc    `json:"docs"`
	Pre     []Mut    `json:"pre"`
	Post    []Mut    `json:"post"`
	Keys1   []string `json:"keys1"`
	Keys2   []string `json:"keys2"`
	Queries []QCase  `json:"queries"`
}

// ---------------------------------------------------------------------------------------------
// concretisation

const timeBase = int64(4102444800) // 2100-01-01: far from now, nothing expires during a run

func rankTime(r int64) time.Time { return time.Unix(timeBase+r*1000, 0).UTC() }

func encodeVal(enc *msgpack.Encoder, v Val, rng *rand.Rand) error {
	switch v.K {
	case "int":
		switch rng.Intn(5) {
		case 0:
			return enc.EncodeInt8(int8(v.N))
		case 1:
			return enc.EncodeInt16(int16(v.N))
		case 2:
			return enc.EncodeInt32(int32(v.N))
		case 3:
			return enc.EncodeInt64(v.N)
		default:
			if v.N >= -32 && v.N <= 127 {
				return enc.EncodeInt(v.N) // fixint: decodes as int8
			}
			return enc.EncodeInt64(v.N)
		}
	case "uint":
		switch rng.Intn(4) {
		case 0:
			return enc.EncodeUint8(uint8(v.N))
		case 1:
			return enc.EncodeUint16(uint16(v.N))
		case 2:
			return enc.EncodeUint32(uint32(v.N))
		default:
			return enc.EncodeUint64(uint64(v.N))
		}
	case "float":
		f := float64(v.N) / 10 // tenths; the generator only uses x.0 and x.5: exact in float32 too
		if rng.Intn(2) == 0 {
			return enc.EncodeFloat32(float32(f))
		}
		return enc.EncodeFloat64(f)
	case "bool":
		return enc.EncodeBool(v.N != 0)
	case "string":
		return enc.EncodeString(v.S)
	case "time":
		return enc.EncodeTime(time.Unix(v.N, 0).UTC())
	case "nil":
		return enc.EncodeNil()
	case "array":
		if err := enc.EncodeArrayLen(len(v.E)); err != nil {
			return err
		}
		for _, e := range v.E {
			if e.K == "missing" {
				if err := enc.EncodeNil(); err != nil {
					return err
				}
				continue
			}
			if err := encodeVal(enc, e, rng); err != nil {
				return err
			}
		}
		return nil
	case "map":
		return encodeMap(enc, v.E, rng)
	}
	return fmt.Errorf("cannot encode value kind %q", v.K)
}

func encodeMap(enc *msgpack.Encoder, entries []Val, rng *rand.Rand) error {
	n := 0
	for _, e := range entries {
		if e.K != "missing" {
			n++
		}
	}
	if err := enc.EncodeMapLen(n); err != nil {
		return err
	}
	for _, e := range entries {
		if e.K == "missing" {
			continue
		}
		if err := enc.EncodeString(e.F); err != nil {
			return err
		}
		if err := encodeVal(enc, e, rng); err != nil {
			return err
		}
	}
	return nil
}

func bodyOf(d Doc, rng *rand.Rand) ([]byte, error) {
	var buf bytes.Buffer
	buf.Write([]byte{0xC7, 0x00}) // the SDK's msgpack magic prefix
	enc := msgpack.NewEncoder(&buf)
	a, b := d.A, d.B
	a.F, b.F = "a", "b"
	entries := []Val{a, b}
	if rng.Intn(2) == 0 {
		entries = []Val{b, a}
	}
	if err := encodeMap(enc, entries, rng); err != nil {
		return nil, err
	}
	return buf.Bytes(), nil
}

func kvOf(d Doc, withTimes bool, rng *rand.Rand) (*hydrapb.KeyValuePair, error) {
	kv := &hydrapb.KeyValuePair{Key: d.Key}
	if d.Bk == "map" || d.Bk == "raw" {
		b, err := bodyOf(d, rng)
		if err != nil {
			return nil, err
		}
		if d.Bk == "raw" {
			b = b[2:] // plain msgpack, without the SDK's magic prefix
		}
		kv.BytesVal = b
	} else {
		n := int64(7)
		kv.Int64Val = &n
	}
	if withTimes {
		if d.C > 0 {
			kv.CreatedAt = timestamppb.New(rankTime(d.C))
		}
		if d.U > 0 {
			kv.UpdatedAt = timestamppb.New(rankTime(d.U))
		}
		if d.E > 0 {
			kv.ExpiredAt = timestamppb.New(rankTime(d.E))
		}
	}
	return kv, nil
}

func pathString(p []Seg) string {
	parts := make([]string, len(p))
	for i, s := range p {
		switch s.T {
		case "w":
			parts[i] = s.N + "[*]"
		case "len":
			parts[i] = "#len"
		default:
			parts[i] = s.N
		}
	}
	return strings.Join(parts, ".")
}

var opMap = map[string]hydrapb.Relational_Operator{
	"EQ": hydrapb.Relational_EQUAL, "NE": hydrapb.Relational_NOT_EQUAL, "GT": hydrapb.Relational_GREATER_THAN,
	"GE": hydrapb.Relational_GREATER_THAN_OR_EQUAL, "LT": hydrapb.Relational_LESS_THAN, "LE": hydrapb.Relational_LESS_THAN_OR_EQUAL,
	"EMPTY": hydrapb.Relational_IS_EMPTY, "NEMPTY": hydrapb.Relational_IS_NOT_EMPTY,
	"SIN": hydrapb.Relational_STRING_IN, "I32IN": hydrapb.Relational_INT32_IN, "I64IN": hydrapb.Relational_INT64_IN,
}

func setCompare(f *hydrapb.TreasureFilter, cv Val, rng *rand.Rand) error {
	switch cv.K {
	case "int":
		switch rng.Intn(3) {
		case 0:
			f.CompareValue = &hydrapb.TreasureFilter_Int8Val{Int8Val: int32(cv.N)}
		case 1:
			f.CompareValue = &hydrapb.TreasureFilter_Int32Val{Int32Val: int32(cv.N)}
		default:
			f.CompareValue = &hydrapb.TreasureFilter_Int64Val{Int64Val: cv.N}
		}
	case "int16":
		f.CompareValue = &hydrapb.TreasureFilter_Int16Val{Int16Val: int32(cv.N)}
	case "uint":
		switch rng.Intn(4) {
		case 0:
			f.CompareValue = &hydrapb.TreasureFilter_Uint8Val{Uint8Val: uint32(cv.N)}
		case 1:
			f.CompareValue = &hydrapb.TreasureFilter_Uint16Val{Uint16Val: uint32(cv.N)}
		case 2:
			f.CompareValue = &hydrapb.TreasureFilter_Uint32Val{Uint32Val: uint32(cv.N)}
		default:
			f.CompareValue = &hydrapb.TreasureFilter_Uint64Val{Uint64Val: uint64(cv.N)}
		}
	case "float":
		f.CompareValue = &hydrapb.TreasureFilter_Float64Val{Float64Val: float64(cv.N) / 10}
	case "float32":
		f.CompareValue = &hydrapb.TreasureFilter_Float32Val{Float32Val: float32(cv.N) / 10}
	case "string":
		f.CompareValue = &hydrapb.TreasureFilter_StringVal{StringVal: cv.S}
	case "bool":
		b := hydrapb.Boolean_FALSE
		if cv.N != 0 {
			b = hydrapb.Boolean_TRUE
		}
		f.CompareValue = &hydrapb.TreasureFilter_BoolVal{BoolVal: b}
	default:
		return fmt.Errorf("cannot use value kind %q as a reference", cv.K)
	}
	return nil
}

func legOf(l Leg, rng *rand.Rand) (*hydrapb.TreasureFilter, error) {
	op, ok := opMap[l.Op]
	if !ok {
		return nil, fmt.Errorf("unknown operator %q", l.Op)
	}
	p := pathString(l.P)
	f := &hydrapb.TreasureFilter{Operator: op, BytesFieldPath: &p}
	if l.Label != "" {
		lb := l.Label
		f.Label = &lb
	}
	switch l.Op {
	case "SIN":
		for _, v := range l.In {
			f.StringInVals = append(f.StringInVals, v.S)
		}
	case "I32IN":
		for _, v := range l.In {
			f.Int32InVals = append(f.Int32InVals, int32(v.N))
		}
	case "I64IN":
		for _, v := range l.In {
			f.Int64InVals = append(f.Int64InVals, v.N)
		}
	default:
		if err := setCompare(f, l.Cv, rng); err != nil {
			return nil, err
		}
	}
	return f, nil
}

func groupOf(g Group, rng *rand.Rand) (*hydrapb.FilterGroup, error) {
	out := &hydrapb.FilterGroup{Logic: hydrapb.FilterLogic_AND}
	if g.Logic == "OR" {
		out.Logic = hydrapb.FilterLogic_OR
	}
	for _, l := range g.Legs {
		f, err := legOf(l, rng)
		if err != nil {
			return nil, err
		}
		out.Filters = append(out.Filters, f)
	}
	for _, s := range g.Subs {
		sg, err := groupOf(s, rng)
		if err != nil {
			return nil, err
		}
		out.SubGroups = append(out.SubGroups, sg)
	}
	return out, nil
}

// forceScan wraps g so that the planner cannot choose the bucket route while the evaluator computes
// exactly the same match and the same labels: an OR (or AND of AND) whose only member is g.
func forceScan(g *hydrapb.FilterGroup, rng *rand.Rand) *hydrapb.FilterGroup {
	if rng.Intn(2) == 0 {
		return &hydrapb.FilterGroup{Logic: hydrapb.FilterLogic_OR, SubGroups: []*hydrapb.FilterGroup{g}}
	}
	return &hydrapb.FilterGroup{Logic: hydrapb.FilterLogic_AND, SubGroups: []*hydrapb.FilterGroup{
		{Logic: hydrapb.FilterLogic_AND, SubGroups: []*hydrapb.FilterGroup{g}}}}
}

func modeName(m gateway.PlanMode) string {
	switch m {
	case gateway.PlanModeAnd:
		return "and"
	case gateway.PlanModeOrUnion:
		return "or"
	}
	return "bypass"
}

var idxMap = map[string]hydrapb.IndexType_Type{
	"key": hydrapb.IndexType_KEY, "ctime": hydrapb.IndexType_CREATION_TIME,
	"utime": hydrapb.IndexType_UPDATE_TIME, "etime": hydrapb.IndexType_EXPIRATION_TIME,
}

// ---------------------------------------------------------------------------------------------

type runner struct {
	r        *rig.Rig
	c        hydrapb.HydraideServiceClient
	rng      *rand.Rand
	out      *json.Encoder
	st       stats
	maxRep   int
	seen     map[[12]byte]struct{}
	infra    error
	cur      int
	curRaw   []byte
	flush    func()
	withCase map[string]int
}

type stats struct {
	Cases, Queries, Runs         int
	RoutedBucket, RoutedObserved int // bucket-form runs the gateway's own branch condition routes to the bucket / where a bucket was observed afterwards
	BucketBuilds                 int // runs after which the swamp's bucket count had grown
	ScanOK, BucketOK             int
	ScanDev, BucketDev           int
	Unexplained                  int
	PlanMismatch                 int
	SpecDisagree                 int
	RoutesDiffer                 int // observed scan answer != observed bucket answer (as sequences)
	ManyRuns                     int // additional runs through GetByIndexStreamFromMany (single-swamp request)
	NonEmpty                     int // runs with a non-empty observed answer
	Labelled                     int // runs whose observed answer carries at least one label
	TieCases                     int // expectations with more than one allowed answer
	Round2                       int
	Mutations                    int
	DevCount                     map[string]int
	ModeCount                    map[string]int
	KindCount                    map[string]int
	Reported                     int
	DistinctNontrivial           int // distinct (contents, query) pairs routed through the bucket with a non-empty strict answer
}

type report struct {
	Type     string          `json:"type"`
	Case     int             `json:"case"`
	Query    int             `json:"query"`
	Round    int             `json:"round"`
	Route    string          `json:"route"`
	Class    string          `json:"class"` // dev | unexplained | plan | spec
	Devs     []string        `json:"devs"`
	Observed []Hit           `json:"observed"`
	Other    []Hit           `json:"other_route"`
	Detail   string          `json:"detail"`
	Request  string          `json:"request"`
	CaseJSON json.RawMessage `json:"case_json,omitempty"`
}

func (x *runner) set(sw string, kvs []*hydrapb.KeyValuePair) error {
	resp, err := x.c.Set(context.Background(), &hydrapb.SetRequest{Swamps: []*hydrapb.SwampRequest{{
		IslandID: 1, SwampName: sw, CreateIfNotExist: true, Overwrite: true, KeyValues: kvs}}})
	if err != nil {
		return err
	}
	if len(resp.GetSwamps()) != 1 || len(resp.GetSwamps()[0].GetKeysAndStatuses()) != len(kvs) {
		return fmt.Errorf("Set returned %v", resp)
	}
	return nil
}

func (x *runner) applyMuts(sw string, ms []Mut) error {
	for _, m := range ms {
		x.st.Mutations++
		if m.Op == "del" {
			if _, err := x.c.Delete(context.Background(), &hydrapb.DeleteRequest{Swamps: []*hydrapb.DeleteRequest_SwampKeys{{
				IslandID: 1, SwampName: sw, Keys: []string{m.D.Key}}}}); err != nil {
				return err
			}
			continue
		}
		kv, err := kvOf(m.D, m.IsNew, x.rng) // an update sends the content only: the timestamps stay
		if err != nil {
			return err
		}
		if err := x.set(sw, []*hydrapb.KeyValuePair{kv}); err != nil {
			return err
		}
	}
	return nil
}

func (x *runner) keys(sw string) ([]string, error) {
	st, err := x.c.GetByIndexStream(context.Background(), &hydrapb.GetByIndexStreamRequest{IslandID: 1, SwampName: sw,
		IndexType: hydrapb.IndexType_KEY, OrderType: hydrapb.OrderType_ASC, KeysOnly: true})
	if err != nil {
		return nil, err
	}
	var ks []string
	for {
		m, err := st.Recv()
		if err == io.EOF {
			break
		}
		if status.Code(err) == codes.FailedPrecondition {
			return nil, nil // a swamp that lost its last record no longer exists
		}
		if err != nil {
			return nil, err
		}
		ks = append(ks, m.GetTreasure().GetKey())
	}
	sort.Strings(ks)
	return ks, nil
}

func (x *runner) bucketCount(sw string) int {
	s, err := x.r.Zeus.GetHydra().SummonSwamp(context.Background(), 1, name.Load(sw))
	if err != nil {
		return -1
	}
	return s.BucketCount()
}

type answer struct {
	hits    []Hit
	content map[string]string
	err     string
}

// query runs one GetByIndexStream (many == false) or one single-swamp GetByIndexStreamFromMany.
// There is no deadline: a hang is caught by the runner's timeout and is inconclusive, never a verdict.
func (x *runner) query(sw string, q Query, f *hydrapb.FilterGroup, empty bool, many bool) answer {
	order := hydrapb.OrderType_ASC
	if q.Desc {
		order = hydrapb.OrderType_DESC
	}
	var ft, tt *timestamppb.Timestamp
	if q.Ft > 0 {
		ft = timestamppb.New(rankTime(q.Ft))
	}
	if q.Tt > 0 {
		tt = timestamppb.New(rankTime(q.Tt))
	}
	a := answer{hits: []Hit{}, content: map[string]string{}}
	wd := time.AfterFunc(hangAfter, func() { x.hang(q, many) })
	defer wd.Stop()
	var recv func() (*hydrapb.Treasure, *hydrapb.SearchResultMeta, error)
	if many {
		st, err := x.c.GetByIndexStreamFromMany(context.Background(), &hydrapb.GetByIndexStreamFromManyRequest{Queries: []*hydrapb.SwampQuery{{
			IslandID: 1, SwampName: sw, IndexType: idxMap[q.Idx], OrderType: order, From: q.From, Limit: q.Limit, FromTime: ft, ToTime: tt,
			Filters: f, MaxResults: q.Max, ExcludeKeys: q.Excl}}})
		if err != nil {
			a.err = err.Error()
			return a
		}
		recv = func() (*hydrapb.Treasure, *hydrapb.SearchResultMeta, error) {
			m, err := st.Recv()
			return m.GetTreasure(), m.GetMeta(), err
		}
	} else {
		st, err := x.c.GetByIndexStream(context.Background(), &hydrapb.GetByIndexStreamRequest{IslandID: 1, SwampName: sw, IndexType: idxMap[q.Idx],
			OrderType: order, From: q.From, Limit: q.Limit, FromTime: ft, ToTime: tt, MaxResults: q.Max, Filters: f, ExcludeKeys: q.Excl})
		if err != nil {
			a.err = err.Error()
			return a
		}
		recv = func() (*hydrapb.Treasure, *hydrapb.SearchResultMeta, error) {
			m, err := st.Recv()
			return m.GetTreasure(), m.GetMeta(), err
		}
	}
	for {
		t, meta, err := recv()
		if err == io.EOF {
			break
		}
		if empty && status.Code(err) == codes.FailedPrecondition {
			break // the model's contents are empty: the swamp does not exist any more, nothing to stream
		}
		if c := status.Code(err); c == codes.Unavailable || c == codes.DeadlineExceeded || c == codes.Canceled || c == codes.ResourceExhausted {
			x.infra = fmt.Errorf("transport problem during a query: %v", err)
			a.err = err.Error()
			break
		}
		if err != nil {
			a.err = err.Error()
			break
		}
		h := Hit{Key: t.GetKey(), Labels: []string{}}
		if meta != nil {
			h.Labels = append(h.Labels, meta.GetMatchedLabels()...)
		}
		a.hits = append(a.hits, h)
		a.content[h.Key] = string(t.GetBytesVal())
	}
	return a
}

// A streamed query does microseconds of work. If one has not finished after hangAfter the driver looks at
// the goroutine dump: a gateway stream handler parked in a lock / channel / condition wait for that long
// is a hang of the code under test and is reported as an observation (the case is attached); anything else
// (handler still running: starved machine) ends the driver with exit code 5 = inconclusive.
var hangAfter = func() time.Duration {
	var sec int
	if fmt.Sscan(os.Getenv("C08_HANG_AFTER_SEC"), &sec); sec > 0 { // self-test of the watchdog only
		return time.Duration(sec) * time.Second
	}
	return 20 * time.Minute
}()

func (x *runner) hang(q Query, many bool) {
	buf := make([]byte, 8<<20)
	buf = buf[:runtime.Stack(buf, true)]
	blocked := ""
	for _, g := range strings.Split(string(buf), "\n\n") {
		if !strings.Contains(g, "gateway.Gateway.GetByIndexStream") {
			continue
		}
		head := g
		if i := strings.Index(g, "\n"); i > 0 {
			head = g[:i]
		}
		for _, st := range []string{"semacquire", "sync.Mutex.Lock", "sync.RWMutex", "sync.Cond.Wait", "chan receive", "chan send", "select", "sync.WaitGroup.Wait"} {
			if strings.Contains(head, "["+st) {
				blocked = g
			}
		}
	}
	if blocked == "" {
		fmt.Fprintln(os.Stderr, "error: a query did not finish within", hangAfter, "but no gateway stream handler is parked; goroutines:\n"+string(buf[:min(len(buf), 6000)]))
		os.Exit(5)
	}
	x.out.Encode(report{Type: "mismatch", Case: x.cur, Round: 0, Route: "bucket", Class: "unexplained",
		Detail: "GetByIndexStream hangs: the stream handler is parked after " + hangAfter.String() + ": " + blocked[:min(len(blocked), 1500)], CaseJSON: x.curRaw})
	x.out.Encode(map[string]any{"type": "aborted", "case": x.cur})
	x.flush()
	os.Exit(0)
}

func sameHits(a, b []Hit) bool {
	if len(a) != len(b) {
		return false
	}
	for i := range a {
		if a[i].Key != b[i].Key || len(a[i].Labels) != len(b[i].Labels) {
			return false
		}
		for j := range a[i].Labels {
			if a[i].Labels[j] != b[i].Labels[j] {
				return false
			}
		}
	}
	return true
}

func inSet(h []Hit, set [][]Hit) bool {
	for _, s := range set {
		if sameHits(h, s) {
			return true
		}
	}
	return false
}

func (x *runner) emit(rep report, raw []byte) {
	x.st.Reported++
	k := rep.Class + "/" + strings.Join(rep.Devs, "+") + "/" + rep.Route
	x.withCase[k]++
	// every unexplained report carries its case (up to a bound); explained ones only the first few per class
	if (rep.Class != "dev" && x.withCase[k] <= 200) || x.withCase[k] <= x.maxRep {
		rep.CaseJSON = raw
	}
	x.out.Encode(rep)
}

func (x *runner) runCase(idx int, raw []byte) error {
	var c Case
	if err := json.Unmarshal(raw, &c); err != nil {
		return fmt.Errorf("case %d: %v", idx, err)
	}
	x.st.Cases++
	x.st.KindCount[c.Kind]++
	sw := rig.SwampName("c08", fmt.Sprintf("s%d", idx%89), fmt.Sprintf("c%d", idx))
	defer x.c.Destroy(context.Background(), &hydrapb.DestroyRequest{IslandID: 1, SwampName: sw})
	var kvs []*hydrapb.KeyValuePair
	for _, d := range c.Docs {
		kv, err := kvOf(d, true, x.rng)
		if err != nil {
			return err
		}
		kvs = append(kvs, kv)
	}
	if err := x.set(sw, kvs); err != nil {
		return fmt.Errorf("case %d: seeding: %v", idx, err)
	}
	if err := x.applyMuts(sw, c.Pre); err != nil {
		return fmt.Errorf("case %d: pre-mutations: %v", idx, err)
	}
	// concrete filters are fixed per query so that both rounds send the same request
	type cq struct {
		g, forced *hydrapb.FilterGroup
		mode      string
	}
	cqs := make([]cq, len(c.Queries))
	for i, qc := range c.Queries {
		g, err := groupOf(qc.Q.F, x.rng)
		if err != nil {
			return fmt.Errorf("case %d query %d: %v", idx, i, err)
		}
		g = rig.Wire(g)
		forced := rig.Wire(forceScan(g, x.rng))
		if m := gateway.PlanFilter(forced).Mode; m != gateway.PlanModeBypass {
			return fmt.Errorf("case %d query %d: the scan-forcing wrapper is planned as %s", idx, i, modeName(m))
		}
		cqs[i] = cq{g: g, forced: forced, mode: modeName(gateway.PlanFilter(g).Mode)}
	}
	for round := 1; round <= 2; round++ {
		want := c.Keys1
		if round == 2 {
			if len(c.Post) == 0 {
				break
			}
			x.st.Round2++
			if err := x.applyMuts(sw, c.Post); err != nil {
				return fmt.Errorf("case %d: post-mutations: %v", idx, err)
			}
			want = c.Keys2
		}
		// the abstract contents and the swamp must hold the same keys (driver self-check, not a verdict)
		got, err := x.keys(sw)
		if err != nil {
			return fmt.Errorf("case %d: listing keys: %v", idx, err)
		}
		ws := append([]string{}, want...)
		sort.Strings(ws)
		if strings.Join(ws, ",") != strings.Join(got, ",") {
			return fmt.Errorf("case %d round %d: swamp holds keys %v, the model %v", idx, round, got, ws)
		}
		for i, qc := range c.Queries {
			exp := qc.R1
			if round == 2 {
				exp = qc.R2
			}
			x.st.Queries++
			if len(exp.Strict) > 1 {
				x.st.TieCases++
			}
			base := report{Type: "mismatch", Case: idx, Query: i, Round: round}
			if !exp.Agree {
				x.st.SpecDisagree++
				r := base
				r.Class, r.Detail = "spec", "the strict specification's two routes disagree on this case (specification error)"
				x.emit(r, raw)
			}
			if cqs[i].mode != "bypass" && len(exp.Strict) > 0 && len(exp.Strict[0]) > 0 {
				h := sha1.New()
				enc := json.NewEncoder(h)
				enc.Encode(c.Docs)
				enc.Encode(c.Pre)
				if round == 2 {
					enc.Encode(c.Post)
				}
				enc.Encode(qc.Q)
				var k [12]byte
				copy(k[:], h.Sum(nil))
				if _, dup := x.seen[k]; !dup {
					x.seen[k] = struct{}{}
					x.st.DistinctNontrivial++
				}
			}
			x.st.ModeCount[cqs[i].mode]++
			if cqs[i].mode != exp.Mode {
				x.st.PlanMismatch++
				r := base
				r.Class, r.Route = "plan", "bucket"
				r.Detail = fmt.Sprintf("PlanFilter chose %s, the specification's planner %s", cqs[i].mode, exp.Mode)
				x.emit(r, raw)
			}
			before := x.bucketCount(sw)
			ab := x.query(sw, qc.Q, cqs[i].g, len(want) == 0, false)
			after := x.bucketCount(sw)
			as := x.query(sw, qc.Q, cqs[i].forced, len(want) == 0, false)
			x.st.Runs += 2
			if x.infra != nil {
				return x.infra
			}
			if cqs[i].mode != "bypass" { // all four index types used here satisfy bucketExecPreconditions
				x.st.RoutedBucket++
				if after > 0 {
					x.st.RoutedObserved++
				}
			}
			if after > before {
				x.st.BucketBuilds++
			}
			if !sameHits(ab.hits, as.hits) {
				x.st.RoutesDiffer++
			}
			type routeRun struct {
				name  string
				a, o  answer
				built [][]Hit
				devs  []string
			}
			rts := []routeRun{{"bucket", ab, as, exp.Bucket, exp.Bdev}, {"scan", as, ab, exp.Scan, exp.Sdev}}
			if x.rng.Intn(3) == 0 {
				// the multi-swamp streaming RPC has its own copy of the bucket branch
				mb := x.query(sw, qc.Q, cqs[i].g, len(want) == 0, true)
				ms := x.query(sw, qc.Q, cqs[i].forced, len(want) == 0, true)
				if x.infra != nil {
					return x.infra
				}
				x.st.Runs += 2
				x.st.ManyRuns += 2
				rts = append(rts, routeRun{"bucket", mb, ms, exp.Bucket, exp.Bdev}, routeRun{"scan", ms, mb, exp.Scan, exp.Sdev})
			}
			for ri, rt := range rts {
				if ri >= 2 {
					rt.name += " (GetByIndexStreamFromMany)"
				}
				scanRoute := ri%2 == 1
				if len(rt.a.hits) > 0 {
					x.st.NonEmpty++
				}
				for _, h := range rt.a.hits {
					if len(h.Labels) > 0 {
						x.st.Labelled++
						break
					}
				}
				r := base
				r.Route, r.Observed, r.Other = rt.name, rt.a.hits, rt.o.hits
				switch {
				case rt.a.err != "":
					x.st.Unexplained++
					r.Class, r.Detail = "unexplained", "the stream failed: "+rt.a.err
					x.emit(r, raw)
				case inSet(rt.a.hits, exp.Strict):
					if scanRoute {
						x.st.ScanOK++
					} else {
						x.st.BucketOK++
					}
				case len(rt.built) > 0 && inSet(rt.a.hits, rt.built):
					if scanRoute {
						x.st.ScanDev++
					} else {
						x.st.BucketDev++
					}
					x.st.DevCount[strings.Join(rt.devs, "+")+"/"+map[bool]string{true: "scan", false: "bucket"}[scanRoute]]++
					r.Class, r.Devs = "dev", rt.devs
					x.emit(r, raw)
				default:
					x.st.Unexplained++
					r.Class = "unexplained"
					r.Detail = "the answer is neither allowed by the strict specification nor by the as-built one"
					x.emit(r, raw)
				}
			}
			// the same record must carry the same content on both routes
			for k, v := range ab.content {
				if w, ok := as.content[k]; ok && w != v {
					x.st.Unexplained++
					r := base
					r.Class, r.Route, r.Detail = "unexplained", "bucket", "record "+k+" is returned with different content on the two routes"
					x.emit(r, raw)
				}
			}
		}
	}
	return nil
}

func run(in, out string) error {
	seed := int64(1)
	fmt.Sscan(os.Getenv("VERIF_SEED"), &seed)
	slog.SetDefault(slog.New(slog.NewTextHandler(io.Discard, nil)))
	r := rig.New(rig.Options{CloseAfterIdle: 3600})
	defer os.RemoveAll(r.Root)
	defer r.Stop()
	r.Register("c08", "*", "*", true, 3600, 0)
	f, err := os.Open(in)
	if err != nil {
		return err
	}
	defer f.Close()
	of, err := os.Create(out)
	if err != nil {
		return err
	}
	defer of.Close()
	w := bufio.NewWriter(of)
	defer w.Flush()
	x := &runner{r: r, c: r.GRPC(), rng: rand.New(rand.NewSource(seed)), out: json.NewEncoder(w), maxRep: 3, seen: map[[12]byte]struct{}{}, withCase: map[string]int{},
		st: stats{DevCount: map[string]int{}, ModeCount: map[string]int{}, KindCount: map[string]int{}}}
	x.flush = func() { w.Flush() }
	rd := bufio.NewReaderSize(f, 1<<20)
	idx := 0
	for {
		line, err := rd.ReadBytes('\n')
		if len(bytes.TrimSpace(line)) > 0 {
			// progress marker, flushed: if the process dies inside the code under test the runner knows the case
			x.out.Encode(map[string]any{"type": "begin", "case": idx})
			w.Flush()
			x.cur, x.curRaw = idx, bytes.TrimSpace(line)
			if e := x.runCase(idx, bytes.TrimSpace(line)); e != nil {
				return e
			}
			idx++
		}
		if err == io.EOF {
			break
		}
		if err != nil {
			return err
		}
	}
	x.out.Encode(map[string]any{"type": "summary", "stats": x.st})
	return nil
}

func main() {
	if len(os.Args) != 4 || os.Args[1] != "run" {
		fmt.Fprintln(os.Stderr, "usage: filter run <cases.ndjson> <out.ndjson>")
		os.Exit(2)
	}
	if err := run(os.Args[2], os.Args[3]); err != nil {
		fmt.Fprintln(os.Stderr, "error:", err)
		os.Exit(3)
	}
}
