// Driver for the treasure guard (C15): binds spec/Guard.tla to
// app/core/hydra/swamp/treasure/guard.
//
//	guard replay <tests.json> <results.ndjson>   step TLC paths through the real guard (binding B)
//	guard stress <trace.ndjson> <runs> <procs> <ops>   record traces of concurrent use (binding A)
package main

import (
	"encoding/json"
	"fmt"
	"math/rand"
	"os"
	"strconv"
	"sync"
	"sync/atomic"
	"time"

	"github.com/hydraide/hydraide/app/core/hydra/swamp/treasure/guard"
	"github.com/hydraide/hydraide/app/verifhook"

	"verifharness/sched"
	"verifharness/trace"
)

type act struct {
	A   string `json:"a"`
	P   string `json:"p"`
	ID  int64  `json:"id"`
	Res int64  `json:"res"`
}
type state struct {
	Queue   []int64           `json:"queue"`
	Owners  []string          `json:"owners"`
	Counter int64             `json:"counter"`
	PC      map[string]string `json:"pc"`
	Cur     map[string]int64  `json:"cur"`
}
type step struct {
	Act act   `json:"act"`
	To  state `json:"to"`
}

type cmd struct {
	op string // start, try, rel
	id int64
}

type proc struct {
	name     string
	goid     int64
	cmds     chan cmd
	done     atomic.Bool // current command finished
	ret      int64
	granted  bool // start/try returned a non-zero id that has not been released by its owner yet
	curID    int64
	enqSeen  atomic.Bool
	enqID    atomic.Int64
	relPop   atomic.Int64 // -1 unknown, 0 not popped, 1 popped
	pending  bool         // a StartWait is outstanding (spec: waiting)
	panicked atomic.Value // string: the call panicked
}

const stepTimeout = 10 * time.Second

var (
	hookMu    sync.Mutex
	byGoid    = map[int64]*proc{}
	lastQueue []int64
	events    []map[string]any
)

func toInt64s(v any) []int64 {
	switch x := v.(type) {
	case []int64:
		return append([]int64{}, x...)
	}
	return []int64{}
}

func installReplayHook() {
	verifhook.SetTrace(func(ev string, kv ...any) {
		m := trace.KV(kv)
		gid := sched.GoID()
		hookMu.Lock()
		defer hookMu.Unlock()
		p := byGoid[gid]
		q := toInt64s(m["queue"])
		lastQueue = q
		id, _ := m["id"].(int64)
		rec := map[string]any{"ev": ev, "id": id, "queue": q}
		if p != nil {
			rec["p"] = p.name
		}
		events = append(events, rec)
		if p == nil {
			return
		}
		switch ev {
		case "guard.enq":
			p.enqID.Store(id)
			p.enqSeen.Store(true)
		case "guard.rel":
			if b, _ := m["popped"].(bool); b {
				p.relPop.Store(1)
			} else {
				p.relPop.Store(0)
			}
		}
	})
}

func (p *proc) loop(g guard.Guard, wg *sync.WaitGroup, ready chan struct{}) {
	defer wg.Done()
	p.goid = sched.GoID()
	hookMu.Lock()
	byGoid[p.goid] = p
	hookMu.Unlock()
	close(ready)
	for c := range p.cmds {
		p.exec(g, c)
		p.done.Store(true)
	}
}

func (p *proc) exec(g guard.Guard, c cmd) {
	defer func() {
		if r := recover(); r != nil {
			p.panicked.Store(fmt.Sprint(r))
			p.ret = -1
		}
	}()
	switch c.op {
	case "start":
		p.ret = int64(g.StartTreasureGuard(true))
	case "try":
		p.ret = int64(g.StartTreasureGuard(false))
	case "rel":
		g.ReleaseTreasureGuard(guard.ID(c.id))
	}
}

func waitFlag(f *atomic.Bool, d time.Duration) bool {
	deadline := time.Now().Add(d)
	for !f.Load() {
		if time.Now().After(deadline) {
			return false
		}
		time.Sleep(10 * time.Microsecond)
	}
	return true
}

func eqI(a, b []int64) bool {
	if len(a) != len(b) {
		return false
	}
	for i := range a {
		if a[i] != b[i] {
			return false
		}
	}
	return true
}

type result struct {
	Test     int    `json:"test"`
	OK       bool   `json:"ok"`
	Step     int    `json:"step,omitempty"`
	Why      string `json:"why,omitempty"`
	Expected any    `json:"expected,omitempty"`
	Observed any    `json:"observed,omitempty"`
	Events   any    `json:"events,omitempty"`
	Infra    bool   `json:"infra,omitempty"` // harness problem (timeout of the scheduler itself), not a verdict
}

func runTest(ti int, steps []step) result {
	g := guard.New()
	hookMu.Lock()
	byGoid = map[int64]*proc{}
	lastQueue = nil
	events = nil
	hookMu.Unlock()
	procs := map[string]*proc{}
	var wg sync.WaitGroup
	names := map[string]bool{}
	for _, s := range steps {
		names[s.Act.P] = true
		for n := range s.To.PC {
			names[n] = true
		}
	}
	for n := range names {
		if n == "" {
			continue
		}
		p := &proc{name: n, cmds: make(chan cmd, 1)}
		procs[n] = p
		ready := make(chan struct{})
		wg.Add(1)
		go p.loop(g, &wg, ready)
		<-ready
	}
	res := result{Test: ti, OK: true}
	fail := func(k int, why string, exp, obs any) {
		if res.OK {
			hookMu.Lock()
			evs := append([]map[string]any{}, events...)
			hookMu.Unlock()
			res = result{Test: ti, OK: false, Step: k, Why: why, Expected: exp, Observed: obs, Events: evs}
		}
	}
	for k, s := range steps {
		p := procs[s.Act.P]
		switch s.Act.A {
		case "StartWait":
			p.done.Store(false)
			p.enqSeen.Store(false)
			p.cmds <- cmd{op: "start"}
			if !waitFlag(&p.enqSeen, stepTimeout) {
				fail(k, "StartTreasureGuard(true) never enqueued", s.Act, nil)
				res.Infra = true
				break
			}
			if p.enqID.Load() != s.Act.ID {
				fail(k, "id handed out differs", s.Act.ID, p.enqID.Load())
			}
			p.pending = true
			p.curID = p.enqID.Load()
			if s.Act.Res != 0 { // spec: alone, returns at once
				if !waitFlag(&p.done, stepTimeout) {
					fail(k, "spec grants immediately, real call did not return", s.Act, sched.State(p.goid))
				} else {
					p.pending, p.granted = false, true
				}
			}
		case "Wake":
			if !waitFlag(&p.done, stepTimeout) {
				fail(k, "spec wakes the waiter, real call is still blocked", s.Act, sched.State(p.goid))
			} else {
				if p.ret != s.Act.ID {
					fail(k, "granted id differs", s.Act.ID, p.ret)
				}
				p.pending, p.granted = false, true
			}
		case "TryStart":
			p.done.Store(false)
			p.cmds <- cmd{op: "try"}
			if !waitFlag(&p.done, stepTimeout) {
				fail(k, "StartTreasureGuard(false) did not return", s.Act, sched.State(p.goid))
				res.Infra = true
				break
			}
			if p.ret != s.Act.Res {
				fail(k, "TryStart result differs", s.Act.Res, p.ret)
			}
			if p.ret != 0 {
				p.granted, p.curID = true, p.ret
			}
		case "Release":
			p.done.Store(false)
			p.relPop.Store(-1)
			p.cmds <- cmd{op: "rel", id: s.Act.ID}
			if !waitFlag(&p.done, stepTimeout) {
				fail(k, "ReleaseTreasureGuard did not return", s.Act, sched.State(p.goid))
				res.Infra = true
				break
			}
			if p.relPop.Load() != s.Act.Res {
				fail(k, "release effect differs (1 = removed the head of the queue)", s.Act.Res, p.relPop.Load())
			}
			if p.granted && s.Act.ID == p.curID {
				p.granted, p.curID = false, 0
			}
		default:
			fail(k, "unknown action", s.Act, nil)
			res.Infra = true
		}
		for n, pr := range procs {
			if v := pr.panicked.Load(); v != nil {
				fail(k, "guard call of "+n+" panicked", "no panic", v)
			}
		}
		if !res.OK {
			break
		}
		// compare the projected state: queue, and for every process holding / waiting / idle
		hookMu.Lock()
		q := append([]int64{}, lastQueue...)
		hookMu.Unlock()
		if !eqI(q, s.To.Queue) {
			fail(k, "queue differs after step", s.To.Queue, q)
			break
		}
		for n, pr := range procs {
			want := s.To.PC[n]
			switch want {
			case "waiting":
				if !pr.pending {
					fail(k, "spec says "+n+" is waiting; real process is not in StartTreasureGuard", want, "not pending")
				} else if pr.done.Load() {
					// the real call returned on its own: allowed only if the spec's Wake(p) is enabled now
					if !(len(s.To.Queue) > 0 && s.To.Queue[0] == s.To.Cur[n]) {
						fail(k, n+" was granted the guard although it is not at the head of the queue (spec: still waiting)", want, "returned id "+strconv.FormatInt(pr.ret, 10))
					}
				} else if !(len(s.To.Queue) > 0 && s.To.Queue[0] == s.To.Cur[n]) {
					// must stay blocked: observe it parked (not merely "not yet returned")
					if w := sched.WaitDoneOrParked(pr.goid, &pr.done, []string{"sync.Cond.Wait"}, stepTimeout); w == "done" {
						fail(k, n+" was granted the guard although it is not at the head of the queue (spec: still waiting)", want, "returned id "+strconv.FormatInt(pr.ret, 10))
					} else if w == "timeout" {
						fail(k, n+" neither parked nor returned", want, sched.State(pr.goid))
						res.Infra = true
					}
				}
			case "holding":
				if !pr.granted || pr.curID != s.To.Cur[n] {
					fail(k, "spec says "+n+" holds the guard", fmt.Sprint(want, " id ", s.To.Cur[n]), fmt.Sprint("granted=", pr.granted, " id ", pr.curID))
				}
			case "idle":
				if pr.granted || pr.pending {
					fail(k, "spec says "+n+" is idle", want, fmt.Sprint("granted=", pr.granted, " pending=", pr.pending))
				}
			}
		}
		if !res.OK {
			break
		}
	}
	// drain: release whatever is queued so parked goroutines return, then stop the processes
	for i := 0; i < 64; i++ {
		hookMu.Lock()
		q := append([]int64{}, lastQueue...)
		hookMu.Unlock()
		if len(q) == 0 {
			break
		}
		g.ReleaseTreasureGuard(guard.ID(q[0]))
	}
	for _, p := range procs {
		if p.pending {
			waitFlag(&p.done, stepTimeout)
		}
		close(p.cmds)
	}
	wg.Wait()
	return res
}

func replay(in, out string) error {
	b, err := os.ReadFile(in)
	if err != nil {
		return err
	}
	var tests [][]step
	if err := json.Unmarshal(b, &tests); err != nil {
		return err
	}
	installReplayHook()
	f, err := os.Create(out)
	if err != nil {
		return err
	}
	defer f.Close()
	enc := json.NewEncoder(f)
	for i, t := range tests {
		r := runTest(i, t)
		if err := enc.Encode(r); err != nil {
			return err
		}
	}
	return nil
}

// ---------------------------------------------------------------------------------------------
// stress: concurrent random use, every hook event logged with the process that caused it.

func stress(out string, runs, nprocs, ops int, seed int64) error {
	w, err := trace.Create(out)
	if err != nil {
		return err
	}
	var regMu sync.RWMutex
	reg := map[int64]string{}
	verifhook.SetTrace(func(ev string, kv ...any) {
		m := trace.KV(kv)
		gid := sched.GoID()
		regMu.RLock()
		name := reg[gid]
		regMu.RUnlock()
		q := toInt64s(m["queue"])
		if q == nil {
			q = []int64{}
		}
		rec := map[string]any{"ev": ev[len("guard."):], "p": name, "id": m["id"], "queue": q}
		if ev == "guard.rel" {
			if b, _ := m["popped"].(bool); b {
				rec["res"] = 1
			} else {
				rec["res"] = 0
			}
		}
		w.Emit(rec)
	})
	for r := 0; r < runs; r++ {
		w.Emit(map[string]any{"ev": "reset", "p": "", "id": 0, "queue": []int64{}})
		g := guard.New()
		var staleMu sync.Mutex
		stale := []int64{0}
		var wg sync.WaitGroup
		for i := 0; i < nprocs; i++ {
			wg.Add(1)
			go func(i int) {
				defer wg.Done()
				name := "p" + strconv.Itoa(i+1)
				defer func() {
					if r := recover(); r != nil {
						// a panic inside the guard is an observation, not a harness failure
						w.Emit(map[string]any{"ev": "panic", "p": name, "id": 0, "queue": []int64{}, "msg": fmt.Sprint(r)})
					}
				}()
				gid := sched.GoID()
				regMu.Lock()
				reg[gid] = name
				regMu.Unlock()
				rng := rand.New(rand.NewSource(seed*1000003 + int64(r)*101 + int64(i)))
				var held int64
				pickStale := func() int64 {
					staleMu.Lock()
					defer staleMu.Unlock()
					return stale[rng.Intn(len(stale))]
				}
				for k := 0; k < ops; k++ {
					x := rng.Intn(100)
					if held != 0 {
						switch {
						case x < 70:
							id := held
							// the id becomes stale the moment its owner releases it; publish it first so
							// that nobody can use it as a "stale" id before the release (it is added
							// after the call returns)
							g.ReleaseTreasureGuard(guard.ID(id))
							held = 0
							staleMu.Lock()
							stale = append(stale, id)
							staleMu.Unlock()
						default:
							id := pickStale()
							if id != held {
								g.ReleaseTreasureGuard(guard.ID(id))
							}
						}
						continue
					}
					switch {
					case x < 55:
						held = int64(g.StartTreasureGuard(true))
					case x < 75:
						held = int64(g.StartTreasureGuard(false))
					default:
						g.ReleaseTreasureGuard(guard.ID(pickStale()))
					}
					if rng.Intn(4) == 0 {
						time.Sleep(time.Duration(rng.Intn(50)) * time.Microsecond)
					}
				}
				if held != 0 {
					g.ReleaseTreasureGuard(guard.ID(held))
				}
			}(i)
		}
		done := make(chan struct{})
		go func() { wg.Wait(); close(done) }()
		select {
		case <-done:
		case <-time.After(60 * time.Second):
			// Not finished: is it a genuine deadlock (every unfinished caller parked in cond.Wait,
			// observed repeatedly), or just a slow machine? Only the former is an observation.
			stuck := 0
			for try := 0; try < 5; try++ {
				st := sched.States()
				regMu.RLock()
				n, parked := 0, 0
				for gid := range reg {
					if s, ok := st[gid]; ok {
						n++
						if s == "sync.Cond.Wait" {
							parked++
						}
					}
				}
				regMu.RUnlock()
				if n > 0 && n == parked {
					stuck++
				}
				time.Sleep(200 * time.Millisecond)
			}
			if stuck == 5 {
				w.Emit(map[string]any{"ev": "stuck", "p": "", "id": 0, "queue": []int64{}})
				return w.Close()
			}
			w.Close()
			return fmt.Errorf("stress run %d did not finish within 60 s and is not provably deadlocked", r)
		}
		regMu.Lock()
		reg = map[int64]string{}
		regMu.Unlock()
	}
	return w.Close()
}

func main() {
	if len(os.Args) < 2 {
		fmt.Fprintln(os.Stderr, "usage: guard replay|stress ...")
		os.Exit(2)
	}
	var err error
	switch os.Args[1] {
	case "replay":
		err = replay(os.Args[2], os.Args[3])
	case "stress":
		runs, _ := strconv.Atoi(os.Args[3])
		np, _ := strconv.Atoi(os.Args[4])
		ops, _ := strconv.Atoi(os.Args[5])
		seed, _ := strconv.ParseInt(os.Getenv("VERIF_SEED"), 10, 64)
		err = stress(os.Args[2], runs, np, ops, seed)
	default:
		err = fmt.Errorf("unknown mode %q", os.Args[1])
	}
	if err != nil {
		fmt.Fprintln(os.Stderr, "error:", err)
		os.Exit(3)
	}
}
