package main

import (
	"crypto/sha1"
	"encoding/binary"
	"encoding/hex"
	"encoding/json"
	"fmt"
	"os"
	"os/exec"
	"strings"
	"syscall"

	"github.com/hydraide/hydraide/app/core/hydra/swamp/beacon"
	"github.com/hydraide/hydraide/app/core/hydra/swamp/chronicler"
	v2 "github.com/hydraide/hydraide/app/core/hydra/swamp/chronicler/v2"
)

// As built, a file with blocks appended behind torn bytes makes the reader take arbitrary bytes for a block
// header and allocate (and clear) up to 4 GiB for its "compressed data" before it notices the end of the file.
// The harness walks the block headers itself only to decide WHERE the real load runs: when a header claims more
// than bigAlloc bytes beyond the end of the file, the real reader / chronicler Load runs in a child process
// whose address space is limited, and dying of out-of-memory counts as a failed load.

const bigAlloc = 64 << 20
const childLimit = 1536 << 20

func suspicious(path string) bool {
	b, err := os.ReadFile(path)
	if err != nil || len(b) < v2.FileHeaderSize {
		return false
	}
	off := v2.FileHeaderSize
	if binary.LittleEndian.Uint16(b[4:6]) == v2.Version3 {
		off += int(binary.LittleEndian.Uint16(b[44:46]))
	}
	for off+v2.BlockHeaderSize <= len(b) {
		size := int(binary.LittleEndian.Uint32(b[off : off+4]))
		if off+v2.BlockHeaderSize+size > len(b) {
			return size > bigAlloc
		}
		off += v2.BlockHeaderSize + size
	}
	return false
}

type childResult struct {
	Err int         `json:"err"`
	KV  [][2]string `json:"kv"` // hex key, hex sha1 of the value (content bytes at the chronicler level)
}

// childMain: hydfile load <fw|ch> <dir> <named 0|1> <block> <swamp name>
func childMain(args []string) {
	lim := syscall.Rlimit{Cur: childLimit, Max: childLimit}
	syscall.Setrlimit(syscall.RLIMIT_AS, &lim)
	level, dir, named, name := args[0], args[1], args[2] == "1", args[4]
	var block int
	fmt.Sscan(args[3], &block)
	res := childResult{KV: [][2]string{}}
	path := dir + "/swamp.hyd"
	if level == "fw" {
		rd, err := v2.NewFileReader(path)
		if err != nil {
			res.Err = 1
		} else {
			idx, _, err := rd.LoadIndex()
			rd.Close()
			if err != nil {
				res.Err = 1
			}
			for k, v := range idx {
				s := sha1.Sum(v)
				res.KV = append(res.KV, [2]string{hex.EncodeToString([]byte(k)), hex.EncodeToString(s[:])})
			}
		}
	} else {
		var c chronicler.Chronicler
		if named {
			c = chronicler.NewV2WithName(dir+"/swamp", 3, name)
		} else {
			c = chronicler.NewV2WithConfig(dir+"/swamp", 3, block, 0.3)
		}
		c.RegisterSaveFunction(nil)
		b := beacon.New()
		c.Load(b)
		for k, t := range b.GetAll() {
			cb, err := t.GetContentByteArray()
			if err != nil {
				cb = []byte("not-bytes:" + err.Error())
			}
			s := sha1.Sum(cb)
			res.KV = append(res.KV, [2]string{hex.EncodeToString([]byte(k)), hex.EncodeToString(s[:])})
		}
	}
	out, _ := json.Marshal(res)
	fmt.Println(string(out))
}

// childLoad runs the real load in a limited child; ok=false means the child died (out of memory).
func (r *Run) childLoad(level string) (res childResult, ok bool) {
	cmd := exec.Command(os.Args[0], "load", level, r.dir, fmt.Sprint(b2i(r.h.Named)), fmt.Sprint(r.h.Block), "verif/swamp/"+fmt.Sprint(r.h.ID))
	out, err := cmd.Output()
	if err == nil {
		for _, line := range strings.Split(string(out), "\n") {
			if strings.HasPrefix(line, "{") && json.Unmarshal([]byte(line), &res) == nil {
				return res, true
			}
		}
	}
	return childResult{Err: 1}, false
}

func (r *Run) mapOf(res childResult) []int {
	m := r.emptyMap()
	for _, kv := range res.KV {
		k, _ := hex.DecodeString(kv[0])
		var s [20]byte
		hb, _ := hex.DecodeString(kv[1])
		copy(s[:], hb)
		id, ok := r.in.vals[s]
		if !ok {
			id = len(r.in.vals) + 1
			r.in.vals[s] = id
		}
		m[r.in.key(string(k))-1] = id
	}
	return m
}
