package main

func (x *Exec) runCrash(h *History) {}
func (x *Exec) runFault(h *History) {}
