package main

import (
	"crypto/sha1"
	"encoding/json"
	"fmt"
	"os"
	"sort"
)

// ---------------------------------------------------------------- crash images (C02)

// recoverySteps is what is done with every crash image: load it, write more, sync, load, write, close, load.
func recoverySteps(level string) []Step {
	if level == "ch" {
		return []Step{{Ev: "open"}, {Ev: "put", Op: "ins", K: 1, P: 1}, {Ev: "put", Op: "upd", K: 2, P: 2}, {Ev: "sync"}, {Ev: "load"},
			{Ev: "put", Op: "del", K: 1}, {Ev: "close"}, {Ev: "open"}}
	}
	return []Step{{Ev: "load"}, {Ev: "open"}, {Ev: "put", Op: "ins", K: 1, P: 1}, {Ev: "put", Op: "upd", K: 2, P: 2}, {Ev: "sync"}, {Ev: "load"},
		{Ev: "put", Op: "del", K: 1}, {Ev: "close"}, {Ev: "load"}}
}

// tearOffsets: the byte prefixes of a write of n bytes that are materialised (1..n-1).
func tearOffsets(n, maxAll int) []int {
	if n < 2 {
		return nil
	}
	if n-1 <= maxAll || n <= 16 { // a block header is always torn at every byte length
		out := make([]int, 0, n-1)
		for b := 1; b < n; b++ {
			out = append(out, b)
		}
		return out
	}
	// a sample: first and last bytes, the field boundaries of the block header (4, 8, 10, 14) and of the
	// counters in the file header (28, 36, 44), the middle, and maxAll evenly spread offsets
	set := map[int]bool{}
	for _, b := range []int{1, 3, 4, 5, 8, 10, 14, 15, 28, 29, 36, 37, 44, n - 1, n / 2} {
		if b >= 1 && b < n {
			set[b] = true
		}
	}
	for i := 1; i <= maxAll; i++ {
		set[1+(n-2)*i/(maxAll+1)] = true
	}
	out := make([]int, 0, len(set))
	for b := range set {
		out = append(out, b)
	}
	sort.Ints(out)
	return out
}

func b2b(b bool) byte {
	if b {
		return 1
	}
	return 0
}

// image is the crash image of the swamp's directory: the .hyd file and the compaction's temporary file.
// A file object (inode) keeps its bytes and the bytes that were there at its last completed fsync; names are
// created, renamed and removed in log order (directory operations are taken as journaled).
type inode struct {
	data, synced []byte
}

type image struct {
	names  map[string]*inode // path -> file
	opened map[string]*inode // path a writer opened/created -> its file (follows the file across a rename)
	hyd    string
}

func newImage(hyd string) *image {
	return &image{names: map[string]*inode{}, opened: map[string]*inode{}, hyd: hyd}
}

func (im *image) clone() *image {
	c := newImage(im.hyd)
	seen := map[*inode]*inode{}
	cp := func(n *inode) *inode {
		if n == nil {
			return nil
		}
		if m, ok := seen[n]; ok {
			return m
		}
		m := &inode{data: append([]byte(nil), n.data...), synced: append([]byte(nil), n.synced...)}
		seen[n] = m
		return m
	}
	for k, v := range im.names {
		c.names[k] = cp(v)
	}
	for k, v := range im.opened {
		c.opened[k] = cp(v)
	}
	return c
}

func (im *image) file(path string) *inode {
	if n := im.opened[path]; n != nil {
		return n
	}
	if n := im.names[path]; n != nil { // opened for append
		im.opened[path] = n
		return n
	}
	return nil
}

func (im *image) apply(op OpRec, nbytes int) {
	switch op.Raw {
	case "create":
		n := &inode{}
		im.names[op.Path] = n
		im.opened[op.Path] = n
	case "write":
		n := im.file(op.Path)
		if n == nil || op.Off < 0 {
			return
		}
		end := int(op.Off) + nbytes
		for len(n.data) < end {
			n.data = append(n.data, 0)
		}
		copy(n.data[op.Off:], op.Data[:nbytes])
	case "sync":
		if n := im.file(op.Path); n != nil {
			n.synced = append([]byte(nil), n.data...)
		}
	case "close":
		delete(im.opened, op.Path)
	case "rename": // the compaction's temporary file replaces the .hyd file
		if n := im.names[op.Path]; n != nil {
			im.names[im.hyd] = n
			delete(im.names, op.Path)
		}
	case "remove":
		delete(im.names, op.Path)
	}
}

// materialise writes the files into dir; power = power loss: only what was fsynced survives in each file.
func (im *image) materialise(dir string, power bool) {
	for path, n := range im.names {
		b := n.data
		if power {
			b = n.synced
		}
		os.WriteFile(dir+"/"+filepathBase(path), b, 0o644)
	}
}

func (im *image) digest(power bool) [20]byte {
	h := sha1.New()
	names := make([]string, 0, len(im.names))
	for p := range im.names {
		names = append(names, p)
	}
	sort.Strings(names)
	for _, p := range names {
		b := im.names[p].data
		if power {
			b = im.names[p].synced
		}
		fmt.Fprintf(h, "%s:%d:", filepathBase(p), len(b))
		h.Write(b)
	}
	var s [20]byte
	copy(s[:], h.Sum(nil))
	return s
}

func filepathBase(p string) string {
	for i := len(p) - 1; i >= 0; i-- {
		if p[i] == '/' {
			return p[i+1:]
		}
	}
	return p
}

func (x *Exec) runCrash(h *History) {
	in := newInterner(h)
	r := x.execute(h, in, true, nil, h.Steps)
	defer os.RemoveAll(r.dir)
	maxAll := x.cfg.MaxAll
	if maxAll == 0 {
		maxAll = 16
	}
	rec := recoverySteps(h.Level)
	cache := map[[20]byte]string{} // image -> JSON of the observation
	type key struct {
		ev, idx int
		tear    string
	}
	groups := map[key]map[string]int{}
	order := []key{}
	kinds := map[key]string{}
	// full = run the whole recovery script; otherwise only load the image (a load of a torn image is cheap,
	// the load after the recovery is what reads garbage headers)
	observe := func(im *image, full, power bool) string {
		sum := im.digest(power)
		sum[0] ^= b2b(full)
		if s, ok := cache[sum]; ok {
			x.stat("cut_cache_hits", 1)
			return s
		}
		dir := x.freshDir()
		os.MkdirAll(dir, 0o755)
		im.materialise(dir, power)
		steps := rec
		if !full {
			steps = rec[:1]
		}
		r2 := x.executeIn(h, in, dir, steps)
		os.RemoveAll(dir)
		evs := r2.events
		obs := Event{"lerr": 0, "lm": make([]int, NKeys), "rec": []Event{}}
		if len(evs) > 0 && evs[0]["ev"] == "load" {
			obs["lerr"], obs["lm"] = evs[0]["err"], evs[0]["m"]
			evs = evs[1:]
		}
		for _, e := range evs {
			e["cuts"] = []any{}
			if _, ok := e["fk"]; !ok {
				e["fk"], e["fm"] = "", ""
			}
		}
		obs["rec"] = evs
		b, _ := json.Marshal(obs)
		cache[sum] = string(b)
		x.stat("cut_images", 1)
		return string(b)
	}
	add := func(k key, kind, obs string) {
		if groups[k] == nil {
			groups[k] = map[string]int{}
			order = append(order, k)
			kinds[k] = kind
		}
		groups[k][obs]++
		x.stat("cuts", 1)
	}
	im := newImage(r.path)
	// position of a cut inside the compaction (operations on the temporary file, rename): in the model it is
	// the state after the last .hyd operation before it
	lastEv, lastIdx := -1, 0
	for i, op := range r.ops {
		if op.Ev >= len(r.events) && op.Path == r.path {
			break // the clean-up close after the history
		}
		if op.Path != r.path {
			if lastEv >= 0 {
				// prefix cut and power-loss cut (unsynced bytes of every file dropped) before this operation
				add(key{lastEv, lastIdx, "none"}, "end", observe(im, true, false))
				add(key{lastEv, lastIdx, "power"}, "end", observe(im, true, true))
				x.stat("compaction_cuts", 2)
			}
			im.apply(op, len(op.Data))
			if i+1 == len(r.ops) || r.ops[i+1].Path == r.path {
				if lastEv >= 0 { // ... and after the last one
					add(key{lastEv, lastIdx, "none"}, "end", observe(im, true, false))
					add(key{lastEv, lastIdx, "power"}, "end", observe(im, true, true))
					x.stat("compaction_cuts", 2)
				}
			}
			continue
		}
		k := key{op.Ev, op.Idx, "none"}
		add(k, op.Kind, observe(im, true, false))
		if op.Raw == "write" {
			offs := tearOffsets(len(op.Data), maxAll)
			for i, b := range offs {
				t := im.clone()
				t.apply(op, b)
				full := i == 0 || i == len(offs)-1 || i == len(offs)/2 || len(op.Data) <= 16
				add(key{op.Ev, op.Idx, "part"}, op.Kind, observe(t, full, false))
			}
			im.apply(op, len(op.Data))
		} else {
			im.apply(op, 0)
		}
		lastEv, lastIdx = op.Ev, op.Idx+1
	}
	for _, k := range order {
		obsList := make([]string, 0, len(groups[k]))
		for o := range groups[k] {
			obsList = append(obsList, o)
		}
		sort.Strings(obsList)
		for _, o := range obsList {
			var cut Event
			json.Unmarshal([]byte(o), &cut)
			cut["op"], cut["idx"], cut["tear"], cut["n"], cut["pl"] = kinds[k], k.idx, k.tear, groups[k][o], 0
			if k.tear == "power" {
				cut["tear"], cut["pl"] = "none", 1
			}
			ev := r.events[k.ev]
			cs, _ := ev["cuts"].([]any)
			ev["cuts"] = append(cs, cut)
		}
	}
	x.writeHistory(h, r.events)
}

// executeIn runs steps in an existing directory (a materialised crash image).
func (x *Exec) executeIn(h *History, in *Interner, dir string, steps []Step) *Run {
	return x.executeDir(h, in, dir, false, nil, steps)
}

// ---------------------------------------------------------------- write faults (C25)

// faultTail is appended to every history of the fault mode: with the fault cleared, later writes are made,
// synced, and the file is loaded with the writer open, after a close, and after one more session.
func faultTail(level string) []Step {
	return []Step{{Ev: "open"}, {Ev: "put", Op: "ins", K: 1, P: 1}, {Ev: "sync"}, {Ev: "load"}, {Ev: "put", Op: "upd", K: 2, P: 2},
		{Ev: "close", Same: level == "ch"}, {Ev: "load"}, {Ev: "open"}, {Ev: "put", Op: "del", K: 1}, {Ev: "close"}, {Ev: "load"}}
}

// runFault executes the history once without faults (to count its file operations) and then once per fault
// placement: every single fault (operation x {error, short write}) and every / a seeded sample of double faults.
func (x *Exec) runFault(h *History) {
	if len(h.Faults) > 0 { // replay of one placement
		r := x.execute(h, newInterner(h), false, h.Faults, h.Steps)
		x.writeHistory(h, r.events)
		os.RemoveAll(r.dir)
		return
	}
	h.Steps = append(h.Steps, faultTail(h.Level)...)
	base := x.execute(h, newInterner(h), true, nil, h.Steps)
	os.RemoveAll(base.dir)
	x.writeHistory(h, base.events)
	n0 := base.allops
	x.stat("fault_ops", n0)
	x.stat("fault_foreign_ops", base.foreign)
	rawOf := func(r *Run, at int) (string, int) { // raw kind and byte length of the at-th operation
		i := 0
		for _, op := range r.ops {
			i++
			if i == at {
				return op.Raw, len(op.Data)
			}
		}
		return "", 0
	}
	modes := func(r *Run, at int) []string {
		raw, n := rawOf(r, at)
		if raw == "close" && r.ops[at-1].Path == r.path {
			return nil // closing the descriptor is not a disk write (the hook's result is ignored there)
		}
		if raw == "remove" {
			return nil // best-effort cleanup, result ignored by the engine
		}
		if raw == "write" && n >= 2 {
			return []string{"err", "short"}
		}
		return []string{"err"}
	}
	id := h.ID * 100000
	emit := func(fs []Fault) *Run {
		id++
		h2 := *h
		h2.ID = id
		h2.Faults = fs
		r := x.execute(&h2, newInterner(&h2), true, fs, h2.Steps)
		os.RemoveAll(r.dir)
		x.writeHistory(&h2, r.events)
		x.stat("fault_runs", 1)
		return r
	}
	rng := newRand(x.cfg.Seed + int64(h.ID))
	budget := x.cfg.MaxPlace
	if budget == 0 {
		budget = 200
	}
	type pair struct{ a, b Fault }
	var pairs []pair
	start := 1
	if x.cfg.Compact { // only the operations around the compaction: the rest is covered by the short histories
		for i, op := range base.ops {
			if op.Path != base.path {
				start = max(1, i+1-7)
				break
			}
		}
	}
	for at := start; at <= n0; at++ {
		for _, m := range modes(base, at) {
			r1 := emit([]Fault{{At: at, Mode: m}})
			if x.cfg.Faults >= 2 {
				for at2 := at + 1; at2 <= r1.allops; at2++ {
					for _, m2 := range modes(r1, at2) {
						pairs = append(pairs, pair{Fault{at, m}, Fault{at2, m2}})
					}
				}
			}
		}
	}
	x.stat("fault_pairs_possible", len(pairs))
	if len(pairs) > budget {
		rng.Shuffle(len(pairs), func(i, j int) { pairs[i], pairs[j] = pairs[j], pairs[i] })
		pairs = pairs[:budget]
	}
	for _, p := range pairs {
		emit([]Fault{p.a, p.b})
	}
}
