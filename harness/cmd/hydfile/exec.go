package main

import (
	"bytes"
	"crypto/sha1"
	"encoding/json"
	"errors"
	"fmt"
	"io"
	"os"
	"path/filepath"

	"github.com/hydraide/hydraide/app/core/hydra/swamp/beacon"
	"github.com/hydraide/hydraide/app/core/hydra/swamp/chronicler"
	v2 "github.com/hydraide/hydraide/app/core/hydra/swamp/chronicler/v2"
	"github.com/hydraide/hydraide/app/core/hydra/swamp/treasure"
	"github.com/hydraide/hydraide/app/core/hydra/swamp/treasure/guard"
	"github.com/hydraide/hydraide/app/verifhook"

	"verifharness/trace"
)

type Event = map[string]any

// OpRec is one file operation of the engine, as announced through verifhook.FileOp.
type OpRec struct {
	Ev   int    // index of the event (line of this history) whose call performed it
	Idx  int    // number of file operations of that call performed before it
	Kind string // spec kind: create hdr0 name bh pay hdr shdr chdr fsync close, or x-<raw> for other paths
	Raw  string
	Path string
	Off  int64
	Data []byte
}

var errInjected = errors.New("verif: injected I/O error")

// Interner maps concrete keys / payloads of one history to small ids.
type Interner struct {
	keys map[string]int
	vals map[[20]byte]int
}

func newInterner(h *History) *Interner {
	in := &Interner{keys: map[string]int{}, vals: map[[20]byte]int{}}
	for i, k := range h.cacheK {
		in.keys[string(k)] = i + 1
	}
	for _, p := range h.cacheP {
		in.val(p)
	}
	return in
}
func (in *Interner) key(k string) int {
	if id, ok := in.keys[k]; ok {
		return id
	}
	id := len(in.keys) + 1
	if id > NKeys {
		id = NKeys
	}
	in.keys[k] = id
	return id
}
func (in *Interner) val(b []byte) int {
	s := sha1.Sum(b)
	if id, ok := in.vals[s]; ok {
		return id
	}
	id := len(in.vals) + 1
	in.vals[s] = id
	return id
}

// Run is one execution of (a prefix of) a history against the real code in its own directory.
type Run struct {
	h      *History
	in     *Interner
	dir    string
	path   string // the .hyd file
	fw     *v2.FileWriter
	ch     chronicler.Chronicler
	mirror map[string]treasure.Treasure // the "swamp memory" of the chronicler level
	wopen  bool                         // ch level: the lazily created writer is believed open

	events []Event
	ops    []OpRec
	record bool // keep operation data (for crash images)

	curEv         int
	curCall       string
	callOps       int
	phase         int // position inside a flush: 0 none, 1 after bh, 2 after pay
	sawBh         bool
	sawClose      bool
	sawCreate     bool
	nops          int // file operations on the .hyd file so far
	allops        int // file operations on any path so far (fault placement)
	foreign       int
	xhit          string // fault injected into an operation on another file (compaction)
	hitOp         int    // index (within the call) of the operation that was hit
	pendingRename bool   // a compaction renamed its temporary file over the .hyd file during the current call
	afterPut      bool   // ch level: WriteEntry of the current Write has returned (what follows is the inline compaction)
	putOps        int    // number of file operations of the call at that moment
	putFl         bool
	faults        []Fault
	hit           *Event // fault that fired during the current call
	panics        int
}

var cur *Run

var bigLoads, oomLoads int

func statBig(ok bool) {
	bigLoads++
	if !ok {
		oomLoads++
	}
}

// results of the chronicler's internal calls, reported by the chron.open / chron.put trace hooks
var chronOpen, chronPut int

func traceHook(ev string, kv ...any) {
	m := trace.KV(kv)
	ok, _ := m["ok"].(bool)
	switch ev {
	case "chron.open":
		chronOpen = b2i(!ok)
	case "chron.put":
		chronPut = b2i(!ok)
		if r := cur; r != nil {
			r.afterPut, r.putOps, r.putFl = true, r.callOps, r.sawBh
			r.phase = 0
		}
	}
}

func hook(kind string, f *os.File, path string, data []byte) error {
	r := cur
	if r == nil {
		return nil
	}
	r.allops++
	if path != r.path { // the compaction's temporary file (or its rename): not part of the model
		r.foreign++
		if kind == "rename" { // the rename is performed unless this very operation is failed below
			r.pendingRename = true
		}
		if r.record {
			rec := OpRec{Ev: r.curEv, Kind: "x-" + kind, Raw: kind, Path: path, Off: -1}
			if f != nil {
				rec.Off, _ = f.Seek(0, io.SeekCurrent)
			}
			if data != nil {
				rec.Data = append([]byte(nil), data...)
			}
			r.ops = append(r.ops, rec)
		}
		for _, ft := range r.faults {
			if ft.At == r.allops {
				r.xhit = "x-" + kind + "/" + ft.Mode
				r.pendingRename = false
				if ft.Mode == "short" && f != nil && len(data) >= 2 {
					f.Write(data[:len(data)/2])
				}
				return errInjected
			}
		}
		return nil
	}
	var off int64 = -1
	if f != nil {
		off, _ = f.Seek(0, io.SeekCurrent)
	}
	sk := kind
	switch kind {
	case "write":
		switch {
		case r.phase == 1:
			sk, r.phase = "pay", 2
		case r.phase == 2:
			sk, r.phase = "hdr", 0
		case r.sawCreate && r.callOps <= 2 && off == 0 && len(data) == v2.FileHeaderSize:
			sk = "hdr0"
		case r.sawCreate && r.callOps <= 3 && off == v2.FileHeaderSize && r.lastKind() == "hdr0":
			sk = "name"
		case len(data) == v2.BlockHeaderSize:
			sk, r.phase, r.sawBh = "bh", 1, true
		case r.curCall == "close" || r.afterPut:
			sk = "chdr"
		default:
			sk = "shdr"
		}
	case "sync":
		sk = "fsync"
	case "create":
		r.sawCreate = true
	case "close":
		r.sawClose = true
	}
	rec := OpRec{Ev: r.curEv, Idx: r.callOps, Kind: sk, Raw: kind, Path: path, Off: off}
	if r.record && data != nil {
		rec.Data = append([]byte(nil), data...)
	}
	r.ops = append(r.ops, rec)
	r.callOps++
	r.nops++
	for _, ft := range r.faults {
		if ft.At == r.allops {
			ev := Event{"fk": sk, "fm": ft.Mode}
			r.hitOp = r.callOps - 1
			r.hit = &ev
			if ft.Mode == "short" && f != nil && len(data) >= 2 {
				f.Write(data[:len(data)/2])
			}
			r.phase = 0
			return errInjected
		}
	}
	return nil
}

func (r *Run) lastKind() string {
	if len(r.ops) == 0 {
		return ""
	}
	return r.ops[len(r.ops)-1].Kind
}

func (r *Run) begin(call string) {
	r.curEv = len(r.events)
	r.curCall = call
	r.callOps = 0
	r.phase = 0
	r.sawBh, r.sawClose, r.sawCreate = false, false, false
	r.afterPut, r.putOps, r.putFl = false, -1, false
	r.hit = nil
}

func resCode(err error) int {
	if err != nil {
		return 1
	}
	return 0
}

// guarded runs f and turns a panic of the code under test into an observation.
func (r *Run) guarded(f func() error) (err error) {
	defer func() {
		if p := recover(); p != nil {
			r.panics++
			err = fmt.Errorf("panic: %v", p)
		}
	}()
	return f()
}

func (r *Run) emit(ev Event) {
	if r.pendingRename { // the event during which a compaction completed
		ev["cx"] = 1
		r.pendingRename = false
	}
	if r.xhit != "" {
		ev["xf"] = r.xhit
		r.xhit = ""
	}
	if r.hit != nil {
		for k, v := range *r.hit {
			ev[k] = v
		}
		r.hit = nil
	}
	r.events = append(r.events, ev)
}

func newRun(h *History, in *Interner, dir string, record bool, faults []Fault) *Run {
	os.MkdirAll(dir, 0o755)
	r := &Run{h: h, in: in, dir: dir, record: record, faults: faults, mirror: map[string]treasure.Treasure{}}
	r.path = filepath.Join(dir, "swamp.hyd")
	return r
}

func (r *Run) swampPath() string { return filepath.Join(r.dir, "swamp") }

// ---------------------------------------------------------------- observations

func (r *Run) emptyMap() []int { return make([]int, NKeys) }

// peek reads the file with the real FileReader.
func (r *Run) peek() (int, []int) {
	m := r.emptyMap()
	if _, err := os.Stat(r.path); os.IsNotExist(err) {
		return 0, m
	}
	if suspicious(r.path) {
		res, ok := r.childLoad("fw")
		statBig(ok)
		if res.Err != 0 {
			return 1, m
		}
		if r.h.Level == "fw" {
			return 0, r.mapOf(res)
		}
		// (chronicler level: the values must be decoded; the child showed that the load is affordable)
	}
	var idx map[string][]byte
	err := r.guarded(func() error {
		rd, err := v2.NewFileReader(r.path)
		if err != nil {
			return err
		}
		defer rd.Close()
		idx, _, err = rd.LoadIndex()
		return err
	})
	if err != nil {
		if len(err.Error()) > 6 && err.Error()[:6] == "panic:" {
			return 2, m
		}
		return 1, m
	}
	for k, v := range idx {
		val := v
		if r.h.Level == "ch" {
			val = decodeContent(v, r.path)
		}
		m[r.in.key(k)-1] = r.in.val(val)
	}
	return 0, m
}

func decodeContent(data []byte, path string) []byte {
	var out []byte
	func() {
		defer func() {
			if p := recover(); p != nil {
				out = []byte("undecodable-panic")
			}
		}()
		t := treasure.New(nil)
		g := t.StartTreasureGuard(true, guard.BodyAuthID)
		defer t.ReleaseTreasureGuard(g)
		if err := t.LoadFromByte(g, data, path); err != nil {
			out = []byte("undecodable:" + err.Error())
			return
		}
		b, err := t.GetContentByteArray()
		if err != nil {
			out = []byte("not-bytes:" + err.Error())
			return
		}
		out = b
	}()
	return out
}

func (r *Run) beaconMap(b beacon.Beacon) []int {
	m := r.emptyMap()
	for k, t := range b.GetAll() {
		c, err := t.GetContentByteArray()
		if err != nil {
			c = []byte("not-bytes:" + err.Error())
		}
		m[r.in.key(k)-1] = r.in.val(c)
	}
	return m
}

// ---------------------------------------------------------------- steps

func (r *Run) step(s Step) {
	if r.h.Level == "ch" {
		r.stepCh(s)
	} else {
		r.stepFw(s)
	}
}

func (r *Run) putEvent(s Step, rep, res int, fl bool) Event {
	ev := Event{"ev": "put", "op": s.Op, "k": s.K, "v": 0, "kc": r.h.keyClass[s.K-1], "rep": rep, "ak": s.K, "av": 0,
		"fl": b2i(fl), "res": res, "told": 1}
	if s.Op != "del" {
		ev["v"] = r.in.val(r.h.cacheP[s.P-1])
	}
	if r.h.keyClass[s.K-1] == "over_a" {
		k := r.h.cacheK[s.K-1]
		ev["ak"] = r.in.key(string(k[:len(k)%65536]))
		if s.Op != "del" {
			ev["av"] = r.in.val(nil)
		}
	}
	return ev
}

func b2i(b bool) int {
	if b {
		return 1
	}
	return 0
}

func (r *Run) stepFw(s Step) {
	switch s.Ev {
	case "open":
		if r.fw != nil {
			return
		}
		r.begin("open")
		var w *v2.FileWriter
		err := r.guarded(func() (e error) {
			if r.h.Named {
				w, e = v2.NewFileWriterWithName(r.path, r.h.Block, "verif/swamp/"+fmt.Sprint(r.h.ID))
			} else {
				w, e = v2.NewFileWriter(r.path, r.h.Block)
			}
			return
		})
		if err == nil {
			r.fw = w
		}
		r.emit(Event{"ev": "open", "nm": b2i(r.h.Named), "res": resCode(err)})
	case "put":
		if r.fw == nil {
			return
		}
		rep := s.Rep
		if rep == 0 {
			rep = 1
		}
		e := v2.Entry{Key: string(r.h.cacheK[s.K-1])}
		switch s.Op {
		case "ins":
			e.Operation, e.Data = v2.OpInsert, r.h.cacheP[s.P-1]
		case "upd":
			e.Operation, e.Data = v2.OpUpdate, r.h.cacheP[s.P-1]
		default:
			e.Operation = v2.OpDelete
		}
		for rep > 0 {
			r.begin("put")
			n := 0
			var err error
			for n < rep && err == nil && !r.sawBh {
				err = r.guarded(func() error { return r.fw.WriteEntry(e) })
				n++
			}
			if err != nil && n > 1 { // the failing call gets its own line
				n--
				r.emitPutSplit(s, n)
				rep -= n
				continue
			}
			r.emit(r.putEvent(s, n, resCode(err), r.sawBh))
			rep -= n
		}
	case "flush":
		if r.fw == nil {
			return
		}
		r.begin("flush")
		err := r.guarded(r.fw.Flush)
		r.emit(Event{"ev": "flush", "res": resCode(err)})
	case "sync":
		if r.fw == nil {
			return
		}
		r.begin("sync")
		err := r.guarded(r.fw.Sync)
		r.emit(Event{"ev": "sync", "res": resCode(err)})
	case "close":
		if r.fw == nil {
			return
		}
		r.begin("close")
		err := r.guarded(r.fw.Close)
		r.emit(Event{"ev": "close", "res": resCode(err)})
		if err != nil { // fault cleared: the owner tries once more, then gives the writer up
			r.begin("close")
			err = r.guarded(r.fw.Close)
			r.emit(Event{"ev": "close", "res": resCode(err)})
		}
		r.fw = nil
	case "load":
		r.begin("load")
		e, m := r.peek()
		r.emit(Event{"ev": "load", "err": e, "m": m})
	}
}

// emitPutSplit is only reached when a repeated put fails in the middle (never without faults).
func (r *Run) emitPutSplit(s Step, n int) {
	ev := r.putEvent(s, n, 0, false)
	hit := r.hit
	r.hit = nil
	r.emit(ev)
	r.hit = hit
}

func (r *Run) openCh() {
	// a new chronicler instance = the swamp is summoned: Load into a fresh beacon
	var c chronicler.Chronicler
	if r.h.Named {
		c = chronicler.NewV2WithName(r.swampPath(), 3, "verif/swamp/"+fmt.Sprint(r.h.ID))
	} else {
		c = chronicler.NewV2WithConfig(r.swampPath(), 3, r.h.Block, 0.3)
	}
	c.CreateDirectoryIfNotExists()
	c.RegisterSaveFunction(nil)
	c.RegisterFilePointerFunction(func(evs []*chronicler.FileNameEvent) error {
		for _, e := range evs {
			if t := r.mirror[e.TreasureKey]; t != nil {
				g := t.StartTreasureGuard(true, guard.BodyAuthID)
				t.BodySetFileName(g, e.FileName)
				t.ReleaseTreasureGuard(g)
			}
		}
		return nil
	})
	c.RegisterLiveCountFunction(func() int { return len(r.mirror) })
	b := beacon.New()
	r.begin("load")
	skip := false
	if suspicious(r.path) {
		// the child tells whether this Load survives; a failed Load leaves beacon and chronicler untouched
		res, ok := r.childLoad("ch")
		statBig(ok)
		skip = !ok || len(res.KV) == 0
	}
	if !skip {
		r.guarded(func() error { c.Load(b); return nil })
	}
	r.mirror = b.GetAll()
	r.emit(Event{"ev": "load", "err": -1, "m": r.beaconMap(b)})
	r.ch = c
	r.wopen = false
}

func (r *Run) stepCh(s Step) {
	switch s.Ev {
	case "open":
		if r.ch == nil {
			r.openCh()
		}
	case "put":
		if r.ch == nil {
			return
		}
		key := string(r.h.cacheK[s.K-1])
		t := r.mirror[key]
		if t == nil {
			t = treasure.New(nil)
			g := t.StartTreasureGuard(true, guard.BodyAuthID)
			t.BodySetKey(g, key)
			t.ReleaseTreasureGuard(g)
		}
		g := t.StartTreasureGuard(true, guard.BodyAuthID)
		if s.Op == "del" {
			t.BodySetForDeletion(g, "verif", false)
			delete(r.mirror, key)
		} else {
			t.SetContentByteArray(g, r.h.cacheP[s.P-1])
			r.mirror[key] = t
		}
		t.ReleaseTreasureGuard(g)
		r.begin("put")
		chronOpen, chronPut = -1, -1
		r.guarded(func() error { r.ch.Write([]treasure.Treasure{t}); return nil })
		if chronOpen == -1 { // Write returned before ensureWriter (never without a panic)
			chronOpen = 1
		}
		nCall := r.callOps
		first := len(r.ops) - nCall // (only hyd-path operations are counted in callOps; foreign ones are skipped below)
		own := []int{}
		for i := 0; i < len(r.ops); i++ {
			if r.ops[i].Ev == r.curEv && r.ops[i].Path == r.path {
				own = append(own, i)
			}
		}
		_ = first
		k := 0
		for _, i := range own {
			if kd := r.ops[i].Kind; kd == "create" || kd == "hdr0" || kd == "name" {
				k++
			}
		}
		putOps := r.putOps
		if putOps < 0 { // WriteEntry was never reached (the writer could not be opened)
			putOps = nCall
		}
		hit, hitOp := r.hit, r.hitOp
		r.hit = nil
		cx := r.pendingRename // belongs to the implicit close (the compaction runs after it)
		r.pendingRename = false
		if !r.wopen {
			// the writer is created lazily inside Write: its file operations come first
			ev := Event{"ev": "open", "nm": b2i(r.h.Named), "res": chronOpen}
			if hit != nil && hitOp < k {
				for kk, v := range *hit {
					ev[kk] = v
				}
				hit = nil
			}
			r.emit(ev)
			r.wopen = chronOpen == 0
		}
		for n, i := range own { // the put's own operations
			if n >= k && n < putOps {
				r.ops[i].Ev, r.ops[i].Idx = len(r.events), n-k
			}
		}
		if chronOpen == 0 {
			// told = 0: chronicler.Write reports nothing to its caller; res is the internal WriteEntry result
			fl := r.sawBh
			if r.afterPut {
				fl = r.putFl
			}
			ev := r.putEvent(s, 1, chronPut, fl)
			ev["told"] = 0
			if hit != nil && hitOp < putOps {
				for kk, v := range *hit {
					ev[kk] = v
				}
				hit = nil
			}
			r.emit(ev)
		} else {
			ev := r.putEvent(s, 1, 1, false) // never reached the writer: dropped
			ev["told"] = 0
			r.emit(ev)
		}
		if r.sawClose || nCall > putOps { // inline compaction closed (or tried to close) the writer
			r.pendingRename = cx
			ev := Event{"ev": "close", "res": -1, "implicit": 1}
			if hit != nil {
				for kk, v := range *hit {
					ev[kk] = v
				}
				ev["res"] = 1
				hit = nil
			}
			for n, i := range own {
				if n >= putOps {
					r.ops[i].Ev, r.ops[i].Idx = len(r.events), n-putOps
				}
			}
			r.emit(ev)
			if r.sawClose {
				r.wopen = false
			}
		}
	case "sync", "flush":
		if r.ch == nil {
			return
		}
		r.begin("sync")
		err := r.guarded(r.ch.Sync)
		if r.wopen {
			r.emit(Event{"ev": "sync", "res": resCode(err)})
		}
	case "close":
		if r.ch == nil {
			return
		}
		r.begin("close")
		err := r.guarded(r.ch.Close)
		if r.wopen {
			r.emit(Event{"ev": "close", "res": resCode(err)})
			if err != nil {
				r.begin("close")
				err = r.guarded(r.ch.Close)
				r.emit(Event{"ev": "close", "res": resCode(err)})
			}
		}
		// a chronicler whose Close failed keeps its writer: the next Write does not reopen anything
		r.wopen = r.wopen && err != nil && s.Same
		if !s.Same {
			r.ch = nil // the swamp is gone; the next session summons a new chronicler (Load)
		}
	case "load":
		r.begin("load")
		e, m := r.peek()
		r.emit(Event{"ev": "load", "err": e, "m": m})
	}
}

// ---------------------------------------------------------------- whole histories

type Exec struct {
	scratch string
	tw      *trace.Writer
	hw      *os.File
	cfg     *Config
	n       int
	stats   map[string]int
}

func (x *Exec) stat(k string, n int) {
	if x.stats == nil {
		x.stats = map[string]int{}
	}
	x.stats[k] += n
}

func (x *Exec) freshDir() string {
	x.n++
	d := filepath.Join(x.scratch, fmt.Sprintf("r%d", x.n))
	os.RemoveAll(d)
	return d
}

func (x *Exec) writeHistory(h *History, evs []Event) {
	x.tw.Emit(Event{"ev": "reset", "h": h.ID, "lvl": h.Level})
	for _, e := range evs {
		if _, ok := e["cuts"]; !ok {
			e["cuts"] = []any{}
		}
		if _, ok := e["fk"]; !ok {
			e["fk"], e["fm"] = "", ""
		}
		x.tw.Emit(e)
	}
	b, _ := json.Marshal(h)
	x.hw.Write(append(b, '\n'))
	x.stat("histories", 1)
	x.stat("events", len(evs))
}

func (x *Exec) execute(h *History, in *Interner, record bool, faults []Fault, steps []Step) *Run {
	return x.executeDir(h, in, x.freshDir(), record, faults, steps)
}

func (x *Exec) executeDir(h *History, in *Interner, dir string, record bool, faults []Fault, steps []Step) *Run {
	r := newRun(h, in, dir, record, faults)
	cur = r
	verifhook.SetFileOp(hook)
	verifhook.SetTrace(traceHook)
	for _, s := range steps {
		r.step(s)
	}
	// leave nothing open
	if r.fw != nil {
		r.guarded(r.fw.Close)
	}
	if r.ch != nil {
		r.guarded(r.ch.Close)
	}
	verifhook.SetFileOp(nil)
	verifhook.SetTrace(nil)
	cur = nil
	x.stat("panics", r.panics)
	x.stat("big_alloc_loads", bigLoads)
	x.stat("oom_loads", oomLoads)
	bigLoads, oomLoads = 0, 0
	return r
}

func (x *Exec) runAny(h *History) {
	h.ID += x.cfg.IDBase
	h.prepare()
	switch x.cfg.Mode {
	case "crash":
		x.runCrash(h)
	case "fault":
		x.runFault(h)
	default:
		in := newInterner(h)
		r := x.execute(h, in, false, h.Faults, h.Steps)
		x.writeHistory(h, r.events)
		os.RemoveAll(r.dir)
	}
}

// runBulk: more than 65535 entries in one block (1 MiB block size, tiny entries)
func (x *Exec) runBulk() {
	for i, n := range []int{65535, 65536, 65537, 70000} {
		h := &History{ID: i + 1, Level: "fw", Block: 1 << 20, KeySpec: []string{"short:a", "short:b"}, PaySpec: []string{"0:1", "1:3"},
			Steps: []Step{{Ev: "open"}, {Ev: "put", Op: "ins", K: 1, P: 2}, {Ev: "put", Op: "ins", K: 2, P: 1, Rep: n - 2},
				{Ev: "put", Op: "del", K: 1}, {Ev: "close"}, {Ev: "load"}}}
		h.ID += x.cfg.IDBase
		h.prepare()
		r := x.execute(h, newInterner(h), false, nil, h.Steps)
		x.writeHistory(h, r.events)
		os.RemoveAll(r.dir)
	}
}

var _ = bytes.Equal
