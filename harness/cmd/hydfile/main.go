// Driver for the append-only storage engine (C01, C02, C25): binds spec/HydFile.tla to
// app/core/hydra/swamp/chronicler/v2 (FileWriter/FileReader) and chronicler_v2.go.
//
//	hydfile run <config.json> <trace.ndjson>
//
// config: {"seed":N, "mode":"plain"|"small"|"crash"|"fault"|"bulk", "level":"fw"|"ch"|"both",
//
//	"count":N, "maxops":N, "bad":percent, "big":bool, "faults":1|2, "maxplace":N,
//	"replay": <history object, optional>}
//
// Every history becomes one block of ndjson lines starting with a "reset" line.  Keys and payloads are
// interned to small ids (per history); maps are arrays of NKeys value ids (0 = absent).
package main

import (
	"encoding/json"
	"fmt"
	"io"
	"log/slog"
	"math/rand"
	"os"
	"path/filepath"
	"runtime/pprof"
	"strings"

	"verifharness/trace"
)

const NKeys = 8

type Config struct {
	Seed     int64    `json:"seed"`
	Mode     string   `json:"mode"`
	Level    string   `json:"level"`
	Count    int      `json:"count"`
	MaxOps   int      `json:"maxops"`
	Bad      int      `json:"bad"`
	Big      bool     `json:"big"`
	Faults   int      `json:"faults"`
	MaxPlace int      `json:"maxplace"`
	Replay   *History `json:"replay"`
	MaxAll   int      `json:"maxall"`  // crash mode: writes up to this many bytes are torn at every byte offset
	IDBase   int      `json:"idbase"`  // added to every history id (several runs are concatenated into one trace)
	MinOps   int      `json:"minops"`  // small mode: smallest number of writes
	Reduced  bool     `json:"reduced"` // small mode: first write is ins k1 v1 or del k1 (key / value symmetry)
	Part     int      `json:"part"`    // small mode: only histories with id % parts == part
	Parts    int      `json:"parts"`
	KeySet   int      `json:"keyset"`  // small mode: 0 = ordinary keys, 1 = the engine's reserved names, 2 = prefix keys
	Compact  bool     `json:"compact"` // fault mode: chronicler history that reaches the inline compaction (>= 100 entries)
}

// Step is one API call of a history.
type Step struct {
	Ev  string `json:"ev"`            // open put flush sync close load
	Op  string `json:"op,omitempty"`  // ins upd del
	K   int    `json:"k,omitempty"`   // index into Keys (1-based)
	P   int    `json:"p,omitempty"`   // index into Payloads (1-based)
	Rep int    `json:"rep,omitempty"` // repeat count (bulk)
	// close at the chronicler level: keep the chronicler object and let the next Write reopen the writer
	// lazily ("After Close(), the chronicler can be reopened by calling Write() again") instead of
	// summoning a new chronicler
	Same bool `json:"same,omitempty"`
}

// History is a self-contained, replayable test input.
type History struct {
	ID       int      `json:"id"`
	Level    string   `json:"level"` // fw | ch
	Block    int      `json:"block"`
	Named    bool     `json:"named"`
	KeySpec  []string `json:"keys"`     // class:param, see makeKey
	PaySpec  []string `json:"payloads"` // size:seed
	Steps    []Step   `json:"steps"`
	Faults   []Fault  `json:"faults,omitempty"`
	cacheK   [][]byte
	cacheP   [][]byte
	keyClass []string
}

// Fault is an injected write fault at the n-th file operation (1-based, over the whole history).
type Fault struct {
	At   int    `json:"at"`
	Mode string `json:"mode"` // err | short
}

func makeKey(spec string) ([]byte, string) {
	parts := strings.SplitN(spec, ":", 2)
	arg := ""
	if len(parts) > 1 {
		arg = parts[1]
	}
	switch parts[0] {
	case "short":
		return []byte("k" + arg), "ok"
	case "bin":
		return []byte("\x00\xff\n\"" + arg + "\x00"), "ok"
	case "utf":
		return []byte("kulcs-árvíz-" + arg), "ok"
	case "long":
		return []byte(strings.Repeat("L", 300) + arg), "ok"
	case "meta": // the engine's reserved / internal names, used as ordinary record keys
		return []byte("__swamp_meta__"), "ok"
	case "metadata":
		return []byte("__swamp_metadata__"), "ok"
	case "slash":
		return []byte("a/b/../" + arg + "/"), "ok"
	case "nul":
		return []byte("k\x00" + arg + "\x00"), "ok"
	case "nl":
		return []byte("line\n" + arg + "\r\n"), "ok"
	case "pfx": // keys that are prefixes of each other: kp, kpx, kpxx, ...
		n := 0
		fmt.Sscan(arg, &n)
		return []byte("kp" + strings.Repeat("x", n)), "ok"
	case "max": // exactly 65535 bytes
		return []byte(strings.Repeat("m", 65535-len(arg)) + arg), "ok"
	case "over1": // 65536 bytes: length field wraps to 0
		return []byte(strings.Repeat("o", 65536-len(arg)) + arg), "over_e"
	case "over": // 70000 printable bytes
		return []byte(strings.Repeat("p", 70000-len(arg)) + arg), "over_e"
	case "overz": // 70000 zero bytes: the wrapped entry parses as a 4464-byte key with no data
		return make([]byte, 70000), "over_a"
	case "empty":
		return []byte{}, "empty"
	}
	panic("bad key spec " + spec)
}

func makePayload(spec string) []byte {
	var size int
	var seed int64
	fmt.Sscanf(spec, "%d:%d", &size, &seed)
	b := make([]byte, size)
	r := rand.New(rand.NewSource(seed))
	if seed%2 == 0 { // compressible
		for i := range b {
			b[i] = byte('a' + (i/7+int(seed))%5)
		}
	} else {
		r.Read(b)
	}
	if size >= 8 { // make payloads of equal size distinct
		copy(b, fmt.Sprintf("%08x", seed))
	}
	return b
}

func (h *History) prepare() {
	h.cacheK, h.cacheP, h.keyClass = nil, nil, nil
	for _, s := range h.KeySpec {
		k, c := makeKey(s)
		h.cacheK = append(h.cacheK, k)
		h.keyClass = append(h.keyClass, c)
	}
	for _, s := range h.PaySpec {
		h.cacheP = append(h.cacheP, makePayload(s))
	}
}

// ---------------------------------------------------------------- generation

func genHistory(r *rand.Rand, id int, level string, cfg *Config) *History {
	h := &History{ID: id, Level: level}
	blocks := []int{64, 1024, 16 * 1024, 1 << 20}
	h.Block = blocks[r.Intn(len(blocks))]
	h.Named = r.Intn(2) == 0
	if level == "ch" {
		h.Named = true // the server always creates named files
	}
	okClasses := []string{"short", "short", "bin", "utf", "long", "max", "meta", "metadata", "slash", "nul", "nl", "pfx", "pfx"}
	nk := 2 + r.Intn(3)
	used := map[string]bool{}
	for i := 0; i < nk; i++ {
		c := okClasses[r.Intn(len(okClasses))]
		for (c == "meta" || c == "metadata") && used[c] { // these have one concrete key each
			c = okClasses[r.Intn(len(okClasses))]
		}
		used[c] = true
		h.KeySpec = append(h.KeySpec, fmt.Sprintf("%s:%d", c, i))
	}
	if r.Intn(100) < cfg.Bad {
		bad := []string{"over1", "over", "empty"}
		if level == "fw" {
			bad = append(bad, "overz")
		}
		h.KeySpec = append(h.KeySpec, bad[r.Intn(len(bad))]+":x")
	}
	sizes := []int{0, 1, 9, 100, 700, 5000, 70000}
	if level == "ch" {
		sizes = sizes[1:] // typed zero values are C05's business
	}
	np := 3 + r.Intn(3)
	for i := 0; i < np; i++ {
		sz := sizes[r.Intn(len(sizes))]
		if cfg.Big && r.Intn(6) == 0 {
			sz = 1<<20 + r.Intn(2<<20)
		}
		h.PaySpec = append(h.PaySpec, fmt.Sprintf("%d:%d", sz, r.Int63n(1<<30)))
	}
	n := 4 + r.Intn(cfg.MaxOps)
	open := false
	for i := 0; i < n; i++ {
		if !open {
			h.Steps = append(h.Steps, Step{Ev: "open"})
			open = true
			continue
		}
		switch x := r.Intn(20); {
		case x < 11:
			op := "ins"
			if r.Intn(2) == 0 {
				op = "upd"
			}
			h.Steps = append(h.Steps, Step{Ev: "put", Op: op, K: 1 + r.Intn(len(h.KeySpec)), P: 1 + r.Intn(np)})
		case x < 14:
			h.Steps = append(h.Steps, Step{Ev: "put", Op: "del", K: 1 + r.Intn(len(h.KeySpec))})
		case x < 15:
			if level == "fw" {
				h.Steps = append(h.Steps, Step{Ev: "flush"})
			} else {
				h.Steps = append(h.Steps, Step{Ev: "sync"})
			}
		case x < 17:
			h.Steps = append(h.Steps, Step{Ev: "sync"})
		case x < 19:
			h.Steps = append(h.Steps, Step{Ev: "close", Same: level == "ch" && r.Intn(2) == 0})
			open = false
		default:
			h.Steps = append(h.Steps, Step{Ev: "load"})
		}
		if r.Intn(4) == 0 {
			h.Steps = append(h.Steps, Step{Ev: "load"})
		}
	}
	if open {
		h.Steps = append(h.Steps, Step{Ev: "close"})
	}
	h.Steps = append(h.Steps, Step{Ev: "load"})
	return h
}

// genCompact: 2 keys rewritten until the file holds 100 entries: the Write that reaches 100 entries closes the
// writer and compacts the file through a temporary file and a rename (chronicler_v2.go maybeCompactInline).
func genCompact(r *rand.Rand, id int) *History {
	h := &History{ID: id, Level: "ch", Block: 16 * 1024, Named: true, KeySpec: []string{"short:a", "bin:b"},
		PaySpec: []string{"40:1", "90:2", "9:3"}}
	h.Steps = append(h.Steps, Step{Ev: "open"})
	syncAt := 20 + r.Intn(60)
	for i := 0; i < 100; i++ {
		h.Steps = append(h.Steps, Step{Ev: "put", Op: "upd", K: 1 + i%2, P: 1 + r.Intn(3)})
		if i == syncAt {
			h.Steps = append(h.Steps, Step{Ev: "sync"})
		}
	}
	h.Steps = append(h.Steps, Step{Ev: "load"})
	return h
}

// all histories of `n` writes over 2 keys x 2 payloads (ins/del), with every placement of
// nothing / sync / close+reopen between them; a load after every step
var smallKeys = [][]string{{"short:a", "bin:b"}, {"meta:", "metadata:"}, {"pfx:0", "pfx:1"}}

func genSmall(level string, n int, reduced bool, keyset int, emit func(*History)) {
	type w struct {
		op   string
		k, p int
	}
	alpha := []w{{"ins", 1, 1}, {"ins", 1, 2}, {"ins", 2, 1}, {"ins", 2, 2}, {"del", 1, 0}, {"del", 2, 0}}
	seps := []string{"", "sync", "reopen"}
	if level == "ch" {
		seps = append(seps, "reopen-same")
	}
	id := 0
	var rec func(steps []Step, left int)
	rec = func(steps []Step, left int) {
		if left == 0 {
			id++
			s := append(append([]Step{}, steps...), Step{Ev: "close"}, Step{Ev: "load"})
			emit(&History{ID: id, Level: level, Block: 64, Named: level == "ch", KeySpec: smallKeys[keyset%len(smallKeys)],
				PaySpec: []string{"20:1", "90:2"}, Steps: s})
			return
		}
		for ai, a := range alpha {
			if reduced && left == n && ai != 0 && ai != 4 {
				continue
			}
			for _, sp := range seps {
				s := append(append([]Step{}, steps...), Step{Ev: "put", Op: a.op, K: a.k, P: a.p})
				switch sp {
				case "sync":
					s = append(s, Step{Ev: "sync"}, Step{Ev: "load"})
				case "reopen":
					s = append(s, Step{Ev: "close"}, Step{Ev: "load"}, Step{Ev: "open"})
				case "reopen-same":
					s = append(s, Step{Ev: "close", Same: true}, Step{Ev: "load"}, Step{Ev: "open"})
				}
				rec(s, left-1)
			}
		}
	}
	rec([]Step{{Ev: "open"}}, n)
}

func newRand(seed int64) *rand.Rand { return rand.New(rand.NewSource(seed)) }

func main() {
	if len(os.Args) >= 7 && os.Args[1] == "load" {
		slog.SetDefault(slog.New(slog.NewTextHandler(io.Discard, nil)))
		childMain(os.Args[2:])
		return
	}
	if len(os.Args) < 4 || os.Args[1] != "run" {
		fmt.Fprintln(os.Stderr, "usage: hydfile run <config.json> <trace.ndjson>")
		os.Exit(2)
	}
	var cfg Config
	b, err := os.ReadFile(os.Args[2])
	if err == nil {
		err = json.Unmarshal(b, &cfg)
	}
	if err != nil {
		fmt.Fprintln(os.Stderr, "config:", err)
		os.Exit(2)
	}
	if pf := os.Getenv("HYD_PROF"); pf != "" {
		f, _ := os.Create(pf)
		pprof.StartCPUProfile(f)
		defer pprof.StopCPUProfile()
	}
	slog.SetDefault(slog.New(slog.NewTextHandler(io.Discard, nil))) // the engine logs every failed load
	work := os.Getenv("VERIF_WORK")
	if work == "" {
		fmt.Fprintln(os.Stderr, "VERIF_WORK not set")
		os.Exit(2)
	}
	scratch := filepath.Join(work, fmt.Sprintf("hydfile-%d", os.Getpid()))
	os.MkdirAll(scratch, 0o755)
	defer os.RemoveAll(scratch)
	tw, err := trace.Create(os.Args[3])
	if err != nil {
		fmt.Fprintln(os.Stderr, err)
		os.Exit(2)
	}
	hw, _ := os.Create(os.Args[3] + ".hist") // the inputs, one JSON history per line (for replays)
	defer hw.Close()
	x := &Exec{scratch: scratch, tw: tw, hw: hw, cfg: &cfg}
	r := rand.New(rand.NewSource(cfg.Seed))
	levels := []string{cfg.Level}
	if cfg.Level == "both" || cfg.Level == "" {
		levels = []string{"fw", "ch"}
	}
	switch {
	case cfg.Replay != nil:
		x.runAny(cfg.Replay)
	case cfg.Mode == "small":
		for _, lv := range levels {
			base := 0
			if lv == "ch" {
				base = 500000
			}
			for n := max(1, cfg.MinOps); n <= cfg.MaxOps; n++ {
				genSmall(lv, n, cfg.Reduced, cfg.KeySet, func(h *History) {
					if cfg.Parts > 1 && h.ID%cfg.Parts != cfg.Part {
						return
					}
					h.ID += base + n*1000000
					x.runAny(h)
				})
			}
		}
	case cfg.Mode == "bulk":
		x.runBulk()
	case cfg.Compact:
		for i := 0; i < cfg.Count; i++ {
			x.runAny(genCompact(r, i+1))
		}
	default:
		for i := 0; i < cfg.Count; i++ {
			h := genHistory(r, i+1, levels[i%len(levels)], &cfg)
			if cfg.Mode == "fault" { // loads are expensive behind garbage (see crash.go); the tail has them
				steps := h.Steps[:0]
				for _, s := range h.Steps {
					if s.Ev != "load" {
						steps = append(steps, s)
					}
				}
				h.Steps = steps
			}
			x.runAny(h)
		}
	}
	if err := tw.Close(); err != nil {
		fmt.Fprintln(os.Stderr, err)
		os.Exit(2)
	}
	st, _ := json.Marshal(x.stats)
	fmt.Println(string(st))
}
