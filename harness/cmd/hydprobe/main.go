// temporary probe (removed later)
package main

import (
	"errors"
	"fmt"
	"io"
	"os"
	"path/filepath"
	"strings"

	v2 "github.com/hydraide/hydraide/app/core/hydra/swamp/chronicler/v2"
	"github.com/hydraide/hydraide/app/verifhook"
)

func load(p string) string {
	r, err := v2.NewFileReader(p)
	if err != nil {
		return "OPENERR " + err.Error()
	}
	defer r.Close()
	idx, _, err := r.LoadIndex()
	if err != nil {
		return "LOADERR " + err.Error()
	}
	s := []string{}
	for k, v := range idx {
		kk := k
		if len(kk) > 10 {
			kk = fmt.Sprintf("%q..(%d)", kk[:4], len(kk))
		}
		s = append(s, fmt.Sprintf("%s=%d", kk, len(v)))
	}
	return fmt.Sprintf("OK n=%d %v", len(idx), s)
}

func main() {
	d := os.Getenv("VERIF_WORK")
	os.MkdirAll(d, 0755)
	p := filepath.Join(d, "a.hyd")
	put := func(w *v2.FileWriter, k string, n int) error {
		return w.WriteEntry(v2.Entry{Operation: v2.OpInsert, Key: k, Data: []byte(strings.Repeat("x", n))})
	}
	// 1. oversize keys
	for _, kl := range []int{65535, 65536, 70000} {
		os.Remove(p)
		w, _ := v2.NewFileWriter(p, 1024)
		put(w, "a", 3)
		w.Sync()
		err := put(w, strings.Repeat("k", kl), 5)
		err2 := w.Close()
		fmt.Println("keylen", kl, "write err", err, err2, "->", load(p))
	}
	// zero-byte 70000 key, last in block
	os.Remove(p)
	w, _ := v2.NewFileWriter(p, 1<<20)
	put(w, "a", 3)
	put(w, strings.Repeat("\x00", 70000), 5)
	w.Close()
	fmt.Println("zero key 70000 ->", load(p))
	// empty key
	os.Remove(p)
	w, _ = v2.NewFileWriter(p, 1024)
	put(w, "a", 3)
	fmt.Println("empty key err", put(w, "", 3))
	w.Close()
	fmt.Println("empty key ->", load(p))
	// block count wrap
	os.Remove(p)
	w, _ = v2.NewFileWriter(p, 1<<20)
	for i := 0; i < 65536; i++ {
		w.WriteEntry(v2.Entry{Operation: v2.OpInsert, Key: string([]byte{byte(i>>8) + 1, byte(i) + 1}[:2]), Data: nil})
	}
	fmt.Println("buffered", w.BufferCount())
	w.Close()
	r := load(p)
	if len(r) > 60 {
		r = r[:60]
	}
	fmt.Println("65536 entries one block ->", r)
	// torn tail
	os.Remove(p)
	w, _ = v2.NewFileWriter(p, 1024)
	put(w, "a", 3)
	w.Sync()
	put(w, "b", 30)
	w.Sync()
	w.Close()
	full, _ := os.ReadFile(p)
	fmt.Println("full len", len(full), load(p))
	for _, cut := range []int{len(full) - 1, len(full) - 10, 64 + 16 + 16 + 5, 64 + 16 + 16 + 16, 64 + 16 + 16 + 17, 64 + 16 + 16 + 16 + 1, 63, 0} {
		q := filepath.Join(d, "t.hyd")
		os.WriteFile(q, full[:cut], 0644)
		res := load(q)
		w2, err := v2.NewFileWriter(q, 1024)
		after := ""
		if err != nil {
			after = "WRITER OPEN ERR " + err.Error()
		} else {
			put(w2, "c", 4)
			e := w2.Close()
			after = fmt.Sprint("close err ", e, " -> ", load(q))
		}
		fmt.Println("cut", cut, ":", res, "| after append:", after)
	}
	// header-rewrite fault
	os.Remove(p)
	w, _ = v2.NewFileWriter(p, 1024)
	put(w, "a", 3)
	w.Sync()
	n := 0
	verifhook.SetFileOp(func(kind string, f *os.File, path string, data []byte) error {
		if kind == "write" && len(data) == 64 {
			n++
			if n == 1 {
				pos, _ := f.Seek(0, io.SeekCurrent)
				fmt.Println("  injecting error at header rewrite, pos", pos)
				return errors.New("EIO")
			}
		}
		return nil
	})
	put(w, "b", 30)
	fmt.Println("flush err", w.Flush())
	put(w, "c", 30)
	fmt.Println("flush2 err", w.Flush())
	fmt.Println("close err", w.Close())
	verifhook.SetFileOp(nil)
	fmt.Println("after hdr fault ->", load(p))
}
