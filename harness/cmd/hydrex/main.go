// Driver for Hydrex (C27): binds spec/Hydrex.tla to sdk/go/hydraidego/hydrex, running on the real Go SDK
// (hydraidego.New) against the in-process gRPC server of harness/rig.
//
//	hydrex run <seqs.json> <trace.ndjson>
//
// seqs.json: [{"id":N,"indexes":["i1",..],"domains":["d1",..],"keys":["k1",..],
//
//	"ops":[{"op":"save","i":"i1","d":"d1","items":[["k1","v1"],..]},{"op":"destroy","i":"i1","d":"d1"}]}]
//
// Every sequence works on its own index names (the abstract name prefixed with the sequence id), so it
// starts from empty swamps. After EVERY call the driver reads GetCoreData for every (index, domain) and
// GetIndexData for every (index, key) of the sequence and logs call + observation as one ndjson line in
// the vocabulary of spec/Trace_Hydrex.tla. A panic of the code under test is logged as a "panic" line.
package main

import (
	"context"
	"encoding/json"
	"fmt"
	"io"
	"log/slog"
	"os"
	"sort"
	"time"

	"github.com/hydraide/hydraide/sdk/go/hydraidego/v3"
	"github.com/hydraide/hydraide/sdk/go/hydraidego/v3/hydrex"

	"verifharness/rig"
	"verifharness/trace"
)

type op struct {
	Op    string      `json:"op"`
	I     string      `json:"i"`
	D     string      `json:"d"`
	Items [][2]string `json:"items,omitempty"`
}

type seq struct {
	ID      int      `json:"id"`
	Indexes []string `json:"indexes"`
	Domains []string `json:"domains"`
	Keys    []string `json:"keys"`
	Ops     []op     `json:"ops"`
}

func realIndex(s seq, i string) string { return fmt.Sprintf("s%dx%s", s.ID, i) }

func observe(ctx context.Context, hx hydrex.Hydrex, s seq) (core []map[string]any, rev []map[string]any) {
	core = []map[string]any{}
	rev = []map[string]any{}
	for _, i := range s.Indexes {
		for _, d := range s.Domains {
			kv := [][2]string{}
			for _, c := range hx.GetCoreData(ctx, realIndex(s, i), d) {
				kv = append(kv, [2]string{c.Key, c.Value})
			}
			sort.Slice(kv, func(a, b int) bool { return kv[a][0]+"\x00"+kv[a][1] < kv[b][0]+"\x00"+kv[b][1] })
			core = append(core, map[string]any{"i": i, "d": d, "kv": kv})
		}
		for _, k := range s.Keys {
			doms := []string{}
			for _, x := range hx.GetIndexData(ctx, realIndex(s, i), k) {
				doms = append(doms, x.Domain)
			}
			sort.Strings(doms)
			rev = append(rev, map[string]any{"i": i, "k": k, "doms": doms})
		}
	}
	return core, rev
}

func runSeq(hx hydrex.Hydrex, s seq, w *trace.Writer) {
	w.Emit(map[string]any{"ev": "reset", "seq": s.ID})
	step := 0
	defer func() {
		if r := recover(); r != nil {
			w.Emit(map[string]any{"ev": "panic", "seq": s.ID, "step": step, "what": fmt.Sprint(r)})
		}
	}()
	for n, o := range s.Ops {
		step = n
		ctx, cancel := context.WithTimeout(context.Background(), 120*time.Second)
		switch o.Op {
		case "save":
			items := map[string]*hydrex.CoreData{}
			for _, it := range o.Items {
				items[it[0]] = &hydrex.CoreData{Key: it[0], Value: it[1], CreatedAt: time.Now()}
			}
			hx.Save(ctx, realIndex(s, o.I), o.D, items)
		case "destroy":
			hx.Destroy(ctx, realIndex(s, o.I), o.D)
		default:
			panic("unknown op " + o.Op)
		}
		core, rev := observe(ctx, hx, s)
		timedOut := ctx.Err() != nil
		cancel()
		if timedOut {
			// an infrastructure problem, never a verdict
			fmt.Fprintf(os.Stderr, "sequence %d step %d: context deadline exceeded\n", s.ID, n)
			os.Exit(3)
		}
		items := o.Items
		if items == nil {
			items = [][2]string{}
		}
		w.Emit(map[string]any{"ev": o.Op, "seq": s.ID, "i": o.I, "d": o.D, "items": items, "core": core, "rev": rev})
	}
}

func main() {
	if len(os.Args) != 4 || os.Args[1] != "run" {
		fmt.Fprintln(os.Stderr, "usage: hydrex run <seqs.json> <trace.ndjson>")
		os.Exit(64)
	}
	slog.SetDefault(slog.New(slog.NewTextHandler(io.Discard, nil)))
	data, err := os.ReadFile(os.Args[2])
	if err != nil {
		panic(err)
	}
	var seqs []seq
	if err := json.Unmarshal(data, &seqs); err != nil {
		panic(err)
	}
	r := rig.New(rig.Options{})
	defer os.RemoveAll(r.Root)
	sdk := hydraidego.New(r.SDKClient())
	hx := hydrex.New(sdk)
	w, err := trace.Create(os.Args[3])
	if err != nil {
		panic(err)
	}
	t0 := time.Now()
	for _, s := range seqs {
		runSeq(hx, s, w)
	}
	if err := w.Close(); err != nil {
		panic(err)
	}
	fmt.Fprintf(os.Stderr, "ran %d sequences in %.1fs\n", len(seqs), time.Since(t0).Seconds())
	r.Stop()
	os.RemoveAll(r.Root)
}
