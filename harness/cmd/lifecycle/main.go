// Driver for the swamp lifecycle (C16): binds spec/Lifecycle.tla to the real Gateway / Hydra / swamp.
//
//	lifecycle replaymany <schedules.json> <results.ndjson> <parallel>   one child process per schedule (binding B)
//	lifecycle replay <schedule.json> <result.json>                      step one TLC behaviour through the real code
//	lifecycle stress <trace.ndjson> <rounds> <swamps>                   churn stress, acknowledged-write log vs reload (binding A)
//	lifecycle reload <root> <swamp> <key>...                            open the data directory afresh and print the keys
//
// The scheduler never sleeps to synchronise: every model process is a real goroutine that is parked at a
// verifhook.Yield gate in swamp.go; one model step = release exactly that goroutine and wait until it is
// parked at its next gate, has returned, or is provably blocked (goroutine wait state).
package main

import (
	"context"
	"encoding/json"
	"fmt"
	"os"
	"os/exec"
	"path/filepath"
	"strconv"
	"strings"
	"sync"
	"sync/atomic"
	"time"

	"github.com/hydraide/hydraide/app/core/hydra"
	"github.com/hydraide/hydraide/app/core/hydra/swamp"
	"github.com/hydraide/hydraide/app/core/settings"
	"github.com/hydraide/hydraide/app/verifhook"
	hydrapb "github.com/hydraide/hydraide/sdk/go/hydraidego/v3/hydraidepbgo"

	"verifharness/rig"
	"verifharness/sched"
)

const (
	island      = 1
	stepTimeout = 120 * time.Second // generous: the machine may be heavily loaded; a timeout is "infra", never a verdict
)

// ---------------------------------------------------------------------------------------------
// schedule as exported by spec/Sim_Lifecycle.tla

type opRec struct {
	Op string `json:"op"`
	K  string `json:"k"`
}
type instState struct {
	Alive     bool     `json:"alive"`
	Closing   int      `json:"closing"`
	Vigils    int      `json:"vigils"`
	Cancelled bool     `json:"cancelled"`
	Dead      bool     `json:"dead"`
	Idle      bool     `json:"idle"`
	Mem       []string `json:"mem"`
	Wait      []string `json:"wait"`
}
type projState struct {
	Map   int               `json:"map"`
	Shut  bool              `json:"shut"`
	File  map[string]string `json:"file"`
	Inst  []instState       `json:"inst"`
	PC    map[string]string `json:"pc"`
	Ref   map[string]int    `json:"ref"`
	LP    []string          `json:"lp"`
	WP    []string          `json:"wp"`
	SP    string            `json:"sp"`
	LIdle []bool            `json:"lidle"`
	Res   map[string]string `json:"res"`
	Used  []string          `json:"used"`
}
type step struct {
	A  string    `json:"a"`
	P  string    `json:"p"`
	I  int       `json:"i"`
	O  opRec     `json:"o"`
	St projState `json:"st"`
}
type schedule struct {
	ID       string            `json:"id"`
	Hist     []step            `json:"hist"`
	Durable  bool              `json:"durable"`
	Used     []string          `json:"used"`
	File     map[string]string `json:"file"`
	InitKeys []string          `json:"initkeys"`
	Probe    *probeRec         `json:"probe,omitempty"`
}

// probeRec: after the last step the specification does not allow this step; the real code must block.
//
//	kind "summon": request R (not called yet) calls Op: SummonSwamp must wait for the closing swamp
//	kind "drain":  request R stands before Destroy's vigil drain: it must wait for the active vigils
type probeRec struct {
	Kind string `json:"kind"`
	R    string `json:"r"`
	Op   opRec  `json:"op"`
}

type result struct {
	ID        string            `json:"id"`
	Completed bool              `json:"completed"`          // every step was taken as the model said
	Mismatch  string            `json:"mismatch,omitempty"` // the real code did something the schedule did not predict
	AtStep    int               `json:"at_step"`
	Infra     string            `json:"infra,omitempty"` // harness problem (timeout etc.): inconclusive, never a verdict
	Observed  map[string]string `json:"observed"`        // reloaded state
	Predicted map[string]string `json:"predicted"`
	Events    []map[string]any  `json:"events"` // acknowledged-operation log + reload, for TLC (Trace_Lifecycle)
	Log       []string          `json:"log,omitempty"`
	WallMs    int64             `json:"wall_ms"`
}

// ---------------------------------------------------------------------------------------------
// gate scheduler

type proc struct {
	name    string
	kind    byte // 'R' request, 'L' close listener, 'W' write ticker, 'S' stopper
	inst    int
	goid    int64
	at      string // gate the goroutine is parked at ("" = running)
	atInst  int
	args    []any
	passTo  string // pass through every gate until this one (used to dispose of a listener tick)
	release chan struct{}
	done    atomic.Bool
	ret     string // request result
}

type world struct {
	mu          sync.Mutex
	swampName   string
	free        atomic.Bool
	byGoid      map[int64]*proc
	procs       map[string]*proc
	insts       []any // instance pointers in order of first appearance (index+1 = model instance number)
	seeding     atomic.Bool
	ignore      []any // instances created while the initial records were written (setup, not under test)
	stopStarted bool
	log         []string
}

var w *world

var stopPoints = map[byte]map[string]bool{
	'R': {"swamp.isclosing.ret": true, "swamp.create.enter": true, "swamp.delete.enter": true, "swamp.shiftkeys.enter": true,
		"swamp.autodestroy.check": true, "swamp.autodestroy.decided": true, "swamp.destroy.enter": true,
		"swamp.destroy.drain": true, "swamp.destroy.drained": true},
	'L': {"swamp.closelistener.read": true, "swamp.closelistener.check": true, "swamp.close.enter": true, "swamp.close.flagged": true,
		"swamp.writer.collected": true, "swamp.writer.deleted": true, "swamp.close.flushed": true},
	'W': {"swamp.writelistener.tick": true, "swamp.writelistener.check": true, "swamp.writer.collect": true,
		"swamp.writer.collected": true, "swamp.writer.deleted": true},
	'S': {"swamp.close.enter": true, "swamp.close.flagged": true, "swamp.writer.collected": true, "swamp.writer.deleted": true,
		"swamp.close.flushed": true},
}

func (w *world) instOf(p any) int {
	for i, q := range w.insts {
		if q == p {
			return i + 1
		}
	}
	w.insts = append(w.insts, p)
	return len(w.insts)
}

func (w *world) logf(f string, a ...any) {
	w.log = append(w.log, fmt.Sprintf(f, a...))
}

func (w *world) onYield(point string, args ...any) {
	if w.free.Load() || len(args) < 2 || !strings.HasPrefix(point, "swamp.") {
		return // gates of other packages (hydra.summon.* of C18) are not part of this model
	}
	nm, _ := args[0].(string)
	if nm != w.swampName {
		return
	}
	gid := sched.GoID()
	w.mu.Lock()
	for _, x := range w.ignore {
		if x == args[1] {
			w.mu.Unlock()
			return
		}
	}
	if w.seeding.Load() {
		w.ignore = append(w.ignore, args[1])
		w.mu.Unlock()
		return
	}
	inst := w.instOf(args[1])
	p := w.byGoid[gid]
	if p == nil {
		switch {
		case strings.HasPrefix(point, "swamp.closelistener."):
			p = &proc{name: "L" + strconv.Itoa(inst), kind: 'L', inst: inst, goid: gid, release: make(chan struct{}, 1)}
		case strings.HasPrefix(point, "swamp.writelistener."):
			p = &proc{name: "W" + strconv.Itoa(inst), kind: 'W', inst: inst, goid: gid, release: make(chan struct{}, 1)}
		case point == "swamp.close.enter" && w.stopStarted:
			p = &proc{name: "S", kind: 'S', inst: inst, goid: gid, release: make(chan struct{}, 1)}
		default:
			w.mu.Unlock()
			return
		}
		w.byGoid[gid] = p
		w.procs[p.name] = p
	}
	if p.passTo != "" {
		if p.passTo != point {
			w.mu.Unlock()
			return
		}
		p.passTo = ""
	}
	if !stopPoints[p.kind][point] {
		w.mu.Unlock()
		return
	}
	p.at, p.atInst, p.args = point, inst, args
	w.mu.Unlock()
	<-p.release
	if w.free.Load() {
		return
	}
	w.mu.Lock()
	p.at = ""
	w.mu.Unlock()
}

func (w *world) getProc(name string) *proc {
	w.mu.Lock()
	defer w.mu.Unlock()
	return w.procs[name]
}

func (w *world) where(p *proc) (string, int) {
	w.mu.Lock()
	defer w.mu.Unlock()
	return p.at, p.atInst
}

// letGo releases p from the gate it is parked at.
func (w *world) letGo(p *proc) {
	w.mu.Lock()
	parked := p.at != ""
	if parked {
		p.at = ""
	}
	w.mu.Unlock()
	if parked {
		p.release <- struct{}{}
	}
}

var idleStates = []string{"select", "chan receive", "sleep"}

// waitNext waits until p is parked at a gate ("gate:<point>"), has finished ("done"), or - only if acceptIdle -
// is parked in its ticker select / has exited ("idle").  "timeout" otherwise.
func (w *world) waitNext(p *proc, acceptIdle bool, d time.Duration) string {
	deadline := time.Now().Add(d)
	seen := 0
	for {
		if at, _ := w.where(p); at != "" {
			return "gate:" + at
		}
		if p.done.Load() {
			return "done"
		}
		if acceptIdle {
			s := sched.State(p.goid)
			ok := s == ""
			for _, r := range idleStates {
				if s == r {
					ok = true
				}
			}
			if ok {
				seen++
				if at, _ := w.where(p); seen >= 3 && at == "" {
					return "idle"
				}
			} else {
				seen = 0
			}
		}
		if time.Now().After(deadline) {
			return "timeout"
		}
		time.Sleep(200 * time.Microsecond)
	}
}

// waitBlocked waits until p is provably parked for one of the reasons ("blocked"), or reaches a gate / finishes.
func (w *world) waitBlocked(p *proc, reasons []string, d time.Duration) string {
	deadline := time.Now().Add(d)
	seen := 0
	for {
		if at, _ := w.where(p); at != "" {
			return "gate:" + at
		}
		if p.done.Load() {
			return "done"
		}
		s := sched.State(p.goid)
		ok := false
		for _, r := range reasons {
			if s == r {
				ok = true
			}
		}
		if ok {
			seen++
			if at, _ := w.where(p); seen >= 5 && at == "" && !p.done.Load() {
				return "blocked"
			}
		} else {
			seen = 0
		}
		if time.Now().After(deadline) {
			return "timeout"
		}
		time.Sleep(300 * time.Microsecond)
	}
}

// waitProcAt waits until the named process exists and is parked at the given gate.
func (w *world) waitProcAt(name, point string, d time.Duration) *proc {
	deadline := time.Now().Add(d)
	for {
		if p := w.getProc(name); p != nil {
			if at, _ := w.where(p); at == point {
				return p
			}
		}
		if time.Now().After(deadline) {
			return nil
		}
		time.Sleep(500 * time.Microsecond)
	}
}

// ---------------------------------------------------------------------------------------------
// requests

type env struct {
	r     *rig.Rig
	hy    hydra.Hydra
	swamp string
}

func newEnv(root string) *env {
	r := rig.New(rig.Options{Root: root, CloseAfterIdle: 1, WriteInterval: 1})
	if err := r.Settings.SetEngine(settings.EngineV2); err != nil {
		panic(err)
	}
	// write-behind swamps (1 s tick, 1 s idle close) under lc/*, immediate-write swamps under lci/*, in-memory under lcm/*
	r.Register("lc", "*", "*", false, 1, 1)
	r.Register("lci", "*", "*", false, 1, 0)
	r.Register("lcm", "*", "*", true, 1, 0)
	return &env{r: r, hy: r.Zeus.GetHydra()}
}

func (e *env) doOp(o opRec, val string, swampName string) (res string) {
	defer func() {
		if x := recover(); x != nil {
			res = "panic:" + fmt.Sprint(x)
		}
	}()
	ctx := context.Background()
	switch o.Op {
	case "set":
		v := val
		req := &hydrapb.SetRequest{Swamps: []*hydrapb.SwampRequest{{IslandID: island, SwampName: swampName, CreateIfNotExist: true, Overwrite: true,
			KeyValues: []*hydrapb.KeyValuePair{{Key: o.K, StringVal: &v}}}}}
		resp, err := e.r.GW.Set(ctx, rig.Wire(req))
		if err != nil || resp == nil {
			return "rejected"
		}
		for _, s := range resp.GetSwamps() {
			if s.ErrorCode != nil {
				return "rejected"
			}
			for _, ks := range s.GetKeysAndStatuses() {
				switch ks.GetStatus() {
				case hydrapb.Status_NEW, hydrapb.Status_UPDATED, hydrapb.Status_NOTHING_CHANGED:
					return "ok"
				}
				return "rejected"
			}
		}
		return "rejected"
	case "del":
		req := &hydrapb.DeleteRequest{Swamps: []*hydrapb.DeleteRequest_SwampKeys{{IslandID: island, SwampName: swampName, Keys: []string{o.K}}}}
		resp, err := e.r.GW.Delete(ctx, rig.Wire(req))
		if err != nil || resp == nil {
			return "rejected"
		}
		for _, s := range resp.GetResponses() {
			if s.ErrorCode != nil {
				return "noswamp"
			}
			for _, ks := range s.GetKeyStatuses() {
				if ks.GetStatus() == hydrapb.Status_DELETED {
					return "ok"
				}
				return "notfound"
			}
		}
		return "noswamp"
	case "shift":
		req := &hydrapb.ShiftByKeysRequest{IslandID: island, SwampName: swampName, Keys: []string{o.K}}
		resp, err := e.r.GW.ShiftByKeys(ctx, rig.Wire(req))
		if err != nil || resp == nil {
			if err != nil && strings.Contains(err.Error(), "shutting down") {
				return "rejected"
			}
			if err != nil && (strings.Contains(strings.ToLower(err.Error()), "not exist") || strings.Contains(strings.ToLower(err.Error()), "not found")) {
				return "noswamp"
			}
			return "rejected"
		}
		if len(resp.GetTreasures()) > 0 {
			return "ok"
		}
		return "notfound"
	case "destroy":
		req := &hydrapb.DestroyRequest{IslandID: island, SwampName: swampName}
		_, err := e.r.GW.Destroy(ctx, rig.Wire(req))
		if err != nil {
			return "rejected"
		}
		return "ok"
	}
	return "rejected"
}

// readKeys re-summons the swamp through the gateway and returns key -> value ("absent" if missing).
func (e *env) readKeys(swampName string, keys []string) (map[string]string, error) {
	out := map[string]string{}
	for _, k := range keys {
		out[k] = "absent"
	}
	dummy := rig.SwampName("lcx", "no", "such")
	req := &hydrapb.GetRequest{Swamps: []*hydrapb.GetSwamp{{IslandID: island, SwampName: swampName, Keys: keys}, {IslandID: island, SwampName: dummy, Keys: keys}}}
	resp, err := e.r.GW.Get(context.Background(), rig.Wire(req))
	if err != nil {
		return nil, err
	}
	if resp == nil {
		return nil, fmt.Errorf("empty Get response")
	}
	for _, s := range resp.GetSwamps() {
		if s.GetSwampName() != swampName || !s.GetIsExist() {
			continue
		}
		for _, t := range s.GetTreasures() {
			if t.GetIsExist() {
				out[t.GetKey()] = t.GetStringVal()
			}
		}
	}
	return out, nil
}

func activeSwamp(hy hydra.Hydra, swampName string) bool {
	for _, n := range hy.ListActiveSwamps() {
		if n == swampName {
			return true
		}
	}
	return false
}

func waitClosed(hy hydra.Hydra, swampName string, d time.Duration) bool {
	deadline := time.Now().Add(d)
	for activeSwamp(hy, swampName) {
		if time.Now().After(deadline) {
			return false
		}
		time.Sleep(20 * time.Millisecond)
	}
	return true
}

type seedLoss struct{ obs map[string]string }

func (s *seedLoss) Error() string { return fmt.Sprintf("seeded records read %v after idle close and re-open", s.obs) }

// seed writes the initial keys with value v0, lets the swamp idle out (the close listener holds closeWriteMutex, so
// this close cannot overtake a write tick the way an explicit Close() can: D_C16_StopCloseOvertakesWriteTick), reads
// the keys back and lets the reading instance idle out as well (setup, not under test).
func (e *env) seed(swampName string, keys []string) error {
	if len(keys) == 0 {
		return nil
	}
	for _, k := range keys {
		if r := e.doOp(opRec{Op: "set", K: k}, "v0", swampName); r != "ok" {
			return fmt.Errorf("seed set %s: %s", k, r)
		}
	}
	if !waitClosed(e.hy, swampName, stepTimeout) {
		return fmt.Errorf("seed: swamp did not idle-close")
	}
	got, err := e.readKeys(swampName, keys)
	if err != nil {
		return err
	}
	for _, k := range keys {
		if got[k] != "v0" {
			return &seedLoss{obs: got} // an acknowledged write that does not survive idle close + re-open: a verdict, not a harness problem
		}
	}
	if !waitClosed(e.hy, swampName, stepTimeout) {
		return fmt.Errorf("seed: swamp did not idle-close (2)")
	}
	return nil
}

// goroutinesGone waits until none of the goroutines exists any more (tickers / listeners of closed instances return
// at their next select): the quiescence the specification's Terminal state demands before the re-open.
func goroutinesGone(ids []int64, d time.Duration) bool {
	deadline := time.Now().Add(d)
	for {
		st := sched.States()
		alive := false
		for _, id := range ids {
			if _, ok := st[id]; ok {
				alive = true
			}
		}
		if !alive {
			return true
		}
		if time.Now().After(deadline) {
			return false
		}
		time.Sleep(20 * time.Millisecond)
	}
}

// ---------------------------------------------------------------------------------------------
// replay of one schedule

var reqGate = map[string]map[string]string{
	"set":     {"op": "swamp.create.enter"},
	"del":     {"op": "swamp.delete.enter"},
	"shift":   {"op": "swamp.shiftkeys.enter"},
	"destroy": {},
}
var pcGate = map[string]string{
	"begin": "swamp.isclosing.ret", "adcheck": "swamp.autodestroy.check", "ad_cease": "swamp.autodestroy.decided",
	"d_flag": "swamp.destroy.enter", "d_drain": "swamp.destroy.drain", "d_delete": "swamp.destroy.drained",
}
var callerGate = map[string]string{
	"lock": "swamp.closelistener.read", "check": "CHECK", "c_enter": "swamp.close.enter", "c_collect": "swamp.close.flagged",
	"collect": "swamp.writer.collect", "delete": "swamp.writer.collected", "write": "swamp.writer.deleted", "c_chron": "swamp.close.flushed",
}

func sortedKeys(m map[string]string) []string {
	out := []string{}
	for k := range m {
		out = append(out, k)
	}
	for i := range out {
		for j := i + 1; j < len(out); j++ {
			if out[j] < out[i] {
				out[i], out[j] = out[j], out[i]
			}
		}
	}
	return out
}

func replay(sc *schedule) *result {
	t0 := time.Now()
	res := &result{ID: sc.ID, Predicted: sc.File, AtStep: -1}
	root := filepath.Join(os.Getenv("VERIF_WORK"), fmt.Sprintf("lc-%d", os.Getpid()))
	if os.Getenv("VERIF_WORK") == "" {
		root = filepath.Join(os.TempDir(), fmt.Sprintf("lc-%d", os.Getpid()))
	}
	defer os.RemoveAll(root)
	e := newEnv(root)
	swampName := rig.SwampName("lc", "replay", "s")
	e.swamp = swampName
	keys := sortedKeys(sc.File)
	w = &world{swampName: swampName, byGoid: map[int64]*proc{}, procs: map[string]*proc{}}
	w.seeding.Store(true)
	verifhook.SetYield(w.onYield)
	seedErr := e.seed(swampName, sc.InitKeys)
	w.seeding.Store(false)
	for i, k := range sc.InitKeys { // the seeded records are acknowledged writes of the history too
		sn := "s" + strconv.Itoa(i+1)
		res.Events = append(res.Events, map[string]any{"ev": "call", "r": sn, "op": "set", "k": k, "v": "v0", "res": "", "file": map[string]string{}},
			map[string]any{"ev": "ret", "r": sn, "op": "set", "k": k, "v": "", "res": "ok", "file": map[string]string{}})
	}
	if sl, ok := seedErr.(*seedLoss); ok {
		res.Mismatch = "setup: " + sl.Error()
		res.AtStep = 0
		res.Observed = sl.obs
		res.Events = append(res.Events, map[string]any{"ev": "reload", "r": "", "op": "", "k": "", "v": "", "res": "", "file": fullFile(sl.obs)})
		w.free.Store(true)
		return res
	} else if seedErr != nil {
		res.Infra = "seed: " + seedErr.Error()
		return res
	}
	var evMu sync.Mutex
	emit := func(m map[string]any) {
		evMu.Lock()
		res.Events = append(res.Events, m)
		evMu.Unlock()
	}
	stopDone := make(chan struct{})
	stopped := false
	var wg sync.WaitGroup

	mismatch := func(k int, f string, a ...any) {
		if res.Mismatch == "" && res.Infra == "" {
			res.Mismatch = fmt.Sprintf(f, a...)
			res.AtStep = k
		}
	}
	infra := func(k int, f string, a ...any) {
		if res.Mismatch == "" && res.Infra == "" {
			res.Infra = fmt.Sprintf(f, a...)
			res.AtStep = k
		}
	}
	// expect: outcome of waitNext vs what the model says
	expectGate := func(k int, p *proc, got, want string, wantInst int) {
		if got == "timeout" {
			infra(k, "%s neither reached a gate nor finished (state %q), expected %s", p.name, sched.State(p.goid), want)
			return
		}
		if got != want {
			mismatch(k, "%s: model expects %s, real code is at %s", p.name, want, got)
			return
		}
		if strings.HasPrefix(got, "gate:") && wantInst > 0 {
			if _, in := w.where(p); in != wantInst {
				mismatch(k, "%s: model expects instance %d, real code works on instance %d", p.name, wantInst, in)
			}
		}
	}
	swampOf := func(i int) swamp.Swamp {
		w.mu.Lock()
		defer w.mu.Unlock()
		if i < 1 || i > len(w.insts) {
			return nil
		}
		s, _ := w.insts[i-1].(swamp.Swamp)
		return s
	}

	pendingRead := map[string]bool{}
	hasPending := map[string]bool{}
	for k := range sc.Hist {
		s := &sc.Hist[k]
		if res.Mismatch != "" || res.Infra != "" {
			break
		}
		st := &s.St
		switch {
		case s.A == "TimePasses":
			// nothing to do: real time passes by itself; the listener's reading is awaited at LRead
		case s.A == "RSummon":
			p := &proc{name: s.P, kind: 'R', release: make(chan struct{}, 1)}
			ready := make(chan struct{})
			o := s.O
			wg.Add(1)
			go func() {
				defer wg.Done()
				p.goid = sched.GoID()
				w.mu.Lock()
				w.byGoid[p.goid] = p
				w.procs[p.name] = p
				w.mu.Unlock()
				close(ready)
				emit(map[string]any{"ev": "call", "r": p.name, "op": o.Op, "k": o.K, "v": p.name, "res": "", "file": map[string]string{}})
				p.ret = e.doOp(o, p.name, swampName)
				emit(map[string]any{"ev": "ret", "r": p.name, "op": o.Op, "k": o.K, "v": "", "res": p.ret, "file": map[string]string{}})
				p.done.Store(true)
			}()
			<-ready
			want := "done"
			switch pc := st.PC[s.P]; pc {
			case "done":
			case "op":
				want = "gate:" + reqGate[o.Op]["op"]
			default:
				want = "gate:" + pcGate[pc]
			}
			expectGate(k, p, w.waitNext(p, false, stepTimeout), want, st.Ref[s.P])
		case s.A[0] == 'R':
			p := w.getProc(s.P)
			if p == nil {
				infra(k, "no process %s", s.P)
				break
			}
			w.letGo(p)
			want := "done"
			switch pc := st.PC[s.P]; pc {
			case "done":
			case "op":
				want = "gate:" + reqGate[opOf(sc, s.P).Op]["op"]
			default:
				want = "gate:" + pcGate[pc]
			}
			expectGate(k, p, w.waitNext(p, false, stepTimeout), want, st.Ref[s.P])
		case s.A == "LRead":
			// The listener is parked at the gate behind its read of lastInteractionTime.  If that reading is what the
			// model reads here, this is the model's read (possibly stale later: exactly what is wanted).  Otherwise
			// the tick is replaced by one with the wanted reading when the listener takes the lock (LLock): a tick
			// cannot be disposed of while the write ticker holds closeWriteMutex.
			lname := "L" + strconv.Itoa(s.I)
			want := st.LIdle[s.I-1]
			p := w.waitProcAt(lname, "swamp.closelistener.read", stepTimeout)
			if p == nil {
				infra(k, "listener of instance %d never ticked", s.I)
				break
			}
			w.mu.Lock()
			reading, _ := p.args[2].(bool)
			w.mu.Unlock()
			if reading != want {
				pendingRead[lname] = want
				hasPending[lname] = true
			}
		case s.A == "LLock":
			lname := "L" + strconv.Itoa(s.I)
			p := w.getProc(lname)
			if p == nil {
				infra(k, "no process %s", lname)
				break
			}
			if hasPending[lname] && st.Inst[s.I-1].Closing == 1 {
				hasPending[lname] = false // the flag is up for good: the check fails whatever the reading is
			}
			if hasPending[lname] {
				hasPending[lname] = false
				if why := ensureReading(s.I, pendingRead[lname], swampOf(s.I)); why != "" {
					infra(k, "%s", why)
					break
				}
			}
			w.letGo(p)
			expectGate(k, p, w.waitNext(p, false, stepTimeout), "gate:swamp.closelistener.check", s.I)
		case s.A == "WLock":
			p := w.waitProcAt("W"+strconv.Itoa(s.I), "swamp.writelistener.tick", stepTimeout)
			if p == nil {
				infra(k, "write ticker of instance %d never ticked", s.I)
				break
			}
			w.letGo(p)
			expectGate(k, p, w.waitNext(p, false, stepTimeout), "gate:swamp.writelistener.check", s.I)
		case s.A == "SMark":
			e.hy.MarkShuttingDown()
		case s.A == "SClose":
			w.mu.Lock()
			w.stopStarted = true
			w.mu.Unlock()
			stopped = true
			go func() {
				e.r.Zeus.StopHydra()
				close(stopDone)
			}()
			if st.SP == "done" {
				select {
				case <-stopDone:
				case <-time.After(stepTimeout):
					infra(k, "StopHydra with no open swamp did not return")
				}
			} else {
				if p := w.waitProcAt("S", "swamp.close.enter", stepTimeout); p == nil {
					infra(k, "stopper never called Close")
				} else if p.atInst != st.Map {
					mismatch(k, "stopper closes instance %d, model says %d", p.atInst, st.Map)
				}
			}
		default: // listener / ticker / stopper steps: LLock LCheck WCheck WCollect CFlag CCollect CChron FDelete FWrite
			pname := s.P
			if s.P != "S" {
				pname = s.P + strconv.Itoa(s.I)
			}
			p := w.getProc(pname)
			if p == nil {
				infra(k, "no process %s", pname)
				break
			}
			if s.A == "LCheck" && os.Getenv("VERIF_C16_FRESHCHECK") == "1" && k > 0 {
				// code under test re-reads lastInteractionTime under the lock (D_C16_IdleCloseStaleCheck repaired): make
				// the real clock agree with the model's notion of "idle" before the check runs (everything else is parked)
				if sw := swampOf(s.I); sw != nil {
					if sc.Hist[k-1].St.Inst[s.I-1].Idle {
						time.Sleep(2300 * time.Millisecond)
					} else {
						sw.TreasureExists("~verif~")
					}
				}
			}
			w.letGo(p)
			var pc string
			switch s.P {
			case "L":
				pc = st.LP[s.I-1]
			case "W":
				pc = st.WP[s.I-1]
			default:
				pc = st.SP
			}
			switch pc {
			case "idle", "done":
				got := w.waitNext(p, true, stepTimeout)
				if got == "gate:swamp.closelistener.read" || got == "gate:swamp.writelistener.tick" {
					got = "idle" // already at its next tick
				}
				if got == "done" {
					got = "idle"
				}
				if s.P == "S" {
					select {
					case <-stopDone:
					case <-time.After(stepTimeout):
						infra(k, "StopHydra did not return after Close")
					}
					got = "idle"
				}
				expectGate(k, p, got, "idle", 0)
			case "check":
				g := "gate:swamp.closelistener.check"
				if s.P == "W" {
					g = "gate:swamp.writelistener.check"
				}
				expectGate(k, p, w.waitNext(p, false, stepTimeout), g, s.I)
			default:
				expectGate(k, p, w.waitNext(p, false, stepTimeout), "gate:"+callerGate[pc], s.I)
			}
		}
		if res.Mismatch != "" || res.Infra != "" {
			break
		}
		// projected state after the step: map entry, waiting-list sizes, active vigils
		if got := activeSwamp(e.hy, swampName); got != (st.Map != 0) {
			mismatch(k, "after %s(%s): swamp in hydra map = %v, model map = %d", s.A, s.P, got, st.Map)
		}
		for i := range st.Inst {
			sw := swampOf(i + 1)
			if sw == nil || !st.Inst[i].Alive {
				continue
			}
			if n := sw.CountTreasuresWaitingForWriter(); n != len(st.Inst[i].Wait) {
				mismatch(k, "after %s(%s): instance %d has %d records waiting for the writer, model %v", s.A, s.P, i+1, n, st.Inst[i].Wait)
			}
			if v := sw.HasActiveVigils(); v != (st.Inst[i].Vigils > 0) {
				mismatch(k, "after %s(%s): instance %d HasActiveVigils=%v, model vigils=%d", s.A, s.P, i+1, v, st.Inst[i].Vigils)
			}
		}
		res.Log = append(res.Log, fmt.Sprintf("%d %s %s %d ok", k, s.A, s.P, s.I))
	}
	if sc.Probe != nil && res.Mismatch == "" && res.Infra == "" {
		k := len(sc.Hist)
		switch sc.Probe.Kind {
		case "summon":
			// the gate inside IsClosing() is passed: what matters is what SummonSwamp does with the answer
			p := &proc{name: sc.Probe.R, kind: 'R', release: make(chan struct{}, 1), passTo: reqGate[sc.Probe.Op.Op]["op"]}
			ready := make(chan struct{})
			o := sc.Probe.Op
			wg.Add(1)
			go func() {
				defer wg.Done()
				p.goid = sched.GoID()
				w.mu.Lock()
				w.byGoid[p.goid] = p
				w.procs[p.name] = p
				w.mu.Unlock()
				close(ready)
				emit(map[string]any{"ev": "call", "r": p.name, "op": o.Op, "k": o.K, "v": p.name, "res": "", "file": map[string]string{}})
				p.ret = e.doOp(o, p.name, swampName)
				emit(map[string]any{"ev": "ret", "r": p.name, "op": o.Op, "k": o.K, "v": "", "res": p.ret, "file": map[string]string{}})
				p.done.Store(true)
			}()
			<-ready
			switch got := w.waitBlocked(p, []string{"select"}, stepTimeout); got {
			case "blocked":
			case "timeout":
				infra(k, "probe: %s neither blocked nor reached a gate (state %q)", p.name, sched.State(p.goid))
			default:
				mismatch(k, "probe: the swamp is closing, SummonSwamp must wait for it to leave the map, but the request went on (%s)", got)
			}
		case "drain":
			p := w.getProc(sc.Probe.R)
			if p == nil {
				infra(k, "probe: no process %s", sc.Probe.R)
				break
			}
			w.letGo(p)
			switch got := w.waitBlocked(p, []string{"sync.Cond.Wait"}, stepTimeout); got {
			case "blocked":
			case "timeout":
				infra(k, "probe: %s neither blocked nor reached a gate (state %q)", p.name, sched.State(p.goid))
			default:
				mismatch(k, "probe: another request holds a vigil, Destroy must wait for it, but it went on (%s)", got)
			}
		}
	}
	res.Completed = res.Mismatch == "" && res.Infra == ""

	// quiesce: let everything run freely, wait for the requests, wait until the swamp has left memory
	w.free.Store(true)
	w.mu.Lock()
	for _, p := range w.procs {
		select {
		case p.release <- struct{}{}:
		default:
		}
	}
	w.mu.Unlock()
	done := make(chan struct{})
	go func() { wg.Wait(); close(done) }()
	select {
	case <-done:
	case <-time.After(stepTimeout):
		if res.Infra == "" {
			res.Infra = "requests did not return after the schedule"
		}
		res.WallMs = time.Since(t0).Milliseconds()
		return res
	}
	if !waitClosed(e.hy, swampName, stepTimeout) {
		if res.Infra == "" {
			res.Infra = "swamp still open long after the schedule (idle close did not happen)"
		}
		res.WallMs = time.Since(t0).Milliseconds()
		return res
	}
	// orphaned instances (removed from the map by name while still running) flush when they idle out
	w.mu.Lock()
	insts := append([]any{}, w.insts...)
	w.mu.Unlock()
	for _, x := range insts {
		if sw, ok := x.(swamp.Swamp); ok {
			ctx, cancel := context.WithTimeout(context.Background(), stepTimeout)
			for {
				err := sw.WaitForGracefulClose(ctx)
				if err == nil || ctx.Err() != nil {
					break
				}
				time.Sleep(50 * time.Millisecond) // "not closing yet": an orphan that will idle out
			}
			cancel()
		}
	}
	w.mu.Lock()
	var bg []int64
	for _, p := range w.procs {
		if p.kind == 'W' || p.kind == 'L' || p.kind == 'S' {
			bg = append(bg, p.goid)
		}
	}
	w.mu.Unlock()
	if !goroutinesGone(bg, stepTimeout) && res.Infra == "" {
		res.Infra = "listener / ticker goroutines of closed instances did not finish"
	}
	var obs map[string]string
	var err error
	if stopped {
		select {
		case <-stopDone:
		case <-time.After(stepTimeout):
		}
		obs, err = reloadChild(root, swampName, keys)
	} else {
		obs, err = e.readKeys(swampName, keys)
	}
	if err != nil {
		if res.Infra == "" {
			res.Infra = "reload: " + err.Error()
		}
	} else {
		res.Observed = obs
		emit(map[string]any{"ev": "reload", "r": "", "op": "", "k": "", "v": "", "res": "", "file": fullFile(obs)})
	}
	res.WallMs = time.Since(t0).Milliseconds()
	return res
}

// ensureReading makes the close listener of instance i stand at its read gate with the reading `want`:
// ticks with another reading are let through (shielded by a vigil when they would close the swamp).
func ensureReading(i int, want bool, sw swamp.Swamp) string {
	lname := "L" + strconv.Itoa(i)
	deadline := time.Now().Add(stepTimeout)
	for {
		p := w.waitProcAt(lname, "swamp.closelistener.read", stepTimeout)
		if p == nil {
			return fmt.Sprintf("listener of instance %d never ticked", i)
		}
		w.mu.Lock()
		reading, _ := p.args[2].(bool)
		w.mu.Unlock()
		if reading == want {
			return ""
		}
		if time.Now().After(deadline) {
			return fmt.Sprintf("listener of instance %d never read idle=%v", i, want)
		}
		if !want && sw != nil {
			sw.TreasureExists("~verif~") // the model says the swamp is not idle here: refresh lastInteractionTime
		}
		// (code that re-reads the clock under the lock may close on a fresh reading even if this one says "not idle")
		shield := (reading || os.Getenv("VERIF_C16_FRESHCHECK") == "1") && sw != nil
		if shield {
			sw.BeginVigil()
		}
		w.mu.Lock()
		p.passTo = "swamp.closelistener.read"
		w.mu.Unlock()
		w.letGo(p)
		r := w.waitNext(p, false, stepTimeout)
		if shield {
			sw.CeaseVigil()
		}
		if r != "gate:swamp.closelistener.read" {
			return fmt.Sprintf("listener of instance %d did not tick again (%s)", i, r)
		}
	}
}

// traceKeys are the keys of the trace specification (Trace_Lifecycle.cfg)
var traceKeys = []string{"k1", "k2", "k3"}

func fullFile(m map[string]string) map[string]string {
	out := map[string]string{}
	for _, k := range traceKeys {
		out[k] = "absent"
	}
	for k, v := range m {
		out[k] = v
	}
	return out
}

func opOf(sc *schedule, r string) opRec {
	for _, s := range sc.Hist {
		if s.A == "RSummon" && s.P == r {
			return s.O
		}
	}
	return opRec{}
}

func reloadChild(root, swampName string, keys []string) (map[string]string, error) {
	self, _ := os.Executable()
	args := append([]string{"reload", root, swampName}, keys...)
	cmd := exec.Command(self, args...)
	cmd.Env = os.Environ()
	out, err := cmd.Output()
	if err != nil {
		return nil, fmt.Errorf("reload child: %v", err)
	}
	m := map[string]string{}
	if err := json.Unmarshal(lastLine(out), &m); err != nil {
		return nil, fmt.Errorf("reload child output: %v", err)
	}
	return m, nil
}

func lastLine(b []byte) []byte {
	lines := strings.Split(strings.TrimSpace(string(b)), "\n")
	return []byte(lines[len(lines)-1])
}

func reloadMain(root, swampName string, keys []string) {
	e := newEnv(root)
	m, err := e.readKeys(swampName, keys)
	if err != nil {
		fmt.Fprintln(os.Stderr, "error:", err)
		os.Exit(3)
	}
	b, _ := json.Marshal(m)
	fmt.Println(string(b))
	os.Exit(0) // no graceful stop: nothing was written
}

// ---------------------------------------------------------------------------------------------

func replayMany(in, out string, par int) error {
	b, err := os.ReadFile(in)
	if err != nil {
		return err
	}
	var scs []json.RawMessage
	if err := json.Unmarshal(b, &scs); err != nil {
		return err
	}
	self, _ := os.Executable()
	dir := filepath.Dir(out)
	results := make([]json.RawMessage, len(scs))
	sem := make(chan struct{}, par)
	var wg sync.WaitGroup
	for i := range scs {
		wg.Add(1)
		sem <- struct{}{}
		go func(i int) {
			defer wg.Done()
			defer func() { <-sem }()
			sf := filepath.Join(dir, fmt.Sprintf("sched-%d.json", i))
			rf := filepath.Join(dir, fmt.Sprintf("res-%d.json", i))
			os.WriteFile(sf, scs[i], 0o644)
			ctx, cancel := context.WithTimeout(context.Background(), 15*time.Minute)
			defer cancel()
			cmd := exec.CommandContext(ctx, self, "replay", sf, rf)
			cmd.Env = os.Environ()
			outb, err := cmd.CombinedOutput()
			rb, rerr := os.ReadFile(rf)
			if err != nil || rerr != nil {
				var id struct {
					ID string `json:"id"`
				}
				json.Unmarshal(scs[i], &id)
				tail := string(outb)
				if len(tail) > 1500 {
					tail = tail[len(tail)-1500:]
				}
				r := result{ID: id.ID, Infra: fmt.Sprintf("child failed: %v %v: %s", err, rerr, tail)}
				rb, _ = json.Marshal(r)
			}
			results[i] = rb
			os.Remove(sf)
			os.Remove(rf)
		}(i)
	}
	wg.Wait()
	f, err := os.Create(out)
	if err != nil {
		return err
	}
	defer f.Close()
	for _, r := range results {
		f.Write(append([]byte(strings.ReplaceAll(string(r), "\n", " ")), '\n'))
	}
	return nil
}

func main() {
	if len(os.Args) < 2 {
		fmt.Fprintln(os.Stderr, "usage: lifecycle replaymany|replay|stress|reload ...")
		os.Exit(2)
	}
	var err error
	switch os.Args[1] {
	case "replaymany":
		par, _ := strconv.Atoi(os.Args[4])
		if par < 1 {
			par = 1
		}
		err = replayMany(os.Args[2], os.Args[3], par)
	case "replay":
		var sc schedule
		b, e := os.ReadFile(os.Args[2])
		if e == nil {
			e = json.Unmarshal(b, &sc)
		}
		if e != nil {
			err = e
			break
		}
		r := replay(&sc)
		ob, _ := json.Marshal(r)
		err = os.WriteFile(os.Args[3], ob, 0o644)
		if err == nil {
			os.Exit(0) // do not run a graceful stop on top of the scenario
		}
	case "stress":
		rounds, _ := strconv.Atoi(os.Args[3])
		swamps, _ := strconv.Atoi(os.Args[4])
		seed, _ := strconv.ParseInt(os.Getenv("VERIF_SEED"), 10, 64)
		err = stress(os.Args[2], rounds, swamps, seed)
		if err == nil {
			os.Exit(0)
		}
	case "reload":
		reloadMain(os.Args[2], os.Args[3], os.Args[4:])
	default:
		err = fmt.Errorf("unknown mode %q", os.Args[1])
	}
	if err != nil {
		fmt.Fprintln(os.Stderr, "error:", err)
		os.Exit(3)
	}
}
