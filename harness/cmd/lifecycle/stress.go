package main

// Churn stress (binding A).  Many swamps run rounds concurrently against ONE real Hydra with idle timeout 1 s and
// write interval 1 s.  A round is an instance of the Lifecycle model: seed records (closed and verified), then two
// concurrent client calls from the model's menu (last-record deletes, shifts, inserts, destroy), free-running idle
// close / write ticks, re-summon (or, in `stop` mode, a graceful stop and a fresh process) and a read-back.
// What is recorded is the acknowledged-operation log in real-time order plus the reloaded state; TLC decides.
// The verif gates are used only to perturb the schedule (seeded yields / short parks): no verdict depends on timing.

import (
	"bufio"
	"context"
	"encoding/json"
	"fmt"
	"math/rand"
	"os"
	"path/filepath"
	"runtime"
	"strconv"
	"strings"
	"sync"
	"time"

	"github.com/hydraide/hydraide/app/core/hydra/swamp"
	"github.com/hydraide/hydraide/app/verifhook"

	"verifharness/rig"
	"verifharness/sched"
)

type stressWorld struct {
	mu    sync.Mutex
	insts map[string][]swamp.Swamp // swamp name -> instances seen at gates
	bg    map[string][]int64       // swamp name -> listener / ticker goroutines seen at gates
	seed  int64
	ctr   uint64
}

func (sw *stressWorld) onYield(point string, args ...any) {
	if len(args) < 2 || !strings.HasPrefix(point, "swamp.") {
		return
	}
	nm, _ := args[0].(string)
	s, _ := args[1].(swamp.Swamp)
	if s != nil {
		sw.mu.Lock()
		found := false
		for _, x := range sw.insts[nm] {
			if x == s {
				found = true
			}
		}
		if !found {
			sw.insts[nm] = append(sw.insts[nm], s)
		}
		if strings.HasPrefix(point, "swamp.writelistener.") || strings.HasPrefix(point, "swamp.closelistener.") {
			gid := sched.GoID()
			known := false
			for _, g := range sw.bg[nm] {
				if g == gid {
					known = true
				}
			}
			if !known {
				sw.bg[nm] = append(sw.bg[nm], gid)
			}
		}
		sw.ctr++
		c := sw.ctr
		sw.mu.Unlock()
		// seeded perturbation: mostly nothing, sometimes a yield, sometimes a short park
		h := uint64(sw.seed)*0x9E3779B97F4A7C15 + c*0xBF58476D1CE4E5B9
		h ^= h >> 29
		switch h % 16 {
		case 0, 1, 2:
			runtime.Gosched()
		case 3:
			time.Sleep(time.Duration(h>>8%1500) * time.Microsecond)
		case 4:
			time.Sleep(time.Duration(h>>8%20) * time.Millisecond)
		}
	}
}

var stressMenu = []opRec{{"set", "k1"}, {"set", "k2"}, {"del", "k1"}, {"del", "k2"}, {"shift", "k1"}, {"shift", "k2"}, {"destroy", "none"}}

type roundPlan struct {
	Swamp    string
	InitKeys []string
	Ops      [2]opRec
	DelayUs  int64 // start of the second call after the first
}

func planRound(rng *rand.Rand, swampName string) roundPlan {
	p := roundPlan{Swamp: swampName}
	switch rng.Intn(4) {
	case 0:
		p.InitKeys = []string{"k1"}
	case 1:
		p.InitKeys = []string{"k1", "k2"}
	case 2:
		p.InitKeys = []string{"k2"}
	}
	// favour the interesting pairs: a delete of the only record against an insert, a delete against a re-create
	switch rng.Intn(6) {
	case 0:
		p.InitKeys = []string{"k1"}
		p.Ops = [2]opRec{{"del", "k1"}, {"set", "k2"}}
	case 1:
		p.InitKeys = []string{"k1"}
		p.Ops = [2]opRec{{"shift", "k1"}, {"set", "k2"}}
	case 2:
		p.InitKeys = []string{"k1", "k2"}
		p.Ops = [2]opRec{{"del", "k1"}, {"set", "k1"}}
	default:
		p.Ops = [2]opRec{stressMenu[rng.Intn(len(stressMenu))], stressMenu[rng.Intn(len(stressMenu))]}
	}
	if rng.Intn(2) == 0 {
		p.Ops[0], p.Ops[1] = p.Ops[1], p.Ops[0]
	}
	switch rng.Intn(4) {
	case 0:
		p.DelayUs = 0
	case 1:
		p.DelayUs = int64(rng.Intn(3000))
	case 2:
		p.DelayUs = 900_000 + int64(rng.Intn(400_000)) // around a write tick
	default:
		p.DelayUs = 1_900_000 + int64(rng.Intn(1_400_000)) // around the idle close
	}
	return p
}

type evWriter struct {
	mu sync.Mutex
	w  *bufio.Writer
}

func ev(kind, r string, o opRec, v, res string, file map[string]string) map[string]any {
	if file == nil {
		file = map[string]string{}
	}
	return map[string]any{"ev": kind, "r": r, "op": o.Op, "k": o.K, "v": v, "res": res, "file": file}
}

// runRound performs one round on one swamp and returns its events (nil + error text on harness trouble).
func runRound(e *env, sw *stressWorld, p roundPlan, stopMode bool) ([]map[string]any, string) {
	var mu sync.Mutex
	evs := []map[string]any{ev("reset", "", opRec{}, "", "", nil)}
	evs[0]["plan"] = fmt.Sprintf("%v %v+%v delay=%dus stop=%v", p.InitKeys, p.Ops[0], p.Ops[1], p.DelayUs, stopMode)
	seedErr := e.seed(p.Swamp, p.InitKeys)
	for i, k := range p.InitKeys {
		sn := "s" + strconv.Itoa(i+1)
		evs = append(evs, ev("call", sn, opRec{"set", k}, "v0", "", nil), ev("ret", sn, opRec{"set", k}, "", "ok", nil))
	}
	if sl, ok := seedErr.(*seedLoss); ok {
		return append(evs, ev("reload", "", opRec{}, "", "", fullFile(sl.obs))), "" // judged by TLC like any other round
	} else if seedErr != nil {
		return nil, "seed: " + seedErr.Error()
	}
	var wg sync.WaitGroup
	for i := 0; i < 2; i++ {
		wg.Add(1)
		go func(i int) {
			defer wg.Done()
			if i == 1 && p.DelayUs > 0 {
				time.Sleep(time.Duration(p.DelayUs) * time.Microsecond) // workload shaping, not synchronisation
			}
			rn := "r" + strconv.Itoa(i+1)
			mu.Lock()
			evs = append(evs, ev("call", rn, p.Ops[i], rn, "", nil))
			mu.Unlock()
			res := e.doOp(p.Ops[i], rn, p.Swamp)
			mu.Lock()
			evs = append(evs, ev("ret", rn, p.Ops[i], "", res, nil))
			mu.Unlock()
		}(i)
	}
	done := make(chan struct{})
	go func() { wg.Wait(); close(done) }()
	select {
	case <-done:
	case <-time.After(stepTimeout):
		return nil, "calls did not return"
	}
	if stopMode {
		return evs, "" // the caller stops Hydra and reloads in a fresh process
	}
	if why := waitGone(e, sw, p.Swamp); why != "" {
		return nil, why
	}
	obs, err := e.readKeys(p.Swamp, traceKeys)
	if err != nil {
		return nil, "reload: " + err.Error()
	}
	evs = append(evs, ev("reload", "", opRec{}, "", "", fullFile(obs)))
	return evs, ""
}

// waitGone waits until the swamp has left the hydra map and every instance of it seen so far has closed.
func waitGone(e *env, sw *stressWorld, swampName string) string {
	if !waitClosed(e.hy, swampName, stepTimeout) {
		return "swamp did not idle-close"
	}
	sw.mu.Lock()
	insts := append([]swamp.Swamp{}, sw.insts[swampName]...)
	sw.mu.Unlock()
	for _, s := range insts {
		ctx, cancel := context.WithTimeout(context.Background(), stepTimeout)
		for {
			err := s.WaitForGracefulClose(ctx)
			if err == nil {
				break
			}
			if ctx.Err() != nil {
				cancel()
				return "an instance never closed"
			}
			time.Sleep(50 * time.Millisecond)
		}
		cancel()
	}
	if !waitClosed(e.hy, swampName, stepTimeout) {
		return "swamp re-opened by nobody?"
	}
	sw.mu.Lock()
	bg := append([]int64{}, sw.bg[swampName]...)
	sw.mu.Unlock()
	if !goroutinesGone(bg, stepTimeout) {
		return "listener / ticker goroutines of closed instances did not finish"
	}
	return ""
}

// stress: `swamps` swamps x `rounds` rounds in this process.  With VERIF_STRESS_STOP=1 one round per swamp, then a
// graceful stop racing the listeners, and the reload is done by a fresh process.
func stress(out string, rounds, swamps int, seed int64) error {
	stopMode := os.Getenv("VERIF_STRESS_STOP") == "1"
	root := filepath.Join(os.Getenv("VERIF_WORK"), fmt.Sprintf("lcs-%d", os.Getpid()))
	if os.Getenv("VERIF_WORK") == "" {
		root = filepath.Join(os.TempDir(), fmt.Sprintf("lcs-%d", os.Getpid()))
	}
	defer os.RemoveAll(root)
	e := newEnv(root)
	sw := &stressWorld{insts: map[string][]swamp.Swamp{}, bg: map[string][]int64{}, seed: seed}
	verifhook.SetYield(sw.onYield)
	f, err := os.Create(out)
	if err != nil {
		return err
	}
	defer f.Close()
	bw := bufio.NewWriter(f)
	var outMu sync.Mutex
	flushRound := func(evs []map[string]any) {
		outMu.Lock()
		defer outMu.Unlock()
		for _, m := range evs {
			b, _ := json.Marshal(m)
			bw.Write(b)
			bw.WriteByte('\n')
		}
	}
	var infraMu sync.Mutex
	var infras []string
	pending := make([][]map[string]any, swamps)
	plans := make([]roundPlan, swamps)
	var wg sync.WaitGroup
	for s := 0; s < swamps; s++ {
		wg.Add(1)
		go func(s int) {
			defer wg.Done()
			rng := rand.New(rand.NewSource(seed*1000003 + int64(s)*7919))
			n := rounds
			if stopMode {
				n = 1
			}
			for r := 0; r < n; r++ {
				p := planRound(rng, rig.SwampName("lc", "s"+strconv.Itoa(s), "r"+strconv.Itoa(r)))
				evs, why := runRound(e, sw, p, stopMode)
				if why != "" {
					infraMu.Lock()
					infras = append(infras, fmt.Sprintf("swamp %d round %d (%v): %s", s, r, p, why))
					infraMu.Unlock()
					return
				}
				if stopMode {
					pending[s], plans[s] = evs, p
				} else {
					flushRound(evs)
				}
			}
		}(s)
	}
	wg.Wait()
	if stopMode && len(infras) == 0 {
		// server.Stop: MarkShuttingDown, in-flight calls drained (they all returned), StopHydra -> Close of every open swamp,
		// racing the swamps' own idle-close listeners and write ticks
		e.hy.MarkShuttingDown()
		stopDone := make(chan struct{})
		go func() { e.r.Zeus.StopHydra(); close(stopDone) }()
		select {
		case <-stopDone:
		case <-time.After(stepTimeout):
			infras = append(infras, "StopHydra did not return")
		}
		for s := 0; s < swamps && len(infras) == 0; s++ {
			if pending[s] == nil {
				continue
			}
			if why := waitGone(e, sw, plans[s].Swamp); why != "" { // a tick overtaken by stop's Close finishes its write first
				infras = append(infras, why)
				break
			}
			obs, err := reloadChild(root, plans[s].Swamp, traceKeys)
			if err != nil {
				infras = append(infras, err.Error())
				break
			}
			flushRound(append(pending[s], ev("reload", "", opRec{}, "", "", fullFile(obs))))
		}
	}
	if err := bw.Flush(); err != nil {
		return err
	}
	if len(infras) > 0 {
		b, _ := json.Marshal(map[string]any{"infra": infras})
		os.WriteFile(out+".infra", b, 0o644)
	}
	return nil
}
