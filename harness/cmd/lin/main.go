// Driver for C09 (linearizability of per-key operations): records many short concurrent
// histories on the real Gateway (requests in wire form, rig.Wire) for spec/Trace_Lin.tla.
//
//	lin run <out.ndjson> <nhist> <profile>     env VERIF_SEED
//
// profile: "conc" (3-4 clients, 3-5 ops, every kind of request), "small" (3 clients, 3-4 ops),
// "seq" (1 client: calibrates the sequential model), "counter"/"counter3" (increments, patches,
// unconditional sets and gets only: lost-update hunting), "fresh" (4 clients whose first requests all
// create the same absent keys: the get-or-create race).
//
// Every history runs on a fresh swamp in one of three configurations (persistent + write interval 0,
// persistent + write interval > 0, in-memory); the three are cycled.  An anchor key keeps the swamp
// from being destroyed when the last test key is deleted (swamp destruction is C16/C18 territory).
//
// Events: one "reset" line per history, then "call"/"ret" lines ordered by a global atomic counter
// taken immediately before the request is issued and immediately after the response is received
// (never wall clock), then one "final" line with the GetAll content after all clients returned.
// A panic escaping a handler, a nil response, a gRPC error are all recorded as results (st field).
package main

import (
	"context"
	"encoding/binary"
	"fmt"
	"math/rand"
	"os"
	"runtime"
	"sort"
	"strconv"
	"sync"
	"sync/atomic"
	"time"

	hydrapb "github.com/hydraide/hydraide/sdk/go/hydraidego/v3/hydraidepbgo"

	"verifharness/rig"
	"verifharness/trace"
)

type op struct {
	Op string // set inc patch del shift get
	K  string
	A  int64  // set value / delta
	C  string // inc condition: "" eq ne gt ge lt le
	CV int64
	Cr int // createIfNotExist
	Ow int // overwrite
	Ty string // "i64" | "map" (set)
}

type res struct {
	St string
	T  string
	V  int64
}

type event struct {
	ts  int64
	rec map[string]any
}

var clock atomic.Int64

const watchdog = 180 * time.Second

const anchorKey = "zz"

// ---------------------------------------------------------------------------------------------
// msgpack {"n": int64}

func mpInt64(v int64) []byte {
	b := make([]byte, 9)
	b[0] = 0xd3
	binary.BigEndian.PutUint64(b[1:], uint64(v))
	return b
}

func mpMapN(v int64) []byte {
	return append([]byte{0x81, 0xa1, 'n'}, mpInt64(v)...)
}

func wrapMagic(body []byte) []byte { return append([]byte{0xC7, 0x00}, body...) }

// readInt decodes one msgpack integer at b, returns value, length, ok
func readInt(b []byte) (int64, int, bool) {
	if len(b) == 0 {
		return 0, 0, false
	}
	c := b[0]
	switch {
	case c <= 0x7f:
		return int64(c), 1, true
	case c >= 0xe0:
		return int64(int8(c)), 1, true
	case c == 0xcc && len(b) >= 2:
		return int64(b[1]), 2, true
	case c == 0xcd && len(b) >= 3:
		return int64(binary.BigEndian.Uint16(b[1:])), 3, true
	case c == 0xce && len(b) >= 5:
		return int64(binary.BigEndian.Uint32(b[1:])), 5, true
	case c == 0xcf && len(b) >= 9:
		return int64(binary.BigEndian.Uint64(b[1:])), 9, true
	case c == 0xd0 && len(b) >= 2:
		return int64(int8(b[1])), 2, true
	case c == 0xd1 && len(b) >= 3:
		return int64(int16(binary.BigEndian.Uint16(b[1:]))), 3, true
	case c == 0xd2 && len(b) >= 5:
		return int64(int32(binary.BigEndian.Uint32(b[1:]))), 5, true
	case c == 0xd3 && len(b) >= 9:
		return int64(binary.BigEndian.Uint64(b[1:])), 9, true
	}
	return 0, 0, false
}

// decodeMapN: wrapped msgpack body must be exactly {"n": <int>}
func decodeMapN(raw []byte) (int64, bool) {
	if len(raw) < 2 || raw[0] != 0xC7 || raw[1] != 0x00 {
		return 0, false
	}
	b := raw[2:]
	if len(b) < 4 || b[0] != 0x81 || b[1] != 0xa1 || b[2] != 'n' {
		return 0, false
	}
	v, n, ok := readInt(b[3:])
	if !ok || 3+n != len(b) {
		return 0, false
	}
	return v, true
}

// abstraction of a returned treasure: type + value
func absTreasure(t *hydrapb.Treasure) (string, int64) {
	switch {
	case t.Int64Val != nil:
		return "i64", *t.Int64Val
	case t.BytesVal != nil:
		if v, ok := decodeMapN(t.BytesVal); ok {
			return "map", v
		}
		return "badbytes", int64(len(t.BytesVal))
	case t.StringVal != nil:
		return "str", 0
	case t.Int8Val != nil || t.Int16Val != nil || t.Int32Val != nil || t.Uint8Val != nil || t.Uint16Val != nil ||
		t.Uint32Val != nil || t.Uint64Val != nil || t.Float32Val != nil || t.Float64Val != nil || t.BoolVal != nil || t.Uint32Slice != nil:
		return "other", 0
	}
	return "void", 0
}

// ---------------------------------------------------------------------------------------------

type runner struct {
	r     *rig.Rig
	swamp string
}

var condOps = map[string]hydrapb.Relational_Operator{
	"eq": hydrapb.Relational_EQUAL, "ne": hydrapb.Relational_NOT_EQUAL, "gt": hydrapb.Relational_GREATER_THAN,
	"ge": hydrapb.Relational_GREATER_THAN_OR_EQUAL, "lt": hydrapb.Relational_LESS_THAN, "le": hydrapb.Relational_LESS_THAN_OR_EQUAL,
}

func (x *runner) exec(o op) (out res) {
	defer func() {
		if r := recover(); r != nil {
			out = res{St: "PANIC"}
		}
	}()
	ctx := context.Background()
	gw := x.r.GW
	switch o.Op {
	case "set":
		kv := &hydrapb.KeyValuePair{Key: o.K}
		if o.Ty == "map" {
			kv.BytesVal = wrapMagic(mpMapN(o.A))
		} else {
			v := o.A
			kv.Int64Val = &v
		}
		req := &hydrapb.SetRequest{Swamps: []*hydrapb.SwampRequest{{IslandID: 1, SwampName: x.swamp,
			CreateIfNotExist: o.Cr == 1, Overwrite: o.Ow == 1, KeyValues: []*hydrapb.KeyValuePair{kv}}}}
		resp, err := gw.Set(ctx, rig.Wire(req))
		if err != nil {
			return res{St: "ERR"}
		}
		if resp == nil {
			return res{St: "NILRESP"}
		}
		if len(resp.Swamps) != 1 {
			return res{St: "SHAPE"}
		}
		sw := resp.Swamps[0]
		if sw.ErrorCode != nil {
			return res{St: "SWAMPERR_" + sw.ErrorCode.String()}
		}
		if len(sw.KeysAndStatuses) != 1 || sw.KeysAndStatuses[0].Key != o.K {
			return res{St: "SHAPE"}
		}
		return res{St: sw.KeysAndStatuses[0].Status.String()}
	case "inc":
		req := &hydrapb.IncrementInt64Request{IslandID: 1, SwampName: x.swamp, Key: o.K, IncrementBy: o.A}
		if o.C != "" {
			req.Condition = &hydrapb.IncrementInt64Condition{RelationalOperator: condOps[o.C], Value: o.CV}
		}
		resp, err := gw.IncrementInt64(ctx, rig.Wire(req))
		if err != nil {
			return res{St: "ERR"}
		}
		if resp == nil {
			return res{St: "NILRESP"}
		}
		if resp.IsIncremented {
			return res{St: "INC", V: resp.Value}
		}
		return res{St: "NOINC", V: resp.Value}
	case "patch":
		d := mpInt64(o.A)
		req := &hydrapb.PatchTreasuresRequest{IslandID: 1, SwampName: x.swamp, CreateIfNotExist: o.Cr == 1,
			Patches: []*hydrapb.TreasurePatch{{Key: o.K, Ops: []*hydrapb.PatchOp{{Op: hydrapb.PatchOp_INC, Path: "n", Value: d}}}}}
		resp, err := gw.PatchTreasures(ctx, rig.Wire(req))
		if err != nil {
			return res{St: "ERR"}
		}
		if resp == nil {
			return res{St: "NILRESP"}
		}
		if len(resp.Results) != 1 || resp.Results[0].Key != o.K {
			return res{St: "SHAPE"}
		}
		return res{St: resp.Results[0].Status.String()}
	case "del":
		req := &hydrapb.DeleteRequest{Swamps: []*hydrapb.DeleteRequest_SwampKeys{{IslandID: 1, SwampName: x.swamp, Keys: []string{o.K}}}}
		resp, err := gw.Delete(ctx, rig.Wire(req))
		if err != nil {
			return res{St: "ERR"}
		}
		if resp == nil {
			return res{St: "NILRESP"}
		}
		if len(resp.Responses) != 1 {
			return res{St: "SHAPE"}
		}
		sr := resp.Responses[0]
		if sr.ErrorCode != nil {
			return res{St: "SWAMPERR_" + sr.ErrorCode.String()}
		}
		if len(sr.KeyStatuses) != 1 || sr.KeyStatuses[0].Key != o.K {
			return res{St: "SHAPE"}
		}
		return res{St: sr.KeyStatuses[0].Status.String()}
	case "shift":
		req := &hydrapb.ShiftByKeysRequest{IslandID: 1, SwampName: x.swamp, Keys: []string{o.K}}
		resp, err := gw.ShiftByKeys(ctx, rig.Wire(req))
		if err != nil {
			return res{St: "ERR"}
		}
		if resp == nil {
			return res{St: "NILRESP"}
		}
		switch len(resp.Treasures) {
		case 0:
			return res{St: "MISS"}
		case 1:
			if resp.Treasures[0].Key != o.K {
				return res{St: "SHAPE"}
			}
			t, v := absTreasure(resp.Treasures[0])
			return res{St: "HIT", T: t, V: v}
		}
		return res{St: "SHAPE"}
	case "get":
		req := &hydrapb.GetRequest{Swamps: []*hydrapb.GetSwamp{{IslandID: 1, SwampName: x.swamp, Keys: []string{o.K}}}}
		resp, err := gw.Get(ctx, rig.Wire(req))
		if err != nil {
			return res{St: "ERR"}
		}
		if resp == nil {
			return res{St: "NILRESP"}
		}
		if len(resp.Swamps) != 1 || len(resp.Swamps[0].Treasures) != 1 || resp.Swamps[0].Treasures[0].Key != o.K {
			return res{St: "SHAPE"}
		}
		tr := resp.Swamps[0].Treasures[0]
		if !tr.IsExist {
			return res{St: "MISS"}
		}
		t, v := absTreasure(tr)
		return res{St: "HIT", T: t, V: v}
	}
	return res{St: "BADOP"}
}

func callRec(h int, p string, seq int, o op) map[string]any {
	return map[string]any{"ev": "call", "h": h, "p": p, "seq": seq, "op": o.Op, "k": o.K, "a": o.A, "c": o.C, "cv": o.CV,
		"cr": o.Cr, "ow": o.Ow, "ty": o.Ty}
}

func retRec(h int, p string, seq int, o op, r res) map[string]any {
	return map[string]any{"ev": "ret", "h": h, "p": p, "seq": seq, "op": o.Op, "k": o.K, "st": r.St, "t": r.T, "v": r.V}
}

// ---------------------------------------------------------------------------------------------
// history generation

type profile struct {
	minClients, maxClients int
	minOps, maxOps         int
	counter                bool // only increments / patches / unconditional sets / gets: no request whose
	// non-atomicity is a known finding, so every non-linearizable history is a violation
	fresh bool // both keys start absent and every client's first two requests are creating writers (one per
	// key): the get-or-create race of concurrent FIRST writers of a key, twice per history
}

var profiles = map[string]profile{
	"conc":     {3, 4, 3, 5, false, false},
	"small":    {3, 3, 3, 4, false, false},
	"seq":      {1, 1, 6, 12, false, false},
	"counter":  {3, 4, 3, 5, true, false},
	"counter3": {3, 3, 3, 4, true, false},
	"fresh":    {4, 4, 3, 4, true, true},
}

func genOp(rng *rand.Rand, k string, client, idx int, pf profile) op {
	x := rng.Intn(100)
	uniq := int64(1000*client + 100*(idx+1))
	mkSet := func(ty string) op {
		o := op{Op: "set", K: k, A: uniq, Ty: ty, Cr: 1, Ow: 1}
		switch f := rng.Intn(10); {
		case f < 5:
		case f < 8:
			o.Ow = 0
		default:
			o.Cr = 0
		}
		return o
	}
	wInc, wSet, wDel, wShift := 40, 20, 12, 10
	if pf.counter {
		wInc, wSet, wDel, wShift = 62, 13, 0, 0
		mkSet = func(ty string) op { return op{Op: "set", K: k, A: uniq, Ty: ty, Cr: 1, Ow: 1} }
	}
	if k == "k1" {
		switch {
		case x < wInc:
			o := op{Op: "inc", K: k, A: []int64{1, 2, -1, 3}[rng.Intn(4)]}
			if rng.Intn(10) < 4 {
				o.C = []string{"eq", "ne", "gt", "ge", "lt", "le"}[rng.Intn(6)]
				o.CV = []int64{0, 1, 2, 3, 100, 1100}[rng.Intn(6)]
			}
			return o
		case x < wInc+wSet:
			return mkSet("i64")
		case x < wInc+wSet+wDel:
			return op{Op: "del", K: k}
		case x < wInc+wSet+wDel+wShift:
			return op{Op: "shift", K: k}
		}
		return op{Op: "get", K: k}
	}
	switch {
	case x < wInc:
		return op{Op: "patch", K: k, A: int64(1 + rng.Intn(3)), Cr: rng.Intn(2)}
	case x < wInc+wSet:
		return mkSet("map")
	case x < wInc+wSet+wDel:
		return op{Op: "del", K: k}
	case x < wInc+wSet+wDel+wShift:
		return op{Op: "shift", K: k}
	}
	return op{Op: "get", K: k}
}

type history struct {
	mode    string
	keys    []string
	initial []op
	clients [][]op
}

func genHistory(rng *rand.Rand, h int, pf profile) history {
	hs := history{mode: []string{"pi", "pd", "mm"}[h%3]}
	switch rng.Intn(4) {
	case 0:
		hs.keys = []string{"k1"}
	case 1:
		hs.keys = []string{"k2"}
	default:
		hs.keys = []string{"k1", "k2"}
	}
	if pf.fresh {
		hs.keys = []string{"k1", "k2"}
	}
	for i, k := range hs.keys {
		if !pf.fresh && rng.Intn(2) == 0 {
			ty := "i64"
			if k == "k2" {
				ty = "map"
			}
			hs.initial = append(hs.initial, op{Op: "set", K: k, A: int64(10 * (i + 1)), Ty: ty, Cr: 1, Ow: 1})
		}
	}
	n := pf.minClients + rng.Intn(pf.maxClients-pf.minClients+1)
	for c := 1; c <= n; c++ {
		m := pf.minOps + rng.Intn(pf.maxOps-pf.minOps+1)
		var ops []op
		for i := 0; i < m; i++ {
			k := hs.keys[rng.Intn(len(hs.keys))]
			if pf.fresh && i < 2 {
				// creating writer on each key, in an order that differs between clients
				k = hs.keys[(i+c)%2]
				uniq := int64(1000*c + 100*(i+1))
				switch rng.Intn(3) {
				case 0:
					if k == "k1" {
						ops = append(ops, op{Op: "inc", K: k, A: int64(1 + rng.Intn(3))})
					} else {
						ops = append(ops, op{Op: "patch", K: k, A: int64(1 + rng.Intn(3)), Cr: 1})
					}
				case 1:
					if k == "k1" {
						ops = append(ops, op{Op: "inc", K: k, A: 1})
					} else {
						ops = append(ops, op{Op: "patch", K: k, A: 1, Cr: 1})
					}
				default:
					ty := "i64"
					if k == "k2" {
						ty = "map"
					}
					ops = append(ops, op{Op: "set", K: k, A: uniq, Ty: ty, Cr: 1, Ow: 1})
				}
				continue
			}
			ops = append(ops, genOp(rng, k, c, i, pf))
		}
		hs.clients = append(hs.clients, ops)
	}
	return hs
}

// ---------------------------------------------------------------------------------------------

func runAll(out string, nhist int, pfName string, seed int64) error {
	pf, ok := profiles[pfName]
	if !ok {
		return fmt.Errorf("unknown profile %q", pfName)
	}
	w, err := trace.Create(out)
	if err != nil {
		return err
	}
	r := rig.New(rig.Options{})
	defer os.RemoveAll(r.Root)
	r.Register("linpi", "*", "*", false, 3600, 0)
	r.Register("linpd", "*", "*", false, 3600, 1)
	r.Register("linmm", "*", "*", true, 3600, 0)
	rng := rand.New(rand.NewSource(seed))
	line := 0
	for h := 1; h <= nhist; h++ {
		hs := genHistory(rng, h, pf)
		x := &runner{r: r, swamp: rig.SwampName("lin"+hs.mode, "s"+strconv.FormatInt(seed, 10), "h"+strconv.Itoa(h))}
		var evs []event
		// sequential prologue by p0: anchor (not logged) + initial content (logged)
		if rr := x.exec(op{Op: "set", K: anchorKey, A: 7, Ty: "i64", Cr: 1, Ow: 1}); rr.St != "NEW" {
			return fmt.Errorf("history %d: anchor set returned %q", h, rr.St)
		}
		for i, o := range hs.initial {
			c := clock.Add(1)
			evs = append(evs, event{c, callRec(h, "p0", i, o)})
			rr := x.exec(o)
			evs = append(evs, event{clock.Add(1), retRec(h, "p0", i, o, rr)})
		}
		// concurrent phase
		start := make(chan struct{})
		var wg sync.WaitGroup
		per := make([][]event, len(hs.clients))
		for ci := range hs.clients {
			wg.Add(1)
			go func(ci int) {
				defer wg.Done()
				p := "p" + strconv.Itoa(ci+1)
				lrng := rand.New(rand.NewSource(seed*7919 + int64(h)*31 + int64(ci)))
				<-start
				for i, o := range hs.clients[ci] {
					if lrng.Intn(4) == 0 {
						runtime.Gosched()
					}
					c := clock.Add(1)
					per[ci] = append(per[ci], event{c, callRec(h, p, i, o)})
					rr := x.exec(o)
					per[ci] = append(per[ci], event{clock.Add(1), retRec(h, p, i, o, rr)})
				}
			}(ci)
		}
		close(start)
		done := make(chan struct{})
		go func() { wg.Wait(); close(done) }()
		select {
		case <-done:
		case <-time.After(watchdog):
			// requests that never return: recorded as an observation (the check judges it), the run stops here
			// because the blocked goroutines cannot be reclaimed
			buf := make([]byte, 1<<20)
			buf = buf[:runtime.Stack(buf, true)]
			w.Emit(map[string]any{"ev": "hang", "h": h, "p": "", "nx": 0, "pending": fmt.Sprintf("mode %s, %d clients", hs.mode, len(hs.clients)), "stacks": string(buf)})
			w.Close()
			fmt.Fprintf(os.Stderr, "history %d: clients did not return within %s\n", h, watchdog)
			return nil
		}
		for _, pe := range per {
			evs = append(evs, pe...)
		}
		sort.SliceStable(evs, func(i, j int) bool { return evs[i].ts < evs[j].ts })
		// final state
		fin := map[string]any{"ev": "final", "h": h, "p": "", "t1": "none", "v1": int64(0), "t2": "none", "v2": int64(0), "n": 0, "az": 0, "st": "OK"}
		func() {
			defer func() {
				if rc := recover(); rc != nil {
					fin["st"] = "PANIC"
				}
			}()
			resp, err := r.GW.GetAll(context.Background(), rig.Wire(&hydrapb.GetAllRequest{IslandID: 1, SwampName: x.swamp}))
			if err != nil {
				fin["st"] = "ERR"
				return
			}
			if resp == nil {
				fin["st"] = "NILRESP"
				return
			}
			fin["n"] = len(resp.Treasures)
			for _, t := range resp.Treasures {
				ty, v := absTreasure(t)
				switch t.Key {
				case "k1":
					fin["t1"], fin["v1"] = ty, v
				case "k2":
					fin["t2"], fin["v2"] = ty, v
				case anchorKey:
					if ty == "i64" && v == 7 {
						fin["az"] = 1
					}
				}
			}
		}()
		nclients := len(hs.clients)
		nx := line + 1 + len(evs) + 1 + 1 // 1-based index of the next history's reset line
		w.Emit(map[string]any{"ev": "reset", "h": h, "p": "", "mode": hs.mode, "nc": nclients, "nx": nx})
		for _, e := range evs {
			e.rec["nx"] = nx
			w.Emit(e.rec)
		}
		fin["nx"] = nx
		w.Emit(fin)
		line = nx - 1
		// free the swamp
		func() {
			defer func() { recover() }()
			r.GW.Destroy(context.Background(), rig.Wire(&hydrapb.DestroyRequest{IslandID: 1, SwampName: x.swamp}))
		}()
	}
	return w.Close()
}

func main() {
	if len(os.Args) < 5 || os.Args[1] != "run" {
		fmt.Fprintln(os.Stderr, "usage: lin run <out.ndjson> <nhist> <profile>")
		os.Exit(64)
	}
	n, _ := strconv.Atoi(os.Args[3])
	seed, _ := strconv.ParseInt(os.Getenv("VERIF_SEED"), 10, 64)
	if err := runAll(os.Args[2], n, os.Args[4], seed); err != nil {
		fmt.Fprintln(os.Stderr, "error:", err)
		os.Exit(3)
	}
}
