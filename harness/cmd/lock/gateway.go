package main

import (
	"context"
	"fmt"
	"math/rand"
	"os"
	"strconv"
	"sync"
	"time"

	"github.com/google/uuid"
	"github.com/hydraide/hydraide/app/verifhook"
	hydrapb "github.com/hydraide/hydraide/sdk/go/hydraidego/v3/hydraidepbgo"

	"verifharness/rig"
	"verifharness/trace"
)

// gateway drives Lock / Unlock through the real gRPC gateway (wire form). The handler goroutines are not
// ours, so every Lock call gets a process name from a pool at its enq event and gives it back when its
// entry leaves the queue. Client-side cancellation does not reach the lock (the handler detaches the
// context), TTLs below one second are raised to one second by the handler.
func gateway(tracePath string, clients, rounds int, seed int64) error {
	tw, err := trace.Create(tracePath)
	if err != nil {
		return err
	}
	r := rig.New(rig.Options{})
	defer os.RemoveAll(r.Root)
	c := r.GRPC()
	l := r.Zeus.GetHydra().GetLocker()
	rec.w = tw
	rec.reset(l)
	emitReset(tw)
	// process names: a pool; a name is busy from enq until the entry is removed
	free := []string{}
	for i := 12; i >= 1; i-- {
		free = append(free, "p"+strconv.Itoa(i))
	}
	exhausted := false
	var all []*grantInfo
	rec.slotOf = func(gid int64, ev string) string {
		if len(free) == 0 {
			exhausted = true
			return ""
		}
		n := free[len(free)-1]
		free = free[:len(free)-1]
		return n
	}
	rec.onEvent = func(ev, p string, g *grantInfo, found bool) {
		switch {
		case ev == "enq":
			all = append(all, g)
		case found && g != nil && (ev == "rem-unlock" || ev == "rem-ttl" || ev == "rem-cancel"):
			free = append(free, g.owner)
		}
	}
	verifhook.SetTrace(rec.hook)
	verifhook.SetYield(func(point string, args ...any) { rec.markYield(point) })
	keys := []string{"k1", "k2"}
	var wg sync.WaitGroup
	var staleMu sync.Mutex
	stale := []string{}
	errs := make(chan error, clients)
	for i := 0; i < clients; i++ {
		wg.Add(1)
		go func(i int) {
			defer wg.Done()
			rng := rand.New(rand.NewSource(seed*7919 + int64(i)))
			cancelled := false
			for k := 0; k < rounds; k++ {
				key := keys[rng.Intn(len(keys))]
				x := rng.Intn(100)
				switch {
				case x < 15:
					id := uuid.NewString()
					staleMu.Lock()
					if len(stale) > 0 && rng.Intn(2) == 0 {
						id = stale[rng.Intn(len(stale))]
					}
					staleMu.Unlock()
					_, _ = c.Unlock(context.Background(), &hydrapb.UnlockRequest{Key: key, LockID: id})
				case x < 25 && !cancelled:
					// the client gives up; the server-side wait goes on and the grant is released by its TTL
					cancelled = true
					ctx, cancel := context.WithTimeout(context.Background(), time.Duration(1+rng.Intn(20))*time.Millisecond)
					resp, err := c.Lock(ctx, &hydrapb.LockRequest{Key: key, TTL: 1})
					cancel()
					if err == nil {
						_, _ = c.Unlock(context.Background(), &hydrapb.UnlockRequest{Key: key, LockID: resp.GetLockID()})
					}
				default:
					ttl := []int64{1, 400, 1000, 1500}[rng.Intn(4)]
					resp, err := c.Lock(context.Background(), &hydrapb.LockRequest{Key: key, TTL: ttl})
					if err != nil {
						errs <- fmt.Errorf("Lock failed: %v", err)
						return
					}
					id := resp.GetLockID()
					if rng.Intn(6) == 0 {
						// let the TTL release it (one second at least): wait for the remove event
						rec.mu.Lock()
						g := rec.ids[id]
						rec.mu.Unlock()
						if g != nil {
							<-g.gone
						}
					} else {
						if _, err := c.Unlock(context.Background(), &hydrapb.UnlockRequest{Key: key, LockID: id}); err != nil && rng.Intn(1) == 1 {
							errs <- err
						}
					}
					staleMu.Lock()
					stale = append(stale, id)
					staleMu.Unlock()
				}
			}
		}(i)
	}
	done := make(chan struct{})
	go func() {
		wg.Wait()
		// abandoned server-side waits are granted and then released by their TTL: wait for every entry to leave
		rec.mu.Lock()
		pending := append([]*grantInfo{}, all...)
		rec.mu.Unlock()
		for _, g := range pending {
			<-g.gone
		}
		close(done)
	}()
	// the longest legitimate silence is a TTL of 1.5 s; a log that has not grown for 90 s while calls are
	// outstanding means somebody is never granted the lock: that is the observation (a rest line showing who waits)
	lastLen, lastChange := tw.Len(), time.Now()
waitClients:
	for {
		select {
		case <-done:
			break waitClients
		case e := <-errs:
			return e
		case <-time.After(200 * time.Millisecond):
		}
		if n := tw.Len(); n != lastLen {
			lastLen, lastChange = n, time.Now()
		} else if time.Since(lastChange) > 90*time.Second {
			pcs := map[string]string{}
			rec.mu.Lock()
			for _, g := range all {
				select {
				case <-g.gone:
				default:
					pcs[g.owner] = "waiting"
				}
			}
			rec.mu.Unlock()
			emitRest(tw, pcs, qmapOf(l))
			return tw.Close()
		}
	}
	if exhausted {
		return fmt.Errorf("process name pool exhausted")
	}
	pcs := map[string]string{}
	emitRest(tw, pcs, qmapOf(l))
	if err := tw.Close(); err != nil {
		return err
	}
	r.Stop()
	return nil
}
