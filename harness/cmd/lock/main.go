// Driver for the business lock (C14, C28): binds spec/Lock.tla to app/core/hydra/lock (and to the
// Lock/Unlock handlers of the gateway).
//
// The verif hooks in lock.go emit enq / rem (under q.mu) and grant events; this driver turns them into an
// ndjson trace (ids interned in enq order, processes named, cause of every remove attributed) that TLC
// validates against spec/Trace_Lock.tla.
//
//	lock replay <tests.json> <trace.ndjson> <results.ndjson>     TLC paths stepped through the real lock
//	lock stress <trace.ndjson> <runs> <procs> <keys> <ops>       free-running concurrent use (seeded)
//	lock residue <trace.ndjson> <keys> <procs>                   many distinct keys, then a point of rest (C28)
//	lock gateway <trace.ndjson> <clients> <rounds>               Lock/Unlock through the gRPC gateway (child process)
package main

import (
	"context"
	"encoding/json"
	"fmt"
	"math/rand"
	"os"
	"regexp"
	"runtime"
	"sort"
	"strconv"
	"sync"
	"sync/atomic"
	"time"

	"github.com/google/uuid"
	"github.com/hydraide/hydraide/app/core/hydra/lock"
	"github.com/hydraide/hydraide/app/verifhook"

	"verifharness/sched"
	"verifharness/trace"
)

const stepTimeout = 180 * time.Second

// ---------------------------------------------------------------------------------------------
// event recorder (shared by all modes)

type grantInfo struct {
	uuid  string
	owner string
	key   string
	n     int           // interned id
	gone  chan struct{} // closed when the entry leaves the queue (any remove that found it)
	once  sync.Once
}

type recorder struct {
	mu       sync.Mutex
	w        *trace.Writer
	byGoid   map[int64]*proc
	ids      map[string]*grantInfo // uuid -> info (current run)
	byN      map[int]string        // interned id -> uuid
	nextN    int
	qkey     map[any]string // queue pointer -> key
	ttlGids  map[int64]bool
	cancGids map[int64]bool
	slotOf   func(gid int64, ev string) string // gateway mode: name for an unregistered goroutine
	onEvent  func(ev string, p string, g *grantInfo, found bool)
	keep     []any // keeps queue objects of earlier runs alive so that pointers are not reused
	curLock  lock.Lock
	lastIDs  map[string][]int       // key -> queue as of the last enq / rem line
	pending  []map[string]any       // grant / wdexit lines waiting for the enq / rem line that explains them
	wdLive   map[int]*grantInfo     // grants whose watchdog goroutine is (believed) alive
	wdGoid   map[string]int64       // uuid -> goroutine of its watchdog
	wdExited map[string]bool
	remCause map[int64]string // goroutine inside queue.remove -> cause attributed at its begin event
}

// keyOf maps the queue object of an event to its lock key (cached: a pruned queue is no longer in the map).
func (r *recorder) keyOf(q any) (string, bool) {
	if k, ok := r.qkey[q]; ok {
		return k, true
	}
	if r.curLock == nil {
		return "", false
	}
	k, ok := lock.VerifKeyOf(r.curLock, q)
	if ok {
		r.qkey[q] = k
	}
	return k, ok
}

var rec = &recorder{}

func (r *recorder) reset(l lock.Lock) {
	r.mu.Lock()
	defer r.mu.Unlock()
	r.curLock = l
	for q := range r.qkey {
		r.keep = append(r.keep, q)
	}
	r.ids = map[string]*grantInfo{}
	r.byN = map[int]string{}
	r.nextN = 0
	r.qkey = map[any]string{}
	r.ttlGids = map[int64]bool{}
	r.cancGids = map[int64]bool{}
	r.lastIDs = map[string][]int{}
	r.pending = nil
	r.wdLive = map[int]*grantInfo{}
	r.wdGoid = map[string]int64{}
	r.wdExited = map[string]bool{}
	r.remCause = map[int64]string{}
	if r.byGoid == nil {
		r.byGoid = map[int64]*proc{}
	}
}

func strs(v any) []string {
	if x, ok := v.([]string); ok {
		return x
	}
	return nil
}

func (r *recorder) intern(ids []string) []int {
	out := make([]int, 0, len(ids))
	for _, u := range ids {
		if g := r.ids[u]; g != nil {
			out = append(out, g.n)
		} else {
			out = append(out, -1)
		}
	}
	return out
}

func b2i(b bool) int {
	if b {
		return 1
	}
	return 0
}

func (r *recorder) hook(ev string, kv ...any) {
	m := trace.KV(kv)
	gid := sched.GoID()
	r.mu.Lock()
	defer r.mu.Unlock()
	p := r.byGoid[gid]
	u, _ := m["id"].(string)
	switch ev {
	case "lock.enq":
		// (fresh lookup: with a lock that prunes empty queues the address of a dead queue object can be reused)
		delete(r.qkey, m["q"])
		k, known := r.keyOf(m["q"])
		if !known {
			return // a lock object of an earlier run
		}
		pname := ""
		if p != nil {
			pname = p.name
		} else if r.slotOf != nil {
			pname = r.slotOf(gid, ev)
		}
		if pname == "" {
			return // not one of ours
		}
		r.nextN++
		g := &grantInfo{uuid: u, owner: pname, key: k, n: r.nextN, gone: make(chan struct{})}
		r.ids[u] = g
		r.byN[g.n] = u
		if p != nil {
			p.enqN.Store(int64(g.n))
			p.curUUID = u
		}
		head, _ := m["head"].(bool)
		ids := r.intern(strs(m["ids"]))
		r.w.Emit(map[string]any{"ev": "enq", "p": pname, "k": k, "id": g.n, "found": b2i(head), "ids": ids, "cause": ""})
		r.lastIDs[k] = ids
		if r.onEvent != nil {
			r.onEvent("enq", pname, g, head)
		}
	case "lock.grant":
		g := r.ids[u]
		if g == nil {
			return
		}
		ttl, _ := m["ttl"].(int64)
		// (the remove that made this caller the head has logged its begin line before it woke anybody)
		r.w.Emit(map[string]any{"ev": "grant", "p": g.owner, "k": g.key, "id": g.n, "found": 0, "ids": []int{}, "cause": "", "ttl_ms": ttl / 1e6})
		r.wdLive[g.n] = g
		if r.onEvent != nil {
			r.onEvent("grant", g.owner, g, true)
		}
	case "lock.watchdog.start":
		r.wdGoid[u] = gid
	case "lock.watchdog.exit":
		g := r.ids[u]
		if g == nil {
			return
		}
		r.wdExited[u] = true
		r.w.Emit(map[string]any{"ev": "wdexit", "p": "", "k": g.key, "id": g.n, "found": 0, "ids": []int{}, "cause": ""})
		delete(r.wdLive, g.n)
	case "lock.rem.begin":
		// a remove call has taken q.mu and has not woken anybody yet: this line fixes its place in the order
		k, known := r.keyOf(m["q"])
		if !known {
			return // a queue of an earlier run (late watchdog)
		}
		if _, inMap := lock.VerifKeyOf(r.curLock, m["q"]); !inMap && r.curLock != nil {
			// a queue object that is no longer the key's queue (a lock that prunes empty queues has dropped it; a
			// watchdog that fires late still holds it): a remove on it is no step of the key's queue. It must find
			// nothing - checked when it returns.
			delete(r.ttlGids, gid)
			delete(r.cancGids, gid)
			r.remCause[gid] = "ghost"
			return
		}
		cause := "unlock"
		pname := ""
		if p != nil {
			pname = p.name
		}
		g := r.ids[u]
		switch {
		case r.ttlGids[gid]:
			cause = "ttl"
			delete(r.ttlGids, gid)
			if g != nil {
				pname = g.owner
			}
		case r.cancGids[gid]:
			cause = "cancel"
			delete(r.cancGids, gid)
			if g != nil {
				pname = g.owner
			}
		}
		n := 0
		if g != nil {
			n = g.n
		}
		r.remCause[gid] = cause
		r.w.Emit(map[string]any{"ev": "rem", "cause": cause, "p": pname, "k": k, "id": n, "found": 0, "ids": []int{}})
	case "lock.rem":
		// the same call returns (still under q.mu): what it did
		k, known := r.keyOf(m["q"])
		if !known {
			return
		}
		found, _ := m["found"].(bool)
		cause := r.remCause[gid]
		delete(r.remCause, gid)
		if cause == "ghost" {
			if found {
				// something was removed from a queue object that is not in the map: no spec step explains this line
				r.w.Emit(map[string]any{"ev": "ghostrem", "cause": "", "p": "", "k": k, "id": 0, "found": 1, "ids": r.intern(strs(m["ids"]))})
			}
			return
		}
		pname := ""
		if p != nil {
			pname = p.name
		}
		g := r.ids[u]
		if g != nil && cause != "unlock" {
			pname = g.owner
		}
		n := 0
		if g != nil {
			n = g.n
		}
		ids := r.intern(strs(m["ids"]))
		if !found {
			// nothing left the queue. The queue object may be one that is no longer the key's queue (a watchdog that fires
			// late holds the object it was created with; a lock that prunes empty queues has replaced it by then), so the
			// content reported for it says nothing about the key: log the key's queue as it stands.
			ids = append([]int{}, r.lastIDs[k]...)
		}
		r.w.Emit(map[string]any{"ev": "remend", "cause": cause, "p": pname, "k": k, "id": n, "found": b2i(found), "ids": ids})
		r.lastIDs[k] = ids
		if found && g != nil {
			g.once.Do(func() { close(g.gone) })
		}
		if r.onEvent != nil {
			r.onEvent("rem-"+cause, pname, g, found)
		}
	}
}

// flush emits the pending grant lines whose caller is the head of its queue as logged so far, and the pending
// wdexit lines whose grant is no longer in its queue as logged so far. The caller holds r.mu.
func (r *recorder) flush() {
	rest := r.pending[:0]
	for _, ln := range r.pending {
		k, n := ln["k"].(string), ln["id"].(int)
		ids := r.lastIDs[k]
		ok := false
		switch ln["ev"] {
		case "grant":
			ok = len(ids) > 0 && ids[0] == n
		case "wdexit":
			ok = true
			for _, x := range ids {
				if x == n {
					ok = false
				}
			}
		}
		if ok {
			r.w.Emit(ln)
			if ln["ev"] == "wdexit" {
				delete(r.wdLive, n)
			}
		} else {
			rest = append(rest, ln)
		}
	}
	r.pending = rest
}

// watchdogs waits until every watchdog of a grant that has left its queue has ended or is seen parked (in its select
// or at the driver's gate) in two consecutive dumps, and returns the grants whose watchdog is alive.
func (r *recorder) watchdogs() ([]int, bool) {
	deadline := time.Now().Add(stepTimeout)
	prevStable, prevOnlyPending := false, false
	for {
		st := states()
		r.mu.Lock()
		settled := len(r.pending) == 0
		onlyPending := len(r.pending) > 0
		for _, p := range r.byGoid {
			if s := st[p.goid]; s != "select" && s != "chan receive" && s != "sync.Cond.Wait" {
				onlyPending = false // a caller is running (possibly inside remove)
			}
		}
		for _, g := range r.wdLive {
			select {
			case <-g.gone:
			default:
				continue // the grant is current: its watchdog is supposed to be there
			}
			if r.wdExited[g.uuid] {
				settled = false // the exit line is still pending
				continue
			}
			gid, ok := r.wdGoid[g.uuid]
			if !ok || (st[gid] != "select" && st[gid] != "chan receive") {
				settled = false
				onlyPending = false
			}
		}
		out := make([]int, 0, len(r.wdLive))
		for n := range r.wdLive {
			out = append(out, n)
		}
		// a line still held back although nobody is inside remove any more (two dumps in a row with everything else
		// settled) will never get its explanation - e.g. a watchdog that ended without removing its grant: log it now
		if !settled && onlyPending && prevOnlyPending {
			for _, ln := range r.pending {
				r.w.Emit(ln)
				if ln["ev"] == "wdexit" {
					delete(r.wdLive, ln["id"].(int))
				}
			}
			r.pending = nil
		}
		prevOnlyPending = onlyPending
		r.mu.Unlock()
		sort.Ints(out)
		if settled && prevStable {
			return out, true
		}
		prevStable = settled
		if time.Now().After(deadline) {
			return out, false
		}
		time.Sleep(50 * time.Microsecond)
	}
}

// markYield is called from the yield hook (before any blocking) to attribute the next remove of this goroutine.
func (r *recorder) markYield(point string) {
	gid := sched.GoID()
	r.mu.Lock()
	switch point {
	case "lock.ttl":
		r.ttlGids[gid] = true
	case "lock.cancelled":
		r.cancGids[gid] = true
	}
	r.mu.Unlock()
}

// ---------------------------------------------------------------------------------------------
// processes (replay and stress)

type cmd struct {
	op  string // lock, unlock
	key string
	id  string // unlock: uuid
	ttl time.Duration
	ctx context.Context
}

type proc struct {
	name    string
	goid    int64
	cmds    chan cmd
	inCall  atomic.Bool
	op      string
	curKey  string
	curUUID string
	enqN    atomic.Int64
	atGate  atomic.Bool
	gate    chan struct{}
	retID   string
	retErr  error
	holding atomic.Bool
	cancel  context.CancelFunc
	panicv  atomic.Value
}

func (p *proc) loop(l lock.Lock, ready chan struct{}) {
	p.goid = sched.GoID()
	rec.mu.Lock()
	rec.byGoid[p.goid] = p
	rec.mu.Unlock()
	close(ready)
	defer func() {
		rec.mu.Lock()
		delete(rec.byGoid, p.goid)
		rec.mu.Unlock()
	}()
	for c := range p.cmds {
		func() {
			defer func() {
				if r := recover(); r != nil {
					p.panicv.Store(fmt.Sprint(r))
				}
				p.inCall.Store(false)
			}()
			switch c.op {
			case "lock":
				p.retID, p.retErr = l.Lock(c.ctx, c.key, c.ttl)
				if p.retErr == nil {
					p.holding.Store(true)
				}
			case "unlock":
				p.retErr = l.Unlock(c.key, c.id)
			}
		}()
	}
}

var (
	dumpBuf = make([]byte, 1<<18)
	hdr     = regexp.MustCompile(`(?m)^goroutine (\d+) \[([^\],]+)(?:, [^\]]*)?\]:$`)
)

func states() map[int64]string {
	for {
		n := runtime.Stack(dumpBuf, true)
		if n < len(dumpBuf) {
			out := map[int64]string{}
			for _, m := range hdr.FindAllSubmatch(dumpBuf[:n], -1) {
				id, _ := strconv.ParseInt(string(m[1]), 10, 64)
				out[id] = string(m[2])
			}
			return out
		}
		dumpBuf = make([]byte, 2*len(dumpBuf))
	}
}

func (p *proc) obs(st map[int64]string) string {
	if p.panicv.Load() != nil {
		return "panic"
	}
	if !p.inCall.Load() {
		if p.holding.Load() {
			return "holding"
		}
		return "idle"
	}
	if p.op == "lock" {
		if p.atGate.Load() {
			return "aborting" // in the ctx.Done branch, held before its remove
		}
		if st[p.goid] == "select" {
			return "waiting"
		}
	}
	return "running"
}

type world struct {
	l     lock.Lock
	procs map[string]*proc
	names []string
}

func newWorld(names []string) *world {
	if rec.byGoid == nil {
		rec.byGoid = map[int64]*proc{}
	}
	w := &world{l: lock.New(), procs: map[string]*proc{}, names: names}
	for _, n := range names {
		p := &proc{name: n, cmds: make(chan cmd, 1), gate: make(chan struct{})}
		ready := make(chan struct{})
		go p.loop(w.l, ready)
		<-ready
		w.procs[n] = p
	}
	return w
}

// rest waits until no process is running (two consecutive identical dumps).
func (w *world) rest() (map[string]string, bool) {
	deadline := time.Now().Add(stepTimeout)
	var prev map[string]string
	pause := 20 * time.Microsecond
	for {
		st := states()
		cur := map[string]string{}
		stable := true
		for _, n := range w.names {
			o := w.procs[n].obs(st)
			cur[n] = o
			if o == "running" {
				stable = false
			}
		}
		if stable && prev != nil && same(prev, cur) {
			return cur, true
		}
		if stable {
			prev = cur
		} else {
			prev = nil
		}
		if time.Now().After(deadline) {
			return cur, false
		}
		time.Sleep(pause)
		if !stable && pause < 2*time.Millisecond {
			pause += pause / 2
		}
	}
}

func same(a, b map[string]string) bool {
	for k, v := range a {
		if b[k] != v {
			return false
		}
	}
	return true
}

func qmapOf(l lock.Lock) []string {
	ks := lock.VerifQueueKeys(l)
	if ks == nil {
		ks = []string{}
	}
	sort.Strings(ks)
	return ks
}

func emitRest(w *trace.Writer, pcs map[string]string, qmap []string) bool {
	wd, ok := rec.watchdogs()
	w.Emit(map[string]any{"ev": "rest", "pcs": pcs, "qmap": qmap, "wd": wd, "p": "", "k": "", "id": 0, "found": 0, "ids": []int{}, "cause": ""})
	return ok
}

func emitReset(w *trace.Writer) int {
	return w.Emit(map[string]any{"ev": "reset", "p": "", "k": "", "id": 0, "found": 0, "ids": []int{}, "cause": ""})
}

func waitFlag(f func() bool, d time.Duration) bool {
	deadline := time.Now().Add(d)
	pause := 10 * time.Microsecond
	for !f() {
		if time.Now().After(deadline) {
			return false
		}
		time.Sleep(pause)
		if pause < time.Millisecond {
			pause += pause / 2
		}
	}
	return true
}

// ---------------------------------------------------------------------------------------------
// replay of TLC paths

type act struct {
	A   string `json:"a"`
	P   string `json:"p"`
	K   string `json:"k"`
	ID  int    `json:"id"`
	Res int    `json:"res"`
}
type step struct {
	Act act `json:"act"`
}

type replayResult struct {
	Test      int      `json:"test"`
	Executed  int      `json:"executed"`
	Steps     int      `json:"steps"`
	Diverged  string   `json:"diverged,omitempty"` // why the scripted part stopped early (real code cannot take the step)
	RetDiff   []string `json:"ret_diff,omitempty"` // return values that differ from the spec's
	Infra     string   `json:"infra,omitempty"`
	FirstLine int      `json:"first_line"`
	Acts      []act    `json:"acts"`
}

// watchdogs parked at the lock.ttl gate, by uuid
type wdGate struct {
	at atomic.Bool
	ch chan struct{}
}

var (
	wdMu    sync.Mutex
	wdGates = map[string]*wdGate{}
	gating  atomic.Bool
)

func wdOf(u string) *wdGate {
	wdMu.Lock()
	defer wdMu.Unlock()
	g := wdGates[u]
	if g == nil {
		g = &wdGate{ch: make(chan struct{})}
		wdGates[u] = g
	}
	return g
}

func installReplayYield() {
	verifhook.SetYield(func(point string, args ...any) {
		rec.markYield(point)
		if !gating.Load() {
			return
		}
		switch point {
		case "lock.ttl":
			u, _ := args[0].(string)
			rec.mu.Lock()
			gi := rec.ids[u]
			rec.mu.Unlock()
			if gi == nil {
				return
			}
			g := wdOf(u)
			g.at.Store(true)
			select {
			case <-g.ch: // the schedule says: the TTL fires now
			case <-gi.gone: // the grant is over (unlocked): nothing to hold back
			}
			g.at.Store(false)
		case "lock.cancelled":
			gid := sched.GoID()
			rec.mu.Lock()
			p := rec.byGoid[gid]
			rec.mu.Unlock()
			if p != nil {
				p.atGate.Store(true)
				<-p.gate
			}
		}
	})
}

func runReplayTest(ti int, steps []step, tw *trace.Writer) replayResult {
	res := replayResult{Test: ti, Steps: len(steps)}
	wdMu.Lock()
	wdGates = map[string]*wdGate{}
	wdMu.Unlock()
	names := []string{"p1", "p2", "p3", "p4"}
	w := newWorld(names)
	rec.reset(w.l)
	res.FirstLine = emitReset(tw)
	gating.Store(true)
	uuidOf := func(n int) string {
		rec.mu.Lock()
		defer rec.mu.Unlock()
		if u, ok := rec.byN[n]; ok {
			return u
		}
		return uuid.NewString() // never issued
	}
	internOf := func(u string) int {
		rec.mu.Lock()
		defer rec.mu.Unlock()
		if g := rec.ids[u]; g != nil {
			return g.n
		}
		return -1
	}
	restLine := func() bool {
		pcs, ok := w.rest()
		ok2 := emitRest(tw, pcs, qmapOf(w.l))
		if !ok || !ok2 {
			res.Infra = fmt.Sprintf("no point of rest: %v", pcs)
		}
		return ok && ok2
	}
	for k, s := range steps {
		a := s.Act
		p := w.procs[a.P]
		if p == nil {
			res.Diverged = "unknown process " + a.P
			break
		}
		stop := ""
		switch a.A {
		case "Enq":
			if p.inCall.Load() || p.holding.Load() {
				stop = "process is not idle"
				break
			}
			ctx, cancel := context.WithCancel(context.Background())
			p.cancel = cancel
			p.op, p.curKey = "lock", a.K
			p.enqN.Store(0)
			p.inCall.Store(true)
			p.cmds <- cmd{op: "lock", key: a.K, ttl: 200 * time.Microsecond, ctx: ctx}
			if !waitFlag(func() bool { return p.enqN.Load() != 0 || !p.inCall.Load() }, stepTimeout) {
				res.Infra = "Lock never enqueued"
			}
		case "Acquire":
			if !waitFlag(func() bool { return !p.inCall.Load() }, 0) {
				// not returned yet: it must return on its own now, or it is parked (the rest line will show it)
				pcs, _ := w.rest()
				if pcs[a.P] != "idle" && pcs[a.P] != "holding" {
					stop = "spec: the caller leaves its select with the lock; real: " + pcs[a.P]
					break
				}
			}
			if p.retErr != nil {
				res.RetDiff = append(res.RetDiff, fmt.Sprintf("step %d Acquire(%s): Lock returned error %v", k, a.P, p.retErr))
			} else if n := internOf(p.retID); n != a.ID {
				res.RetDiff = append(res.RetDiff, fmt.Sprintf("step %d Acquire(%s): Lock returned id %d, spec %d", k, a.P, n, a.ID))
			}
		case "CancelCtx":
			if !p.inCall.Load() && p.op == "lock" && p.holding.Load() {
				// spec: ready but still in its select; real: Lock has returned already. Cancelling now changes nothing
				// (and the spec may only continue with Acquire; an Abort will be reported as a divergence of the path)
				p.cancel()
				break
			}
			if !p.inCall.Load() || p.op != "lock" {
				stop = "process is not in Lock"
				break
			}
			p.cancel()
			if !waitFlag(func() bool { return p.atGate.Load() || !p.inCall.Load() }, stepTimeout) {
				res.Infra = "cancelled Lock neither reached its remove nor returned"
			}
		case "Abort":
			if !p.atGate.Load() {
				stop = "process is not at the cancellation branch"
				break
			}
			p.atGate.Store(false)
			p.gate <- struct{}{}
			if !waitFlag(func() bool { return !p.inCall.Load() }, stepTimeout) {
				res.Infra = "aborted Lock did not return"
			} else if p.retErr == nil {
				res.RetDiff = append(res.RetDiff, fmt.Sprintf("step %d Abort(%s): Lock returned no error", k, a.P))
			}
		case "Unlock":
			if p.inCall.Load() {
				stop = "process is blocked in a call"
				break
			}
			u := uuidOf(a.ID)
			own := p.holding.Load() && u == p.retID && a.K == p.curKey
			p.op = "unlock"
			p.inCall.Store(true)
			p.cmds <- cmd{op: "unlock", key: a.K, id: u}
			if !waitFlag(func() bool { return !p.inCall.Load() }, stepTimeout) {
				res.Infra = "Unlock did not return"
				break
			}
			if (p.retErr == nil) != (a.Res == 1) {
				res.RetDiff = append(res.RetDiff, fmt.Sprintf("step %d Unlock(%s,%s,%d): returned %v, spec found=%d", k, a.P, a.K, a.ID, p.retErr, a.Res))
			}
			if own {
				p.holding.Store(false)
			}
		case "Expire":
			if !p.holding.Load() {
				stop = "process holds nothing"
				break
			}
			g := wdOf(p.retID)
			rec.mu.Lock()
			gi := rec.ids[p.retID]
			rec.mu.Unlock()
			isGone := func() bool {
				select {
				case <-gi.gone:
					return true
				default:
					return false
				}
			}
			if !waitFlag(func() bool { return g.at.Load() || isGone() }, stepTimeout) {
				res.Infra = "TTL watchdog never fired"
				break
			}
			if isGone() && !g.at.Load() {
				p.holding.Store(false)
				stop = "the grant has left the queue already (somebody else removed it)"
				break
			}
			g.ch <- struct{}{}
			// the watchdog removes the grant (gone) - or ends without doing so, which the next rest line will show
			if !waitFlag(func() bool {
				select {
				case <-gi.gone:
					return true
				default:
				}
				rec.mu.Lock()
				defer rec.mu.Unlock()
				return rec.wdExited[p.retID]
			}, stepTimeout) {
				res.Infra = "watchdog neither removed its grant nor ended"
			}
			select {
			case <-gi.gone:
				p.holding.Store(false)
			default:
			}
		default:
			stop = "unknown action " + a.A
		}
		if res.Infra != "" {
			return res
		}
		if stop != "" {
			res.Diverged = fmt.Sprintf("step %d %s(%s): %s", k, a.A, a.P, stop)
			break
		}
		res.Acts = append(res.Acts, a)
		res.Executed++
		if !restLine() {
			return res
		}
	}
	// drain: let cancelled callers go, release what is held, until everybody is idle
	gating.Store(false)
	for i := 0; i < 50; i++ {
		pcs, ok := w.rest()
		if !ok {
			res.Infra = fmt.Sprintf("no point of rest while draining: %v", pcs)
			return res
		}
		progress := false
		for _, n := range names {
			p := w.procs[n]
			if p.atGate.Load() {
				p.atGate.Store(false)
				p.gate <- struct{}{}
				progress = true
			} else if pcs[n] == "holding" {
				p.op = "unlock"
				p.inCall.Store(true)
				p.cmds <- cmd{op: "unlock", key: p.curKey, id: p.retID}
				waitFlag(func() bool { return !p.inCall.Load() }, stepTimeout)
				p.holding.Store(false)
				progress = true
			}
		}
		if !progress {
			waiting := false
			for _, n := range names {
				if pcs[n] == "waiting" {
					waiting = true
				}
			}
			if waiting {
				// somebody is still parked although nobody holds anything: a stuck waiter; cancel it so that the
				// goroutine goes away (the rest line below has recorded the situation already)
				emitRest(tw, pcs, qmapOf(w.l))
				for _, n := range names {
					if pcs[n] == "waiting" {
						w.procs[n].cancel()
					}
				}
				continue
			}
			break
		}
	}
	pcs, _ := w.rest()
	emitRest(tw, pcs, qmapOf(w.l))
	// release the watchdogs that are parked at the gate (their remove finds nothing; it belongs to this run)
	wdMu.Lock()
	for _, g := range wdGates {
		if g.at.Load() {
			select {
			case g.ch <- struct{}{}:
			case <-time.After(time.Second):
			}
		}
	}
	wdMu.Unlock()
	for _, n := range names {
		if !w.procs[n].inCall.Load() {
			close(w.procs[n].cmds)
		}
	}
	return res
}

func replay(in, tracePath, out string) error {
	b, err := os.ReadFile(in)
	if err != nil {
		return err
	}
	var tests [][]step
	if err := json.Unmarshal(b, &tests); err != nil {
		return err
	}
	tw, err := trace.Create(tracePath)
	if err != nil {
		return err
	}
	rec.w = tw
	rec.reset(nil)
	verifhook.SetTrace(rec.hook)
	installReplayYield()
	f, err := os.Create(out)
	if err != nil {
		return err
	}
	defer f.Close()
	enc := json.NewEncoder(f)
	for i, t := range tests {
		r := runReplayTest(i, t, tw)
		if err := enc.Encode(r); err != nil {
			return err
		}
		if r.Infra != "" {
			break
		}
	}
	return tw.Close()
}

// ---------------------------------------------------------------------------------------------
// stress: free-running goroutines

type shared struct {
	mu    sync.Mutex
	stale []string
	live  map[string]string // uuid -> key of grants believed live
}

func stress(tracePath string, runs, nprocs, nkeys, ops int, seed int64, residue bool) error {
	tw, err := trace.Create(tracePath)
	if err != nil {
		return err
	}
	rec.w = tw
	rec.reset(nil)
	verifhook.SetTrace(rec.hook)
	var yseed atomic.Int64
	verifhook.SetYield(func(point string, args ...any) {
		rec.markYield(point)
		// widen the windows between enqueue and select, and before the removes (no verdict depends on this)
		x := yseed.Add(0x9E3779B9) >> 7
		switch x % 5 {
		case 0:
			runtime.Gosched()
		case 1:
			time.Sleep(time.Duration(x%40) * time.Microsecond)
		}
	})
	for r := 0; r < runs; r++ {
		l := lock.New()
		rec.reset(l)
		emitReset(tw)
		sh := &shared{live: map[string]string{}}
		keys := make([]string, nkeys)
		for i := range keys {
			keys[i] = "k" + strconv.Itoa(i+1)
		}
		var wg sync.WaitGroup
		hung := make(chan struct{})
		for i := 0; i < nprocs; i++ {
			wg.Add(1)
			p := &proc{name: "p" + strconv.Itoa(i+1)}
			go func(i int, p *proc) {
				defer wg.Done()
				defer func() {
					if rv := recover(); rv != nil {
						tw.Emit(map[string]any{"ev": "panic", "p": p.name, "k": "", "id": 0, "found": 0, "ids": []int{}, "cause": fmt.Sprint(rv)})
					}
				}()
				p.goid = sched.GoID()
				rec.mu.Lock()
				rec.byGoid[p.goid] = p
				rec.mu.Unlock()
				defer func() {
					rec.mu.Lock()
					delete(rec.byGoid, p.goid)
					rec.mu.Unlock()
				}()
				rng := rand.New(rand.NewSource(seed*1000003 + int64(r)*131 + int64(i)))
				for k := 0; k < ops; k++ {
					key := keys[rng.Intn(len(keys))]
					if residue {
						key = keys[(i*ops+k)%len(keys)]
					}
					x := rng.Intn(100)
					if x < 20 && !residue {
						// an unlock with an id the caller does not hold
						var id, kk string
						sh.mu.Lock()
						switch {
						case x < 8 && len(sh.stale) > 0:
							id, kk = sh.stale[rng.Intn(len(sh.stale))], key
						case x < 14 && len(sh.live) > 0:
							for u, lk := range sh.live { // live grant, wrong key
								if lk != key {
									id, kk = u, key
									break
								}
							}
						}
						sh.mu.Unlock()
						if id == "" {
							id, kk = uuid.NewString(), key
						}
						_ = l.Unlock(kk, id)
						continue
					}
					ctx, cancel := context.WithCancel(context.Background())
					switch {
					case x < 30 && !residue:
						cancel() // cancelled before the call
					case x < 50 && !residue:
						d := time.Duration(rng.Intn(300)) * time.Microsecond
						time.AfterFunc(d, cancel)
					}
					ttl := time.Hour
					short := rng.Intn(3) == 0
					if short {
						ttl = time.Duration(20+rng.Intn(400)) * time.Microsecond
					}
					p.curKey = key
					id, err := l.Lock(ctx, key, ttl)
					cancel()
					if err != nil {
						continue
					}
					rec.mu.Lock()
					gi := rec.ids[id]
					rec.mu.Unlock()
					sh.mu.Lock()
					sh.live[id] = key
					sh.mu.Unlock()
					if rng.Intn(4) == 0 {
						time.Sleep(time.Duration(rng.Intn(100)) * time.Microsecond)
					}
					if short && rng.Intn(2) == 0 && gi != nil {
						// let the TTL release it: wait for the watchdog's remove (an event, not a timeout)
						select {
						case <-gi.gone:
						case <-hung:
							return
						}
					} else {
						_ = l.Unlock(key, id)
						if rng.Intn(5) == 0 {
							_ = l.Unlock(key, id) // duplicate unlock
						}
					}
					sh.mu.Lock()
					delete(sh.live, id)
					sh.stale = append(sh.stale, id)
					sh.mu.Unlock()
				}
			}(i, p)
		}
		done := make(chan struct{})
		go func() { wg.Wait(); close(done) }()
		pcs := map[string]string{}
		for i := 0; i < nprocs; i++ {
			pcs["p"+strconv.Itoa(i+1)] = "idle"
		}
		// wait for the run to finish - or for a point of rest at which somebody is still inside Lock: every caller
		// goroutine that has not finished is parked (select / chan receive) and the log has not grown, 200 dumps in a row
		still, lastLen := 0, -1
		var stillSince time.Time
	waitRun:
		for {
			select {
			case <-done:
				break waitRun
			case <-time.After(5 * time.Millisecond):
			}
			st := states()
			rec.mu.Lock()
			parked, unfinished := 0, 0
			for _, p := range rec.byGoid {
				unfinished++
				if s := st[p.goid]; s == "select" || s == "chan receive" {
					parked++
				}
			}
			rec.mu.Unlock()
			if unfinished > 0 && parked == unfinished && tw.Len() == lastLen {
				if still == 0 {
					stillSince = time.Now()
				}
				still++
			} else {
				still = 0
			}
			lastLen = tw.Len()
			// (a TTL of at most 400 us is the longest anybody legitimately waits for here; 20 s of complete standstill in
			// several hundred consecutive dumps is not a slow machine)
			if still >= 400 && time.Since(stillSince) > 20*time.Second {
				rec.mu.Lock()
				for _, p := range rec.byGoid {
					pcs[p.name] = "waiting"
				}
				rec.mu.Unlock()
				emitRest(tw, pcs, qmapOf(l))
				close(hung)
				return tw.Close() // the log ends here: the rest line is the observation (somebody never gets the lock)
			}
		}
		emitRest(tw, pcs, qmapOf(l))
	}
	return tw.Close()
}

func main() {
	if len(os.Args) < 2 {
		fmt.Fprintln(os.Stderr, "usage: lock replay|stress|residue|gateway ...")
		os.Exit(2)
	}
	seed, _ := strconv.ParseInt(os.Getenv("VERIF_SEED"), 10, 64)
	atoi := func(i int) int { n, _ := strconv.Atoi(os.Args[i]); return n }
	var err error
	switch os.Args[1] {
	case "replay":
		err = replay(os.Args[2], os.Args[3], os.Args[4])
	case "stress":
		err = stress(os.Args[2], atoi(3), atoi(4), atoi(5), atoi(6), seed, false)
	case "residue":
		err = stress(os.Args[2], 1, atoi(4), atoi(3), (atoi(3)+atoi(4)-1)/atoi(4), seed, true)
	case "gateway":
		err = gateway(os.Args[2], atoi(3), atoi(4), seed)
	default:
		err = fmt.Errorf("unknown mode %q", os.Args[1])
	}
	if err != nil {
		fmt.Fprintln(os.Stderr, "error:", err)
		os.Exit(3)
	}
}
