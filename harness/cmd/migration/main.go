// Driver for C23 (V1 to V2 migration preserves exactly the loadable data): binds spec/Migration.tla to
//
//	app/core/hydra/swamp/chronicler/v2/migrator/migrator.go   (the migrator)
//	app/core/hydra/swamp/chronicler/chronicler.go             (the legacy engine that writes and loads the folders)
//
//	migration run <scenarios.json> <trace.ndjson> <results.ndjson>
//
// A scenario is a legacy history (new / modify / shadow delete / real delete over a few keys, small chunk size so
// that several chunk files exist) performed by the REAL legacy chronicler on a real folder, an optional damage of
// one chunk file (read side), an optional leftover target file, a migrator configuration (verify, delete-old) and
// an optional write fault (I/O error or short write at the k-th file operation of the new file, injected through
// verifhook.FileOp). Before the migration the folder is loaded by the real legacy engine (what "the legacy engine
// would load"); the real migrator runs with the phase hooks recording its steps; afterwards the legacy folder is
// compared byte by byte with its snapshot and the new file is loaded by the real V2 chronicler.
package main

import (
	"encoding/json"
	"fmt"
	"io"
	"log/slog"
	"math/rand"
	"os"
	"path/filepath"
	"sort"
	"strconv"
	"strings"

	"github.com/hydraide/hydraide/app/core/filesystem"
	"github.com/hydraide/hydraide/app/core/hydra/swamp/beacon"
	"github.com/hydraide/hydraide/app/core/hydra/swamp/chronicler"
	v2 "github.com/hydraide/hydraide/app/core/hydra/swamp/chronicler/v2"
	"github.com/hydraide/hydraide/app/core/hydra/swamp/chronicler/v2/migrator"
	"github.com/hydraide/hydraide/app/core/hydra/swamp/metadata"
	"github.com/hydraide/hydraide/app/core/hydra/swamp/treasure"
	"github.com/hydraide/hydraide/app/core/hydra/swamp/treasure/guard"
	"github.com/hydraide/hydraide/app/name"
	"github.com/hydraide/hydraide/app/verifhook"

	"verifharness/trace"
)

type Op struct {
	Op string `json:"op"` // new | modify | shadow | delete
	K  int    `json:"k"`
	V  int    `json:"v"`
}

type Scenario struct {
	ID        int      `json:"id"`
	Ops       []Op     `json:"ops"`
	Batch     int      `json:"batch"` // treasures per legacy Write call
	ChunkSize int64    `json:"chunk"` // legacy max file size
	Pad       int      `json:"pad"`
	Name      []string `json:"name"` // sanctuary, realm, swamp
	Verify    bool     `json:"verify"`
	DeleteOld bool     `json:"delete_old"`
	Parallel  int      `json:"parallel"`
	Damage    string   `json:"damage"`     // "" | truncate0 | truncate | bitflip | garbage
	Stale     string   `json:"stale"`      // "" | whole | torn   (a leftover <folder>.hyd)
	ReadFault string   `json:"read_fault"` // "" | dangling | loop: one chunk file cannot be read WHILE the migrator runs
	FailAt    int      `json:"fail_at"`    // -1: no write fault; else index of the failing file operation
	Short     bool     `json:"short"`
	Seed      int64    `json:"seed"`
}

type ev = map[string]any

var tw *trace.Writer

func keyName(k int) string { return "key-" + strconv.Itoa(k) }
func keyID(s string) int {
	if strings.HasPrefix(s, "key-") {
		if n, err := strconv.Atoi(s[4:]); err == nil && n >= 1 && n <= 11 {
			return n
		}
	}
	return 12
}
func valID(s string) int {
	if strings.HasPrefix(s, "val-") {
		r := s[4:]
		if i := strings.IndexByte(r, '-'); i > 0 {
			if n, err := strconv.Atoi(r[:i]); err == nil {
				return n
			}
		}
	}
	return 9999
}

func must(err error) {
	if err != nil {
		panic(err)
	}
}

type rec struct{ k, v, d int }

func recsOfBeacon(b beacon.Beacon) [][3]int {
	out := [][3]int{}
	for k, t := range b.GetAll() {
		v := 9998
		if s, err := t.GetContentString(); err == nil {
			v = valID(s)
		} else if t.GetDeletedAt() != 0 {
			v = 0
		}
		d := 0
		if t.GetDeletedAt() != 0 {
			d = 1
		}
		out = append(out, [3]int{keyID(k), v, d})
	}
	sort.Slice(out, func(i, j int) bool { return out[i][0] < out[j][0] })
	return out
}

func silence() func() {
	old := os.Stdout
	dn, _ := os.OpenFile(os.DevNull, os.O_WRONLY, 0)
	os.Stdout = dn
	return func() { os.Stdout = old; dn.Close() }
}

func snapshot(dir string) map[string]string {
	out := map[string]string{}
	ents, err := os.ReadDir(dir)
	if err != nil {
		return nil
	}
	for _, e := range ents {
		if e.IsDir() {
			continue
		}
		b, _ := os.ReadFile(filepath.Join(dir, e.Name()))
		out[e.Name()] = string(b)
	}
	return out
}

func sameSnap(a, b map[string]string) bool {
	if len(a) != len(b) || (a == nil) != (b == nil) {
		return false
	}
	for k, v := range a {
		if b[k] != v {
			return false
		}
	}
	return true
}

func loadLegacy(folder string) [][3]int {
	fs := filesystem.New()
	meta := metadata.New(folder)
	meta.LoadFromFile()
	c := chronicler.New(folder, 1<<20, 3, fs, meta)
	b := beacon.New()
	c.Load(b)
	return recsOfBeacon(b)
}

// the records of every chunk file, read with the legacy engine's own file reader
func chunksOnDisk(folder string) (files []string, chunks [][][3]int, byKey map[int]string) {
	byKey = map[int]string{}
	contents, err := filesystem.New().GetAllFileContents(folder, metadata.MetaFile)
	if err != nil {
		return nil, nil, byKey
	}
	for f := range contents {
		files = append(files, f)
	}
	sort.Strings(files)
	for _, f := range files {
		c := [][3]int{}
		for _, b := range contents[f] {
			t := treasure.New(nil)
			gid := t.StartTreasureGuard(true, guard.BodyAuthID)
			err := t.LoadFromByte(gid, b, f)
			t.ReleaseTreasureGuard(gid)
			if err != nil {
				c = append(c, [3]int{12, 9997, 0})
				continue
			}
			v := 9998
			if s, err := t.GetContentString(); err == nil {
				v = valID(s)
			}
			d := 0
			if t.GetDeletedAt() != 0 {
				d = 1
			}
			c = append(c, [3]int{keyID(t.GetKey()), v, d})
			byKey[keyID(t.GetKey())] = f
		}
		chunks = append(chunks, c)
	}
	return files, chunks, byKey
}

type run struct {
	sc           Scenario
	rng          *rand.Rand
	notes        []string
	wrong        []string
	skip         string
	lostPointers int
}

func (r *run) do(work string) {
	sc := r.sc
	data := filepath.Join(work, "migration-data", strconv.Itoa(sc.ID))
	os.RemoveAll(data)
	folder := filepath.Join(data, "600", "ab", "swamp-hash")
	must(os.MkdirAll(filepath.Dir(folder), 0o755))
	restore := silence() // (the legacy engine prints debug lines to stdout)
	defer restore()

	// ---- the legacy engine writes the folder
	fs := filesystem.New()
	meta := metadata.New(folder)
	meta.LoadFromFile()
	nm := name.New().Sanctuary(sc.Name[0]).Realm(sc.Name[1]).Swamp(sc.Name[2])
	meta.SetSwampName(nm)
	lc := chronicler.New(folder, sc.ChunkSize, 3, fs, meta)
	lc.CreateDirectoryIfNotExists()
	live := map[int]treasure.Treasure{}
	where := map[int]string{} // key -> chunk file
	var order []string        // chunk files in order of first use
	lc.RegisterFilePointerFunction(func(events []*chronicler.FileNameEvent) error {
		for _, e := range events {
			k := keyID(e.TreasureKey)
			if t := live[k]; t != nil {
				gid := t.StartTreasureGuard(true, guard.BodyAuthID)
				t.BodySetFileName(gid, e.FileName)
				t.ReleaseTreasureGuard(gid)
			}
			where[k] = e.FileName
			seen := false
			for _, f := range order {
				seen = seen || f == e.FileName
			}
			if !seen {
				order = append(order, e.FileName)
			}
		}
		return nil
	})
	model := map[int]rec{}
	var batch []treasure.Treasure
	// The legacy writer does not announce the file of the record that fills a chunk up (writeNewTreasures breaks out
	// before collecting its file-pointer event); such a record would later be written a second time as "new". A
	// reload gives every record its file name, so do what a reload does and keep the histories free of duplicates.
	repoint := func() {
		missing := false
		for _, t := range live {
			if t.GetFileName() == nil {
				missing = true
			}
		}
		if !missing {
			return
		}
		_, _, byKey := chunksOnDisk(folder)
		for k, t := range live {
			if t.GetFileName() == nil && byKey[k] != "" {
				gid := t.StartTreasureGuard(true, guard.BodyAuthID)
				t.BodySetFileName(gid, byKey[k])
				t.ReleaseTreasureGuard(gid)
				r.lostPointers++
			}
		}
	}
	flush := func() {
		if len(batch) > 0 {
			lc.Write(batch)
			batch = nil
			repoint()
		}
	}
	for _, op := range sc.Ops {
		switch op.Op {
		case "new":
			if _, ok := model[op.K]; ok {
				continue
			}
			t := treasure.New(nil)
			gid := t.StartTreasureGuard(true, guard.BodyAuthID)
			t.BodySetKey(gid, keyName(op.K))
			t.SetContentString(gid, fmt.Sprintf("val-%d-%s", op.V, strings.Repeat("x", sc.Pad)))
			t.ReleaseTreasureGuard(gid)
			live[op.K] = t
			model[op.K] = rec{op.K, op.V, 0}
			batch = append(batch, t)
			if len(batch) >= sc.Batch {
				flush()
			}
		case "modify", "shadow", "delete":
			if _, ok := model[op.K]; !ok {
				continue
			}
			flush() // the record must be on disk (it needs its file pointer) before it can be modified
			t := live[op.K]
			gid := t.StartTreasureGuard(true, guard.BodyAuthID)
			switch op.Op {
			case "modify":
				t.SetContentString(gid, fmt.Sprintf("val-%d-%s", op.V, strings.Repeat("x", sc.Pad)))
				model[op.K] = rec{op.K, op.V, model[op.K].d}
			case "shadow":
				t.BodySetForDeletion(gid, "verif", true)
				model[op.K] = rec{op.K, model[op.K].v, 1}
			case "delete":
				t.BodySetForDeletion(gid, "verif", false)
				delete(model, op.K)
			}
			t.ReleaseTreasureGuard(gid)
			lc.Write([]treasure.Treasure{t})
			if op.Op == "delete" {
				delete(live, op.K)
				delete(where, op.K)
			}
		}
	}
	flush()
	meta.SaveToFile()

	// chunk model: the records of every chunk file as the legacy file reader sees them now
	chunkFiles, chunks, _ := chunksOnDisk(folder)
	if chunks == nil {
		chunks = [][][3]int{}
	}
	_ = where
	_ = order
	{
		var got [][3]int
		for _, c := range chunks {
			got = append(got, c...)
		}
		sort.Slice(got, func(i, j int) bool { return got[i][0] < got[j][0] })
		var ks []int
		for k := range model {
			ks = append(ks, k)
		}
		sort.Ints(ks)
		want := [][3]int{}
		for _, k := range ks {
			want = append(want, [3]int{k, model[k].v, model[k].d})
		}
		if fmt.Sprint(got) != fmt.Sprint(want) {
			// (the legacy engine itself lost or duplicated a record: not this property's subject)
			r.skip = fmt.Sprintf("legacy folder holds %v, the history says %v", got, want)
			return
		}
	}

	// ---- read-side damage of one chunk file
	bad := []int{}
	if sc.Damage != "" && len(chunkFiles) > 0 {
		i := r.rng.Intn(len(chunkFiles))
		p := filepath.Join(folder, chunkFiles[i])
		b, _ := os.ReadFile(p)
		switch sc.Damage {
		case "truncate0":
			b = b[:0]
		case "truncate":
			if len(b) > 1 {
				b = b[:1+r.rng.Intn(len(b)-1)]
			}
		case "bitflip":
			if len(b) > 0 {
				b[r.rng.Intn(len(b))] ^= 1 << r.rng.Intn(8)
			}
		case "garbage":
			r.rng.Read(b)
		}
		must(os.WriteFile(p, b, 0o644))
		bad = append(bad, i+1)
	}
	// what the legacy engine loads from the folder as it is now: the reference
	legacy := loadLegacy(folder)
	want := [][3]int{}
	for i, c := range chunks {
		if len(bad) > 0 && bad[0] == i+1 {
			continue
		}
		want = append(want, c...)
	}
	sort.Slice(want, func(i, j int) bool { return want[i][0] < want[j][0] })
	if fmt.Sprint(legacy) != fmt.Sprint(want) {
		// the damage did not simply make the chunk unreadable (benign, or the legacy load gave up altogether, or
		// records were altered): try "no damage at all"
		all := [][3]int{}
		for _, c := range chunks {
			all = append(all, c...)
		}
		sort.Slice(all, func(i, j int) bool { return all[i][0] < all[j][0] })
		if fmt.Sprint(legacy) == fmt.Sprint(all) {
			bad = []int{}
		} else if len(legacy) == 0 {
			// the legacy load gives up altogether on a record it cannot decode: nothing is loadable
			bad = []int{}
			for i := range chunks {
				bad = append(bad, i+1)
			}
		} else {
			r.skip = fmt.Sprintf("legacy load after damage %q is neither 'chunk skipped' nor 'unchanged': %v", sc.Damage, legacy)
			return
		}
	}
	snap := snapshot(folder)

	// ---- a leftover target file
	hyd := folder + ".hyd"
	staleRecs := [][3]int{}
	if sc.Stale != "" {
		w, err := v2.NewFileWriterWithName(hyd, 1, nm.Get())
		must(err)
		t := treasure.New(nil)
		gid := t.StartTreasureGuard(true, guard.BodyAuthID)
		t.BodySetKey(gid, keyName(11))
		t.SetContentString(gid, "val-77-")
		b, _ := t.ConvertToByte(gid)
		t.ReleaseTreasureGuard(gid)
		must(w.WriteEntry(v2.Entry{Operation: v2.OpInsert, Key: keyName(11), Data: b}))
		must(w.Close())
		staleRecs = append(staleRecs, [3]int{11, 77, 0})
		if sc.Stale == "torn" {
			fb, _ := os.ReadFile(hyd)
			must(os.WriteFile(hyd, fb[:len(fb)-1-r.rng.Intn(20)], 0o644))
		}
	}
	tw.Emit(ev{"ev": "setup", "id": sc.ID, "chunks": chunks, "bad": bad, "name": 1, "stale": sc.Stale, "stale_recs": staleRecs})

	// ---- the migration, with its phases and the file operations on the new file recorded
	nops := 0
	failed := false
	verifhook.SetFileOp(func(kind string, f *os.File, path string, data []byte) error {
		if path != hyd {
			return nil
		}
		idx := nops
		nops++
		if idx == sc.FailAt && (kind == "create" || kind == "write" || kind == "sync") {
			failed = true
			if kind == "write" && sc.Short && f != nil && len(data) > 1 {
				f.Write(data[:len(data)/2])
			}
			return fmt.Errorf("verif: injected I/O error")
		}
		return nil
	})
	verifhook.SetTrace(func(event string, kv ...any) {
		m := trace.KV(kv)
		switch event {
		case "migrator.loaded":
			tw.Emit(ev{"ev": "loaded", "n": m["entries"]})
		case "migrator.empty":
			tw.Emit(ev{"ev": "empty"})
		case "migrator.written":
			tw.Emit(ev{"ev": "written"})
		case "migrator.verified":
			tw.Emit(ev{"ev": "verified"})
		case "migrator.deleted":
			tw.Emit(ev{"ev": "deleted"})
		case "migrator.failed":
			tw.Emit(ev{"ev": "failed", "phase": m["phase"]})
		}
	})
	// ---- a read fault during the migration: one chunk file is replaced by a symbolic link that cannot be followed
	// (reading it fails; the legacy engine could read the file before and can read it again afterwards)
	rfault := []int{}
	var faultPath string
	var faultBytes []byte
	if sc.ReadFault != "" && len(chunkFiles) > 0 {
		i := r.rng.Intn(len(chunkFiles))
		faultPath = filepath.Join(folder, chunkFiles[i])
		faultBytes, _ = os.ReadFile(faultPath)
		must(os.Remove(faultPath))
		target := filepath.Join(data, "no-such-file")
		if sc.ReadFault == "loop" {
			target = faultPath
		}
		must(os.Symlink(target, faultPath))
		rfault = append(rfault, i+1)
	}
	restoreFault := func() {
		if faultPath == "" {
			return
		}
		if fi, err := os.Lstat(faultPath); err == nil && fi.Mode()&os.ModeSymlink != 0 {
			os.Remove(faultPath)
			must(os.WriteFile(faultPath, faultBytes, 0o644))
		}
	}
	defer restoreFault()
	tw.Emit(ev{"ev": "start", "verify": sc.Verify, "delete_old": sc.DeleteOld, "rfault": rfault})
	panicked := ""
	var res *migrator.Result
	func() {
		defer func() {
			if p := recover(); p != nil {
				panicked = fmt.Sprint(p)
			}
		}()
		mg, err := migrator.New(migrator.Config{DataPath: data, Verify: sc.Verify, DeleteOld: sc.DeleteOld, Parallel: sc.Parallel})
		must(err)
		res, err = mg.Run()
		if err != nil {
			r.notes = append(r.notes, "migrator.Run: "+err.Error())
		}
	}()
	verifhook.SetFileOp(nil)
	verifhook.SetTrace(nil)
	_ = failed

	// ---- observations
	e := ev{"ev": "end"}
	switch {
	case panicked != "":
		e["res"] = "panic"
		r.wrong = append(r.wrong, "migrator panicked: "+panicked)
	case res != nil && len(res.FailedSwamps) > 0:
		e["res"] = "failed"
	case res != nil && res.SuccessfulSwamps == 1:
		e["res"] = "success"
	default:
		e["res"] = "none"
		if res != nil {
			r.wrong = append(r.wrong, fmt.Sprintf("migrator processed %d swamps, %d successful", res.ProcessedSwamps, res.SuccessfulSwamps))
		}
	}
	restoreFault() // (the fault is over: what is left of the legacy folder is judged with the chunk readable again)
	now := snapshot(folder)
	switch {
	case now == nil:
		e["v1"] = "gone"
	case sameSnap(now, snap):
		e["v1"] = "intact"
	default:
		e["v1"] = "partial"
	}
	e["v2_ex"], e["v2_err"], e["v2"], e["name"] = false, false, [][3]int{}, 0
	if _, err := os.Stat(hyd); err == nil {
		e["v2_ex"] = true
		// the raw reader decides whether the file is readable at all, the real V2 chronicler what a server would load
		fr, err := v2.NewFileReader(hyd)
		if err != nil {
			e["v2_err"] = true
		} else {
			_, nmFile, lerr := fr.LoadIndex()
			fr.Close()
			if lerr != nil {
				e["v2_err"] = true
			} else {
				if nmFile == nm.Get() {
					e["name"] = 1
				} else if nmFile != "" {
					e["name"] = 2
				}
				copyTo := filepath.Join(data, "load-copy", "swamp-hash")
				must(os.MkdirAll(filepath.Dir(copyTo), 0o755))
				fb, _ := os.ReadFile(hyd)
				must(os.WriteFile(copyTo+".hyd", fb, 0o644))
				c2 := chronicler.NewV2(copyTo, 3)
				b := beacon.New()
				c2.Load(b)
				_ = c2.Close()
				e["v2"] = recsOfBeacon(b)
			}
		}
	}
	tw.Emit(e)
	if e["res"] == "success" && fmt.Sprint(e["v2"]) != fmt.Sprint(legacy) && !(len(legacy) == 0 && e["v2_ex"] == false) {
		r.wrong = append(r.wrong, fmt.Sprintf("migration reported success; legacy engine loads %v, new file loads %v (readable=%v)", legacy, e["v2"], e["v2_err"] == false))
	}
	if e["res"] == "failed" && e["v1"] != "intact" {
		r.wrong = append(r.wrong, fmt.Sprintf("migration failed and the legacy folder is %v", e["v1"]))
	}
	os.RemoveAll(data)
}

func main() {
	if len(os.Args) < 5 || os.Args[1] != "run" {
		fmt.Fprintln(os.Stderr, "usage: migration run <scenarios.json> <trace.ndjson> <results.ndjson>")
		os.Exit(3)
	}
	slog.SetDefault(slog.New(slog.NewTextHandler(io.Discard, nil)))
	var scs []Scenario
	raw, err := os.ReadFile(os.Args[2])
	must(err)
	must(json.Unmarshal(raw, &scs))
	work := os.Getenv("VERIF_WORK")
	if work == "" {
		panic("VERIF_WORK not set")
	}
	tw, err = trace.Create(os.Args[3])
	must(err)
	rf, err := os.Create(os.Args[4])
	must(err)
	for _, sc := range scs {
		r := &run{sc: sc, rng: rand.New(rand.NewSource(sc.Seed))}
		func() {
			defer func() {
				if p := recover(); p != nil {
					verifhook.SetFileOp(nil)
					verifhook.SetTrace(nil)
					r.notes = append(r.notes, fmt.Sprintf("driver panic: %v", p))
				}
			}()
			r.do(work)
		}()
		if r.skip == "" {
			tw.Emit(ev{"ev": "done", "id": sc.ID})
		}
		b, _ := json.Marshal(map[string]any{"id": sc.ID, "notes": r.notes, "wrong": r.wrong, "skip": r.skip, "lost_pointers": r.lostPointers})
		rf.Write(append(b, '\n'))
	}
	rf.Close()
	must(tw.Close())
	os.RemoveAll(filepath.Join(work, "migration-data"))
}
