// Driver for swamp addressing (C20): binds spec/Naming.tla to app/name (server side) and
// sdk/go/hydraidego/name + sdk/go/hydraidego/client (SDK side).
//
//	naming mine <maxClass> <perClass> <budget> <out.json>
//	    finds swamp names whose canonical-string hash has 1..maxClass leading zero hex digits
//	naming run <cases.json> <trace.ndjson>
//	    cases.json: {"names":[{"id":"n1","parts":[s,r,w],"valid":0|1},..],
//	                 "configs":[{"N":n,"ranges":[[from,to],..],"depth":d,"fpl":f},..]}
//	    every name x every configuration: one "addr" line (spec/Trace_Naming.tla) with
//	      hc / hp   the two 64-bit hashes as 16 hex digits, from an xxhash implementation in THIS file
//	      srv       name.GetFolderNumber(N) of the server package
//	      sdk       name.GetIslandID(N) of the SDK package
//	      route     index of the server the real SDK client picks (GetServiceClientAndHost, GetServiceClient)
//	      loc       GetFullHashPath(root, island, depth, fpl) parsed into island / levels / leaf, or panic
//	    each taken through EVERY construction route of the name (plain chain; chain whose prefixes were
//	    asked for island / path / string first; a realm-level prefix shared with another swamp; a used
//	    object as receiver of a new chain; Load of the string form; the same object asked twice): only the
//	    DISTINCT results are logged and the spec allows exactly one.
//
// Name objects memoise their first answer; a call with OTHER arguments on the same object is never made. The SDK client is a real
// client.New(...).Connect() against in-process TLS gRPC servers on 127.0.0.1 (certificates generated at
// start under $VERIF_WORK) that only answer Heartbeat.
package main

import (
	"context"
	"crypto/ecdsa"
	"crypto/elliptic"
	"crypto/rand"
	"crypto/tls"
	"crypto/x509"
	"crypto/x509/pkix"
	"encoding/binary"
	"encoding/json"
	"encoding/pem"
	"fmt"
	"io"
	"log/slog"
	"math/big"
	"math/bits"
	"net"
	"os"
	"path/filepath"
	"strconv"
	"strings"
	"time"

	"github.com/cespare/xxhash/v2"
	srvname "github.com/hydraide/hydraide/app/name"
	sdkclient "github.com/hydraide/hydraide/sdk/go/hydraidego/v3/client"
	hydrapb "github.com/hydraide/hydraide/sdk/go/hydraidego/v3/hydraidepbgo"
	sdkname "github.com/hydraide/hydraide/sdk/go/hydraidego/v3/name"
	"google.golang.org/grpc"
	"google.golang.org/grpc/credentials"

	"verifharness/trace"
)

// ---------------------------------------------------------------- independent XXH64 (seed 0)

var (
	p1 uint64 = 11400714785074694791
	p2 uint64 = 14029467366897019727
	p3 uint64 = 1609587929392839161
	p4 uint64 = 9650029242287828579
	p5 uint64 = 2870177450012600261
)

func round64(acc, in uint64) uint64 { return bits.RotateLeft64(acc+in*p2, 31) * p1 }
func merge64(acc, v uint64) uint64  { return (acc^round64(0, v))*p1 + p4 }

func xxh64(b []byte) uint64 {
	n := uint64(len(b))
	var h uint64
	if len(b) >= 32 {
		v1, v2, v3, v4 := p1+p2, p2, uint64(0), -p1
		for len(b) >= 32 {
			v1 = round64(v1, binary.LittleEndian.Uint64(b[0:8]))
			v2 = round64(v2, binary.LittleEndian.Uint64(b[8:16]))
			v3 = round64(v3, binary.LittleEndian.Uint64(b[16:24]))
			v4 = round64(v4, binary.LittleEndian.Uint64(b[24:32]))
			b = b[32:]
		}
		h = bits.RotateLeft64(v1, 1) + bits.RotateLeft64(v2, 7) + bits.RotateLeft64(v3, 12) + bits.RotateLeft64(v4, 18)
		h = merge64(h, v1)
		h = merge64(h, v2)
		h = merge64(h, v3)
		h = merge64(h, v4)
	} else {
		h = p5
	}
	h += n
	for len(b) >= 8 {
		h ^= round64(0, binary.LittleEndian.Uint64(b[:8]))
		h = bits.RotateLeft64(h, 27)*p1 + p4
		b = b[8:]
	}
	if len(b) >= 4 {
		h ^= uint64(binary.LittleEndian.Uint32(b[:4])) * p1
		h = bits.RotateLeft64(h, 23)*p2 + p3
		b = b[4:]
	}
	for _, c := range b {
		h ^= uint64(c) * p5
		h = bits.RotateLeft64(h, 11) * p1
	}
	h ^= h >> 33
	h *= p2
	h ^= h >> 29
	h *= p3
	h ^= h >> 32
	return h
}

func nibbles(h uint64) []int {
	out := make([]int, 16)
	for i := 0; i < 16; i++ {
		out[i] = int((h >> uint(60-4*i)) & 15)
	}
	return out
}

func leadingZeroNibbles(h uint64) int {
	if h == 0 {
		return 16
	}
	return bits.LeadingZeros64(h) / 4
}

// ---------------------------------------------------------------- cases

type tname struct {
	ID    string   `json:"id"`
	Parts []string `json:"parts"`
	Valid int      `json:"valid"`
}
type tconfig struct {
	N      int      `json:"N"`
	Ranges [][2]int `json:"ranges"`
	Depth  int      `json:"depth"`
	Fpl    int      `json:"fpl"`
}
type tcases struct {
	Names   []tname   `json:"names"`
	Configs []tconfig `json:"configs"`
}

type loc struct {
	Panic  int     `json:"panic"`
	Island int     `json:"island"`
	Levels [][]int `json:"levels"`
	Leaf   []int   `json:"leaf"`
	Raw    string  `json:"-"`
}

const rootPath = "/verifroot"

func hexDigits(s string) []int {
	out := make([]int, 0, len(s))
	for _, c := range s {
		v, err := strconv.ParseUint(string(c), 16, 8)
		if err != nil || (c >= 'A' && c <= 'F') {
			out = append(out, -1) // not a lower-case hex digit: no spec value can match
		} else {
			out = append(out, int(v))
		}
	}
	return out
}

// parse root/<island>/<levels...>/<leaf>
func parseLoc(p string) loc {
	l := loc{Levels: [][]int{}, Leaf: []int{}, Raw: p}
	rest := strings.TrimPrefix(p, rootPath+"/")
	if rest == p {
		l.Island = -1
		return l
	}
	parts := strings.Split(rest, "/")
	isl, err := strconv.Atoi(parts[0])
	if err != nil || len(parts) < 2 {
		l.Island = -1
		return l
	}
	l.Island = isl
	for _, x := range parts[1 : len(parts)-1] {
		l.Levels = append(l.Levels, hexDigits(x))
	}
	l.Leaf = hexDigits(parts[len(parts)-1])
	return l
}

func fullPath(n srvname.Name, island uint64, depth, fpl int) (l loc) {
	defer func() {
		if r := recover(); r != nil {
			l = loc{Panic: 1, Levels: [][]int{}, Leaf: []int{}, Raw: fmt.Sprint(r)}
		}
	}()
	return parseLoc(n.GetFullHashPath(rootPath, island, depth, fpl))
}

func srvNew(p []string) srvname.Name { return srvname.New().Sanctuary(p[0]).Realm(p[1]).Swamp(p[2]) }
func sdkNew(p []string) sdkname.Name { return sdkname.New().Sanctuary(p[0]).Realm(p[1]).Swamp(p[2]) }

// Construction routes: legal API call sequences that end in the SAME name. Name values are immutable
// builders (every method returns a new Name) that memoise what they computed, so a prefix that has
// already answered questions, a prefix shared by several swamps, the string form and the plain chain
// must all give the same island, routing and location.
type sdkRoute struct {
	name  string
	build func() sdkname.Name
}
type srvRoute struct {
	name  string
	build func() srvname.Name
}

const otherSwamp = "verif-other-swamp"

// routeNames lists the construction routes that were exercised for this line (the trace spec demands the full set)
func routeNames(n tname, c tconfig) []string {
	out := []string{"same-object-twice"}
	for _, r := range sdkRoutes(n, c) {
		out = append(out, "sdk:"+r.name)
	}
	for _, r := range srvRoutes(n, c) {
		out = append(out, "srv:"+r.name)
	}
	return out
}

func sdkRoutes(n tname, c tconfig) []sdkRoute {
	p := n.Parts
	N := uint64(c.N)
	rs := []sdkRoute{
		{"chain", func() sdkname.Name { return sdkNew(p) }},
		{"asked-prefixes", func() sdkname.Name {
			// every intermediate name is used (island, string form, wildcard test) before it is extended
			a := sdkname.New()
			a.Get()
			b := a.Sanctuary(p[0])
			b.GetIslandID(N)
			b.Get()
			b.IsWildcardPattern()
			r := b.Realm(p[1])
			r.GetIslandID(N)
			r.Get()
			return r.Swamp(p[2])
		}},
		{"asked-prefixes-other-N", func() sdkname.Name {
			b := sdkname.New().Sanctuary(p[0])
			b.GetIslandID(N + 7)
			r := b.Realm(p[1])
			r.GetIslandID(N + 13)
			return r.Swamp(p[2])
		}},
		{"shared-prefix", func() sdkname.Name {
			// one realm-level name kept as a base for several swamps
			base := sdkname.New().Sanctuary(p[0]).Realm(p[1])
			base.GetIslandID(N)
			o := base.Swamp(otherSwamp)
			o.GetIslandID(N)
			o.Get()
			return base.Swamp(p[2])
		}},
		{"reused-builder", func() sdkname.Name {
			// a used name object serves as the receiver of a new chain
			x := sdkname.New().Sanctuary("verif-x").Realm("y").Swamp("z")
			x.GetIslandID(N)
			return x.Sanctuary(p[0]).Realm(p[1]).Swamp(p[2])
		}},
	}
	if n.Valid == 1 {
		rs = append(rs, sdkRoute{"load", func() sdkname.Name { return sdkname.Load(p[0] + "/" + p[1] + "/" + p[2]) }},
			sdkRoute{"load-of-get", func() sdkname.Name {
				o := sdkNew(p)
				o.GetIslandID(N)
				return sdkname.Load(o.Get())
			}})
	}
	return rs
}

func srvRoutes(n tname, c tconfig) []srvRoute {
	p := n.Parts
	N := uint16(c.N)
	ask := func(x srvname.Name) {
		// a prefix may be incomplete; what it answers (or whether it panics) is not the subject here
		defer func() { recover() }()
		x.GetFolderNumber(N)
		x.Get()
		x.IsWildcardPattern()
		x.GetFullHashPath(rootPath, 1, c.Depth, c.Fpl)
	}
	rs := []srvRoute{
		{"chain", func() srvname.Name { return srvNew(p) }},
		{"asked-prefixes", func() srvname.Name {
			a := srvname.New()
			ask(a)
			b := a.Sanctuary(p[0])
			ask(b)
			r := b.Realm(p[1])
			ask(r)
			return r.Swamp(p[2])
		}},
		{"shared-prefix", func() srvname.Name {
			base := srvname.New().Sanctuary(p[0]).Realm(p[1])
			ask(base)
			o := base.Swamp(otherSwamp)
			ask(o)
			return base.Swamp(p[2])
		}},
		{"reused-builder", func() srvname.Name {
			x := srvname.New().Sanctuary("verif-x").Realm("y").Swamp("z")
			ask(x)
			return x.Sanctuary(p[0]).Realm(p[1]).Swamp(p[2])
		}},
	}
	if n.Valid == 1 {
		rs = append(rs, srvRoute{"load", func() srvname.Name { return srvname.Load(p[0] + "/" + p[1] + "/" + p[2]) }},
			srvRoute{"load-of-sdk-get", func() srvname.Name { return srvname.Load(sdkNew(p).Get()) }})
	}
	return rs
}

// ---------------------------------------------------------------- TLS heartbeat servers

type hbServer struct {
	hydrapb.UnimplementedHydraideServiceServer
}

func (hbServer) Heartbeat(_ context.Context, in *hydrapb.HeartbeatRequest) (*hydrapb.HeartbeatResponse, error) {
	return &hydrapb.HeartbeatResponse{Pong: in.GetPing()}, nil
}

type pki struct {
	caPath, cliCrt, cliKey string
	srvCert                tls.Certificate
	pool                   *x509.CertPool
}

func writePEM(path, typ string, der []byte) {
	f, err := os.OpenFile(path, os.O_CREATE|os.O_TRUNC|os.O_WRONLY, 0o600)
	if err != nil {
		panic(err)
	}
	defer f.Close()
	if err := pem.Encode(f, &pem.Block{Type: typ, Bytes: der}); err != nil {
		panic(err)
	}
}

func makePKI(dir string) *pki {
	must := func(err error) {
		if err != nil {
			panic(err)
		}
	}
	must(os.MkdirAll(dir, 0o700))
	caKey, err := ecdsa.GenerateKey(elliptic.P256(), rand.Reader)
	must(err)
	caT := &x509.Certificate{SerialNumber: big.NewInt(1), Subject: pkix.Name{CommonName: "verif-ca"},
		NotBefore: time.Now().Add(-time.Hour), NotAfter: time.Now().Add(24 * time.Hour), IsCA: true,
		KeyUsage: x509.KeyUsageCertSign | x509.KeyUsageDigitalSignature, BasicConstraintsValid: true}
	caDer, err := x509.CreateCertificate(rand.Reader, caT, caT, &caKey.PublicKey, caKey)
	must(err)
	caCert, err := x509.ParseCertificate(caDer)
	must(err)
	leaf := func(serial int64, cn string, server bool) (der []byte, key *ecdsa.PrivateKey) {
		key, err := ecdsa.GenerateKey(elliptic.P256(), rand.Reader)
		must(err)
		t := &x509.Certificate{SerialNumber: big.NewInt(serial), Subject: pkix.Name{CommonName: cn},
			NotBefore: time.Now().Add(-time.Hour), NotAfter: time.Now().Add(24 * time.Hour),
			KeyUsage: x509.KeyUsageDigitalSignature}
		if server {
			t.ExtKeyUsage = []x509.ExtKeyUsage{x509.ExtKeyUsageServerAuth}
			t.IPAddresses = []net.IP{net.ParseIP("127.0.0.1")}
		} else {
			t.ExtKeyUsage = []x509.ExtKeyUsage{x509.ExtKeyUsageClientAuth}
		}
		der, err = x509.CreateCertificate(rand.Reader, t, caCert, &key.PublicKey, caKey)
		must(err)
		return der, key
	}
	p := &pki{caPath: filepath.Join(dir, "ca.crt"), cliCrt: filepath.Join(dir, "client.crt"), cliKey: filepath.Join(dir, "client.key")}
	writePEM(p.caPath, "CERTIFICATE", caDer)
	cder, ckey := leaf(3, "verif-client", false)
	writePEM(p.cliCrt, "CERTIFICATE", cder)
	kb, err := x509.MarshalECPrivateKey(ckey)
	must(err)
	writePEM(p.cliKey, "EC PRIVATE KEY", kb)
	sder, skey := leaf(2, "127.0.0.1", true)
	p.srvCert = tls.Certificate{Certificate: [][]byte{sder}, PrivateKey: skey}
	p.pool = x509.NewCertPool()
	p.pool.AddCert(caCert)
	return p
}

func startServers(p *pki, n int) (hosts []string, stop func()) {
	var srvs []*grpc.Server
	for i := 0; i < n; i++ {
		lis, err := net.Listen("tcp", "127.0.0.1:0")
		if err != nil {
			panic(err)
		}
		cfg := &tls.Config{Certificates: []tls.Certificate{p.srvCert}, ClientAuth: tls.RequireAndVerifyClientCert,
			ClientCAs: p.pool, MinVersion: tls.VersionTLS13}
		s := grpc.NewServer(grpc.Creds(credentials.NewTLS(cfg)))
		hydrapb.RegisterHydraideServiceServer(s, hbServer{})
		go s.Serve(lis)
		srvs = append(srvs, s)
		hosts = append(hosts, lis.Addr().String())
	}
	return hosts, func() {
		for _, s := range srvs {
			s.Stop()
		}
	}
}

// connect builds the real SDK client for one routing table
func connect(p *pki, hosts []string, ranges [][2]int, n int) sdkclient.Client {
	var last error
	for attempt := 0; attempt < 6; attempt++ {
		var servers []*sdkclient.Server
		for i, r := range ranges {
			servers = append(servers, &sdkclient.Server{Host: hosts[i], FromIsland: uint64(r[0]), ToIsland: uint64(r[1]),
				CACrtPath: p.caPath, ClientCrtPath: p.cliCrt, ClientKeyPath: p.cliKey})
		}
		c := sdkclient.New(servers, uint64(n), 4<<20)
		if err := c.Connect(false); err == nil {
			return c
		} else {
			last = err
			c.CloseConnection()
		}
	}
	fmt.Fprintln(os.Stderr, "cannot connect the SDK client to the in-process servers:", last)
	os.Exit(3)
	return nil
}

func guarded(f func() int) (v int) {
	defer func() {
		if r := recover(); r != nil {
			v = -1
		}
	}()
	return f()
}

func distinct(xs []int) []int {
	out := []int{}
	for _, x := range xs {
		dup := false
		for _, y := range out {
			dup = dup || x == y
		}
		if !dup {
			out = append(out, x)
		}
	}
	return out
}

func distinctLocs(xs []loc) []loc {
	out := []loc{}
	seen := map[string]bool{}
	for _, x := range xs {
		b, _ := json.Marshal(x)
		if !seen[string(b)] {
			seen[string(b)] = true
			out = append(out, x)
		}
	}
	return out
}

// ---------------------------------------------------------------- run

func selfTestHash() {
	for _, s := range []string{"", "a", "abc", "users/profiles/alice123", strings.Repeat("xyz0123456789", 7), "árvíztűrő tükörfúrógép/\x00/🙂"} {
		if xxh64([]byte(s)) != xxhash.Sum64String(s) {
			fmt.Fprintf(os.Stderr, "independent xxh64 disagrees with the library on %q\n", s)
			os.Exit(4)
		}
	}
}

func run(casesPath, tracePath string) {
	data, err := os.ReadFile(casesPath)
	if err != nil {
		panic(err)
	}
	var cs tcases
	if err := json.Unmarshal(data, &cs); err != nil {
		panic(err)
	}
	base := os.Getenv("VERIF_WORK")
	if base == "" {
		fmt.Fprintln(os.Stderr, "VERIF_WORK is not set")
		os.Exit(64)
	}
	dir := filepath.Join(base, fmt.Sprintf("c20-tls-%d", os.Getpid()))
	defer os.RemoveAll(dir)
	p := makePKI(dir)
	hosts, stop := startServers(p, 4)
	defer stop()
	hostIdx := map[string]int{}
	for i, h := range hosts {
		hostIdx[h] = i + 1
	}
	w, err := trace.Create(tracePath)
	if err != nil {
		panic(err)
	}
	clients := map[string]sdkclient.Client{}
	for _, c := range cs.Configs {
		key := fmt.Sprint(c.N, c.Ranges)
		cl := clients[key]
		if cl == nil {
			cl = connect(p, hosts, c.Ranges, c.N)
			clients[key] = cl
		}
		uniq := cl.GetUniqueServiceClients()
		for _, n := range cs.Names {
			canon := n.Parts[0] + "/" + n.Parts[1] + "/" + n.Parts[2]
			hc := xxh64([]byte(n.Parts[0] + n.Parts[1] + n.Parts[2]))
			hp := xxh64([]byte(canon))
			// a panic of the code under test is an observation: -1 matches no value of the spec.
			// Every result is taken through every construction route of the name (see sdkRoutes / srvRoutes):
			// the route must not matter.
			diag := map[string]any{}
			var srv, sdk, rts []int
			for _, rt := range srvRoutes(n, c) {
				rt := rt
				v := guarded(func() int { return int(rt.build().GetFolderNumber(uint16(c.N))) })
				srv = append(srv, v)
				diag["srv:"+rt.name] = v
			}
			// the same object asked twice
			srv = append(srv, guarded(func() int {
				o := srvNew(n.Parts)
				a, b := o.GetFolderNumber(uint16(c.N)), o.GetFolderNumber(uint16(c.N))
				if a != b {
					return -2
				}
				return int(b)
			}))
			for _, rt := range sdkRoutes(n, c) {
				rt := rt
				v := guarded(func() int { return int(rt.build().GetIslandID(uint64(c.N))) })
				sdk = append(sdk, v)
				diag["sdk:"+rt.name] = v
				// routing: by host, and by client identity, with a name built through this route
				r1 := guarded(func() int {
					if sc := cl.GetServiceClientAndHost(rt.build()); sc != nil {
						if i := hostIdx[sc.Host]; i != 0 {
							return i
						}
						return -1
					}
					return 0
				})
				r2 := guarded(func() int {
					if g := cl.GetServiceClient(rt.build()); g != nil {
						for i, u := range uniq {
							if u == g {
								return i + 1
							}
						}
						return -1
					}
					return 0
				})
				rts = append(rts, r1, r2)
				diag["route:"+rt.name] = []int{r1, r2}
			}
			sdk = append(sdk, guarded(func() int {
				o := sdkNew(n.Parts)
				a, b := o.GetIslandID(uint64(c.N)), o.GetIslandID(uint64(c.N))
				if a != b {
					return -2
				}
				return int(b)
			}))
			// the request carries the island the SDK computed; the server builds the path with it
			island := uint64(1)
			if sdk[0] > 0 {
				island = uint64(sdk[0])
			}
			var locs []loc
			for _, rt := range srvRoutes(n, c) {
				l := fullPath(rt.build(), island, c.Depth, c.Fpl)
				locs = append(locs, l)
				diag["loc:"+rt.name] = l.Raw
			}
			{
				// the same object asked twice with the same arguments
				o := srvNew(n.Parts)
				locs = append(locs, fullPath(o, island, c.Depth, c.Fpl), fullPath(o, island, c.Depth, c.Fpl))
			}
			raw := locs[0].Raw
			// only the DISTINCT results of the repeated calls are logged
			ev := map[string]any{"ev": "addr", "id": n.ID, "valid": n.Valid, "hc": nibbles(hc), "hp": nibbles(hp),
				"N": c.N, "ranges": c.Ranges, "depth": c.Depth, "fpl": c.Fpl,
				"srv": distinct(srv), "sdk": distinct(sdk), "route": distinct(rts), "loc": distinctLocs(locs), "raw": raw,
				"routes": routeNames(n, c)}
			if len(distinct(srv)) > 1 || len(distinct(sdk)) > 1 || len(distinct(rts)) > 1 || len(distinctLocs(locs)) > 1 {
				ev["byroute"] = diag // which construction route gave what (not read by the spec)
			}
			w.Emit(ev)
		}
	}
	for _, cl := range clients {
		cl.CloseConnection()
	}
	if err := w.Close(); err != nil {
		panic(err)
	}
}

// mine: names z/q/m<i> whose canonical-string hash has k leading zero hex digits, k = 1..maxClass
func mine(maxClass, perClass int, budget uint64, out string) {
	found := map[int][]tname{}
	need := maxClass * perClass
	got := 0
	buf := make([]byte, 0, 64)
	for i := uint64(0); i < budget && got < need; i++ {
		buf = append(buf[:0], "z/q/m"...)
		buf = strconv.AppendUint(buf, i, 36)
		k := leadingZeroNibbles(xxhash.Sum64(buf))
		if k >= 1 {
			if k > maxClass {
				k = maxClass
			}
			if len(found[k]) < perClass {
				found[k] = append(found[k], tname{ID: fmt.Sprintf("z%d_%d", k, len(found[k])),
					Parts: []string{"z", "q", "m" + strconv.FormatUint(i, 36)}, Valid: 1})
				got++
			}
		}
	}
	var all []tname
	for k := 1; k <= maxClass; k++ {
		all = append(all, found[k]...)
	}
	b, _ := json.Marshal(all)
	if err := os.WriteFile(out, b, 0o644); err != nil {
		panic(err)
	}
}

func main() {
	slog.SetDefault(slog.New(slog.NewTextHandler(io.Discard, nil)))
	selfTestHash()
	switch {
	case len(os.Args) == 4 && os.Args[1] == "run":
		run(os.Args[2], os.Args[3])
	case len(os.Args) == 6 && os.Args[1] == "mine":
		mc, _ := strconv.Atoi(os.Args[2])
		pc, _ := strconv.Atoi(os.Args[3])
		bd, _ := strconv.ParseUint(os.Args[4], 10, 64)
		mine(mc, pc, bd, os.Args[5])
	default:
		fmt.Fprintln(os.Stderr, "usage: naming run <cases.json> <trace.ndjson> | naming mine <maxClass> <perClass> <budget> <out.json>")
		os.Exit(64)
	}
}
