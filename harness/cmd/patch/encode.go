package main

// Concretisation: abstract document of spec/Patch.tla -> msgpack bytes.  Written by hand against the
// msgpack specification (no library), so that the bytes do not depend on the code under test.
//
// A leaf <<code, base, value>> has exactly one encoding (the code family fixes the format byte and the
// width, also for deliberately non-canonical choices such as int16(5) or str16("b")).  Containers have
// two styles: 0 = the shortest header and fixstr keys (what an encoder emits), 1 = map16 / array16
// headers and str8 keys (legal msgpack that a re-encoding server would normalise).

import (
	"encoding/binary"
	"fmt"
	"math"
	"math/big"
)

var strTab [][]int // abstract strings (ids -> abstract characters), from the generator's header line

func abstractString(id int64) ([]byte, error) {
	if id < 0 || int(id) >= len(strTab) {
		return nil, fmt.Errorf("string id %d outside the generator's table", id)
	}
	out := make([]byte, 0, 4)
	for _, ch := range strTab[id] {
		out = append(out, byte('a'+ch-1))
	}
	return out, nil
}

var bases = map[int64]*big.Int{
	0: big.NewInt(0),
	1: big.NewInt(math.MaxInt32),
	2: big.NewInt(math.MinInt32),
	3: big.NewInt(math.MaxUint32),
	4: big.NewInt(math.MaxInt64),
	5: big.NewInt(math.MinInt64),
	6: new(big.Int).SetUint64(math.MaxUint64),
}

func intValue(d *Doc) (*big.Int, error) {
	b, ok := bases[d.B]
	if !ok {
		return nil, fmt.Errorf("integer base %d", d.B)
	}
	return new(big.Int).Add(b, big.NewInt(d.V)), nil
}

func floatValue(d *Doc, bits32 bool) (uint64, error) {
	switch d.B {
	case 0:
		f := float64(d.V) / 2
		if bits32 {
			return uint64(math.Float32bits(float32(f))), nil
		}
		return math.Float64bits(f), nil
	case 1: // NaN with a payload, so that a re-computed NaN is distinguishable from the stored one
		if bits32 {
			return 0x7fc00001, nil
		}
		return 0x7ff8000000000001, nil
	case 2:
		if bits32 {
			return uint64(math.Float32bits(float32(math.Inf(1)))), nil
		}
		return math.Float64bits(math.Inf(1)), nil
	case 3:
		if bits32 {
			return uint64(math.Float32bits(float32(math.Inf(-1)))), nil
		}
		return math.Float64bits(math.Inf(-1)), nil
	}
	return 0, fmt.Errorf("float kind %d", d.B)
}

func be(n int, v uint64) []byte {
	b := make([]byte, 8)
	binary.BigEndian.PutUint64(b, v)
	return b[8-n:]
}

func encodeLeaf(d *Doc) ([]byte, error) {
	switch d.Code {
	case "pfix", "nfix", "u8", "u16", "u32", "u64", "i8", "i16", "i32", "i64":
		v, err := intValue(d)
		if err != nil {
			return nil, err
		}
		type rng struct {
			code byte
			n    int
			lo   *big.Int
			hi   *big.Int
		}
		r := map[string]rng{
			"pfix": {0, 0, big.NewInt(0), big.NewInt(127)},
			"nfix": {0, 0, big.NewInt(-32), big.NewInt(-1)},
			"u8":   {0xcc, 1, big.NewInt(0), big.NewInt(math.MaxUint8)},
			"u16":  {0xcd, 2, big.NewInt(0), big.NewInt(math.MaxUint16)},
			"u32":  {0xce, 4, big.NewInt(0), big.NewInt(math.MaxUint32)},
			"u64":  {0xcf, 8, big.NewInt(0), new(big.Int).SetUint64(math.MaxUint64)},
			"i8":   {0xd0, 1, big.NewInt(math.MinInt8), big.NewInt(math.MaxInt8)},
			"i16":  {0xd1, 2, big.NewInt(math.MinInt16), big.NewInt(math.MaxInt16)},
			"i32":  {0xd2, 4, big.NewInt(math.MinInt32), big.NewInt(math.MaxInt32)},
			"i64":  {0xd3, 8, big.NewInt(math.MinInt64), big.NewInt(math.MaxInt64)},
		}[d.Code]
		if v.Cmp(r.lo) < 0 || v.Cmp(r.hi) > 0 {
			return nil, fmt.Errorf("value %s does not fit code %s", v, d.Code)
		}
		var u uint64
		if v.Sign() < 0 {
			u = uint64(v.Int64())
		} else {
			u = v.Uint64()
		}
		if r.n == 0 {
			return []byte{byte(u)}, nil
		}
		return append([]byte{r.code}, be(r.n, u)...), nil
	case "f32":
		u, err := floatValue(d, true)
		if err != nil {
			return nil, err
		}
		return append([]byte{0xca}, be(4, u)...), nil
	case "f64":
		u, err := floatValue(d, false)
		if err != nil {
			return nil, err
		}
		return append([]byte{0xcb}, be(8, u)...), nil
	case "fstr", "s8", "s16", "b8", "b16":
		s, err := abstractString(d.V)
		if err != nil {
			return nil, err
		}
		switch d.Code {
		case "fstr":
			return append([]byte{0xa0 | byte(len(s))}, s...), nil
		case "s8":
			return append([]byte{0xd9, byte(len(s))}, s...), nil
		case "s16":
			return append([]byte{0xda, 0, byte(len(s))}, s...), nil
		case "b8":
			return append([]byte{0xc4, byte(len(s))}, s...), nil
		default:
			return append([]byte{0xc5, 0, byte(len(s))}, s...), nil
		}
	case "bool":
		if d.V != 0 {
			return []byte{0xc3}, nil
		}
		return []byte{0xc2}, nil
	case "nil":
		return []byte{0xc0}, nil
	case "tm4": // timestamp 32: fixext4, type -1, seconds
		return append([]byte{0xd6, 0xff}, be(4, uint64(1700000000+d.V))...), nil
	case "tm8": // timestamp 64: fixext8, type -1, nsec<<34 | sec
		return append([]byte{0xd7, 0xff}, be(8, uint64(d.V+1)*1000<<34|1700000000)...), nil
	case "tm12": // timestamp 96: ext8 len 12, type -1, nsec(4) sec(8)
		b := append([]byte{0xc7, 12, 0xff}, be(4, uint64(d.V+1)*1000)...)
		return append(b, be(8, 1700000000)...), nil
	case "ext": // application extension type 5, fixext1
		return []byte{0xd4, 0x05, byte(d.V + 1)}, nil
	}
	return nil, fmt.Errorf("leaf code %q", d.Code)
}

var xBytes = map[string][]byte{
	"trunc":    {0xd1, 0x00},                  // int16 with one payload byte missing
	"trail":    {0x01, 0x02},                  // fixint 1, then one more value
	"resv":     {0xc1},                        // the never-used format byte
	"short":    {0x92, 0x01},                  // array of 2 with 1 element
	"empty":    {},                            // no bytes at all
	"maptrail": {0x81, 0xa1, 'x', 0x01, 0xff}, // {x: 1}, then one more byte
	"mapshort": {0x82, 0xa1, 'x', 0x01},       // map of 2 with 1 entry
}

func encodeDoc(d *Doc, style int) ([]byte, error) {
	var out []byte
	err := encodeInto(&out, d, style)
	return out, err
}

func encodeInto(out *[]byte, d *Doc, style int) error {
	if d == nil {
		return fmt.Errorf("no document")
	}
	switch d.Kind {
	case 'L':
		b, err := encodeLeaf(d)
		if err != nil {
			return err
		}
		*out = append(*out, b...)
	case 'X':
		b, ok := xBytes[d.XKind]
		if !ok {
			return fmt.Errorf("malformed-value kind %q", d.XKind)
		}
		*out = append(*out, b...)
	case 'M':
		n := len(d.Kids)
		if style == 0 && n < 16 {
			*out = append(*out, 0x80|byte(n))
		} else {
			*out = append(*out, 0xde, byte(n>>8), byte(n))
		}
		for i, k := range d.Kids {
			name := d.Names[i]
			if style == 0 && len(name) < 32 {
				*out = append(*out, 0xa0|byte(len(name)))
			} else {
				*out = append(*out, 0xd9, byte(len(name)))
			}
			*out = append(*out, name...)
			if err := encodeInto(out, k, style); err != nil {
				return err
			}
		}
	case 'A':
		n := len(d.Kids)
		if style == 0 && n < 16 {
			*out = append(*out, 0x90|byte(n))
		} else {
			*out = append(*out, 0xdc, byte(n>>8), byte(n))
		}
		for _, k := range d.Kids {
			if err := encodeInto(out, k, style); err != nil {
				return err
			}
		}
	default:
		return fmt.Errorf("document kind %q", d.Kind)
	}
	return nil
}

func isNaNLeaf(raw []byte) bool {
	switch {
	case len(raw) == 5 && raw[0] == 0xca:
		f := math.Float32frombits(binary.BigEndian.Uint32(raw[1:]))
		return f != f
	case len(raw) == 9 && raw[0] == 0xcb:
		f := math.Float64frombits(binary.BigEndian.Uint64(raw[1:]))
		return f != f
	}
	return false
}
