// Driver for the structural msgpack patch (C13): binds spec/Patch.tla to
// app/core/hydra/swamp/treasure/msgpackpatch and to swamp.PatchFields / the PatchTreasures RPC.
//
//	patch run <results.ndjson> <tlc-output>...   binding C at function level (ApplyWithCondition / Apply)
//	patch rig <results.ndjson> <tlc-output>...   the same cases through a real Gateway (status mapping, stored body)
//
// The inputs are the raw outputs of TLC runs of spec/Gen_Patch.tla: one JSON line per abstract case with
// every outcome the specification has for it.  The driver concretises the abstract case into msgpack
// bytes (hand-chosen codes, see encodeLeaf), runs the real code, decodes the result with its own
// structural walker (walker.go, no msgpack library) that keeps the raw byte span of every leaf, and
// reports which of the specification's outcomes the real code produced.  It never decides a verdict:
// the Python check classifies the report.
package main

import (
	"bufio"
	"bytes"
	"crypto/sha1"
	"encoding/hex"
	"encoding/json"
	"errors"
	"fmt"
	"os"
	"runtime"
	"sort"
	"strings"
	"sync"

	mp "github.com/hydraide/hydraide/app/core/hydra/swamp/treasure/msgpackpatch"
)

// ---------------------------------------------------------------------------------------------
// abstract cases as printed by Gen_Patch.tla

type Path struct {
	Bad int               `json:"bad"`
	S   []json.RawMessage `json:"s"`
}
type OpJ struct {
	K string          `json:"k"`
	P Path            `json:"p"`
	V json.RawMessage `json:"v"`
}
type CondJ struct {
	Op string          `json:"op"`
	P  Path            `json:"p"`
	Th json.RawMessage `json:"th"`
}
type OutJ struct {
	S  []string        `json:"s"`
	St string          `json:"st"`
	E  []string        `json:"e"`
	D  json.RawMessage `json:"d"`
}
type CaseJ struct {
	Hdr  int             `json:"hdr"`
	F    string          `json:"f"`
	B    int             `json:"b"`
	I    int             `json:"i"`
	J    int             `json:"j"`
	Body json.RawMessage `json:"body"`
	Ops  []OpJ           `json:"ops"`
	Cond CondJ           `json:"cond"`
	Out  []OutJ          `json:"out"`
	// header line
	StrTab     [][]int  `json:"strtab"`
	Deviations []string `json:"deviations"`
	Readings   []string `json:"readings"`
}

// Doc is an abstract msgpack value of the specification.
type Doc struct {
	Kind   byte // 'L' leaf, 'M' map, 'A' array, 'X' malformed value bytes
	Code   string
	B, V   int64
	O      int
	Names  []string
	Kids   []*Doc
	XKind  string
	hasX   bool
	leaves int
}

func parseDoc(raw json.RawMessage) (*Doc, error) {
	var a []json.RawMessage
	if err := json.Unmarshal(raw, &a); err != nil {
		return nil, fmt.Errorf("doc %s: %v", raw, err)
	}
	if len(a) == 0 {
		return nil, nil // <<>>: no document
	}
	var tag string
	if err := json.Unmarshal(a[0], &tag); err != nil {
		return nil, fmt.Errorf("doc tag %s: %v", raw, err)
	}
	switch tag {
	case "M":
		var fs [][]json.RawMessage
		if err := json.Unmarshal(a[1], &fs); err != nil {
			return nil, err
		}
		d := &Doc{Kind: 'M'}
		for _, f := range fs {
			var n string
			if err := json.Unmarshal(f[0], &n); err != nil {
				return nil, err
			}
			k, err := parseDoc(f[1])
			if err != nil {
				return nil, err
			}
			d.Names = append(d.Names, n)
			d.Kids = append(d.Kids, k)
			d.hasX = d.hasX || k.hasX
			d.leaves += k.leaves
		}
		return d, nil
	case "A":
		var es []json.RawMessage
		if err := json.Unmarshal(a[1], &es); err != nil {
			return nil, err
		}
		d := &Doc{Kind: 'A'}
		for _, e := range es {
			k, err := parseDoc(e)
			if err != nil {
				return nil, err
			}
			d.Kids = append(d.Kids, k)
			d.hasX = d.hasX || k.hasX
			d.leaves += k.leaves
		}
		return d, nil
	case "X":
		d := &Doc{Kind: 'X', hasX: true}
		if err := json.Unmarshal(a[1], &d.XKind); err != nil {
			return nil, err
		}
		return d, nil
	}
	if len(a) != 4 {
		return nil, fmt.Errorf("leaf %s: want 4 elements", raw)
	}
	d := &Doc{Kind: 'L', Code: tag, leaves: 1}
	if err := json.Unmarshal(a[1], &d.B); err != nil {
		return nil, err
	}
	if err := json.Unmarshal(a[2], &d.V); err != nil {
		return nil, err
	}
	if err := json.Unmarshal(a[3], &d.O); err != nil {
		return nil, err
	}
	return d, nil
}

var badPaths = map[int]string{1: "", 2: "a..b", 3: ".a", 4: "a.", 5: "[0]", 6: "t[", 7: "t[x]", 8: "t[*]", 9: "#len", 10: "t]", 11: "t[].x"}

func renderPath(p Path) (string, error) {
	if p.Bad != 0 {
		s, ok := badPaths[p.Bad]
		if !ok {
			return "", fmt.Errorf("unknown malformed path id %d", p.Bad)
		}
		return s, nil
	}
	var sb strings.Builder
	for i, raw := range p.S {
		var seg []json.RawMessage
		if err := json.Unmarshal(raw, &seg); err != nil || len(seg) != 2 {
			return "", fmt.Errorf("segment %s", raw)
		}
		var t string
		json.Unmarshal(seg[0], &t)
		switch t {
		case "f":
			var n string
			json.Unmarshal(seg[1], &n)
			if i > 0 {
				sb.WriteByte('.')
			}
			sb.WriteString(n)
		case "i":
			var n int
			json.Unmarshal(seg[1], &n)
			fmt.Fprintf(&sb, "[%d]", n)
		case "p":
			sb.WriteString("[]")
		default:
			return "", fmt.Errorf("segment kind %q", t)
		}
	}
	return sb.String(), nil
}

// ---------------------------------------------------------------------------------------------
// running one case against msgpackpatch

var opKinds = map[string]mp.OpKind{"SET": mp.OpSet, "DELETE": mp.OpDelete, "INC": mp.OpInc, "APPEND": mp.OpAppend,
	"PREPEND": mp.OpPrepend, "REMOVE_AT": mp.OpRemoveAt, "REMOVE_VAL": mp.OpRemoveVal, "MERGE": mp.OpMerge}
var condOps = map[string]mp.CondOp{"EQ": mp.CondEqual, "NE": mp.CondNotEqual, "GT": mp.CondGreaterThan, "GE": mp.CondGreaterThanOrEqual,
	"LT": mp.CondLessThan, "LE": mp.CondLessThanOrEqual, "EX": mp.CondExists, "NX": mp.CondNotExists}

func classify(err error) string {
	switch {
	case err == nil:
		return "ok"
	case errors.Is(err, mp.ErrConditionNotMet):
		return "cnm"
	case errors.Is(err, mp.ErrTypeMismatch):
		return "tm"
	case errors.Is(err, mp.ErrPathInvalid):
		return "pi"
	case errors.Is(err, mp.ErrInvalidOp):
		return "inv"
	case errors.Is(err, mp.ErrInvalidMsgpack), errors.Is(err, mp.ErrNonStringKey):
		return "enc"
	}
	return "other"
}

// Concrete is a case turned into bytes.
type Concrete struct {
	Body  []byte
	Ops   []mp.Op
	Cond  *mp.Condition
	Skip  bool // this encoding style does not apply to the case
	exp   []*Doc
	body  *Doc
	opDoc []*Doc
}

func concretise(c *CaseJ, style int) (*Concrete, error) {
	body, err := parseDoc(c.Body)
	if err != nil {
		return nil, err
	}
	cc := &Concrete{body: body}
	cc.Body, err = encodeDoc(body, style)
	if err != nil {
		return nil, err
	}
	for _, o := range c.Ops {
		k, ok := opKinds[o.K]
		if !ok {
			return nil, fmt.Errorf("op kind %q", o.K)
		}
		ps, err := renderPath(o.P)
		if err != nil {
			return nil, err
		}
		vd, err := parseDoc(o.V)
		if err != nil {
			return nil, err
		}
		var vb []byte
		if k != mp.OpDelete && k != mp.OpRemoveAt {
			// op values are always in the canonical style: REMOVE_VAL compares encoded bytes
			if vb, err = encodeDoc(vd, 0); err != nil {
				return nil, err
			}
			if style != 0 && k == mp.OpRemoveVal && vd.Kind != 'L' {
				cc.Skip = true // encoded equality of containers depends on the header style of the stored body
			}
		}
		cc.Ops = append(cc.Ops, mp.Op{Kind: k, Path: ps, Value: vb})
		cc.opDoc = append(cc.opDoc, vd)
	}
	if c.Cond.Op != "NONE" {
		co, ok := condOps[c.Cond.Op]
		if !ok {
			return nil, fmt.Errorf("cond op %q", c.Cond.Op)
		}
		ps, err := renderPath(c.Cond.P)
		if err != nil {
			return nil, err
		}
		td, err := parseDoc(c.Cond.Th)
		if err != nil {
			return nil, err
		}
		tb, err := encodeDoc(td, 0)
		if err != nil {
			return nil, err
		}
		cc.Cond = &mp.Condition{Path: ps, Op: co, Threshold: tb}
	}
	for _, o := range c.Out {
		d, err := parseDoc(o.D)
		if err != nil {
			return nil, err
		}
		cc.exp = append(cc.exp, d)
	}
	return cc, nil
}

// Observed is what the real code did.
type Observed struct {
	Class   string
	Out     []byte
	Err     string
	Mutated bool   // the function wrote into its input blob or into an op value
	Note    string // other oddities (Apply and ApplyWithCondition(nil) disagree, output returned with an error)
}

func cloneOps(ops []mp.Op) []mp.Op {
	out := make([]mp.Op, len(ops))
	for i, o := range ops {
		out[i] = mp.Op{Kind: o.Kind, Path: o.Path, Value: append([]byte(nil), o.Value...)}
		if o.Value == nil {
			out[i].Value = nil
		}
	}
	return out
}

func callApply(body []byte, ops []mp.Op, cond *mp.Condition, plain bool) (out []byte, class, msg string) {
	defer func() {
		if r := recover(); r != nil {
			out, class, msg = nil, "panic", fmt.Sprint(r)
		}
	}()
	var err error
	if plain {
		out, err = mp.Apply(body, ops)
	} else {
		out, err = mp.ApplyWithCondition(body, ops, cond)
	}
	if err != nil {
		return out, classify(err), err.Error()
	}
	return out, "ok", ""
}

func runFunc(cc *Concrete) Observed {
	in := append([]byte(nil), cc.Body...)
	ops := cloneOps(cc.Ops)
	var cond *mp.Condition
	if cc.Cond != nil {
		cond = &mp.Condition{Path: cc.Cond.Path, Op: cc.Cond.Op, Threshold: append([]byte(nil), cc.Cond.Threshold...)}
	}
	out, class, msg := callApply(in, ops, cond, false)
	ob := Observed{Class: class, Out: append([]byte(nil), out...), Err: msg}
	if !bytes.Equal(in, cc.Body) {
		ob.Mutated = true
	}
	for i := range ops {
		if !bytes.Equal(ops[i].Value, cc.Ops[i].Value) {
			ob.Mutated = true
		}
	}
	if class != "ok" && len(out) != 0 {
		ob.Note = "a body was returned together with an error"
	}
	if cond == nil {
		// Apply is the same function without a condition
		in2 := append([]byte(nil), cc.Body...)
		out2, class2, _ := callApply(in2, cloneOps(cc.Ops), nil, true)
		if class2 != class || !bytes.Equal(out2, out) {
			ob.Note = fmt.Sprintf("Apply disagrees with ApplyWithCondition(nil): %s %x", class2, out2)
		}
	}
	return ob
}

// matchOutcome: does the observation equal outcome k of the specification?
func matchOutcome(c *CaseJ, cc *Concrete, k int, ob *Observed, act *Node, actErr error, st *stats) bool {
	o := c.Out[k]
	switch o.St {
	case "cnm":
		return ob.Class == "cnm" && len(ob.Out) == 0
	case "fail":
		if len(ob.Out) != 0 {
			return false
		}
		for _, e := range o.E {
			if e == ob.Class {
				return true
			}
		}
		return false
	case "ok":
		if ob.Class != "ok" {
			return false
		}
		exp := cc.exp[k]
		if exp == nil {
			return false
		}
		if exp.hasX {
			// the as-built document contains spliced malformed bytes: only its serialisation can be compared
			b, err := encodeDoc(exp, 0)
			return err == nil && bytes.Equal(b, ob.Out)
		}
		if actErr != nil || act == nil {
			return false
		}
		n := 0
		ok := matchDoc(exp, act, ob.Out, &n)
		if ok && st != nil {
			st.leafSpans += n
		}
		return ok
	}
	return false
}

// matchDoc compares the expected abstract document with the walked real output: structure, key order,
// and the exact bytes of every leaf (a leaf computed by INC: code and value).
func matchDoc(exp *Doc, act *Node, buf []byte, n *int) bool {
	switch exp.Kind {
	case 'M':
		if act.Kind != 'M' || len(act.Kids) != len(exp.Kids) {
			return false
		}
		for i := range exp.Kids {
			if act.Keys[i] != exp.Names[i] || !matchDoc(exp.Kids[i], act.Kids[i], buf, n) {
				return false
			}
		}
		return true
	case 'A':
		if act.Kind != 'A' || len(act.Kids) != len(exp.Kids) {
			return false
		}
		for i := range exp.Kids {
			if !matchDoc(exp.Kids[i], act.Kids[i], buf, n) {
				return false
			}
		}
		return true
	case 'L':
		if act.Kind != 'L' {
			return false
		}
		raw := buf[act.Start:act.End]
		want, err := encodeLeaf(exp)
		if err != nil {
			return false
		}
		*n++
		if exp.O == 1 && (exp.Code == "f32" || exp.Code == "f64") && exp.B == 1 {
			// NaN produced by the server: any NaN of the same width
			return len(raw) == len(want) && raw[0] == want[0] && isNaNLeaf(raw)
		}
		return bytes.Equal(raw, want)
	}
	return false
}

type stats struct {
	cases, evals, strict, unmatched, skipped int
	nontrivial                               int
	leafSpans                                int
	bySwitch                                 map[string]int
	byFam                                    map[string]int
	byClass                                  map[string]int
}

type report struct {
	F       string     `json:"f"`
	B       int        `json:"b"`
	I       int        `json:"i"`
	J       int        `json:"j"`
	Style   int        `json:"style"`
	Level   string     `json:"level"` // func | rig
	Matched [][]string `json:"matched"`
	Class   string     `json:"class"`
	Out     string     `json:"out"`
	Err     string     `json:"err,omitempty"`
	Note    string     `json:"note,omitempty"`
	Body    string     `json:"body_hex"`
	Ops     []string   `json:"ops_concrete"`
	Cond    string     `json:"cond_concrete,omitempty"`
	Expect  []string   `json:"expected"` // per outcome of the specification: status and document bytes / error classes
	Case    *CaseJ     `json:"case"`
}

// expectations renders the specification's outcomes of a case in concrete terms.
func expectations(c *CaseJ, cc *Concrete) []string {
	var out []string
	for k, o := range c.Out {
		s := o.St
		switch o.St {
		case "ok":
			if b, err := encodeDoc(cc.exp[k], 0); err == nil {
				s += " " + hex.EncodeToString(b)
			}
		case "fail":
			s += " " + strings.Join(o.E, "|")
		}
		if len(o.S) > 0 {
			s += " [under " + strings.Join(o.S, ",") + "]"
		}
		out = append(out, s)
	}
	return out
}

func describe(cc *Concrete) (ops []string, cond string) {
	names := map[mp.OpKind]string{}
	for n, k := range opKinds {
		names[k] = n
	}
	for _, o := range cc.Ops {
		ops = append(ops, fmt.Sprintf("%s %q %x", names[o.Kind], o.Path, o.Value))
	}
	if cc.Cond != nil {
		cn := ""
		for n, k := range condOps {
			if k == cc.Cond.Op {
				cn = n
			}
		}
		cond = fmt.Sprintf("%s %q %x", cn, cc.Cond.Path, cc.Cond.Threshold)
	}
	return
}

func isStrict(sw []string, deviations map[string]bool) bool {
	for _, s := range sw {
		if deviations[s] {
			return false
		}
	}
	return true
}

type job struct {
	line []byte
}

func readCases(files []string, fn func(line []byte)) error {
	for _, f := range files {
		fh, err := os.Open(f)
		if err != nil {
			return err
		}
		sc := bufio.NewScanner(fh)
		sc.Buffer(make([]byte, 1<<20), 64<<20)
		for sc.Scan() {
			b := sc.Bytes()
			if len(b) == 0 {
				continue
			}
			if b[0] == '"' {
				// PrintT of a string: quoted with escapes
				var s string
				if json.Unmarshal(b, &s) != nil || !strings.HasPrefix(s, "{") {
					continue
				}
				fn([]byte(s))
				continue
			}
			if b[0] == '{' {
				fn(append([]byte(nil), b...))
			}
		}
		fh.Close()
		if err := sc.Err(); err != nil {
			return err
		}
	}
	return nil
}

func runMode(outPath string, files []string) error {
	outF, err := os.Create(outPath)
	if err != nil {
		return err
	}
	defer outF.Close()
	w := bufio.NewWriterSize(outF, 1<<20)
	defer w.Flush()
	var wmu sync.Mutex
	emit := func(v any) {
		b, _ := json.Marshal(v)
		wmu.Lock()
		w.Write(b)
		w.WriteByte('\n')
		wmu.Unlock()
	}

	deviations := map[string]bool{}
	var hdrMu sync.Mutex
	haveHdr := false
	st := &stats{bySwitch: map[string]int{}, byFam: map[string]int{}, byClass: map[string]int{}}
	var stMu sync.Mutex
	var samples []any
	distinct := map[[20]byte]struct{}{}     // distinct non-trivial abstract cases (body, ops, cond)
	selftest := os.Getenv("PATCH_SELFTEST") // "corrupt": damage the expected documents (binding self-test)
	maxReports := 200000
	if v := os.Getenv("PATCH_MAXREPORTS"); v != "" {
		fmt.Sscanf(v, "%d", &maxReports)
	}
	nReports := 0

	jobs := make(chan job, 1024)
	var wg sync.WaitGroup
	var firstErr error
	var errMu sync.Mutex
	setErr := func(e error) {
		errMu.Lock()
		if firstErr == nil {
			firstErr = e
		}
		errMu.Unlock()
	}
	nw := runtime.GOMAXPROCS(0)
	if nw > 8 {
		nw = 8
	}
	for wk := 0; wk < nw; wk++ {
		wg.Add(1)
		go func() {
			defer wg.Done()
			for jb := range jobs {
				var c CaseJ
				if err := json.Unmarshal(jb.line, &c); err != nil {
					setErr(fmt.Errorf("bad case line: %v: %.200s", err, jb.line))
					continue
				}
				if c.Hdr == 1 {
					hdrMu.Lock()
					if !haveHdr {
						haveHdr = true
						for _, d := range c.Deviations {
							deviations[d] = true
						}
						strTab = c.StrTab
					}
					hdrMu.Unlock()
					continue
				}
				hdrMu.Lock()
				ok := haveHdr
				hdrMu.Unlock()
				if !ok {
					setErr(fmt.Errorf("case before header"))
					continue
				}
				local := stats{}
				nontrivial := len(c.Out) > 0 && c.Out[0].St == "ok" && !bytes.Equal(c.Out[0].D, c.Body)
				for style := 0; style < 2; style++ {
					cc, err := concretise(&c, style)
					if err != nil {
						setErr(fmt.Errorf("case %s/%d/%d/%d: %v", c.F, c.B, c.I, c.J, err))
						break
					}
					if cc.Skip {
						local.skipped++
						continue
					}
					if selftest == "corrupt" {
						corruptExpected(cc)
					}
					ob := runFunc(cc)
					var act *Node
					var actErr error
					if ob.Class == "ok" {
						act, actErr = Walk(ob.Out)
					}
					var matched [][]string
					strict := false
					if !ob.Mutated && ob.Note == "" {
						for k := range c.Out {
							if matchOutcome(&c, cc, k, &ob, act, actErr, &local) {
								sw := c.Out[k].S
								if sw == nil {
									sw = []string{}
								}
								matched = append(matched, sw)
								if isStrict(sw, deviations) {
									strict = true
								}
							}
						}
					}
					local.evals++
					stMu.Lock()
					st.byClass[ob.Class]++
					if strict {
						st.strict++
						// which readings were needed (smallest matching strict set)
						best := []string(nil)
						for _, m := range matched {
							if isStrict(m, deviations) && (best == nil || len(m) < len(best)) {
								best = m
							}
						}
						for _, s := range best {
							st.bySwitch[s]++
						}
						if len(samples) < 8 && nontrivial && (st.evals+local.evals)%97 == 1 {
							ops, cond := describe(cc)
							samples = append(samples, map[string]any{"f": c.F, "b": c.B, "i": c.I, "j": c.J, "style": style,
								"body": hex.EncodeToString(cc.Body), "ops": ops, "cond": cond, "class": ob.Class,
								"result": hex.EncodeToString(ob.Out), "spec_outcome": c.Out[0].St})
						}
					} else {
						if len(matched) == 0 {
							st.unmatched++
						}
						nReports++
						if nReports <= maxReports {
							ops, cond := describe(cc)
							note := ob.Note
							if ob.Mutated {
								note = "input bytes were modified by the call; " + note
							}
							if ob.Class == "ok" && actErr != nil {
								note = "returned body is not well-formed msgpack (" + actErr.Error() + "); " + note
							}
							cp := c
							emit(report{F: c.F, B: c.B, I: c.I, J: c.J, Style: style, Level: "func", Matched: matched, Class: ob.Class,
								Out: hex.EncodeToString(ob.Out), Err: ob.Err, Note: note, Body: hex.EncodeToString(cc.Body),
								Ops: ops, Cond: cond, Expect: expectations(&c, cc), Case: &cp})
						}
					}
					stMu.Unlock()
				}
				stMu.Lock()
				st.cases++
				st.evals += local.evals
				st.skipped += local.skipped
				st.leafSpans += local.leafSpans
				st.byFam[c.F]++
				if nontrivial {
					st.nontrivial++
					opsRaw, _ := json.Marshal(c.Ops)
					condRaw, _ := json.Marshal(c.Cond)
					distinct[sha1.Sum(bytes.Join([][]byte{c.Body, opsRaw, condRaw}, []byte{0}))] = struct{}{}
				}
				stMu.Unlock()
			}
		}()
	}
	// the header must be processed before any case: feed it synchronously first
	var pending [][]byte
	err = readCases(files, func(line []byte) { pending = append(pending, line) })
	if err != nil {
		return err
	}
	sort.SliceStable(pending, func(a, b int) bool {
		return bytes.HasPrefix(pending[a], []byte(`{"hdr"`)) && !bytes.HasPrefix(pending[b], []byte(`{"hdr"`))
	})
	for i, l := range pending {
		if i == 0 || bytes.HasPrefix(l, []byte(`{"hdr"`)) {
			// process headers inline
			var c CaseJ
			if json.Unmarshal(l, &c) == nil && c.Hdr == 1 {
				hdrMu.Lock()
				if !haveHdr {
					haveHdr = true
					for _, d := range c.Deviations {
						deviations[d] = true
					}
					strTab = c.StrTab
				}
				hdrMu.Unlock()
				continue
			}
		}
		jobs <- job{line: l}
	}
	close(jobs)
	wg.Wait()
	if firstErr != nil {
		return firstErr
	}
	emit(map[string]any{"summary": 1, "cases": st.cases, "evaluations": st.evals, "strict": st.strict, "unmatched": st.unmatched,
		"skipped_styles": st.skipped, "nontrivial_cases": st.nontrivial, "distinct_nontrivial": len(distinct), "leaf_spans_compared": st.leafSpans,
		"readings_used": st.bySwitch, "by_family": st.byFam, "by_class": st.byClass, "reports": nReports, "samples": samples})
	return nil
}

// corruptExpected damages every expected document (binding self-test: the comparison must notice).
func corruptExpected(cc *Concrete) {
	for _, d := range cc.exp {
		if d != nil {
			corruptDoc(d)
		}
	}
}

func corruptDoc(d *Doc) bool {
	switch d.Kind {
	case 'L':
		switch d.Code {
		case "bool":
			d.V = 1 - d.V
		case "nil":
			d.Code, d.V = "bool", 0
		case "fstr", "s8", "s16", "b8", "b16":
			d.V = (d.V + 1) % 4
		case "f32", "f64":
			if d.B != 0 {
				d.B, d.V = 0, 7
			} else {
				d.V++
			}
		case "pfix":
			d.V = (d.V + 1) % 128
		case "nfix":
			if d.V == -1 {
				d.V = -2
			} else {
				d.V++
			}
		case "u8", "u16", "u32", "u64":
			if d.B == 0 && d.V == 0 {
				d.V = 1
			} else {
				d.V--
			}
		case "i8", "i16":
			if d.V > 0 {
				d.V--
			} else {
				d.V++
			}
		case "i32", "i64":
			if d.B == 1 || d.B == 4 || (d.B == 0 && d.V > 0) {
				d.V--
			} else {
				d.V++
			}
		default:
			d.V = (d.V + 1) % 3
		}
		return true
	case 'M', 'A':
		for _, k := range d.Kids {
			if corruptDoc(k) {
				return true
			}
		}
		// no leaf below: change the shape
		d.Kids = append(d.Kids, &Doc{Kind: 'L', Code: "nil", leaves: 1})
		if d.Kind == 'M' {
			d.Names = append(d.Names, "zz")
		}
		return true
	}
	return false
}

func main() {
	if len(os.Args) < 4 {
		fmt.Fprintln(os.Stderr, "usage: patch run|rig|swamp <results.ndjson> <tlc-output>...")
		os.Exit(2)
	}
	var err error
	switch os.Args[1] {
	case "run":
		err = runMode(os.Args[2], os.Args[3:])
	case "rig":
		err = rigMode(os.Args[2], os.Args[3:])
	case "swamp":
		err = swampMode(os.Args[2], os.Args[3:])
	default:
		err = fmt.Errorf("unknown mode %q", os.Args[1])
	}
	if err != nil {
		fmt.Fprintln(os.Stderr, "error:", err)
		os.Exit(3)
	}
}
