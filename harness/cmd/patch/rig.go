package main

// rig mode: the same generated cases through a real Settings+Zeus+Hydra+Gateway (harness/rig) over the
// in-process gRPC wire: Set the body, PatchTreasures, Get the stored value back.  Observed: the per-key
// PatchResult status (mapped onto the specification's outcome classes the way swamp_patch.go and the
// status table of docs/sdk/go/go-sdk.md say) and the body that is stored afterwards.

import (
	"bufio"
	"bytes"
	"context"
	"encoding/hex"
	"encoding/json"
	"fmt"
	"hash/fnv"
	"os"
	"strings"

	hydrapb "github.com/hydraide/hydraide/sdk/go/hydraidego/v3/hydraidepbgo"

	"verifharness/rig"
)

// status -> specification class.  PATH_INVALID carries both "malformed path / unresolvable index" and an
// invalid op (no Value); ENCODING_NOT_SUPPORTED carries invalid msgpack.
var statusClass = map[hydrapb.PatchResult_StatusCode][]string{
	hydrapb.PatchResult_PATCHED:                {"ok"},
	hydrapb.PatchResult_CONDITION_NOT_MET:      {"cnm"},
	hydrapb.PatchResult_TYPE_MISMATCH:          {"tm"},
	hydrapb.PatchResult_PATH_INVALID:           {"pi", "inv"},
	hydrapb.PatchResult_ENCODING_NOT_SUPPORTED: {"enc"},
}

func rigMode(outPath string, files []string) error {
	outF, err := os.Create(outPath)
	if err != nil {
		return err
	}
	defer outF.Close()
	w := bufio.NewWriterSize(outF, 1<<20)
	defer w.Flush()
	emit := func(v any) {
		b, _ := json.Marshal(v)
		w.Write(b)
		w.WriteByte('\n')
	}

	r := rig.New(rig.Options{})
	defer os.RemoveAll(r.Root)
	defer r.Stop()
	r.Register("c13", "*", "*", true, 3600, 0)
	sw := rig.SwampName("c13", "patch", "cases")
	cl := r.GRPC()
	ctx := context.Background()

	deviations := map[string]bool{}
	st := &stats{bySwitch: map[string]int{}, byFam: map[string]int{}, byClass: map[string]int{}}
	var samples []any
	var lines [][]byte
	if err := readCases(files, func(l []byte) { lines = append(lines, l) }); err != nil {
		return err
	}
	nReports := 0
	// PATCH_RIG_RATES="F1=60,F2=1000": per-mille share of each family that goes through the Gateway
	rates := map[string]int{}
	for _, kv := range strings.Split(os.Getenv("PATCH_RIG_RATES"), ",") {
		var f string
		var r int
		if i := strings.IndexByte(kv, '='); i > 0 {
			f = kv[:i]
			fmt.Sscanf(kv[i+1:], "%d", &r)
			rates[f] = r
		}
	}
	for _, l := range lines {
		var c CaseJ
		if err := json.Unmarshal(l, &c); err != nil {
			return fmt.Errorf("bad case line: %v", err)
		}
		if c.Hdr == 1 {
			for _, d := range c.Deviations {
				deviations[d] = true
			}
			strTab = c.StrTab
			continue
		}
		if len(rates) > 0 {
			h := fnv.New32a()
			fmt.Fprintf(h, "%s/%d/%d/%d", c.F, c.B, c.I, c.J)
			if int(h.Sum32()%1000) >= rates[c.F] {
				continue
			}
		}
		cc, err := concretise(&c, 0)
		if err != nil {
			return fmt.Errorf("case %s/%d/%d/%d: %v", c.F, c.B, c.I, c.J, err)
		}
		key := fmt.Sprintf("k-%s-%d-%d-%d", c.F, c.B, c.I, c.J)
		stored := append([]byte{0xc7, 0x00}, cc.Body...)
		setResp, err := cl.Set(ctx, &hydrapb.SetRequest{Swamps: []*hydrapb.SwampRequest{{IslandID: 1, SwampName: sw, CreateIfNotExist: true, Overwrite: true,
			KeyValues: []*hydrapb.KeyValuePair{{Key: key, BytesVal: stored}}}}})
		if err != nil {
			return fmt.Errorf("Set %s: %v", key, err)
		}
		_ = setResp
		req := &hydrapb.PatchTreasuresRequest{IslandID: 1, SwampName: sw, CreateIfNotExist: false}
		tp := &hydrapb.TreasurePatch{Key: key}
		for _, o := range cc.Ops {
			po := &hydrapb.PatchOp{Op: hydrapb.PatchOp_Kind(o.Kind), Path: o.Path}
			if o.Value != nil {
				po.Value = o.Value
			}
			tp.Ops = append(tp.Ops, po)
		}
		if cc.Cond != nil {
			tp.Condition = &hydrapb.PatchCondition{Path: cc.Cond.Path, Operator: hydrapb.PatchCondition_Op(cc.Cond.Op), Threshold: cc.Cond.Threshold}
		}
		req.Patches = []*hydrapb.TreasurePatch{tp}
		ob := Observed{}
		resp, perr := cl.PatchTreasures(ctx, req)
		var classes []string
		switch {
		case perr != nil:
			ob.Class, ob.Err = "rpc-error", perr.Error()
		case len(resp.GetResults()) != 1:
			ob.Class = fmt.Sprintf("results=%d", len(resp.GetResults()))
		default:
			res := resp.GetResults()[0]
			ob.Err = res.GetError()
			cs, ok := statusClass[res.GetStatus()]
			if !ok {
				ob.Class = "status-" + res.GetStatus().String()
			} else {
				classes = cs
				ob.Class = cs[0]
			}
			if res.GetKey() != key {
				ob.Note = "result key " + res.GetKey()
			}
		}
		// what is stored now
		g, gerr := cl.Get(ctx, &hydrapb.GetRequest{Swamps: []*hydrapb.GetSwamp{{IslandID: 1, SwampName: sw, Keys: []string{key}}}})
		var now []byte
		if gerr != nil || len(g.GetSwamps()) != 1 || len(g.GetSwamps()[0].GetTreasures()) != 1 {
			ob.Note += fmt.Sprintf(" Get failed: %v", gerr)
		} else {
			now = g.GetSwamps()[0].GetTreasures()[0].GetBytesVal()
		}
		if len(now) < 2 || now[0] != 0xc7 || now[1] != 0x00 {
			ob.Note += " stored value lost its msgpack prefix"
		} else {
			now = now[2:]
		}
		var matched [][]string
		strict := false
		if ob.Note == "" && classes != nil {
			var act *Node
			var actErr error
			if ob.Class == "ok" {
				ob.Out = now
				act, actErr = Walk(now)
			}
			for k := range c.Out {
				hit := false
				for _, cls := range classes {
					o2 := ob
					o2.Class = cls
					if cls != "ok" {
						o2.Out = nil
					}
					if matchOutcome(&c, cc, k, &o2, act, actErr, st) {
						hit = true
					}
				}
				// FailureLeavesBody at the storage level: anything but PATCHED leaves the stored bytes as they were
				if hit && ob.Class != "ok" && !bytes.Equal(now, cc.Body) {
					hit = false
					ob.Note = "status " + ob.Class + " but the stored body changed"
				}
				if hit {
					swc := c.Out[k].S
					if swc == nil {
						swc = []string{}
					}
					matched = append(matched, swc)
					if isStrict(swc, deviations) {
						strict = true
					}
				}
			}
		}
		st.cases++
		st.evals++
		st.byFam[c.F]++
		st.byClass[ob.Class]++
		if strict {
			st.strict++
			if len(samples) < 4 && st.cases%53 == 1 {
				ops, cond := describe(cc)
				samples = append(samples, map[string]any{"level": "rig", "key": key, "body": hex.EncodeToString(cc.Body), "ops": ops, "cond": cond,
					"status_class": ob.Class, "stored_after": hex.EncodeToString(now)})
			}
		} else {
			if len(matched) == 0 {
				st.unmatched++
			}
			nReports++
			ops, cond := describe(cc)
			cp := c
			emit(report{F: c.F, B: c.B, I: c.I, J: c.J, Style: 0, Level: "rig", Matched: matched, Class: ob.Class, Out: hex.EncodeToString(now),
				Err: ob.Err, Note: ob.Note, Body: hex.EncodeToString(cc.Body), Ops: ops, Cond: cond, Expect: expectations(&c, cc), Case: &cp})
		}
		// keep the swamp small
		cl.Delete(ctx, &hydrapb.DeleteRequest{Swamps: []*hydrapb.DeleteRequest_SwampKeys{{IslandID: 1, SwampName: sw, Keys: []string{key}}}})
	}
	emit(map[string]any{"summary": 1, "level": "rig", "cases": st.cases, "evaluations": st.evals, "strict": st.strict, "unmatched": st.unmatched,
		"by_family": st.byFam, "by_class": st.byClass, "reports": nReports, "samples": samples, "leaf_spans_compared": st.leafSpans})
	return nil
}
