package main

// swamp mode: the swamp-level cases of spec/PatchSwamp.tla (family S1) through a real Gateway over the
// in-process gRPC wire.  A case is (state of the key, request): the key is put into the state (absent /
// msgpack body with or without an expiry / raw bytes / a string value), one PatchTreasures request is sent
// (CreateIfNotExist, InitialMsgpackOnCreate, ops, condition, metadata) and the key is read back with Get.
// Observed: the per-key status and the key afterwards (existence, kind, body bytes, ExpiredAt, UpdatedBy,
// CreatedBy, whether UpdatedAt / CreatedAt were stamped by this call).

import (
	"bufio"
	"bytes"
	"context"
	"encoding/hex"
	"encoding/json"
	"fmt"
	"os"
	"time"

	hydrapb "github.com/hydraide/hydraide/sdk/go/hydraidego/v3/hydraidepbgo"
	"google.golang.org/protobuf/types/known/timestamppb"

	"verifharness/rig"
)

type KeyJ struct {
	K    string          `json:"k"`
	Body json.RawMessage `json:"body"`
	Exp  int             `json:"exp"`
	Uby  int             `json:"uby"`
	Cby  int             `json:"cby"`
	Uat  int             `json:"uat"`
	Cat  int             `json:"cat"`
}
type MetaJ struct {
	On     int `json:"on"`
	SetExp int `json:"setExp"`
	Clr    int `json:"clr"`
	Uby    int `json:"uby"`
	Cby    int `json:"cby"`
	Uat    int `json:"uat"`
	Cat    int `json:"cat"`
}
type ReqJ struct {
	Create int             `json:"create"`
	Seed   json.RawMessage `json:"seed"`
	Ops    []OpJ           `json:"ops"`
	Cond   CondJ           `json:"cond"`
	Meta   MetaJ           `json:"meta"`
}
type SOutJ struct {
	S      []string `json:"s"`
	Status []string `json:"status"`
	After  KeyJ     `json:"after"`
}
type SCaseJ struct {
	Hdr        int      `json:"hdr"`
	F          string   `json:"f"`
	B          int      `json:"b"`
	I          int      `json:"i"`
	J          int      `json:"j"`
	Key        KeyJ     `json:"key"`
	Req        ReqJ     `json:"req"`
	Out        []SOutJ  `json:"out"`
	StrTab     [][]int  `json:"strtab"`
	Deviations []string `json:"deviations"`
}

// ranks of the specification -> concrete values
var expTimes = map[int]time.Time{1: time.Date(2100, 1, 1, 0, 0, 0, 0, time.UTC), 2: time.Date(2200, 1, 1, 0, 0, 0, 0, time.UTC)}
var whoNames = map[int]string{1: "who-1", 2: "who-2"}
var rawBytesVal = []byte{0x01, 0x02, 0x03}

const stringVal = "not a byte array"

type keyObs struct {
	exists        bool
	kind          string // msgpack | rawbytes | string | other
	body          []byte
	exp, uat, cat *timestamppb.Timestamp
	uby, cby      string
}

func observeKey(ctx context.Context, cl hydrapb.HydraideServiceClient, sw, key string) (keyObs, error) {
	g, err := cl.Get(ctx, &hydrapb.GetRequest{Swamps: []*hydrapb.GetSwamp{{IslandID: 1, SwampName: sw, Keys: []string{key}}}})
	if err != nil {
		return keyObs{}, err
	}
	var o keyObs
	if len(g.GetSwamps()) != 1 {
		return o, fmt.Errorf("Get returned %d swamps", len(g.GetSwamps()))
	}
	for _, t := range g.GetSwamps()[0].GetTreasures() {
		if t.GetKey() != key || !t.GetIsExist() {
			continue
		}
		o.exists = true
		o.exp, o.uat, o.cat = t.ExpiredAt, t.UpdatedAt, t.CreatedAt
		o.uby, o.cby = t.GetUpdatedBy(), t.GetCreatedBy()
		switch {
		case t.BytesVal != nil && len(t.BytesVal) >= 2 && t.BytesVal[0] == 0xc7 && t.BytesVal[1] == 0x00:
			o.kind, o.body = "msgpack", t.BytesVal[2:]
		case t.BytesVal != nil:
			o.kind, o.body = "rawbytes", t.BytesVal
		case t.StringVal != nil:
			o.kind, o.body = "string", []byte(t.GetStringVal())
		default:
			o.kind = "other"
		}
	}
	return o, nil
}

func tsEq(a *timestamppb.Timestamp, b *timestamppb.Timestamp) bool {
	za := a == nil || (a.Seconds == 0 && a.Nanos == 0) || a.AsTime().IsZero() || a.AsTime().Unix() <= 0
	zb := b == nil || (b.Seconds == 0 && b.Nanos == 0) || b.AsTime().IsZero() || b.AsTime().Unix() <= 0
	if za || zb {
		return za == zb
	}
	return a.AsTime().Equal(b.AsTime())
}

func tsIs(a *timestamppb.Timestamp, rank int) bool {
	if rank == 0 {
		return tsEq(a, nil)
	}
	return a != nil && a.AsTime().Equal(expTimes[rank])
}

func swampMode(outPath string, files []string) error {
	outF, err := os.Create(outPath)
	if err != nil {
		return err
	}
	defer outF.Close()
	w := bufio.NewWriterSize(outF, 1<<20)
	defer w.Flush()
	emit := func(v any) {
		b, _ := json.Marshal(v)
		w.Write(b)
		w.WriteByte('\n')
	}
	r := rig.New(rig.Options{})
	defer os.RemoveAll(r.Root)
	defer r.Stop()
	r.Register("c13s", "*", "*", true, 3600, 0)
	sw := rig.SwampName("c13s", "patch", "swamp")
	cl := r.GRPC()
	ctx := context.Background()
	// a permanent resident keeps the swamp alive while the case keys come and go
	keep := "resident"
	if _, err := cl.Set(ctx, &hydrapb.SetRequest{Swamps: []*hydrapb.SwampRequest{{IslandID: 1, SwampName: sw, CreateIfNotExist: true, Overwrite: true,
		KeyValues: []*hydrapb.KeyValuePair{{Key: "resident", StringVal: &keep}}}}}); err != nil {
		return err
	}

	deviations := map[string]bool{}
	var lines [][]byte
	if err := readCases(files, func(l []byte) { lines = append(lines, l) }); err != nil {
		return err
	}
	cases, strictN, unmatched, reports := 0, 0, 0, 0
	byStatus := map[string]int{}
	var samples []any
	for _, l := range lines {
		var c SCaseJ
		if err := json.Unmarshal(l, &c); err != nil {
			return fmt.Errorf("bad case line: %v", err)
		}
		if c.Hdr == 1 {
			for _, d := range c.Deviations {
				deviations[d] = true
			}
			strTab = c.StrTab
			continue
		}
		if c.F != "S1" {
			continue
		}
		key := fmt.Sprintf("s-%d", c.I)
		// ---- put the key into its state
		cl.Delete(ctx, &hydrapb.DeleteRequest{Swamps: []*hydrapb.DeleteRequest_SwampKeys{{IslandID: 1, SwampName: sw, Keys: []string{key}}}})
		var before0 []byte
		if c.Key.K != "absent" {
			kv := &hydrapb.KeyValuePair{Key: key}
			switch c.Key.K {
			case "msgpack":
				d, err := parseDoc(c.Key.Body)
				if err != nil {
					return err
				}
				b, err := encodeDoc(d, 0)
				if err != nil {
					return err
				}
				before0 = b
				kv.BytesVal = append([]byte{0xc7, 0x00}, b...)
			case "rawbytes":
				kv.BytesVal = rawBytesVal
			case "string":
				s := stringVal
				kv.StringVal = &s
			}
			if c.Key.Exp != 0 {
				kv.ExpiredAt = timestamppb.New(expTimes[c.Key.Exp])
			}
			if _, err := cl.Set(ctx, &hydrapb.SetRequest{Swamps: []*hydrapb.SwampRequest{{IslandID: 1, SwampName: sw, CreateIfNotExist: true, Overwrite: true,
				KeyValues: []*hydrapb.KeyValuePair{kv}}}}); err != nil {
				return fmt.Errorf("Set %s: %v", key, err)
			}
		}
		before, err := observeKey(ctx, cl, sw, key)
		if err != nil {
			return err
		}
		if before.exists != (c.Key.K != "absent") || (before.exists && before.kind != c.Key.K) {
			return fmt.Errorf("case %d: could not establish key state %s (got exists=%v kind=%s)", c.I, c.Key.K, before.exists, before.kind)
		}
		// ---- the request
		req := &hydrapb.PatchTreasuresRequest{IslandID: 1, SwampName: sw, CreateIfNotExist: c.Req.Create == 1}
		seedDoc, err := parseDoc(c.Req.Seed)
		if err != nil {
			return err
		}
		var seedBytes []byte
		if seedDoc != nil {
			if seedBytes, err = encodeDoc(seedDoc, 0); err != nil {
				return err
			}
			req.InitialMsgpackOnCreate = seedBytes
		}
		fake := &CaseJ{Ops: c.Req.Ops, Cond: c.Req.Cond, Body: json.RawMessage(`["M",[]]`)}
		cc, err := concretise(fake, 0)
		if err != nil {
			return fmt.Errorf("case %d: %v", c.I, err)
		}
		tp := &hydrapb.TreasurePatch{Key: key}
		for _, o := range cc.Ops {
			po := &hydrapb.PatchOp{Op: hydrapb.PatchOp_Kind(o.Kind), Path: o.Path}
			if o.Value != nil {
				po.Value = o.Value
			}
			tp.Ops = append(tp.Ops, po)
		}
		if cc.Cond != nil {
			tp.Condition = &hydrapb.PatchCondition{Path: cc.Cond.Path, Operator: hydrapb.PatchCondition_Op(cc.Cond.Op), Threshold: cc.Cond.Threshold}
		}
		if c.Req.Meta.On == 1 {
			m := &hydrapb.PatchMeta{SetUpdatedAt: c.Req.Meta.Uat == 1, SetCreatedAt: c.Req.Meta.Cat == 1, ClearExpiredAt: c.Req.Meta.Clr == 1}
			if c.Req.Meta.Uby != 0 {
				s := whoNames[c.Req.Meta.Uby]
				m.SetUpdatedBy = &s
			}
			if c.Req.Meta.Cby != 0 {
				s := whoNames[c.Req.Meta.Cby]
				m.SetCreatedBy = &s
			}
			if c.Req.Meta.SetExp != 0 {
				m.SetExpiredAt = timestamppb.New(expTimes[c.Req.Meta.SetExp])
			}
			req.Meta = m
		}
		req.Patches = []*hydrapb.TreasurePatch{tp}
		t0 := time.Now().Add(-2 * time.Second)
		resp, perr := cl.PatchTreasures(ctx, req)
		status, note, emsg := "", "", ""
		switch {
		case perr != nil:
			status, emsg = "rpc-error", perr.Error()
		case len(resp.GetResults()) != 1:
			status = fmt.Sprintf("results=%d", len(resp.GetResults()))
		default:
			status = resp.GetResults()[0].GetStatus().String()
			emsg = resp.GetResults()[0].GetError()
		}
		after, err := observeKey(ctx, cl, sw, key)
		if err != nil {
			return err
		}
		// ---- which outcome is it?
		var matched [][]string
		strict := false
		why := []string{}
		for k, o := range c.Out {
			ok := false
			for _, s := range o.Status {
				if s == status {
					ok = true
				}
			}
			miss := ""
			switch {
			case !ok:
				miss = "status"
			case (o.After.K != "absent") != after.exists:
				miss = "existence"
			case after.exists && o.After.K != after.kind:
				miss = "kind " + after.kind
			}
			if miss == "" && after.exists {
				switch o.After.K {
				case "msgpack":
					exp, err := parseDoc(o.After.Body)
					if err != nil {
						return err
					}
					act, werr := Walk(after.body)
					n := 0
					if exp.hasX {
						b, _ := encodeDoc(exp, 0)
						if !bytes.Equal(b, after.body) {
							miss = "body"
						}
					} else if werr != nil || !matchDoc(exp, act, after.body, &n) {
						miss = "body"
					}
				case "rawbytes":
					if !bytes.Equal(after.body, rawBytesVal) {
						miss = "raw bytes changed"
					}
				case "string":
					if string(after.body) != stringVal {
						miss = "string changed"
					}
				}
				if miss == "" {
					switch {
					case !tsIs(after.exp, o.After.Exp):
						miss = "ExpiredAt"
					case o.After.Uby == 0 && after.uby != before.uby, o.After.Uby != 0 && after.uby != whoNames[o.After.Uby]:
						miss = "UpdatedBy"
					case o.After.Cby == 0 && after.cby != before.cby, o.After.Cby != 0 && after.cby != whoNames[o.After.Cby]:
						miss = "CreatedBy"
					case o.After.Uat == 0 && !tsEq(after.uat, before.uat), o.After.Uat == 1 && (after.uat == nil || after.uat.AsTime().Before(t0)):
						miss = "UpdatedAt"
					case o.After.Cat == 0 && !tsEq(after.cat, before.cat), o.After.Cat == 1 && (after.cat == nil || after.cat.AsTime().Before(t0)):
						miss = "CreatedAt"
					}
				}
			}
			if miss != "" {
				why = append(why, fmt.Sprintf("outcome %d: %s", k, miss))
				continue
			}
			s := o.S
			if s == nil {
				s = []string{}
			}
			matched = append(matched, s)
			if isStrict(s, deviations) {
				strict = true
			}
		}
		cases++
		byStatus[status]++
		describeReq := fmt.Sprintf("key=%s(exp=%d) create=%d seed=%x ops=%v cond=%v meta=%+v", c.Key.K, c.Key.Exp, c.Req.Create, seedBytes, opsStr(cc), condStr(cc), c.Req.Meta)
		if strict {
			strictN++
			if len(samples) < 3 && cases%211 == 7 {
				samples = append(samples, map[string]any{"level": "swamp", "request": describeReq, "status": status, "body_after": hex.EncodeToString(after.body)})
			}
			continue
		}
		if len(matched) == 0 {
			unmatched++
		}
		reports++
		exps := []string{}
		for _, o := range c.Out {
			exps = append(exps, fmt.Sprintf("%v -> key %s exp=%d uby=%d cby=%d uat=%d cat=%d body=%s [under %v]", o.Status, o.After.K, o.After.Exp, o.After.Uby, o.After.Cby, o.After.Uat, o.After.Cat, o.After.Body, o.S))
		}
		note = fmt.Sprintf("after: exists=%v kind=%s exp=%v uby=%q cby=%q uat=%v cat=%v; before: uby=%q cby=%q uat=%v cat=%v; %v", after.exists, after.kind, after.exp.AsTime(), after.uby, after.cby,
			after.uat.AsTime(), after.cat.AsTime(), before.uby, before.cby, before.uat.AsTime(), before.cat.AsTime(), why)
		emit(map[string]any{"f": "S1", "b": 1, "i": c.I, "j": 1, "style": 0, "level": "swamp", "matched": matched, "class": status, "out": hex.EncodeToString(after.body),
			"err": emsg, "note": note, "body_hex": hex.EncodeToString(before0), "ops_concrete": []string{describeReq}, "cond_concrete": "", "expected": exps,
			"case": map[string]any{"out": []any{}}})
	}
	emit(map[string]any{"summary": 1, "level": "swamp", "cases": cases, "evaluations": cases, "strict": strictN, "unmatched": unmatched, "reports": reports,
		"by_class": byStatus, "samples": samples})
	return nil
}

func opsStr(cc *Concrete) []string { o, _ := describe(cc); return o }
func condStr(cc *Concrete) string  { _, c := describe(cc); return c }
