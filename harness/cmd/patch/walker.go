package main

// An independent structural msgpack walker (written against the msgpack specification, no library):
// it checks that a byte string is exactly one well-formed msgpack value and returns its tree with the
// raw byte span of every leaf, which is what "untouched values keep their exact bytes" is judged on.

import (
	"encoding/binary"
	"fmt"
)

type Node struct {
	Kind       byte // 'L', 'M', 'A'
	Start, End int  // byte span of the whole value
	Keys       []string
	Kids       []*Node
}

// Walk parses exactly one msgpack value covering all of b.
func Walk(b []byte) (*Node, error) {
	if len(b) == 0 {
		return nil, fmt.Errorf("empty body")
	}
	n, pos, err := walk(b, 0, 0)
	if err != nil {
		return nil, err
	}
	if pos != len(b) {
		return nil, fmt.Errorf("%d trailing bytes after the value", len(b)-pos)
	}
	return n, nil
}

func need(b []byte, pos, n int) error {
	if n < 0 || pos+n > len(b) {
		return fmt.Errorf("truncated at offset %d (need %d bytes, have %d)", pos, n, len(b)-pos)
	}
	return nil
}

func walk(b []byte, pos, depth int) (*Node, int, error) {
	if depth > 64 {
		return nil, 0, fmt.Errorf("nesting too deep")
	}
	if err := need(b, pos, 1); err != nil {
		return nil, 0, err
	}
	c := b[pos]
	leaf := func(n int) (*Node, int, error) {
		if err := need(b, pos, n); err != nil {
			return nil, 0, err
		}
		return &Node{Kind: 'L', Start: pos, End: pos + n}, pos + n, nil
	}
	lenAt := func(off, n int) (int, error) {
		if err := need(b, pos+off, n); err != nil {
			return 0, err
		}
		switch n {
		case 1:
			return int(b[pos+off]), nil
		case 2:
			return int(binary.BigEndian.Uint16(b[pos+off:])), nil
		}
		return int(binary.BigEndian.Uint32(b[pos+off:])), nil
	}
	switch {
	case c <= 0x7f, c >= 0xe0: // fixint
		return leaf(1)
	case c >= 0x80 && c <= 0x8f:
		return walkMap(b, pos, pos+1, int(c&0x0f), depth)
	case c >= 0x90 && c <= 0x9f:
		return walkArr(b, pos, pos+1, int(c&0x0f), depth)
	case c >= 0xa0 && c <= 0xbf:
		return leaf(1 + int(c&0x1f))
	}
	switch c {
	case 0xc0, 0xc2, 0xc3:
		return leaf(1)
	case 0xc1:
		return nil, 0, fmt.Errorf("reserved format byte 0xc1 at offset %d", pos)
	case 0xc4, 0xd9: // bin8, str8
		n, err := lenAt(1, 1)
		if err != nil {
			return nil, 0, err
		}
		return leaf(2 + n)
	case 0xc5, 0xda:
		n, err := lenAt(1, 2)
		if err != nil {
			return nil, 0, err
		}
		return leaf(3 + n)
	case 0xc6, 0xdb:
		n, err := lenAt(1, 4)
		if err != nil {
			return nil, 0, err
		}
		return leaf(5 + n)
	case 0xc7: // ext8: len, type, data
		n, err := lenAt(1, 1)
		if err != nil {
			return nil, 0, err
		}
		return leaf(3 + n)
	case 0xc8:
		n, err := lenAt(1, 2)
		if err != nil {
			return nil, 0, err
		}
		return leaf(4 + n)
	case 0xc9:
		n, err := lenAt(1, 4)
		if err != nil {
			return nil, 0, err
		}
		return leaf(6 + n)
	case 0xca, 0xce, 0xd2:
		return leaf(5)
	case 0xcb, 0xcf, 0xd3:
		return leaf(9)
	case 0xcc, 0xd0:
		return leaf(2)
	case 0xcd, 0xd1:
		return leaf(3)
	case 0xd4:
		return leaf(3)
	case 0xd5:
		return leaf(4)
	case 0xd6:
		return leaf(6)
	case 0xd7:
		return leaf(10)
	case 0xd8:
		return leaf(18)
	case 0xdc:
		n, err := lenAt(1, 2)
		if err != nil {
			return nil, 0, err
		}
		return walkArr(b, pos, pos+3, n, depth)
	case 0xdd:
		n, err := lenAt(1, 4)
		if err != nil {
			return nil, 0, err
		}
		return walkArr(b, pos, pos+5, n, depth)
	case 0xde:
		n, err := lenAt(1, 2)
		if err != nil {
			return nil, 0, err
		}
		return walkMap(b, pos, pos+3, n, depth)
	case 0xdf:
		n, err := lenAt(1, 4)
		if err != nil {
			return nil, 0, err
		}
		return walkMap(b, pos, pos+5, n, depth)
	}
	return nil, 0, fmt.Errorf("unknown format byte %#x at offset %d", c, pos)
}

func walkArr(b []byte, start, pos, n, depth int) (*Node, int, error) {
	nd := &Node{Kind: 'A', Start: start}
	for i := 0; i < n; i++ {
		k, p, err := walk(b, pos, depth+1)
		if err != nil {
			return nil, 0, err
		}
		nd.Kids = append(nd.Kids, k)
		pos = p
	}
	nd.End = pos
	return nd, pos, nil
}

func walkMap(b []byte, start, pos, n, depth int) (*Node, int, error) {
	nd := &Node{Kind: 'M', Start: start}
	for i := 0; i < n; i++ {
		if err := need(b, pos, 1); err != nil {
			return nil, 0, err
		}
		c := b[pos]
		var ks, kn int
		switch {
		case c >= 0xa0 && c <= 0xbf:
			ks, kn = pos+1, int(c&0x1f)
		case c == 0xd9:
			if err := need(b, pos, 2); err != nil {
				return nil, 0, err
			}
			ks, kn = pos+2, int(b[pos+1])
		case c == 0xda:
			if err := need(b, pos, 3); err != nil {
				return nil, 0, err
			}
			ks, kn = pos+3, int(binary.BigEndian.Uint16(b[pos+1:]))
		case c == 0xdb:
			if err := need(b, pos, 5); err != nil {
				return nil, 0, err
			}
			ks, kn = pos+5, int(binary.BigEndian.Uint32(b[pos+1:]))
		default:
			return nil, 0, fmt.Errorf("map key at offset %d is not a string (format byte %#x)", pos, c)
		}
		if err := need(b, ks, kn); err != nil {
			return nil, 0, err
		}
		nd.Keys = append(nd.Keys, string(b[ks:ks+kn]))
		k, p, err := walk(b, ks+kn, depth+1)
		if err != nil {
			return nil, 0, err
		}
		nd.Kids = append(nd.Kids, k)
		pos = p
	}
	nd.End = pos
	return nd, pos, nil
}
