// Driver for C10 (concurrent use never crashes the server or races on memory).
//
//	racemix run <plan.json> <results.ndjson>      parent: one CHILD process per mix, collects race reports / crashes
//	racemix child <mix.json> <out.json>           child (race-instrumented): runs one mix of API paths concurrently
//	racemix versioned <out.json> <iters> <readers> <mode>   CommittedRead driver: value i and updated-by i written together
//
// The binary is built with -race.  A child runs a "mix": a list of API paths, one goroutine each, all on the same
// swamps, for a fixed number of iterations.  The parent sets GORACE="halt_on_error=0 exitcode=0 log_path=..." so
// that race reports go to files; a Go fatal error ("concurrent map iteration and map write") or a crash kills
// only the child and is reported as an observation with the faulting goroutine's stack.  The parent never judges:
// it writes one JSON line per observation (race report with the two stacks' function names, fatal error, panic
// recovered in a request goroutine, hang) and one summary line per mix.
package main

import (
	"bufio"
	"bytes"
	"context"
	"encoding/binary"
	"encoding/json"
	"fmt"
	"io"
	"os"
	"os/exec"
	"path/filepath"
	"regexp"
	"runtime"
	"sort"
	"strconv"
	"strings"
	"sync"
	"sync/atomic"
	"time"

	hydrapb "github.com/hydraide/hydraide/sdk/go/hydraidego/v3/hydraidepbgo"
	"google.golang.org/protobuf/types/known/timestamppb"

	"verifharness/rig"
	"verifharness/sched"
)

// ---------------------------------------------------------------------------------------------
// mix description

type Mix struct {
	ID     int      `json:"id"`
	Paths  []string `json:"paths"`  // API paths, one goroutine each
	Iters  int      `json:"iters"`  // iterations per goroutine
	Swamps int      `json:"swamps"` // number of swamps the paths cycle through (cold index builds happen once per swamp)
	Mode   string   `json:"mode"`   // "mm" in-memory, "pd" persistent with write interval 1 s, "pi" persistent immediate
	Seed   int64    `json:"seed"`
}

const (
	nA = 24 // pre-populated int64 keys a00..
	nM = 6  // pre-populated msgpack-map keys m0..
	nU = 3  // pre-populated uint32-slice keys u0.. (plus c0,c1 uint32 counters and f0,f1 float64 counters)
)

func mpInt64(v int64) []byte {
	b := make([]byte, 9)
	b[0] = 0xd3
	binary.BigEndian.PutUint64(b[1:], uint64(v))
	return b
}
func mpMapN(v int64) []byte { return append([]byte{0xC7, 0x00, 0x81, 0xa1, 'n'}, mpInt64(v)...) }

type env struct {
	r      *rig.Rig
	swamps []string
	grpc   hydrapb.HydraideServiceClient
}

func (e *env) sw(i int) string { return e.swamps[i%len(e.swamps)] }

func setInt(e *env, sw, key string, v int64, meta bool) error {
	kv := &hydrapb.KeyValuePair{Key: key, Int64Val: &v}
	if meta {
		by := "w" + strconv.FormatInt(v, 10)
		kv.UpdatedBy = &by
		kv.UpdatedAt = timestamppb.New(time.Unix(1_700_000_000+v, 0))
		kv.ExpiredAt = timestamppb.New(time.Unix(4_000_000_000+v, 0))
		kv.CreatedAt = timestamppb.New(time.Unix(1_600_000_000+v, 0))
	}
	_, err := e.r.GW.Set(context.Background(), rig.Wire(&hydrapb.SetRequest{Swamps: []*hydrapb.SwampRequest{{IslandID: 1, SwampName: sw,
		CreateIfNotExist: true, Overwrite: true, KeyValues: []*hydrapb.KeyValuePair{kv}}}}))
	return err
}

func setMap(e *env, sw, key string, v int64) error {
	kv := &hydrapb.KeyValuePair{Key: key, BytesVal: mpMapN(v)}
	_, err := e.r.GW.Set(context.Background(), rig.Wire(&hydrapb.SetRequest{Swamps: []*hydrapb.SwampRequest{{IslandID: 1, SwampName: sw,
		CreateIfNotExist: true, Overwrite: true, KeyValues: []*hydrapb.KeyValuePair{kv}}}}))
	return err
}

func index(e *env, sw string, it hydrapb.IndexType_Type, ord hydrapb.OrderType_Type) error {
	_, err := e.r.GW.GetByIndex(context.Background(), rig.Wire(&hydrapb.GetByIndexRequest{IslandID: 1, SwampName: sw, IndexType: it, OrderType: ord, From: 0, Limit: 8}))
	return err
}

// one iteration of an API path; g = goroutine number (unique per path instance), i = iteration
func step(e *env, path string, g, i int) error {
	ctx := context.Background()
	gw := e.r.GW
	sw := e.sw(i)
	switch path {
	// ---------------- writers
	case "set_new": // inserts a new key: key map + index insert
		return setInt(e, sw, fmt.Sprintf("n%d_%d", g, i), int64(i), true)
	case "set_upd": // overwrites an existing record: content + metadata setters
		return setInt(e, sw, fmt.Sprintf("a%02d", i%nA), int64(1000+i), true)
	case "inc":
		t := true
		_, err := gw.IncrementInt64(ctx, rig.Wire(&hydrapb.IncrementInt64Request{IslandID: 1, SwampName: sw, Key: fmt.Sprintf("a%02d", i%4), IncrementBy: 1,
			SetIfExist: &hydrapb.IncrementRequestMetadata{UpdatedAt: &t}}))
		return err
	case "inc_u32":
		_, err := gw.IncrementUint32(ctx, rig.Wire(&hydrapb.IncrementUint32Request{IslandID: 1, SwampName: sw, Key: fmt.Sprintf("c%d", i%2), IncrementBy: 1}))
		return err
	case "inc_f64":
		_, err := gw.IncrementFloat64(ctx, rig.Wire(&hydrapb.IncrementFloat64Request{IslandID: 1, SwampName: sw, Key: fmt.Sprintf("f%d", i%2), IncrementBy: 0.5}))
		return err
	case "u32_push": // appends to a uint32 slice record
		_, err := gw.Uint32SlicePush(ctx, rig.Wire(&hydrapb.AddToUint32SlicePushRequest{IslandID: 1, SwampName: sw,
			KeySlicePairs: []*hydrapb.KeySlicePair{{Key: fmt.Sprintf("u%d", i%nU), Values: []uint32{uint32(1000 + i), uint32(5000 + i)}}}}))
		return err
	case "u32_del": // removes values pushed earlier (never the pre-populated ones: an emptied slice deletes the record)
		_, err := gw.Uint32SliceDelete(ctx, rig.Wire(&hydrapb.Uint32SliceDeleteRequest{IslandID: 1, SwampName: sw,
			KeySlicePairs: []*hydrapb.KeySlicePair{{Key: fmt.Sprintf("u%d", i%nU), Values: []uint32{uint32(1000 + i - 2*nU), uint32(5000 + i - nU)}}}}))
		return err
	case "u32_read":
		if i%2 == 0 {
			_, err := gw.Uint32SliceSize(ctx, rig.Wire(&hydrapb.Uint32SliceSizeRequest{IslandID: 1, SwampName: sw, Key: fmt.Sprintf("u%d", i%nU)}))
			return err
		}
		_, err := gw.Uint32SliceIsValueExist(ctx, rig.Wire(&hydrapb.Uint32SliceIsValueExistRequest{IslandID: 1, SwampName: sw, Key: fmt.Sprintf("u%d", i%nU), Value: uint32(1000 + i)}))
		return err
	case "patch":
		_, err := gw.PatchTreasures(ctx, rig.Wire(&hydrapb.PatchTreasuresRequest{IslandID: 1, SwampName: sw, CreateIfNotExist: true,
			Patches: []*hydrapb.TreasurePatch{{Key: fmt.Sprintf("m%d", i%nM), Ops: []*hydrapb.PatchOp{{Op: hydrapb.PatchOp_INC, Path: "n", Value: mpInt64(1)}}}}}))
		return err
	case "del": // deletes keys of its own pre-populated pool
		_, err := gw.Delete(ctx, rig.Wire(&hydrapb.DeleteRequest{Swamps: []*hydrapb.DeleteRequest_SwampKeys{{IslandID: 1, SwampName: sw, Keys: []string{fmt.Sprintf("d%d_%d", g, i)}}}}))
		return err
	case "shift":
		_, err := gw.ShiftByKeys(ctx, rig.Wire(&hydrapb.ShiftByKeysRequest{IslandID: 1, SwampName: sw, Keys: []string{fmt.Sprintf("q%d_%d", g, i)}}))
		return err
	// ---------------- readers
	case "get":
		_, err := gw.Get(ctx, rig.Wire(&hydrapb.GetRequest{Swamps: []*hydrapb.GetSwamp{{IslandID: 1, SwampName: sw, Keys: []string{fmt.Sprintf("a%02d", i%nA), fmt.Sprintf("m%d", i%nM), fmt.Sprintf("u%d", i%nU), fmt.Sprintf("c%d", i%2), fmt.Sprintf("f%d", i%2)}}}}))
		return err
	case "getall":
		_, err := gw.GetAll(ctx, rig.Wire(&hydrapb.GetAllRequest{IslandID: 1, SwampName: sw}))
		return err
	case "getbykeys":
		_, err := gw.GetByKeys(ctx, rig.Wire(&hydrapb.GetByKeysRequest{IslandID: 1, SwampName: sw, Keys: []string{"a00", "a01", "a02", "a03", "m0", "u0", "u1", "c0", "f0", "zz"}}))
		return err
	case "count":
		_, err := gw.Count(ctx, rig.Wire(&hydrapb.CountRequest{Swamps: []*hydrapb.CountRequest_SwampIdentifier{{IslandID: 1, SwampName: sw}}}))
		return err
	case "exists":
		_, err := gw.IsKeyExist(ctx, rig.Wire(&hydrapb.IsKeyExistRequest{IslandID: 1, SwampName: sw, Key: fmt.Sprintf("a%02d", i%nA)}))
		return err
	case "idx_key":
		return index(e, sw, hydrapb.IndexType_KEY, hydrapb.OrderType_Type(i%2))
	case "idx_ctime":
		return index(e, sw, hydrapb.IndexType_CREATION_TIME, hydrapb.OrderType_Type(i%2))
	case "idx_utime":
		return index(e, sw, hydrapb.IndexType_UPDATE_TIME, hydrapb.OrderType_Type(i%2))
	case "idx_exp":
		return index(e, sw, hydrapb.IndexType_EXPIRATION_TIME, hydrapb.OrderType_Type(i%2))
	case "idx_val":
		return index(e, sw, hydrapb.IndexType_VALUE_INT64, hydrapb.OrderType_Type(i%2))
	case "fstream", "fstream_cold": // filtered stream whose filter is answered from an auto-built field bucket; the
		// "cold" variant names a new body field every time, so every call is the FIRST query on that field and builds the bucket
		field := "n"
		if path == "fstream_cold" {
			field = "f" + strconv.Itoa(g) + "_" + strconv.Itoa(i/len(e.swamps))
		}
		st, err := e.grpc.GetByIndexStream(ctx, &hydrapb.GetByIndexStreamRequest{IslandID: 1, SwampName: sw, IndexType: hydrapb.IndexType_KEY, Limit: 0,
			Filters: &hydrapb.FilterGroup{Filters: []*hydrapb.TreasureFilter{{Operator: hydrapb.Relational_EQUAL, BytesFieldPath: &field,
				CompareValue: &hydrapb.TreasureFilter_Int64Val{Int64Val: int64(i % nM)}}}}})
		if err != nil {
			return err
		}
		for {
			if _, err := st.Recv(); err != nil {
				if err == io.EOF {
					return nil
				}
				return err
			}
		}
	case "stream": // server-streaming index read with a native filter, through the real gRPC stack
		st, err := e.grpc.GetByIndexStream(ctx, &hydrapb.GetByIndexStreamRequest{IslandID: 1, SwampName: sw, IndexType: hydrapb.IndexType_KEY, Limit: 0,
			Filters: &hydrapb.FilterGroup{Filters: []*hydrapb.TreasureFilter{{Operator: hydrapb.Relational_GREATER_THAN_OR_EQUAL, CompareValue: &hydrapb.TreasureFilter_Int64Val{Int64Val: 0}}}}})
		if err != nil {
			return err
		}
		for {
			if _, err := st.Recv(); err != nil {
				if err == io.EOF {
					return nil
				}
				return err
			}
		}
	}
	return fmt.Errorf("unknown path %q", path)
}

var Writers = []string{"set_new", "set_upd", "inc", "inc_u32", "inc_f64", "u32_push", "u32_del", "patch", "del", "shift"}
var Readers = []string{"get", "getall", "getbykeys", "count", "exists", "idx_key", "idx_ctime", "idx_utime", "idx_exp", "idx_val", "stream", "fstream", "fstream_cold", "u32_read"}

func child(mixFile, outFile string) error {
	var m Mix
	b, err := os.ReadFile(mixFile)
	if err != nil {
		return err
	}
	if err := json.Unmarshal(b, &m); err != nil {
		return err
	}
	r := rig.New(rig.Options{})
	defer os.RemoveAll(r.Root)
	switch m.Mode {
	case "pd":
		r.Register("race", "*", "*", false, 3600, 1)
	case "pi":
		r.Register("race", "*", "*", false, 3600, 0)
	default:
		r.Register("race", "*", "*", true, 3600, 0)
	}
	e := &env{r: r}
	needGRPC := false
	for _, p := range m.Paths {
		if p == "stream" || p == "fstream" || p == "fstream_cold" {
			needGRPC = true
		}
	}
	if needGRPC {
		e.grpc = r.GRPC()
	}
	if m.Swamps < 1 {
		m.Swamps = 1
	}
	// sequential prologue: populate every swamp
	for s := 0; s < m.Swamps; s++ {
		sw := rig.SwampName("race", "m"+strconv.Itoa(m.ID), "s"+strconv.Itoa(s))
		e.swamps = append(e.swamps, sw)
		if err := setInt(e, sw, "zz", 7, true); err != nil {
			return err
		}
		for i := 0; i < nA; i++ {
			if err := setInt(e, sw, fmt.Sprintf("a%02d", i), int64(i), true); err != nil {
				return err
			}
		}
		for i := 0; i < nM; i++ {
			if err := setMap(e, sw, fmt.Sprintf("m%d", i), int64(i)); err != nil {
				return err
			}
		}
		for i := 0; i < nU; i++ {
			base := make([]uint32, 24)
			for j := range base {
				base[j] = uint32(j + 1)
			}
			if _, err := r.GW.Uint32SlicePush(context.Background(), rig.Wire(&hydrapb.AddToUint32SlicePushRequest{IslandID: 1, SwampName: sw,
				KeySlicePairs: []*hydrapb.KeySlicePair{{Key: fmt.Sprintf("u%d", i), Values: base}}})); err != nil {
				return err
			}
		}
		for i := 0; i < 2; i++ {
			if _, err := r.GW.IncrementUint32(context.Background(), rig.Wire(&hydrapb.IncrementUint32Request{IslandID: 1, SwampName: sw, Key: fmt.Sprintf("c%d", i), IncrementBy: 1})); err != nil {
				return err
			}
			if _, err := r.GW.IncrementFloat64(context.Background(), rig.Wire(&hydrapb.IncrementFloat64Request{IslandID: 1, SwampName: sw, Key: fmt.Sprintf("f%d", i), IncrementBy: 1.5})); err != nil {
				return err
			}
		}
	}
	// pools for deleting paths (iteration i of goroutine g works on swamp i%Swamps)
	for g, p := range m.Paths {
		pre := ""
		switch p {
		case "del":
			pre = "d"
		case "shift":
			pre = "q"
		}
		if pre == "" {
			continue
		}
		for i := 0; i < m.Iters; i++ {
			if err := setInt(e, e.sw(i), fmt.Sprintf("%s%d_%d", pre, g, i), int64(i), false); err != nil {
				return err
			}
		}
	}
	// concurrent phase
	type perG struct {
		Path   string `json:"path"`
		Done   int64  `json:"done"`
		Errs   int64  `json:"errs"`
		Panics int64  `json:"panics"`
		Panic  string `json:"panic,omitempty"`
	}
	n := len(m.Paths)
	done := make([]atomic.Int64, n)
	errs := make([]atomic.Int64, n)
	panics := make([]atomic.Int64, n)
	firstPanic := make([]atomic.Value, n)
	goids := make([]atomic.Int64, n)
	finished := make([]atomic.Bool, n)
	var progress atomic.Int64
	start := make(chan struct{})
	var wg sync.WaitGroup
	for g, p := range m.Paths {
		wg.Add(1)
		go func(g int, p string) {
			defer wg.Done()
			defer finished[g].Store(true)
			goids[g].Store(sched.GoID())
			<-start
			for i := 0; i < m.Iters; i++ {
				func() {
					defer func() {
						if rc := recover(); rc != nil {
							if panics[g].Add(1) == 1 {
								buf := make([]byte, 8192)
								firstPanic[g].Store(fmt.Sprint(rc) + "\n" + string(buf[:runtime.Stack(buf, false)]))
							}
						}
					}()
					if err := step(e, p, g, i); err != nil {
						errs[g].Add(1)
					}
					done[g].Add(1)
					progress.Add(1)
				}()
			}
		}(g, p)
	}
	close(start)
	all := make(chan struct{})
	go func() { wg.Wait(); close(all) }()
	// Watchdog.  "Hang" means: no request completed for a long time AND every unfinished request goroutine is parked
	// (not running / runnable) on two looks.  A slow machine is not a hang.
	hang, slow := "", false
	last, lastChange, t0 := int64(-1), time.Now(), time.Now()
	parked := func() bool {
		st := sched.States()
		for g := range m.Paths {
			if finished[g].Load() {
				continue
			}
			s := st[goids[g].Load()]
			if s == "" || strings.HasPrefix(s, "running") || strings.HasPrefix(s, "runnable") || strings.HasPrefix(s, "syscall") || strings.HasPrefix(s, "IO wait") || strings.HasPrefix(s, "sleep") {
				return false
			}
		}
		return true
	}
loop:
	for {
		select {
		case <-all:
			break loop
		case <-time.After(2 * time.Second):
		}
		if p := progress.Load(); p != last {
			last, lastChange = p, time.Now()
			continue
		}
		if time.Since(lastChange) > 90*time.Second && parked() {
			time.Sleep(3 * time.Second)
			if progress.Load() == last && parked() {
				buf := make([]byte, 1<<20)
				hang = string(buf[:runtime.Stack(buf, true)])
				break loop
			}
		}
		if time.Since(t0) > 900*time.Second {
			slow = true
			break loop
		}
	}
	res := make([]perG, n)
	for g, p := range m.Paths {
		res[g] = perG{Path: p, Done: done[g].Load(), Errs: errs[g].Load(), Panics: panics[g].Load()}
		if v := firstPanic[g].Load(); v != nil {
			res[g].Panic = v.(string)
		}
	}
	out := map[string]any{"mix": m.ID, "goroutines": res, "hang": hang, "slow": slow}
	ob, _ := json.Marshal(out)
	if err := os.WriteFile(outFile, ob, 0o644); err != nil {
		return err
	}
	if hang != "" || slow {
		os.Exit(0) // unfinished goroutines cannot be joined
	}
	return nil
}

// ---------------------------------------------------------------------------------------------
// parent

var reFn = regexp.MustCompile(`^  (\S.*)\(\)$`)
var reLoc = regexp.MustCompile(`^      (\S+):(\d+)`)
var reGoFn = regexp.MustCompile(`^(\S.*)\([^()]*\)$`)

// shortFn marks functions of the repository under test with a leading "@" (code sites are chosen among those)
func shortFn(fn string) string {
	if strings.HasPrefix(fn, "github.com/hydraide/hydraide/app/") {
		return "@" + strings.TrimPrefix(fn, "github.com/hydraide/hydraide/app/")
	}
	if strings.HasPrefix(fn, "github.com/hydraide/hydraide/") {
		return "@" + strings.TrimPrefix(fn, "github.com/hydraide/hydraide/")
	}
	return fn
}

type stackT struct {
	Acc string   `json:"acc"` // "write" / "read" / "atomic write" ...
	Fns []string `json:"fns"` // innermost first, repo-relative names
	Loc string   `json:"loc"` // file:line of the innermost frame
}

// parseRaceLog splits a race-detector log into reports with their first two stacks
func parseRaceLog(txt string) []map[string]any {
	var out []map[string]any
	for _, blk := range strings.Split(txt, "==================") {
		if !strings.Contains(blk, "WARNING: DATA RACE") {
			continue
		}
		var stacks []stackT
		var cur *stackT
		sc := bufio.NewScanner(strings.NewReader(blk))
		sc.Buffer(make([]byte, 1<<20), 1<<20)
		for sc.Scan() {
			ln := sc.Text()
			low := strings.ToLower(ln)
			if (strings.HasPrefix(low, "write at") || strings.HasPrefix(low, "read at") || strings.HasPrefix(low, "previous write at") ||
				strings.HasPrefix(low, "previous read at") || strings.HasPrefix(low, "atomic") || strings.HasPrefix(low, "previous atomic")) && strings.Contains(ln, " by ") {
				acc := "read"
				if strings.Contains(low, "write") {
					acc = "write"
				}
				stacks = append(stacks, stackT{Acc: acc})
				cur = &stacks[len(stacks)-1]
				continue
			}
			if strings.HasPrefix(ln, "Goroutine ") || strings.TrimSpace(ln) == "" {
				if strings.HasPrefix(ln, "Goroutine ") {
					cur = nil
				}
				continue
			}
			if cur == nil {
				continue
			}
			if m := reFn.FindStringSubmatch(ln); m != nil {
				cur.Fns = append(cur.Fns, shortFn(m[1]))
			} else if m := reLoc.FindStringSubmatch(ln); m != nil && cur.Loc == "" {
				cur.Loc = filepath.Base(m[1]) + ":" + m[2]
			}
		}
		if len(stacks) >= 2 {
			out = append(out, map[string]any{"kind": "race", "a": stacks[0], "b": stacks[1], "raw": strings.TrimSpace(blk)[:min(len(strings.TrimSpace(blk)), 2500)]})
		}
	}
	return out
}

// parseFatal extracts "fatal error: ..." / "panic: ..." and the first goroutine stack from a crashed child's stderr
func parseFatal(stderr string) map[string]any {
	idx := -1
	msg := ""
	for _, pre := range []string{"fatal error: ", "panic: ", "unexpected fault address", "SIGSEGV"} {
		if i := strings.Index(stderr, pre); i >= 0 && (idx < 0 || i < idx) {
			idx = i
			end := strings.IndexByte(stderr[i:], '\n')
			if end < 0 {
				end = len(stderr) - i
			}
			msg = stderr[i : i+end]
		}
	}
	if idx < 0 {
		return nil
	}
	rest := stderr[idx:]
	var fns []string
	if g := strings.Index(rest, "\ngoroutine "); g >= 0 {
		sc := bufio.NewScanner(strings.NewReader(rest[g+1:]))
		sc.Buffer(make([]byte, 1<<20), 1<<20)
		first := true
		for sc.Scan() {
			ln := sc.Text()
			if first {
				first = false
				continue
			}
			if strings.TrimSpace(ln) == "" {
				break
			}
			if strings.HasPrefix(ln, "\t") {
				continue
			}
			if m := reGoFn.FindStringSubmatch(ln); m != nil {
				fns = append(fns, shortFn(m[1]))
			}
		}
	}
	return map[string]any{"kind": "fatal", "msg": msg, "fns": fns, "raw": rest[:min(len(rest), 3000)]}
}

var reGoHdr = regexp.MustCompile(`^goroutine \d+ \[([^\],]+)`)

// parseDump reduces a full goroutine dump to the goroutines that run code of the repository under test:
// wait state + function names, innermost first
func parseDump(dump string) []map[string]any {
	var out []map[string]any
	for _, g := range strings.Split(dump, "\n\n") {
		lines := strings.Split(strings.TrimSpace(g), "\n")
		if len(lines) == 0 {
			continue
		}
		m := reGoHdr.FindStringSubmatch(lines[0])
		if m == nil {
			continue
		}
		var fns []string
		repo := false
		for _, ln := range lines[1:] {
			if strings.HasPrefix(ln, "\t") || strings.HasPrefix(ln, "created by") {
				continue
			}
			if fm := reGoFn.FindStringSubmatch(ln); fm != nil {
				f := shortFn(fm[1])
				if strings.HasPrefix(f, "@") {
					repo = true
				}
				fns = append(fns, f)
			}
		}
		if repo && len(out) < 80 {
			out = append(out, map[string]any{"state": m[1], "fns": fns})
		}
	}
	return out
}

func runPlan(planFile, outFile string) error {
	var plan []Mix
	b, err := os.ReadFile(planFile)
	if err != nil {
		return err
	}
	if err := json.Unmarshal(b, &plan); err != nil {
		return err
	}
	work := os.Getenv("VERIF_WORK")
	if work == "" {
		work = filepath.Dir(outFile)
	}
	dir := filepath.Join(work, "racemix")
	os.MkdirAll(dir, 0o755)
	of, err := os.Create(outFile)
	if err != nil {
		return err
	}
	defer of.Close()
	var omu sync.Mutex
	emit := func(m map[string]any) {
		bb, _ := json.Marshal(m)
		omu.Lock()
		of.Write(append(bb, '\n'))
		omu.Unlock()
	}
	par := 6
	if v, err := strconv.Atoi(os.Getenv("RACEMIX_PAR")); err == nil && v > 0 {
		par = v
	}
	sem := make(chan struct{}, par)
	var wg sync.WaitGroup
	for _, m := range plan {
		wg.Add(1)
		sem <- struct{}{}
		go func(m Mix) {
			defer wg.Done()
			defer func() { <-sem }()
			md := filepath.Join(dir, "mix"+strconv.Itoa(m.ID))
			os.MkdirAll(md, 0o755)
			defer os.RemoveAll(md)
			mf := filepath.Join(md, "mix.json")
			mb, _ := json.Marshal(m)
			os.WriteFile(mf, mb, 0o644)
			res := filepath.Join(md, "out.json")
			cmd := exec.Command(os.Args[0], "child", mf, res)
			cmd.Env = append(os.Environ(), "GORACE=halt_on_error=0 exitcode=0 history_size=2 log_path="+filepath.Join(md, "race"), "VERIF_WORK="+md)
			var stderr bytes.Buffer
			cmd.Stderr = &stderr
			cmd.Stdout = io.Discard
			t0 := time.Now()
			done := make(chan error, 1)
			if err := cmd.Start(); err != nil {
				emit(map[string]any{"kind": "infra", "mix": m.ID, "msg": err.Error()})
				return
			}
			go func() { done <- cmd.Wait() }()
			var werr error
			killed := false
			select {
			case werr = <-done:
			case <-time.After(1000 * time.Second):
				cmd.Process.Kill()
				werr = <-done
				killed = true
			}
			sum := map[string]any{"kind": "summary", "mix": m.ID, "paths": m.Paths, "mode": m.Mode, "wall_ms": time.Since(t0).Milliseconds(), "exit": cmd.ProcessState.ExitCode(), "killed": killed}
			// race reports
			nrace := 0
			logs, _ := filepath.Glob(filepath.Join(md, "race.*"))
			for _, lf := range logs {
				lb, _ := os.ReadFile(lf)
				for _, rp := range parseRaceLog(string(lb)) {
					rp["mix"] = m.ID
					rp["paths"] = m.Paths
					emit(rp)
					nrace++
				}
			}
			sum["races"] = nrace
			// child result
			if rb, err := os.ReadFile(res); err == nil {
				var cr map[string]any
				if json.Unmarshal(rb, &cr) == nil {
					sum["goroutines"] = cr["goroutines"]
					if sl, _ := cr["slow"].(bool); sl {
						emit(map[string]any{"kind": "infra", "mix": m.ID, "paths": m.Paths, "msg": "mix did not finish within 900 s although its goroutines were running (slow machine)"})
						sum["slow"] = true
					}
					if h, _ := cr["hang"].(string); h != "" {
						emit(map[string]any{"kind": "hang", "mix": m.ID, "paths": m.Paths, "goroutines": parseDump(h), "raw": h[:min(len(h), 6000)]})
						sum["hang"] = true
					}
					if gs, ok := cr["goroutines"].([]any); ok {
						for _, g := range gs {
							gm, _ := g.(map[string]any)
							if p, _ := gm["panic"].(string); p != "" {
								var fns []string
								for _, ln := range strings.Split(p, "\n") {
									if m := reGoFn.FindStringSubmatch(ln); m != nil && !strings.HasPrefix(ln, "\t") && !strings.HasPrefix(ln, "goroutine ") {
										fns = append(fns, shortFn(m[1]))
									}
								}
								emit(map[string]any{"kind": "panic", "mix": m.ID, "paths": m.Paths, "path": gm["path"], "count": gm["panics"], "msg": strings.SplitN(p, "\n", 2)[0], "fns": fns, "raw": p[:min(len(p), 3000)]})
							}
						}
					}
				}
			} else if werr != nil || killed {
				// no result file: the child died
				if f := parseFatal(stderr.String()); f != nil {
					f["mix"] = m.ID
					f["paths"] = m.Paths
					emit(f)
					sum["fatal"] = f["msg"]
				} else if killed {
					emit(map[string]any{"kind": "infra", "mix": m.ID, "paths": m.Paths, "msg": "child killed after 1000 s without a result"})
					sum["slow"] = true
				} else {
					se := stderr.String()
					emit(map[string]any{"kind": "infra", "mix": m.ID, "msg": fmt.Sprint(werr), "raw": se[max(0, len(se)-2000):]})
				}
			}
			emit(sum)
		}(m)
	}
	wg.Wait()
	return nil
}

// ---------------------------------------------------------------------------------------------
// CommittedRead: the writer stores value i together with updated-by "v<i>" (and updated-at i) in ONE Set request;
// readers check that every record they get carries matching value and metadata.

func versioned(outFile string, iters, readers int, mode string) error {
	r := rig.New(rig.Options{})
	defer os.RemoveAll(r.Root)
	switch mode {
	case "pd":
		r.Register("ver", "*", "*", false, 3600, 1)
	case "pi":
		r.Register("ver", "*", "*", false, 3600, 0)
	default:
		r.Register("ver", "*", "*", true, 3600, 0)
	}
	sw := rig.SwampName("ver", "a", "b")
	e := &env{r: r, swamps: []string{sw}}
	set := func(i int64) error {
		by := "v" + strconv.FormatInt(i, 10)
		kv := &hydrapb.KeyValuePair{Key: "rec", Int64Val: &i, UpdatedBy: &by, UpdatedAt: timestamppb.New(time.Unix(1_700_000_000+i, 0))}
		_, err := r.GW.Set(context.Background(), rig.Wire(&hydrapb.SetRequest{Swamps: []*hydrapb.SwampRequest{{IslandID: 1, SwampName: sw,
			CreateIfNotExist: true, Overwrite: true, KeyValues: []*hydrapb.KeyValuePair{kv}}}}))
		return err
	}
	if err := setInt(e, sw, "zz", 7, false); err != nil {
		return err
	}
	if err := set(0); err != nil {
		return err
	}
	type torn struct {
		Via   string `json:"via"`
		Value int64  `json:"value"`
		By    string `json:"by"`
		At    int64  `json:"at"`
	}
	var mu sync.Mutex
	var torns []torn
	var reads, tornCount atomic.Int64
	check := func(via string, t *hydrapb.Treasure) {
		if t == nil || t.Key != "rec" || !t.IsExist {
			return
		}
		reads.Add(1)
		var v int64 = -1
		if t.Int64Val != nil {
			v = *t.Int64Val
		}
		by := ""
		if t.UpdatedBy != nil {
			by = *t.UpdatedBy
		}
		var at int64 = -1
		if t.UpdatedAt != nil {
			at = t.UpdatedAt.AsTime().Unix() - 1_700_000_000
		}
		if by != "v"+strconv.FormatInt(v, 10) || at != v {
			tornCount.Add(1)
			mu.Lock()
			if len(torns) < 5 {
				torns = append(torns, torn{via, v, by, at})
			}
			mu.Unlock()
		}
	}
	stop := make(chan struct{})
	var wg sync.WaitGroup
	var panics atomic.Int64
	for g := 0; g < readers; g++ {
		wg.Add(1)
		go func(g int) {
			defer wg.Done()
			for {
				select {
				case <-stop:
					return
				default:
				}
				func() {
					defer func() {
						if recover() != nil {
							panics.Add(1)
						}
					}()
					switch g % 3 {
					case 0:
						resp, err := r.GW.Get(context.Background(), rig.Wire(&hydrapb.GetRequest{Swamps: []*hydrapb.GetSwamp{{IslandID: 1, SwampName: sw, Keys: []string{"rec"}}}}))
						if err == nil && resp != nil && len(resp.Swamps) == 1 && len(resp.Swamps[0].Treasures) == 1 {
							check("Get", resp.Swamps[0].Treasures[0])
						}
					case 1:
						resp, err := r.GW.GetByKeys(context.Background(), rig.Wire(&hydrapb.GetByKeysRequest{IslandID: 1, SwampName: sw, Keys: []string{"rec"}}))
						if err == nil && resp != nil {
							for _, t := range resp.Treasures {
								check("GetByKeys", t)
							}
						}
					default:
						resp, err := r.GW.GetByIndex(context.Background(), rig.Wire(&hydrapb.GetByIndexRequest{IslandID: 1, SwampName: sw, IndexType: hydrapb.IndexType_KEY, Limit: 10}))
						if err == nil && resp != nil {
							for _, t := range resp.Treasures {
								check("GetByIndex", t)
							}
						}
					}
				}()
			}
		}(g)
	}
	werr := 0
	for i := int64(1); i <= int64(iters); i++ {
		if err := set(i); err != nil {
			werr++
		}
	}
	close(stop)
	wg.Wait()
	sort.Slice(torns, func(i, j int) bool { return torns[i].Value < torns[j].Value })
	ob, _ := json.Marshal(map[string]any{"writes": iters, "write_errors": werr, "reads": reads.Load(), "torn": tornCount.Load(), "samples": torns, "panics": panics.Load(), "mode": mode})
	return os.WriteFile(outFile, ob, 0o644)
}

func main() {
	if len(os.Args) < 2 {
		fmt.Fprintln(os.Stderr, "usage: racemix run|child|versioned ...")
		os.Exit(64)
	}
	var err error
	switch os.Args[1] {
	case "run":
		err = runPlan(os.Args[2], os.Args[3])
	case "child":
		err = child(os.Args[2], os.Args[3])
	case "versioned":
		it, _ := strconv.Atoi(os.Args[3])
		rd, _ := strconv.Atoi(os.Args[4])
		err = versioned(os.Args[2], it, rd, os.Args[5])
	case "paths":
		ob, _ := json.Marshal(map[string]any{"writers": Writers, "readers": Readers})
		fmt.Println(string(ob))
	default:
		err = fmt.Errorf("unknown mode %q", os.Args[1])
	}
	if err != nil {
		fmt.Fprintln(os.Stderr, "error:", err)
		os.Exit(3)
	}
}
