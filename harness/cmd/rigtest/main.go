// rigtest: smoke test of the in-process rig (direct handler call, wire call, SDK call).
package main

import (
	"context"
	"fmt"
	"os"

	hydrapb "github.com/hydraide/hydraide/sdk/go/hydraidego/v3/hydraidepbgo"

	"verifharness/rig"
)

func main() {
	r := rig.New(rig.Options{})
	defer os.RemoveAll(r.Root)
	r.Register("rigtest", "*", "*", false, 1, 0)
	sw := rig.SwampName("rigtest", "a", "b")
	v := "hello"
	req := &hydrapb.SetRequest{Swamps: []*hydrapb.SwampRequest{{IslandID: 1, SwampName: sw, CreateIfNotExist: true, Overwrite: true,
		KeyValues: []*hydrapb.KeyValuePair{{Key: "k", StringVal: &v}}}}}
	resp, err := r.GW.Set(context.Background(), rig.Wire(req))
	fmt.Println("direct:", resp, err)
	c := r.GRPC()
	g, err := c.Get(context.Background(), &hydrapb.GetRequest{Swamps: []*hydrapb.GetSwamp{{IslandID: 1, SwampName: sw, Keys: []string{"k"}}}})
	fmt.Println("wire:", g, err)
	r.Stop()
	fmt.Println("stopped")
}
