// Driver for swamp settings resolution (C21): binds spec/Settings.tla to app/core/settings.
//
//	settings run <cases.json> <trace.ndjson>
//
// cases.json: [{"id":N,"forget":0|1,"ops":[{"op":"reg","p":[s,r,w],"set":[mem,idle,wi,mfs]},
// {"op":"dereg","p":[..]},{"op":"restart"},{"op":"look","names":[[s,r,w],..],"reps":K}]}]
//
// Every case runs on its own fresh root directory under $VERIF_WORK (the settings package keeps its
// paths in package-level variables set by settings.New from HYDRAIDE_ROOT_PATH, so cases run strictly
// one after the other). One ndjson line per call is written, in the vocabulary of
// spec/Trace_Settings.tla. Patterns are registered the way the gateway's RegisterSwamp does it
// (nil filesystem settings for in-memory patterns). A panic is logged as a "panic" event, which no
// spec action explains.
package main

import (
	"encoding/json"
	"fmt"
	"io"
	"log/slog"
	"os"
	"path/filepath"
	"sort"
	"time"

	"github.com/hydraide/hydraide/app/core/settings"
	"github.com/hydraide/hydraide/app/core/settings/setting"
	"github.com/hydraide/hydraide/app/name"

	"verifharness/trace"
)

type op struct {
	Op    string     `json:"op"`
	P     []string   `json:"p,omitempty"`
	Set   []int64    `json:"set,omitempty"`
	Names [][]string `json:"names,omitempty"`
	Reps  int        `json:"reps,omitempty"`
}

type tcase struct {
	ID     int  `json:"id"`
	Forget int  `json:"forget"` // 1: first case of a group (the trace spec drops its resolution memo)
	Ops    []op `json:"ops"`
}

const (
	depth = 2
	fpl   = 100
)

func mkName(t []string) name.Name {
	return name.New().Sanctuary(t[0]).Realm(t[1]).Swamp(t[2])
}

func observe(s setting.Setting) map[string]any {
	p := s.GetPattern()
	mem := int64(0)
	wi := int64(s.GetWriteInterval() / time.Second)
	mfs := s.GetMaxFileSizeByte()
	if s.GetSwampType() == setting.InMemorySwamp {
		// write interval and file size are documented as "only used if InMemory is false"
		mem, wi, mfs = 1, 0, 0
	}
	return map[string]any{
		"pat": []string{p.GetSanctuaryID(), p.GetRealmName(), p.GetSwampName()},
		"set": []int64{mem, int64(s.GetCloseAfterIdle() / time.Second), wi, mfs},
	}
}

func runCase(c tcase, w *trace.Writer, base string) {
	root := filepath.Join(base, fmt.Sprintf("case-%d", c.ID))
	os.RemoveAll(root)
	if err := os.MkdirAll(root, 0o755); err != nil {
		panic(err)
	}
	defer os.RemoveAll(root)
	os.Setenv("HYDRAIDE_ROOT_PATH", root)
	w.Emit(map[string]any{"ev": "reset", "case": c.ID, "forget": c.Forget})
	step := 0
	defer func() {
		if r := recover(); r != nil {
			w.Emit(map[string]any{"ev": "panic", "case": c.ID, "step": step, "what": fmt.Sprint(r)})
		}
	}()
	st := settings.New(depth, fpl)
	for i, o := range c.Ops {
		step = i
		switch o.Op {
		case "reg":
			var fss *settings.FileSystemSettings
			inMem := o.Set[0] == 1
			if !inMem {
				fss = &settings.FileSystemSettings{WriteIntervalSec: o.Set[2], MaxFileSizeByte: o.Set[3]}
			}
			st.RegisterPattern(mkName(o.P), inMem, o.Set[1], fss)
			w.Emit(map[string]any{"ev": "reg", "case": c.ID, "p": o.P, "set": o.Set})
		case "dereg":
			st.DeregisterPattern(mkName(o.P))
			w.Emit(map[string]any{"ev": "dereg", "case": c.ID, "p": o.P})
		case "restart":
			st = settings.New(depth, fpl)
			w.Emit(map[string]any{"ev": "restart", "case": c.ID})
		case "look":
			res := make([]map[string]any, 0, len(o.Names))
			for _, n := range o.Names {
				seen := map[string]map[string]any{}
				for r := 0; r < o.Reps; r++ {
					// a fresh name object per call: names memoise
					ob := observe(st.GetBySwampName(mkName(n)))
					b, _ := json.Marshal(ob)
					seen[string(b)] = ob
				}
				keys := make([]string, 0, len(seen))
				for k := range seen {
					keys = append(keys, k)
				}
				sort.Strings(keys)
				obs := make([]map[string]any, 0, len(keys))
				for _, k := range keys {
					obs = append(obs, seen[k])
				}
				res = append(res, map[string]any{"n": n, "obs": obs})
			}
			w.Emit(map[string]any{"ev": "look", "case": c.ID, "res": res})
		default:
			panic("unknown op " + o.Op)
		}
	}
}

func main() {
	if len(os.Args) != 4 || os.Args[1] != "run" {
		fmt.Fprintln(os.Stderr, "usage: settings run <cases.json> <trace.ndjson>")
		os.Exit(64)
	}
	slog.SetDefault(slog.New(slog.NewTextHandler(io.Discard, nil)))
	data, err := os.ReadFile(os.Args[2])
	if err != nil {
		panic(err)
	}
	var cases []tcase
	if err := json.Unmarshal(data, &cases); err != nil {
		panic(err)
	}
	base := os.Getenv("VERIF_WORK")
	if base == "" {
		fmt.Fprintln(os.Stderr, "VERIF_WORK is not set")
		os.Exit(64)
	}
	base = filepath.Join(base, fmt.Sprintf("c21-roots-%d", os.Getpid()))
	defer os.RemoveAll(base)
	w, err := trace.Create(os.Args[3])
	if err != nil {
		panic(err)
	}
	for _, c := range cases {
		runCase(c, w, base)
	}
	if err := w.Close(); err != nil {
		panic(err)
	}
	os.RemoveAll(base)
}
