// Driver for Hydra.SummonSwamp (C18, and the summon waits of C17): binds spec/Summon.tla to
// app/core/hydra/hydra.go on a real Hydra (in-process rig, in-memory swamps).
//
// Every SummonSwamp call and every swamp.Close() runs in its own goroutine. The verifhook.Yield gates
// hydra.summon.{loaded,slot,got,create} (and swamp.close.flagged for a closing swamp) block
// the goroutine until the driver releases it, so exactly one process moves at a time. After every command
// the driver waits for a point of rest (every goroutine at a gate, parked in sync.Cond.Wait, blocked in
// sync.Mutex.Lock, waiting in WaitForGracefulClose, or returned - read from goroutine wait states) and
// logs the observation together with what the hydra.swamp.new / hydra.swamp.deleted trace events say about
// the swamps map and the live instances. The log is validated by TLC against spec/Trace_Summon.tla.
//
//	summon run <tests.json> <trace.ndjson> <results.ndjson>   command lists (projected TLC paths)
//	summon random <trace.ndjson> <results.ndjson> <runs> <summoners> <steps>   seeded random schedules
package main

import (
	"context"
	"encoding/json"
	"fmt"
	"math/rand"
	"os"
	"regexp"
	"runtime"
	"sort"
	"strconv"
	"sync"
	"sync/atomic"
	"time"

	"github.com/hydraide/hydraide/app/core/hydra"
	"github.com/hydraide/hydraide/app/core/hydra/swamp"
	"github.com/hydraide/hydraide/app/name"
	"github.com/hydraide/hydraide/app/verifhook"

	"verifharness/rig"
	"verifharness/sched"
	"verifharness/trace"
)

const restTimeout = 180 * time.Second

var allProcs = []string{"s1", "s2", "s3", "s4"}

type command struct {
	A string `json:"a"`
	P string `json:"p"`
	X int    `json:"x"`
}

type proc struct {
	name      string
	closer    bool // runs swamp.Close() of one instance instead of SummonSwamp
	goid      int64
	cmds      chan func()
	inCall    atomic.Bool
	gate      chan struct{}
	atGate    atomic.Value // string: the gate the goroutine stands at ("" none)
	done      atomic.Bool
	ret       atomic.Int64 // instance id, -1 error
	errText   atomic.Value
	cancel    context.CancelFunc
	cancelled bool
	panicv    atomic.Value
}

var (
	regMu   sync.RWMutex
	byGoid  = map[int64]*proc{}
	curName atomic.Value // string: swamp name of the current test

	evMu      sync.Mutex
	instances []swamp.Swamp // created in the current test, index+1 = instance id
	instOf    = map[swamp.Swamp]int{}
	smapObs   int
	closedIDs = map[int]bool{}
)

var gateNames = map[string]string{
	"hydra.summon.loaded":   "loaded",
	"hydra.summon.slot":     "slot",
	"hydra.summon.got":      "got",
	"hydra.summon.create":   "create",
	"swamp.close.flagged":   "closing",
}

func install() {
	verifhook.SetYield(func(point string, args ...any) {
		g, ok := gateNames[point]
		if !ok || len(args) == 0 {
			return
		}
		if n, _ := args[0].(string); n != curName.Load().(string) {
			return
		}
		gid := sched.GoID()
		regMu.RLock()
		p := byGoid[gid]
		regMu.RUnlock()
		if p == nil || p.closer != (point == "swamp.close.flagged") {
			return
		}
		p.atGate.Store(g)
		<-p.gate
	})
	verifhook.SetTrace(func(ev string, kv ...any) {
		m := trace.KV(kv)
		if n, _ := m["name"].(string); n != curName.Load().(string) {
			return
		}
		evMu.Lock()
		defer evMu.Unlock()
		switch ev {
		case "hydra.swamp.new":
			s, _ := m["swamp"].(swamp.Swamp)
			instances = append(instances, s)
			instOf[s] = len(instances)
			smapObs = len(instances)
		case "hydra.swamp.deleted":
			smapObs = 0
		}
	})
}

func (p *proc) loop(ready chan struct{}) {
	p.goid = sched.GoID()
	regMu.Lock()
	byGoid[p.goid] = p
	regMu.Unlock()
	close(ready)
	defer func() {
		regMu.Lock()
		delete(byGoid, p.goid)
		regMu.Unlock()
	}()
	for f := range p.cmds {
		func() {
			defer func() {
				if r := recover(); r != nil {
					p.panicv.Store(fmt.Sprint(r))
				}
				p.inCall.Store(false)
			}()
			f()
		}()
	}
}

var (
	dumpBuf = make([]byte, 1<<18)
	hdr     = regexp.MustCompile(`(?m)^goroutine (\d+) \[([^\],]+)(?:, [^\]]*)?\]:$`)
)

func states() map[int64]string {
	for {
		n := runtime.Stack(dumpBuf, true)
		if n < len(dumpBuf) {
			out := map[int64]string{}
			for _, m := range hdr.FindAllSubmatch(dumpBuf[:n], -1) {
				id, _ := strconv.ParseInt(string(m[1]), 10, 64)
				out[id] = string(m[2])
			}
			return out
		}
		dumpBuf = make([]byte, 2*len(dumpBuf))
	}
}

func (p *proc) obs(st map[int64]string) string {
	if p.panicv.Load() != nil {
		return "panic"
	}
	if !p.inCall.Load() {
		if p.done.Load() {
			return "done"
		}
		return "idle"
	}
	if g, _ := p.atGate.Load().(string); g != "" {
		return g
	}
	switch st[p.goid] {
	case "sync.Cond.Wait":
		return "parked"
	case "sync.Mutex.Lock", "sync.RWMutex.Lock":
		return "mutexwait"
	case "select":
		if !p.closer {
			return "waitclose" // WaitForGracefulClose: select on the waiting context and the swamp's context
		}
	}
	return "running"
}

type world struct {
	h       hydra.Hydra
	nm      name.Name
	procs   map[string]*proc
	names   []string
	closers map[int]*proc
}

func newWorld(h hydra.Hydra, swampName string) *world {
	w := &world{h: h, nm: name.Load(swampName), procs: map[string]*proc{}, closers: map[int]*proc{}}
	for _, n := range allProcs {
		w.procs[n] = w.spawn(n, false)
		w.names = append(w.names, n)
	}
	return w
}

func (w *world) spawn(n string, closer bool) *proc {
	p := &proc{name: n, closer: closer, cmds: make(chan func(), 1), gate: make(chan struct{})}
	p.atGate.Store("")
	ready := make(chan struct{})
	go p.loop(ready)
	<-ready
	return p
}

func (w *world) all() []*proc {
	out := []*proc{}
	for _, n := range w.names {
		out = append(out, w.procs[n])
	}
	ids := []int{}
	for i := range w.closers {
		ids = append(ids, i)
	}
	sort.Ints(ids)
	for _, i := range ids {
		out = append(out, w.closers[i])
	}
	return out
}

// rest waits until no goroutine is running (two consecutive identical dumps).
func (w *world) rest() (map[string]string, bool) {
	deadline := time.Now().Add(restTimeout)
	started := time.Now()
	var prev map[string]string
	pause := 20 * time.Microsecond
	for {
		st := states()
		cur := map[string]string{}
		stable := true
		for _, p := range w.all() {
			o := p.obs(st)
			cur[p.name] = o
			if o == "running" {
				stable = false
			}
		}
		if stable && prev != nil && same(prev, cur) {
			return cur, true
		}
		if stable {
			prev = cur
		} else {
			prev = nil
		}
		if time.Now().After(deadline) {
			return cur, false
		}
		if !stable && time.Since(started) > spinBound {
			// somebody has been running for a very long time without reaching a gate, parking or returning while
			// everybody else is at rest: report it as an observation (a busy loop), the spec has no such state
			for k, v := range cur {
				if v == "running" {
					cur[k] = "spinning"
				}
			}
			return cur, true
		}
		time.Sleep(pause)
		if !stable && pause < 2*time.Millisecond {
			pause += pause / 2
		}
	}
}

// spinBound: a step of SummonSwamp between two gates costs microseconds of CPU; a goroutine that is still
// running after this long (even on a heavily loaded machine) is looping.
const spinBound = 90 * time.Second

func same(a, b map[string]string) bool {
	if len(a) != len(b) {
		return false
	}
	for k, v := range a {
		if b[k] != v {
			return false
		}
	}
	return true
}

var goOf = map[string]string{"GoLoaded": "loaded", "GoSlot": "slot", "GoGot": "got", "GoCreate": "create"}

func (w *world) applicable(c command, obs map[string]string) bool {
	switch c.A {
	case "Start":
		o, ok := obs[c.P]
		return ok && (o == "idle" || o == "done")
	case "Cancel":
		p := w.procs[c.P]
		return p != nil && p.inCall.Load() && !p.cancelled
	case "CloseBegin":
		evMu.Lock()
		defer evMu.Unlock()
		return c.X >= 1 && c.X <= len(instances) && w.closers[c.X] == nil && !closedIDs[c.X]
	case "CloseDone":
		cl := w.closers[c.X]
		return cl != nil && obs[cl.name] == "closing"
	}
	if g, ok := goOf[c.A]; ok {
		return obs[c.P] == g
	}
	return false
}

func (w *world) do(c command) {
	switch c.A {
	case "Start":
		p := w.procs[c.P]
		ctx, cancel := context.WithCancel(context.Background())
		p.cancel, p.cancelled = cancel, false
		p.done.Store(false)
		p.ret.Store(0)
		p.inCall.Store(true)
		p.cmds <- func() {
			s, err := w.h.SummonSwamp(ctx, 1, w.nm)
			if err != nil {
				p.errText.Store(err.Error())
				p.ret.Store(-1)
			} else {
				evMu.Lock()
				id := instOf[s]
				evMu.Unlock()
				p.ret.Store(int64(id))
			}
			p.done.Store(true)
		}
	case "Cancel":
		p := w.procs[c.P]
		p.cancelled = true
		p.cancel()
	case "CloseBegin":
		evMu.Lock()
		s := instances[c.X-1]
		evMu.Unlock()
		cl := w.spawn("c"+strconv.Itoa(c.X), true)
		w.closers[c.X] = cl
		cl.inCall.Store(true)
		x := c.X
		cl.cmds <- func() {
			s.Close()
			evMu.Lock()
			closedIDs[x] = true
			evMu.Unlock()
			cl.done.Store(true)
		}
	case "CloseDone":
		cl := w.closers[c.X]
		cl.atGate.Store("")
		cl.gate <- struct{}{}
	default:
		p := w.procs[c.P]
		p.atGate.Store("")
		p.gate <- struct{}{}
	}
}

type result struct {
	Test       int               `json:"test"`
	Executed   int               `json:"executed"`
	Scripted   int               `json:"scripted"`
	DivergedAt int               `json:"diverged_at"`
	Stuck      bool              `json:"stuck"`               // at rest after the drain a summoner is still inside SummonSwamp
	StuckObs   map[string]string `json:"stuck_obs,omitempty"` // what it is blocked in
	MaxLive    int               `json:"max_live"`            // largest number of simultaneously live instances seen at a point of rest
	Skip       string            `json:"skip,omitempty"`      // the run says nothing (the 30 s WaitForGracefulClose bound expired under load)
	Infra      string            `json:"infra,omitempty"`
	FirstLine  int               `json:"first_line"`
	Cmds       []command         `json:"cmds"`
}

func liveIDs() []int {
	out := []int{}
	for i := range instances {
		if !closedIDs[i+1] {
			out = append(out, i+1)
		}
	}
	return out
}

type chooser func(w *world, obs map[string]string, k int) (command, bool)

func execute(ti int, h hydra.Hydra, tw *trace.Writer, next chooser, scripted int) result {
	swName := rig.SwampName("c18", "t"+strconv.Itoa(ti%50), "x"+strconv.Itoa(ti))
	curName.Store(swName)
	evMu.Lock()
	instances, instOf, smapObs, closedIDs = nil, map[swamp.Swamp]int{}, 0, map[int]bool{}
	evMu.Unlock()
	w := newWorld(h, swName)
	res := result{Test: ti, DivergedAt: -1, Scripted: scripted}
	obsProcs := func(o map[string]string) map[string]string {
		m := map[string]string{}
		for _, n := range w.names {
			m[n] = o[n]
		}
		return m
	}
	idle := map[string]string{}
	rets0 := map[string]int64{}
	for _, n := range w.names {
		idle[n], rets0[n] = "idle", 0
	}
	res.FirstLine = tw.Emit(map[string]any{"ev": "reset", "a": "", "p": "", "x": 0, "obs": idle, "rets": rets0, "smap": 0, "live": []int{}})
	obs, ok := w.rest()
	if !ok {
		res.Infra = "no point of rest at start"
		return res
	}
	step := func(c command) bool {
		w.do(c)
		var ok bool
		obs, ok = w.rest()
		rets := map[string]int64{}
		for _, n := range w.names {
			rets[n] = w.procs[n].ret.Load()
			p := w.procs[n]
			if p.done.Load() && p.ret.Load() == -1 && !p.cancelled {
				e, _ := p.errText.Load().(string)
				res.Skip = "SummonSwamp returned an error although nobody cancelled its context: " + e
			}
		}
		evMu.Lock()
		live := liveIDs()
		sm := smapObs
		evMu.Unlock()
		if len(live) > res.MaxLive {
			res.MaxLive = len(live)
		}
		tw.Emit(map[string]any{"ev": "cmd", "a": c.A, "p": c.P, "x": c.X, "obs": obsProcs(obs), "rets": rets, "smap": sm, "live": live})
		res.Cmds = append(res.Cmds, c)
		if !ok {
			res.Infra = fmt.Sprintf("no point of rest after %s(%s,%d): %v", c.A, c.P, c.X, obs)
		}
		return ok
	}
	for k := 0; ; k++ {
		c, more := next(w, obs, k)
		if !more {
			break
		}
		if !w.applicable(c, obs) {
			res.DivergedAt = k
			break
		}
		if !step(c) {
			return res
		}
		res.Executed++
	}
	// drain: let everything in flight finish (gates, closes), so that termination becomes observable
	for i := 0; i < 400; i++ {
		var c command
		found := false
		for x, cl := range w.closers {
			if obs[cl.name] == "closing" {
				c, found = command{"CloseDone", "", x}, true
				break
			}
		}
		if !found {
			for _, n := range w.names {
				for a, g := range goOf {
					if obs[n] == g {
						c, found = command{a, n, 0}, true
					}
				}
				if found {
					break
				}
			}
		}
		if !found {
			break
		}
		if !step(c) {
			return res
		}
	}
	for _, n := range w.names {
		if o := obs[n]; o != "idle" && o != "done" {
			res.Stuck = true
		}
	}
	if res.Stuck {
		res.StuckObs = obsProcs(obs)
	} else {
		// close whatever is still live so that the swamps do not pile up (logged: they are ordinary commands)
		for i := 0; i < 8; i++ {
			evMu.Lock()
			live := liveIDs()
			evMu.Unlock()
			if len(live) == 0 {
				break
			}
			x := live[0]
			if w.closers[x] != nil {
				break
			}
			if !step(command{"CloseBegin", "", x}) {
				return res
			}
			if obs["c"+strconv.Itoa(x)] == "closing" {
				if !step(command{"CloseDone", "", x}) {
					return res
				}
			} else {
				break
			}
		}
	}
	for _, p := range w.all() {
		if !p.inCall.Load() {
			close(p.cmds)
		}
	}
	return res
}

func setup() (*rig.Rig, hydra.Hydra) {
	r := rig.New(rig.Options{})
	r.Register("c18", "*", "*", true, 3600, 0)
	install()
	curName.Store("")
	return r, r.Zeus.GetHydra()
}

func runTests(in, tracePath, out string) error {
	b, err := os.ReadFile(in)
	if err != nil {
		return err
	}
	var tests [][]command
	if err := json.Unmarshal(b, &tests); err != nil {
		return err
	}
	tw, err := trace.Create(tracePath)
	if err != nil {
		return err
	}
	f, err := os.Create(out)
	if err != nil {
		return err
	}
	defer f.Close()
	enc := json.NewEncoder(f)
	r, h := setup()
	defer os.RemoveAll(r.Root)
	for i, t := range tests {
		t := t
		res := execute(i, h, tw, func(w *world, obs map[string]string, k int) (command, bool) {
			if k >= len(t) {
				return command{}, false
			}
			return t[k], true
		}, len(t))
		if err := enc.Encode(res); err != nil {
			return err
		}
		if res.Infra != "" {
			break
		}
	}
	return tw.Close()
}

func runRandom(tracePath, out string, runs, nsum, steps int, seed int64) error {
	tw, err := trace.Create(tracePath)
	if err != nil {
		return err
	}
	f, err := os.Create(out)
	if err != nil {
		return err
	}
	defer f.Close()
	enc := json.NewEncoder(f)
	r, h := setup()
	defer os.RemoveAll(r.Root)
	for i := 0; i < runs; i++ {
		rng := rand.New(rand.NewSource(seed*1000003 + int64(i)))
		starts := 0
		res := execute(i, h, tw, func(w *world, obs map[string]string, k int) (command, bool) {
			if k >= steps {
				return command{}, false
			}
			var cand []command
			for _, n := range allProcs[:nsum] {
				o := obs[n]
				switch {
				case o == "idle" || o == "done":
					if starts < 2*nsum {
						cand = append(cand, command{"Start", n, 0})
					}
				default:
					for a, g := range goOf {
						if o == g {
							cand = append(cand, command{a, n, 0}, command{a, n, 0}, command{a, n, 0})
						}
					}
					if p := w.procs[n]; p.inCall.Load() && !p.cancelled {
						cand = append(cand, command{"Cancel", n, 0})
					}
				}
			}
			evMu.Lock()
			live := liveIDs()
			evMu.Unlock()
			for _, x := range live {
				if cl := w.closers[x]; cl == nil {
					cand = append(cand, command{"CloseBegin", "", x})
				} else if obs[cl.name] == "closing" {
					cand = append(cand, command{"CloseDone", "", x}, command{"CloseDone", "", x})
				}
			}
			if len(cand) == 0 {
				return command{}, false
			}
			sort.SliceStable(cand, func(i, j int) bool { return false })
			c := cand[rng.Intn(len(cand))]
			if c.A == "Start" {
				starts++
			}
			return c, true
		}, steps)
		if err := enc.Encode(res); err != nil {
			return err
		}
		if res.Infra != "" {
			break
		}
	}
	return tw.Close()
}

func main() {
	if len(os.Args) < 2 {
		fmt.Fprintln(os.Stderr, "usage: summon run|random ...")
		os.Exit(2)
	}
	var err error
	switch os.Args[1] {
	case "run":
		err = runTests(os.Args[2], os.Args[3], os.Args[4])
	case "random":
		runs, _ := strconv.Atoi(os.Args[4])
		ns, _ := strconv.Atoi(os.Args[5])
		steps, _ := strconv.Atoi(os.Args[6])
		seed, _ := strconv.ParseInt(os.Getenv("VERIF_SEED"), 10, 64)
		err = runRandom(os.Args[2], os.Args[3], runs, ns, steps, seed)
	default:
		err = fmt.Errorf("unknown mode %q", os.Args[1])
	}
	if err != nil {
		fmt.Fprintln(os.Stderr, "error:", err)
		os.Exit(3)
	}
}
