package main

// Lifecycle steps of the C05 / C30 histories: close + reload of a persistent swamp.

import (
	"time"
)

func init() {
	lifecycleOps["CloseReload"] = closeReload
}

// closeReload makes the swamp leave memory and returns once that has been OBSERVED:
//
//	how = "idle": the swamp is registered with a 1 s idle timeout; the step waits until the swamp's name is
//	              no longer in hydra.ListActiveSwamps() (the listing does not touch the swamp)
//	how = "stop": graceful stop of the whole hydra (Zeus.StopHydra, every open swamp is written and closed)
//	              followed by a fresh start on the same data directory; only when no other history shares the
//	              process (sequential run, nothing abandoned) - otherwise "idle" is used and logged as such
//
// The next request of the history re-summons (reloads) the swamp from its file.
func closeReload(x *runner, sw string, h History, q Req) (map[string]any, bool) {
	how := q.How
	if how == "" {
		how = "idle"
	}
	if how == "stop" && (x.par > 1 || x.abandoned.Load() > 0) {
		how = "idle"
	}
	line := map[string]any{"op": "CloseReload", "how": how, "ret": true, "err": ""}
	if h.Mode == "mem" {
		return line, false
	}
	hy := x.r.Zeus.GetHydra()
	switch how {
	case "stop":
		x.r.Zeus.StopHydra()
		x.r.Zeus.StartHydra()
		if n := x.r.Zeus.GetHydra().CountActiveSwamps(); n != 0 {
			line["why"] = "swamps still active after restart"
			return line, true
		}
	default:
		deadline := time.Now().Add(120 * time.Second)
		for {
			active := false
			for _, n := range hy.ListActiveSwamps() {
				if n == sw {
					active = true
					break
				}
			}
			if !active {
				break
			}
			if time.Now().After(deadline) {
				line["why"] = "swamp was not evicted within 120 s"
				return line, true
			}
			time.Sleep(50 * time.Millisecond)
		}
	}
	return line, false
}
