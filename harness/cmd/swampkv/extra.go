package main

// Lifecycle steps of the C05 / C30 histories: close + reload of a persistent swamp.

import (
	"context"
	"io"
	"time"

	"google.golang.org/grpc/metadata"

	hydrapb "github.com/hydraide/hydraide/sdk/go/hydraidego/v3/hydraidepbgo"
	"google.golang.org/protobuf/proto"
	"google.golang.org/protobuf/types/known/timestamppb"

	"verifharness/rig"
)

func init() {
	lifecycleOps["CloseReload"] = closeReload
	// Pause (probes only, never part of a checked history): wait n milliseconds
	lifecycleOps["Pause"] = func(x *runner, sw string, h History, q Req) (map[string]any, bool) {
		time.Sleep(time.Duration(q.N) * time.Millisecond)
		return map[string]any{"op": "Pause", "ret": true, "err": ""}, false
	}
	extraOps["PatchMeta"] = patchMeta
	extraOps["PatchExpired"] = patchExpired
	extraOps["FilterExp"] = filterExp
	extraResp["PatchMeta"] = func(line map[string]any, resp proto.Message, q Req) {
		m := resp.(*hydrapb.PatchTreasuresResponse)
		st := []string{}
		for _, r := range m.GetResults() {
			st = append(st, r.GetStatus().String())
		}
		if len(m.GetResults()) != 1 || m.Results[0].GetKey() != q.K {
			line["err"] = "BadShape:results"
		}
		line["st"] = st
	}
	extraResp["PatchExpired"] = func(line map[string]any, resp proto.Message, q Req) {
		m := resp.(*hydrapb.PatchExpiredTreasuresResponse)
		pt := []map[string]any{}
		for _, r := range m.GetPatched() {
			pt = append(pt, map[string]any{"k": r.GetKey(), "st": r.GetStatus().String(), "ea": rankOfPB(r.ExpiredAt)})
		}
		line["pt"] = pt
	}
}

// the msgpack body used by the patch calls: HydrAIDE's 2-byte magic prefix + an empty map
func init() { bytesTab = append(bytesTab, []byte{0xC7, 0x00, 0x80}) } // id 5

func metaOf(q Req) *hydrapb.PatchMeta {
	m := &hydrapb.PatchMeta{ClearExpiredAt: q.Create} // "create" doubles as the clear flag of the abstract request
	if q.Ea != 0 {
		m.SetExpiredAt = timestamppb.New(tsOf(q.Ea))
	}
	if q.X != 0 {
		s := userTab[q.X]
		m.SetUpdatedBy = &s
	}
	return m
}

// PatchMeta: a meta-only PatchTreasures call on one key (no ops): set / slide / clear the expiry, set UpdatedBy
func patchMeta(x *runner, sw string, q Req, line map[string]any) func() (proto.Message, error) {
	line["k"], line["ea"], line["create"], line["x"] = q.K, q.Ea, q.Create, q.X
	req := &hydrapb.PatchTreasuresRequest{IslandID: 1, SwampName: sw, Patches: []*hydrapb.TreasurePatch{{Key: q.K}}, Meta: metaOf(q)}
	return func() (proto.Message, error) { return wireResp(x.r.GW.PatchTreasures(x.ctx, rig.Wire(req))) }
}

// PatchExpired: meta-only PatchExpiredTreasures (claim the expired records and slide / clear their expiry)
func patchExpired(x *runner, sw string, q Req, line map[string]any) func() (proto.Message, error) {
	line["n"], line["ea"], line["create"], line["x"] = q.N, q.Ea, q.Create, q.X
	req := &hydrapb.PatchExpiredTreasuresRequest{IslandID: 1, SwampName: sw, HowMany: int32(q.N), Meta: metaOf(q)}
	return func() (proto.Message, error) { return wireResp(x.r.GW.PatchExpiredTreasures(x.ctx, rig.Wire(req))) }
}

var filterOps = map[string]hydrapb.Relational_Operator{"eq": hydrapb.Relational_EQUAL, "ne": hydrapb.Relational_NOT_EQUAL,
	"gt": hydrapb.Relational_GREATER_THAN, "ge": hydrapb.Relational_GREATER_THAN_OR_EQUAL, "lt": hydrapb.Relational_LESS_THAN,
	"le": hydrapb.Relational_LESS_THAN_OR_EQUAL, "empty": hydrapb.Relational_IS_EMPTY, "notempty": hydrapb.Relational_IS_NOT_EMPTY}

// FilterExp: GetByIndexStream over the key index (ascending) with one filter on ExpiredAt, called on
// the handler with a transport-less server stream (request and every streamed treasure take the protobuf round trip)
func filterExp(x *runner, sw string, q Req, line map[string]any) func() (proto.Message, error) {
	line["fop"], line["ea"] = q.Fop, q.Ea
	f := &hydrapb.TreasureFilter{Operator: filterOps[q.Fop], CompareValue: &hydrapb.TreasureFilter_ExpiredAtVal{ExpiredAtVal: timestamppb.New(tsOf(q.Ea))}}
	req := &hydrapb.GetByIndexStreamRequest{IslandID: 1, SwampName: sw, IndexType: hydrapb.IndexType_KEY, OrderType: hydrapb.OrderType_ASC,
		Filters: &hydrapb.FilterGroup{Logic: hydrapb.FilterLogic_AND, Filters: []*hydrapb.TreasureFilter{f}}}
	return func() (proto.Message, error) {
		fs := &fakeStream{ctx: x.ctx}
		if err := x.r.GW.GetByIndexStream(rig.Wire(req), fs); err != nil {
			return nil, err
		}
		out := &hydrapb.GetByIndexResponse{}
		for _, m := range fs.out {
			out.Treasures = append(out.Treasures, m.GetTreasure())
		}
		return out, nil
	}
}

// fakeStream is the server side of a GetByIndexStream call without a transport: every streamed message goes
// through the protobuf round trip, as it would on the wire.
type fakeStream struct {
	ctx context.Context
	out []*hydrapb.GetByIndexStreamResponse
}

func (f *fakeStream) Send(m *hydrapb.GetByIndexStreamResponse) error {
	f.out = append(f.out, rig.Wire(m))
	return nil
}
func (f *fakeStream) SetHeader(metadata.MD) error  { return nil }
func (f *fakeStream) SendHeader(metadata.MD) error { return nil }
func (f *fakeStream) SetTrailer(metadata.MD)       {}
func (f *fakeStream) Context() context.Context     { return f.ctx }
func (f *fakeStream) SendMsg(m any) error          { return f.Send(m.(*hydrapb.GetByIndexStreamResponse)) }
func (f *fakeStream) RecvMsg(m any) error          { return io.EOF }

// closeReload makes the swamp leave memory and returns once that has been OBSERVED:
//
//	how = "idle": the swamp is registered with a 1 s idle timeout; the step waits until the swamp's name is
//	              no longer in hydra.ListActiveSwamps() (the listing does not touch the swamp)
//	how = "stop": graceful stop of the whole hydra (Zeus.StopHydra, every open swamp is written and closed)
//	              followed by a fresh start on the same data directory; only when no other history shares the
//	              process (sequential run, nothing abandoned) - otherwise "idle" is used and logged as such
//
// The next request of the history re-summons (reloads) the swamp from its file.
func closeReload(x *runner, sw string, h History, q Req) (map[string]any, bool) {
	how := q.How
	if how == "" {
		how = "idle"
	}
	if how == "stop" && (x.par > 1 || x.abandoned.Load() > 0) {
		how = "idle"
	}
	line := map[string]any{"op": "CloseReload", "how": how, "ret": true, "err": ""}
	if h.Mode == "mem" {
		return line, false
	}
	hy := x.r.Zeus.GetHydra()
	switch how {
	case "stop":
		x.r.Zeus.StopHydra()
		x.r.Zeus.StartHydra()
		if n := x.r.Zeus.GetHydra().CountActiveSwamps(); n != 0 {
			line["why"] = "swamps still active after restart"
			return line, true
		}
	default:
		deadline := time.Now().Add(120 * time.Second)
		for {
			active := false
			for _, n := range hy.ListActiveSwamps() {
				if n == sw {
					active = true
					break
				}
			}
			if !active {
				break
			}
			if time.Now().After(deadline) {
				line["why"] = "swamp was not evicted within 120 s"
				return line, true
			}
			time.Sleep(50 * time.Millisecond)
		}
	}
	return line, false
}
